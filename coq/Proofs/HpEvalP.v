(* C02 (second part): the finite working precision of the high-precision class - proofs.
   Rounding (Proofs/RoundingP.v, underflow term 0), the accuracy of the exponentials, and the condition number of the
   exact matrices (Model/ExactCond.v) put together; the final conversion to a double; the shipped data set. *)
From Coq Require Import Reals Lra Lia Psatz List Bool ZArith NArith QArith Qreals Arith.
From Flocq Require Import Core.Core.
From Bignums Require Import BigQ.
From RD Require Import Base Model.DecayR Lib.Sparse Lib.CertQ Model.Dataset Model.Default Model.Rounding Model.Rounding64
  Model.FloatData Model.ExactCond.
From RD Require Proofs.Bateman Proofs.DatasetCert Proofs.FloatDataP Proofs.CumDataP Proofs.RoundingP Proofs.Rounding64P
  Proofs.FloatDecayAux Proofs.DefaultWf Proofs.CertDefault.ExactCondCert.
Import ListNotations.
Local Open Scope R_scope.

(* ---------- the condition number of the exact matrices *)
Lemma K_exact_sound : forall d, wf_core d = true -> forall i j, (i < nn d)%nat ->
  sumn (nn d) (fun k => Rabs (Cr d i k) * Rabs (Cir d k j)) <= bqv (K_exact d).
Proof.
  intros d Hwf i j Hi.
  destruct (FloatDataP.wf_core_ranges d Hwf) as [HC _].
  pose proof (mat_in_range_len bq _ _ HC) as LC. rewrite DatasetCert.nN_nn in LC.
  rewrite (Bateman.sumn_ext _ _ (fun k => Rabs (bent (Cq d) i k * bent (Ciq d) k j))).
  2:{ intros k Hk. rewrite Rabs_mult. reflexivity. }
  unfold K_exact. cbv zeta. apply CumDataP.K_gen_sound.
  - exact LC.
  - exact Hi.
  - intros k Hk. rewrite <- (DatasetCert.nN_nn d). apply (FloatDataP.row_cols_range _ _ _ _ HC Hk).
Qed.

Lemma chk_exact_cond_sound : forall d K, wf_core d = true -> chk_exact_cond d K = true ->
  forall i j, (i < nn d)%nat ->
  sumn (nn d) (fun k => Rabs (Cr d i k) * Rabs (Cir d k j)) <= bqv K.
Proof.
  intros d K Hwf HK i j Hi.
  eapply Rle_trans; [apply (K_exact_sound d Hwf i j Hi)|].
  apply FloatDataP.bq_leb_spec. exact HK.
Qed.

(* ---------- gamma_m *)
Lemma gam_nonneg : forall u m, 0 <= u -> 0 <= gam u m.
Proof.
  intros u m Hu. unfold gam.
  assert (H : 1 <= (1 + u) ^ m) by (apply pow_R1_Rle; lra). lra.
Qed.

Lemma gam_mono : forall u v m, 0 <= u -> u <= v -> gam u m <= gam v m.
Proof.
  intros u v m Hu Huv. unfold gam.
  assert (H : (1 + u) ^ m <= (1 + v) ^ m) by (apply pow_incr; lra). lra.
Qed.

(* ---------- the evaluation *)
Lemma S_bound : forall n (Cf Cif : nat -> nat -> R) (n0 : nat -> R) i Kb,
  (forall j, (j < n)%nat -> Sabs n Cf Cif i j <= Kb) -> (forall j, 0 <= n0 j) ->
  sumn n (fun j => Sabs n Cf Cif i j * Rabs (n0 j)) <= Kb * sumn n n0.
Proof.
  intros n Cf Cif n0 i Kb HK Hn.
  rewrite <- Bateman.sumn_scal. apply FloatDataP.sumn_le. intros j Hj.
  rewrite (Rabs_right (n0 j)) by (apply Rle_ge, Hn).
  apply Rmult_le_compat_r; [apply Hn|apply HK; exact Hj].
Qed.

Lemma exp_part : forall n (Cf Cif : nat -> nat -> R) (E : nat -> R) (mu n0 : nat -> R) i t ue Kb,
  (forall j, (j < n)%nat -> Sabs n Cf Cif i j <= Kb) -> (forall j, 0 <= n0 j) ->
  (forall k, (k < n)%nat -> Rabs (E k - exp (- lam mu k * t)) <= ue) ->
  Rabs (Yexact n Cf Cif E n0 i - Nt n Cf Cif mu n0 t i) <= Kb * ue * sumn n n0.
Proof.
  intros n Cf Cif E mu n0 i t ue Kb HK Hn HE.
  rewrite FloatDecayAux.Yexact_swap. unfold Nt, w.
  rewrite <- FloatDataP.sumn_minus.
  rewrite (Bateman.sumn_ext _ _ (fun k => (E k - exp (- lam mu k * t)) * sumn n (fun j => (Cf i k * Cif k j) * n0 j))).
  2:{ intros k Hk.
      rewrite (Bateman.sumn_ext _ (fun j => (Cf i k * Cif k j) * n0 j)
                 (fun j => Cf i k * (Cif k j * n0 j))) by (intros; ring).
      rewrite Bateman.sumn_scal. ring. }
  apply FloatDataP.diag_bound.
  - intros j Hj. eapply Rle_trans; [|apply (HK j Hj)]. unfold Sabs. right.
    apply Bateman.sumn_ext. intros k Hk. apply Rabs_mult.
  - exact HE.
  - exact Hn.
Qed.

Theorem hp_eval_error : forall d K, wf_core d = true -> chk_exact_cond d K = true ->
  forall rnd u, std_model rnd u 0 ->
  forall (E n0 : nat -> R) ks js i t ue L L',
  (i < nn d)%nat -> 0 <= t -> 0 <= ue ->
  (forall j, 0 <= n0 j) ->
  (forall k, (k < nn d)%nat -> 0 <= E k <= 1) ->
  (forall k, (k < nn d)%nat -> Rabs (E k - exp (- lam (mur d) k * t)) <= ue) ->
  orders_ok rnd (nn d) (Cr d) (Cir d) E n0 ks js i ->
  (forall j, (j < nn d)%nat -> (length (ks i j) <= L)%nat) -> (length (js i) <= L')%nat ->
  Rabs (yhat rnd (Cr d) (Cir d) E n0 ks js i - Nt (nn d) (Cr d) (Cir d) (mur d) n0 t i)
  <= (gam u (L + L' + 3) + ue) * bqv K * sumn (nn d) n0.
Proof.
  intros d K Hwf HK rnd u Hstd E n0 ks js i t ue L L' Hi Ht Hue Hn HE01 HE Hok HL HL'.
  assert (Hu : 0 <= u) by (destruct Hstd as [H _]; exact H).
  assert (HKs : forall j, (j < nn d)%nat -> Sabs (nn d) (Cr d) (Cir d) i j <= bqv K).
  { intros j Hj. unfold Sabs. apply (chk_exact_cond_sound d K Hwf HK i j Hi). }
  pose proof (RoundingP.decay_eval_error rnd u 0 Hstd (nn d) (Cr d) (Cir d) E n0 ks js i L L' HE01 Hok HL HL') as H1.
  pose proof (S_bound (nn d) (Cr d) (Cir d) n0 i (bqv K) HKs Hn) as H2.
  pose proof (exp_part (nn d) (Cr d) (Cir d) E (mur d) n0 i t ue (bqv K) HKs Hn HE) as H3.
  pose proof (gam_nonneg u (L + L' + 3) Hu) as Hg.
  set (y := yhat rnd (Cr d) (Cir d) E n0 ks js i) in *.
  set (Y := Yexact (nn d) (Cr d) (Cir d) E n0 i) in *.
  set (NT := Nt (nn d) (Cr d) (Cir d) (mur d) n0 t i) in *.
  set (S1 := sumn (nn d) (fun j => Sabs (nn d) (Cr d) (Cir d) i j * Rabs (n0 j))) in *.
  set (g := gam u (L + L' + 3)) in *.
  set (N := sumn (nn d) n0) in *.
  replace (y - NT) with ((y - Y) + (Y - NT)) by ring.
  eapply Rle_trans; [apply Rabs_triang|].
  assert (H4 : g * S1 <= g * (bqv K * N)) by (apply Rmult_le_compat_l; assumption).
  rewrite Rmult_0_l, Rmult_0_l, Rplus_0_r in H1.
  lra.
Qed.

(* ---------- with the final conversion to a double *)
Lemma readout : forall y N B, Rabs (y - N) <= B ->
  Rabs (rnd64 y - N) <= u64 * Rabs N + (1 + u64) * B + eta64.
Proof.
  intros y N B H.
  destruct Rounding64P.rnd64_std_model as [Hu [He Hr]].
  destruct (Hr y) as [dl [ep [Ey [Hd Hp]]]].
  rewrite Ey.
  replace (y * (1 + dl) + ep - N) with ((y - N) * (1 + dl) + N * dl + ep) by ring.
  eapply Rle_trans; [apply Rabs_triang|].
  eapply Rle_trans; [apply Rplus_le_compat_r, Rabs_triang|].
  rewrite !Rabs_mult.
  assert (H1 : Rabs (1 + dl) <= 1 + u64).
  { eapply Rle_trans; [apply Rabs_triang|]. rewrite Rabs_R1. lra. }
  pose proof (Rabs_pos (y - N)) as P1. pose proof (Rabs_pos N) as P2.
  pose proof (Rabs_pos dl) as P3. pose proof (Rabs_pos (1 + dl)) as P4.
  assert (H2 : Rabs (y - N) * Rabs (1 + dl) <= B * (1 + u64)).
  { apply Rmult_le_compat; assumption. }
  assert (H3 : Rabs N * Rabs dl <= Rabs N * u64) by (apply Rmult_le_compat_l; assumption).
  lra.
Qed.

Theorem hp_readout_error : forall d K, wf_core d = true -> chk_exact_cond d K = true ->
  forall rnd u, std_model rnd u 0 ->
  forall (E n0 : nat -> R) ks js i t ue L L',
  (i < nn d)%nat -> 0 <= t -> 0 <= ue ->
  (forall j, 0 <= n0 j) ->
  (forall k, (k < nn d)%nat -> 0 <= E k <= 1) ->
  (forall k, (k < nn d)%nat -> Rabs (E k - exp (- lam (mur d) k * t)) <= ue) ->
  orders_ok rnd (nn d) (Cr d) (Cir d) E n0 ks js i ->
  (forall j, (j < nn d)%nat -> (length (ks i j) <= L)%nat) -> (length (js i) <= L')%nat ->
  Rabs (rnd64 (yhat rnd (Cr d) (Cir d) E n0 ks js i) - Nt (nn d) (Cr d) (Cir d) (mur d) n0 t i)
  <= u64 * Rabs (Nt (nn d) (Cr d) (Cir d) (mur d) n0 t i)
     + (1 + u64) * ((gam u (L + L' + 3) + ue) * bqv K * sumn (nn d) n0) + eta64.
Proof.
  intros d K Hwf HK rnd u Hstd E n0 ks js i t ue L L' Hi Ht Hue Hn HE01 HE Hok HL HL'.
  apply readout.
  exact (hp_eval_error d K Hwf HK rnd u Hstd E n0 ks js i t ue L L' Hi Ht Hue Hn HE01 HE Hok HL HL').
Qed.

(* ---------- the shipped data set *)
Lemma nn_default : nn Default = 1512%nat.
Proof. unfold nn, Default. cbn [ds_names]. vm_compute. reflexivity. Qed.

Lemma bqv_Ke : bqv (bq_of CertDefault.ExactCondCert.Ke_bound) = 533.
Proof.
  unfold CertDefault.ExactCondCert.Ke_bound. rewrite bqv_of. cbn [qn qd]. unfold Q2R. cbn [Qnum Qden]. lra.
Qed.

Lemma u64_val : u64 = / 9007199254740992.
Proof. unfold u64. simpl. lra. Qed.

(* gamma_3027 (2^-1060) <= 2^-1047 *)
Lemma gam3027 : forall u, 0 <= u -> u <= bpow radix2 (-1060) -> gam u 3027 <= bpow radix2 (-1047).
Proof.
  intros u Hu HU.
  set (U := bpow radix2 (-1060)) in *.
  assert (HU0 : 0 < U) by apply bpow_gt_0.
  assert (Em : INR 3027 = 3027) by (rewrite INR_IZR_INZ; reflexivity).
  assert (H12 : bpow radix2 12 = 4096) by (simpl; lra).
  assert (Hs : 4096 * U <= / 2).
  { rewrite <- H12. unfold U. rewrite <- bpow_plus.
    replace (/ 2) with (bpow radix2 (-1)) by (simpl; lra). apply bpow_le. lia. }
  assert (Hm : INR 3027 * U < 1) by (rewrite Em; lra).
  eapply Rle_trans; [apply (gam_mono u U 3027 Hu HU)|].
  eapply Rle_trans; [apply (FloatDecayAux.gam_le U 3027 (Rlt_le _ _ HU0) Hm)|].
  rewrite Em.
  apply Rle_trans with (8192 * U).
  - apply Rmult_le_reg_r with (1 - 3027 * U); [lra|].
    unfold Rdiv. rewrite Rmult_assoc, Rinv_l by lra. nra.
  - assert (H13 : bpow radix2 13 = 8192) by (simpl; lra).
    rewrite <- H13. unfold U. rewrite <- bpow_plus. apply bpow_le. lia.
Qed.

Lemma default_numeric : forall g N, 0 <= g -> g <= bpow radix2 (-1047) -> 0 <= N ->
  (1 + u64) * ((g + bpow radix2 (-1040)) * 533 * N) <= bpow radix2 (-1030) * N.
Proof.
  intros g N Hg0 Hg HN.
  set (a := bpow radix2 (-1040)) in *.
  assert (Ha : 0 < a) by apply bpow_gt_0.
  assert (E1 : bpow radix2 (-1047) = a * / 128).
  { replace (/ 128) with (bpow radix2 (-7)) by (simpl; lra). unfold a. rewrite <- bpow_plus. reflexivity. }
  assert (E2 : bpow radix2 (-1030) = a * 1024).
  { replace 1024 with (bpow radix2 10) by (simpl; lra). unfold a. rewrite <- bpow_plus. reflexivity. }
  rewrite E1 in Hg. rewrite E2. rewrite u64_val.
  replace ((1 + / 9007199254740992) * ((g + a) * 533 * N))
    with (((1 + / 9007199254740992) * 533 * (g + a)) * N) by ring.
  apply Rmult_le_compat_r; [exact HN|]. lra.
Qed.

Theorem default_hp_readout_error :
  forall rnd u, std_model rnd u 0 -> u <= bpow radix2 (-1060) ->
  forall (E n0 : nat -> R) ks js i t,
  (i < nn Default)%nat -> 0 <= t ->
  (forall j, 0 <= n0 j) ->
  (forall k, (k < nn Default)%nat -> 0 <= E k <= 1) ->
  (forall k, (k < nn Default)%nat -> Rabs (E k - exp (- lam (mur Default) k * t)) <= bpow radix2 (-1040)) ->
  orders_ok rnd (nn Default) (Cr Default) (Cir Default) E n0 ks js i ->
  (forall j, (j < nn Default)%nat -> (length (ks i j) <= nn Default)%nat) -> (length (js i) <= nn Default)%nat ->
  Rabs (rnd64 (yhat rnd (Cr Default) (Cir Default) E n0 ks js i)
        - Nt (nn Default) (Cr Default) (Cir Default) (mur Default) n0 t i)
  <= u64 * Rabs (Nt (nn Default) (Cr Default) (Cir Default) (mur Default) n0 t i)
     + bpow radix2 (-1030) * sumn (nn Default) n0 + eta64.
Proof.
  intros rnd u Hstd HU E n0 ks js i t Hi Ht Hn HE01 HE Hok HL HL'.
  assert (Hu : 0 <= u) by (destruct Hstd as [H _]; exact H).
  pose proof (hp_readout_error Default (bq_of CertDefault.ExactCondCert.Ke_bound) DefaultWf.default_wf_core
                CertDefault.ExactCondCert.default_exact_cond rnd u Hstd E n0 ks js i t (bpow radix2 (-1040))
                (nn Default) (nn Default) Hi Ht (bpow_ge_0 radix2 (-1040)) Hn HE01 HE Hok HL HL') as H.
  eapply Rle_trans; [exact H|].
  rewrite bqv_Ke.
  assert (Em : (nn Default + nn Default + 3 = 3027)%nat) by (rewrite nn_default; reflexivity).
  rewrite Em.
  assert (HN : 0 <= sumn (nn Default) n0) by (apply RoundingP.sumn_nonneg; intros; apply Hn).
  pose proof (default_numeric (gam u 3027) (sumn (nn Default) n0) (gam_nonneg u 3027 Hu) (gam3027 u Hu HU) HN) as H1.
  lra.
Qed.

Print Assumptions hp_eval_error.
Print Assumptions hp_readout_error.
Print Assumptions default_hp_readout_error.
