(* The shipped data set satisfies the executable certificate. *)
From Coq Require Import Reals Bool.
From RD Require Import Base Model.DecayR Model.Dataset Model.Default Gen.Tables Proofs.DatasetCert.
From RD.Proofs.CertDefault Require CCi CiC MC Misc Struct Gens.

Lemma default_wf_core : wf_core Default = true.
Proof.
  unfold wf_core.
  rewrite Misc.default_lengths, CCi.default_CCi, CiC.default_CiC, MC.default_MC,
          Misc.default_mu_nonneg, Misc.default_stable_col, Misc.default_links.
  reflexivity.
Qed.

Lemma default_cert :
  cert (nn Default) (Cr Default) (Cir Default) (Mr Default) (mur Default) (bfr Default) (stableb Default).
Proof. apply wf_core_cert. exact default_wf_core. Qed.

Lemma default18_wf_core : wf_core Default18 = true.
Proof. rewrite Gens.generations_identical. exact default_wf_core. Qed.
