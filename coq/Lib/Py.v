(* Model of the fragment of the CPython runtime that radioactivedecay's pure functions use.
   Strings are lists of code points, ints are Z, exceptions are values of an error monad.
   This library is the semantics the translator tools/tr_pure.py targets; it is validated against
   CPython by its own correspondence stream (tools/corr_pylib.py). Definitions only. *)
From Coq Require Import ZArith NArith List Bool.
From RD Require Import Base Gen.Unicode.
Import ListNotations.

Inductive exn :=
| ValueError | NuclideStrError | TypeError | IndexError | KeyError
| NotImplementedError | ZeroDivisionError | OverflowError | Unmodelled.

Definition exn_eqb (a b : exn) : bool :=
  match a, b with
  | ValueError, ValueError | NuclideStrError, NuclideStrError | TypeError, TypeError
  | IndexError, IndexError | KeyError, KeyError | NotImplementedError, NotImplementedError
  | ZeroDivisionError, ZeroDivisionError | OverflowError, OverflowError | Unmodelled, Unmodelled => true
  | _, _ => false
  end.

Inductive res (A : Type) := OK (a : A) | Raise (e : exn).
Arguments OK {A} a.
Arguments Raise {A} e.

Definition bind {A B} (m : res A) (f : A -> res B) : res B :=
  match m with OK a => f a | Raise e => Raise e end.

(* a Python value that may be given where a nuclide is expected *)
Inductive pyval := VInt (z : Z) | VStr (s : str) | VOther.

(* ---------- code point classes *)
Fixpoint in_ranges (c : N) (l : list (N * N)) : bool :=
  match l with
  | [] => false
  | (a, b) :: r => if N.ltb c a then false else if N.leb c b then true else in_ranges c r
  end.
Definition c_isspace (c : N) := in_ranges c u_isspace.
Definition c_isdigit (c : N) := in_ranges c u_isdigit.
Definition c_isdecimal (c : N) := in_ranges c u_isdecimal.
Definition c_isnumeric (c : N) := in_ranges c u_isnumeric.
Definition c_isalnum (c : N) := in_ranges c u_isalnum.

(* value of a decimal digit: Nd characters come in runs of ten starting at value 0 *)
Fixpoint dec_val_in (c : N) (l : list (N * N)) : option N :=
  match l with
  | [] => None
  | (a, b) :: r => if N.ltb c a then None else if N.leb c b then Some (N.modulo (c - a) 10) else dec_val_in c r
  end.
Definition c_decimal_value (c : N) : option N := dec_val_in c u_isdecimal.

Fixpoint map_lookup (c : N) (l : list (N * list N)) : option (list N) :=
  match l with
  | [] => None
  | (k, v) :: r => if N.eqb k c then Some v else if N.ltb c k then None else map_lookup c r
  end.
Definition c_lower (c : N) : str := match map_lookup c u_lower with Some v => v | None => [c] end.
Definition c_capfirst (c : N) : str := match map_lookup c u_capfirst with Some v => v | None => [c] end.

(* ---------- str *)
Fixpoint s_eqb (a b : str) : bool :=
  match a, b with
  | [], [] => true
  | x :: a', y :: b' => N.eqb x y && s_eqb a' b'
  | _, _ => false
  end.

Definition s_len (s : str) : Z := Z.of_nat (length s).

(* "".join(s.split()) : remove every whitespace character *)
Definition s_remove_ws (s : str) : str := filter (fun c => negb (c_isspace c)) s.

(* s.split() : maximal runs of non-whitespace *)
Fixpoint s_split_ws_aux (cur : str) (s : str) : list str :=
  match s with
  | [] => match cur with [] => [] | _ => [rev cur] end
  | c :: r => if c_isspace c
              then match cur with [] => s_split_ws_aux [] r | _ => rev cur :: s_split_ws_aux [] r end
              else s_split_ws_aux (c :: cur) r
  end.
Definition s_split_ws (s : str) : list str := s_split_ws_aux [] s.
Definition s_join (sep : str) (l : list str) : str :=
  match l with
  | [] => []
  | x :: r => x ++ flat_map (fun y => sep ++ y) r
  end.

Fixpoint s_prefix (p s : str) : option str :=   (* Some rest if p is a prefix of s *)
  match p, s with
  | [], _ => Some s
  | x :: p', y :: s' => if N.eqb x y then s_prefix p' s' else None
  | _ :: _, [] => None
  end.

(* s.replace(old, new, 1) for non-empty old *)
Fixpoint s_replace_first (old new s : str) : str :=
  match s_prefix old s with
  | Some rest => new ++ rest
  | None => match s with [] => [] | c :: r => c :: s_replace_first old new r end
  end.

(* s.replace(old, new) (all occurrences, non-overlapping, left to right) for non-empty old;
   fuel = length s + 1 *)
Fixpoint s_replace_all_fuel (fuel : nat) (old new s : str) : str :=
  match fuel with
  | O => s
  | S f =>
    match s with
    | [] => []
    | c :: r => match s_prefix old s with
                | Some rest => new ++ s_replace_all_fuel f old new rest
                | None => c :: s_replace_all_fuel f old new r
                end
    end
  end.
Definition s_replace_all (old new s : str) : str :=
  match old with [] => s (* not used with empty pattern *) | _ => s_replace_all_fuel (S (length s)) old new s end.

(* s.split(sep) for non-empty sep ; fuel = length s + 1 *)
Fixpoint s_split_on_fuel (fuel : nat) (sep cur s : str) : list str :=
  match fuel with
  | O => [rev cur ++ s]
  | S f =>
    match s with
    | [] => [rev cur]
    | c :: r => match s_prefix sep s with
                | Some rest => rev cur :: s_split_on_fuel f sep [] rest
                | None => s_split_on_fuel f sep (c :: cur) r
                end
    end
  end.
Definition s_split_on (sep s : str) : res (list str) :=
  match sep with
  | [] => Raise ValueError          (* "empty separator" *)
  | _ => OK (s_split_on_fuel (S (length s)) sep [] s)
  end.

Definition s_isalnum (s : str) : bool := match s with [] => false | _ => forallb c_isalnum s end.
Definition s_isnumeric (s : str) : bool := match s with [] => false | _ => forallb c_isnumeric s end.
Definition s_isdigit (s : str) : bool := match s with [] => false | _ => forallb c_isdigit s end.
Definition s_filter_digits (s : str) : str := filter c_isdigit s.

Definition s_lower (s : str) : str := flat_map c_lower s.
Definition s_capitalize (s : str) : str :=
  match s with [] => [] | c :: r => c_capfirst c ++ s_lower r end.

(* s.strip(chars) *)
Definition c_in (c : N) (chars : str) : bool := existsb (N.eqb c) chars.
Fixpoint s_lstrip (chars s : str) : str :=
  match s with [] => [] | c :: r => if c_in c chars then s_lstrip chars r else s end.
Definition s_strip (chars s : str) : str := rev (s_lstrip chars (rev (s_lstrip chars s))).

(* int(s) for a str.  Modelled for strings of decimal digits (any Unicode Nd); whitespace, sign
   and underscore forms are reported as Unmodelled unless they are plainly invalid. CPython >= 3.11
   refuses more than 4300 digits with ValueError. *)
Fixpoint s_digits_value (acc : Z) (s : str) : option Z :=
  match s with
  | [] => Some acc
  | c :: r => match c_decimal_value c with
              | Some d => s_digits_value (acc * 10 + Z.of_N d) r
              | None => None
              end
  end.
Definition c_int_special (c : N) : bool :=   (* characters that give int() non-digit syntax *)
  c_isspace c || N.eqb c 43 || N.eqb c 45 || N.eqb c 95.
Definition s_int (s : str) : res Z :=
  match s with
  | [] => Raise ValueError
  | _ => if existsb c_int_special s then Raise Unmodelled
         else match s_digits_value 0 s with
              | Some z => if Nat.ltb 4300 (length s) then Raise ValueError else OK z
              | None => Raise ValueError
              end
  end.

(* str(int) *)
Fixpoint pos_digits_fuel (fuel : nat) (p : Z) (acc : str) : str :=
  match fuel with
  | O => acc
  | S f => if Z.ltb p 10 then (N.of_nat (Z.to_nat p) + 48)%N :: acc
           else pos_digits_fuel f (Z.div p 10) ((N.of_nat (Z.to_nat (Z.modulo p 10)) + 48)%N :: acc)
  end.
Definition s_of_int (z : Z) : str :=
  if Z.ltb z 0 then 45%N :: pos_digits_fuel (S (Z.to_nat (Z.log2 (- z)))) (- z) []
  else pos_digits_fuel (S (Z.to_nat (Z.log2 z))) z [].

(* s[i] and s[i:] with Python index semantics *)
Definition l_get {A} (l : list A) (i : Z) : res A :=
  let n := Z.of_nat (length l) in
  let j := if Z.ltb i 0 then (i + n)%Z else i in
  if Z.ltb j 0 || Z.leb n j then Raise IndexError
  else match nth_error l (Z.to_nat j) with Some x => OK x | None => Raise IndexError end.
Definition s_get (s : str) (i : Z) : res str := bind (l_get s i) (fun c => OK [c]).
Definition l_slice_from {A} (l : list A) (i : Z) : list A :=
  let n := Z.of_nat (length l) in
  let j := if Z.ltb i 0 then Z.max 0 (i + n) else Z.min i n in
  skipn (Z.to_nat j) l.

(* lists of strings, dicts *)
Definition l_mem_str (s : str) (l : list str) : bool := existsb (s_eqb s) l.
Fixpoint l_index_str_from (i : Z) (s : str) (l : list str) : res Z :=
  match l with
  | [] => Raise ValueError
  | x :: r => if s_eqb x s then OK i else l_index_str_from (i + 1) s r
  end.
Definition l_index_str (l : list str) (s : str) : res Z := l_index_str_from 0 s l.

Fixpoint d_get_zs (d : list (Z * str)) (k : Z) : res str :=
  match d with [] => Raise KeyError | (a, v) :: r => if Z.eqb a k then OK v else d_get_zs r k end.
Definition d_mem_zs (d : list (Z * str)) (k : Z) : bool := existsb (fun kv => Z.eqb (fst kv) k) d.
(* SYM_DICT = {v: k for k, v in Z_DICT.items()} : a later duplicate value would win *)
Fixpoint d_get_sz (d : list (Z * str)) (s : str) : res Z :=
  match d with
  | [] => Raise KeyError
  | (z, v) :: r => match d_get_sz r s with
                   | OK z' => OK z'
                   | Raise _ => if s_eqb v s then OK z else Raise KeyError
                   end
  end.
Definition d_mem_sz (d : list (Z * str)) (s : str) : bool := existsb (fun kv => s_eqb (snd kv) s) d.
Fixpoint d_get_ss (d : list (str * str)) (k : str) : res str :=
  match d with [] => Raise KeyError | (a, v) :: r => if s_eqb a k then OK v else d_get_ss r k end.

(* int(a / b) for Python ints: CPython computes the correctly rounded double of a/b and
   truncates.  For |a| < 2^53 and 0 < b <= 10^4 this equals Z.quot (the rounding error is far below
   1/b); outside that range the model answers Unmodelled. *)
Definition int_truediv (a b : Z) : res Z :=
  if Z.eqb b 0 then Raise ZeroDivisionError
  else if Z.ltb (Z.abs a) 9007199254740992 && Z.ltb 0 b && Z.leb b 10000 then OK (Z.quot a b)
  else Raise Unmodelled.

(* ---------- ASCII helpers used by specifications *)
Definition c_is_ascii (c : N) : bool := N.ltb c 128.
Definition s_isascii (s : str) : bool := forallb c_is_ascii s.
