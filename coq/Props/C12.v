(* C12 - CSV export and import are inverse and follow the documented precedence (row seam model,
   Model/Csv.v; for every number domain and data set). *)
From Coq Require Import ZArith NArith List Bool.
From RD Require Import Base Lib.Py Lib.Num Gen.UtilsGen Gen.DispatchGen Model.Inventory Model.Series Model.Csv.
From RD Require Proofs.CsvP.
Import ListNotations.

Section AnyDomain.
  Context {T : Type} (ops : numops T).
  Context (activity_units mass_units moles_units : list (str * T)).
  Context (avogadro : T) (names : list str) (decay_consts atomic_masses : list T).
  Variables (amount_ok : T -> bool) (normalise nneg : T -> T).
  Variable parse_float : str -> res T.
  Variable print_num : T -> str.
  Notation read_rows := (read_rows ops activity_units mass_units moles_units avogadro names decay_consts atomic_masses amount_ok normalise parse_float).
  Notation add_row := (add_row ops activity_units mass_units moles_units avogadro names decay_consts atomic_masses amount_ok normalise parse_float).
  Notation construct := (construct ops activity_units mass_units moles_units avogadro names decay_consts atomic_masses amount_ok normalise).
  Notation m_add := (m_add ops activity_units mass_units moles_units avogadro names decay_consts atomic_masses amount_ok normalise).
  Notation parse_row := (parse_row parse_float).

  (* a unit on a row overrides the units argument, which overrides the default; an empty unit cell does not count *)
  Theorem unit_precedence : forall u units,
    effective_unit (Some u) units = (match u with [] => (match units with Some a => a | None => default_units end) | _ => u end) /\
    effective_unit None units = (match units with Some a => a | None => default_units end).
  Proof. exact Proofs.CsvP.unit_precedence. Qed.

  (* rows skipped are exactly the first skip_rows *)
  Theorem skip_rows_exact : forall lines k units, read_rows lines k units = read_rows (skipn k lines) 0 units.
  Proof. exact (Proofs.CsvP.skip_rows_exact ops activity_units mass_units moles_units avogadro names decay_consts atomic_masses amount_ok normalise parse_float). Qed.

  Theorem no_rows_refused : forall units, read_rows [] 0 units = Raise ValueError.
  Proof. exact (Proofs.CsvP.no_rows_refused ops activity_units mass_units moles_units avogadro names decay_consts atomic_masses amount_ok normalise parse_float). Qed.

  (* all-digit names are canonical ids; other names are strings; 2 or 3 columns only *)
  Theorem digit_names_are_ids : forall nuc qty rest du key x ru,
    parse_row (nuc :: qty :: rest) du = OK (key, x, ru) ->
    (s_isnumeric nuc = true -> exists z, s_int nuc = OK z /\ key = VInt z) /\
    (s_isnumeric nuc = false -> key = VStr nuc) /\
    (rest = [] /\ ru = du \/ exists u, rest = [u] /\ ru = Some u).
  Proof. exact (Proofs.CsvP.digit_names_are_ids parse_float). Qed.

  (* the result equals the inventory built directly from the same rows: constructor for the first row,
     add() for each following row in order (hence repeated rows for one nuclide accumulate) *)
  Theorem equals_direct_construction : forall r0 rest units key x ru,
    parse_row r0 units = OK (key, x, ru) ->
    read_rows (r0 :: rest) 0 units = fold_left (add_row units) rest (construct [(key, x)] (effective_unit ru units)).
  Proof. exact (Proofs.CsvP.equals_direct_construction ops activity_units mass_units moles_units avogadro names decay_consts atomic_masses amount_ok normalise parse_float). Qed.

  Theorem add_row_is_add : forall units a row key x ru,
    parse_row row units = OK (key, x, ru) -> add_row units (OK a) row = m_add a [(key, x)] (effective_unit ru units).
  Proof. exact (Proofs.CsvP.add_row_is_add ops activity_units mass_units moles_units avogadro names decay_consts atomic_masses amount_ok normalise parse_float). Qed.

  (* a failing row makes the whole import fail (no partial inventory is returned) *)
  Theorem failing_row_fails : forall units rows e, fold_left (add_row units) rows (Raise e) = Raise e.
  Proof. exact (Proofs.CsvP.failing_row_fails ops activity_units mass_units moles_units avogadro names decay_consts atomic_masses amount_ok normalise parse_float). Qed.

  (* export: one row per nuclide in the inventory's order, the nuclide name first, the unit column iff requested,
     the header row first iff given; an unknown unit is refused *)
  Theorem to_rows_shape : forall contents units wu header rows,
    to_rows ops activity_units mass_units moles_units avogadro names decay_consts atomic_masses print_num contents units wu header = OK rows ->
    exists ro, length ro = length contents /\ map fst ro = map fst contents /\
      rows = (match header with Some (h :: hs) => [h :: hs] | _ => [] end) ++
             map (fun kv => if wu then [fst kv; print_num (snd kv); units] else [fst kv; print_num (snd kv)]) ro.
  Proof. exact (Proofs.CsvP.to_rows_shape ops activity_units mass_units moles_units avogadro names decay_consts atomic_masses print_num). Qed.

  Theorem to_rows_unknown_unit : forall contents units wu header, select chain_csv units = None ->
    to_rows ops activity_units mass_units moles_units avogadro names decay_consts atomic_masses print_num contents units wu header = Raise ValueError.
  Proof. exact (Proofs.CsvP.to_rows_unknown_unit ops activity_units mass_units moles_units avogadro names decay_consts atomic_masses print_num). Qed.
End AnyDomain.
