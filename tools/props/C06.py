"""C06 - a decay time means the same duration however it is expressed."""
import random
import common as C
import corr_units as U

PID = "C06"
PROPS_MODULE = "Props.C06"
THEOREMS = ["time_table_spec", "seconds_of", "synonyms_interchangeable", "unknown_time_unit_refused", "halving"]
REQUIRED = ["Props/C06.v", "Model/UnitsCheck.v", "Proofs/CertDefault/Struct.v", "Proofs/CertDefault/FloatDataCert.v"]
TRANSLATORS = ["tr_pure", "tr_tables", "tr_data"]
SHAPE_KEYS = ["load_dataset", "DecayData::half_life", "Inventory::decay", "Inventory::cumulative_decays",
              "InventoryHP::decay", "InventoryHP::cumulative_decays", "decay_time_series"]
PARTIAL = ["'decay(t,u) = decay(seconds,u=s)' is an identity of the model because the generated _convert_decay_time is applied first; "
           "that decay()/cumulative_decays()/series route every unit through it is decided by the exhaustive 27-unit correspondence"]
TRUSTED_BASE = [
    "Coq 8.16.1 kernel incl. vm_compute",
    "axioms: standard Reals axioms; primitive float/int items for the float-table conjunct",
    "translators tools/tr_pure.py + pytr.py, tr_tables.py, tr_data.py; tools/tr_shapes.py for the hand-modelled half_life",
    "PrimFloat as the model of IEEE binary64",
]
ASSUMPTIONS = ["np.exp / libm within 1 ulp (halving predicate allows 16 ulp)"]


def correspondence(ctx):
    rng = random.Random(ctx["seed"] + 6)
    streams, viol, samples = {}, [], []
    U.time_stream(rng, ctx["tier"] == "thorough", streams, viol, samples)
    U.year_dataset_stream(rng, ctx["tier"] == "thorough", streams, viol, samples)
    return {"streams": streams, "violations": viol, "samples": samples}


def search_broken(ctx):
    # "the half-life a nuclide reports is the one the calculation uses" rests on the data certificate (mu * T = 1 exactly, float
    # decay constants within 1e-15): turn its witnesses into halving requests in both classes
    import corr_decay as D
    return D.data_witness_probe(PID, ("Inventory", "InventoryHP"))


def replay(payload):
    c = payload.get("input")
    if not isinstance(c, dict):
        return {"fails": True, "note": "nothing to replay; theorem/correspondence named in the file"}
    if "t" in c:
        r = U.run_impl("impl_time.py", {"cases": [c], "units": [], "halving": [], "hp": []})["cases"][0]
        return {"fails": "err" in r or not (r["decay_same"] and r["cum_same"] and r["series_same"]), "impl": r}
    if "nuc" in c and "unit" in c:
        r = U.run_impl("impl_time.py", {"cases": [], "units": [c["unit"]], "halving": [c["nuc"]], "hp": []})["halving"][0]
        x = float.fromhex(r["left"][c["unit"]])
        return {"fails": abs(x - 0.5) > 16 * 2 ** -53, "impl": r}
    return {"fails": True, "note": "see payload"}
