(* C11 - Calculations are pure and independent of process history.
   (1) Effect summaries of every method of inventory.py are GENERATED from the source (Gen/EffectsGen.v);
       the checkers [pure] / [atomic] are proved sound w.r.t. a heap semantics with version counters, and
       evaluated by the kernel on the generated summaries: no calculation, read-out, operator, series/plot
       or CSV method can change an object that existed before the call (the shared work templates are
       copied before being written), and add / subtract / remove only re-bind self.contents, after the
       last event that may raise.
   (2) Failure atomicity of the state-machine model of the mutators.
   That library calls return new objects and do not retain or mutate their arguments is outside the
   model; it is what the fingerprint correspondence (tools/impl_history.py) polices. *)
From Coq Require Import ZArith NArith List Bool.
From RD Require Import Base Lib.Py Lib.Num Gen.UtilsGen Model.Inventory Model.Effects Gen.EffectsGen.
From RD Require Proofs.InventoryP Proofs.EffectsP.
Import ListNotations.

(* soundness of the purity check: objects that existed before the call keep their version, and no
   attribute of the receiver is re-bound *)
Theorem pure_sound : forall shared_loc evs h, pure evs = true ->
  (forall p, (shared_loc p < next h)%N) ->
  let h' := snd (run shared_loc evs h) in
  (forall l, (l < next h)%N -> version h' l = version h l) /\ (forall a, attr_slot h' a = attr_slot h a).
Proof. exact Proofs.EffectsP.pure_sound. Qed.

(* soundness of the atomicity check: wherever the call raises, nothing that existed before has changed and
   no attribute has been re-bound; on success pre-existing objects are unchanged and only the listed
   attributes are re-bound *)
Theorem atomic_sound : forall shared_loc evs h, atomic evs = true ->
  (forall p, (shared_loc p < next h)%N) ->
  (forall j, nth_error evs j = Some MayRaise ->
     let hj := snd (run_until shared_loc j evs h) in
     (forall l, (l < next h)%N -> version hj l = version h l) /\ (forall a, attr_slot hj a = attr_slot h a)) /\
  (let h' := snd (run shared_loc evs h) in
   (forall l, (l < next h)%N -> version h' l = version h l) /\
   (forall a, existsb (n_eqb a) (assigned_attrs evs) = false -> attr_slot h' a = attr_slot h a)).
Proof. exact Proofs.EffectsP.atomic_sound. Qed.

(* the generated summaries of the current source pass the checks *)
Theorem all_calculations_pure : forallb (fun m => pure (snd m)) pure_methods = true.
Proof. exact Proofs.EffectsP.all_calculations_pure. Qed.

Theorem all_mutators_atomic :
  forallb (fun m => atomic (snd m) &&
                    forallb (fun a => n_eqb a [99; 111; 110; 116; 101; 110; 116; 115]%N) (assigned_attrs (snd m)))
          mutator_methods = true.
Proof. exact Proofs.EffectsP.all_mutators_atomic. Qed.

(* the work vector, the index list and the diagonal matrix handed out by _setup_decay_calc are fresh objects *)
Theorem setup_returns_fresh : forallb (fun o => match o with OFresh => true | _ => false end) helper_setup_returns = true.
Proof. exact Proofs.EffectsP.setup_returns_fresh. Qed.

Section AnyDomain.
  Context {T : Type} (ops : numops T).
  Context (activity_units mass_units moles_units : list (str * T)).
  Context (avogadro : T) (names : list str) (decay_consts atomic_masses : list T).
  Variables (amount_ok : T -> bool) (normalise nneg : T -> T).
  Notation step := (Inventory.step ops activity_units mass_units moles_units avogadro names decay_consts atomic_masses amount_ok normalise nneg).

  (* a mutating call (add, subtract, remove, remove of a list) that raises leaves the inventory as it was *)
  Theorem step_atomic : forall a o a' e, step a o = (a', Some e) -> a' = a.
  Proof. exact (Proofs.InventoryP.step_atomic ops activity_units mass_units moles_units avogadro names decay_consts atomic_masses amount_ok normalise nneg). Qed.
End AnyDomain.
