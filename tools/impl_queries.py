"""Implementation side of the C15/C06 query correspondence (PYTHONPATH=/repo).
stdin: JSON {"units": [...], "nuclides": [names] | null, "spell": bool}
stdout: JSON per nuclide: half-lives (hex) per unit through the three interfaces (checked equal here, reported once),
readable string, progeny/bfs/modes through three interfaces, pairwise look-ups inside the chain."""
import json, sys, math

def hx(x):
    return float(x).hex() if not isinstance(x, str) else "str:" + x

def main():
    import radioactivedecay as rd
    import numpy as np
    req = json.load(sys.stdin)
    d = rd.DEFAULTDATA
    names = req.get("nuclides") or [str(n) for n in d.nuclides]
    out = []
    for name in names:
        r = {"name": name, "hl": {}, "iface_mismatch": []}
        nuc = rd.Nuclide(name)
        inv = rd.Inventory({name: 1.0}, "num")
        for u in req["units"] + ["readable"]:
            try:
                a = d.half_life(name, u); b = nuc.half_life(u); c = inv.half_lives(u)[name]
                ha, hb, hc = hx(a), hx(b), hx(c)
                if not (ha == hb == hc):
                    r["iface_mismatch"].append(["half_life", u, ha, hb, hc])
                r["hl"][u] = ha
            except Exception as e:
                r["hl"][u] = "ERR " + type(e).__name__
        idx = d.nuclide_dict[name]
        pr = [list(map(str, x)) for x in (d.progeny[idx], nuc.progeny(), inv.progeny()[name])]
        bf = [[float(v).hex() for v in x] for x in (d.bfs[idx], nuc.branching_fractions(), inv.branching_fractions()[name])]
        md = [list(map(str, x)) for x in (d.modes[idx], nuc.decay_modes(), inv.decay_modes()[name])]
        for lab, tri in (("progeny", pr), ("bfs", bf), ("modes", md)):
            if not (tri[0] == tri[1] == tri[2]):
                r["iface_mismatch"].append([lab, tri])
        r["progeny"], r["bfs"], r["modes"] = pr[1], bf[1], md[1]
        r["mass"] = float(nuc.atomic_mass).hex()
        # pairwise look-ups against every member of the chain (links and non-links)
        if req.get("pairs"):
            chain = [str(x) for x in rd.Inventory({name: 1.0}, "num").decay(0.0).nuclides]
            pw = {}
            for other in chain:
                try:
                    pw[other] = [float(d.branching_fraction(name, other)).hex(), d.decay_mode(name, other)]
                except Exception as e:
                    pw[other] = "ERR " + type(e).__name__
            r["pairs"] = pw
        out.append(r)
    json.dump(out, sys.stdout)
main()
