(* Checkers evaluated by the correspondence shards (tools/coqcases.py): the generated float-class
   functions on one case must reproduce the implementation's bits. *)
From Coq Require Import ZArith NArith List Bool.
From Coq Require Import PrimFloat.
From RD Require Import Base Lib.Py Lib.Num Gen.Tables Gen.ConvGen Gen.InvGen Model.Dataset Model.Digest Model.Units.
Import ListNotations.

Definition feq (a b : float) : bool := Z.eqb (fcode a) (fcode b).

Record ucase := UC {
  uc_nuc : str; uc_unit : str; uc_kind : N;     (* 0 activity, 1 mass, 2 moles, 3 num *)
  uc_x : float;
  uc_err : bool;                                 (* the implementation raised ValueError *)
  uc_num : float; uc_back : float; uc_base : float; uc_add : float; uc_sub : float }.

Definition first_val (r : res (list (str * float))) : option float :=
  match r with OK ((_, v) :: _) => Some v | _ => None end.
Definition opt_feq (o : option float) (b : float) : bool :=
  match o with Some a => feq a b | None => false end.

Definition bq : str := [66%N; 113%N].
Definition gram : str := [103%N].
Definition mol : str := [109%N; 111%N; 108%N].

Definition check_ucase (d : dataset) (lam : list float) (c : ucase) : bool :=
  match f_create d lam [(uc_nuc c, uc_x c)] (uc_unit c) with
  | OK [(_, n)] =>
      negb (uc_err c) && feq n (uc_num c) &&
      (match uc_kind c with
       | 0%N => opt_feq (first_val (f_activities d lam [(uc_nuc c, n)] (uc_unit c))) (uc_back c)
                && opt_feq (first_val (f_activities d lam [(uc_nuc c, n)] bq)) (uc_base c)
       | 1%N => opt_feq (first_val (f_masses d [(uc_nuc c, n)] (uc_unit c))) (uc_back c)
                && opt_feq (first_val (f_masses d [(uc_nuc c, n)] gram)) (uc_base c)
       | 2%N => opt_feq (first_val (f_moles [(uc_nuc c, n)] (uc_unit c))) (uc_back c)
                && opt_feq (first_val (f_moles [(uc_nuc c, n)] mol)) (uc_base c)
       | _ => feq n (uc_back c)
       end) &&
      feq (add n n) (uc_add c) &&
      feq (add (add n n) (mul n (-1)%float)) (uc_sub c)
  | Raise ValueError => uc_err c
  | _ => false
  end.

Definition default_lam (d : dataset) : list float :=
  match decay_consts_f d with OK l => l | Raise _ => [] end.
