(* C04 (second part): what the exact comparison of the double-precision matrices with the exact ones
   (Model/FloatData.v) means over the reals, and the perturbation bound for the decay constants. *)
From Coq Require Import Reals ZArith NArith QArith Qreals List Bool Lia Lra Arith.
From Bignums Require Import BigQ.
From RD Require Import Base Model.DecayR Lib.Sparse Lib.CertQ Model.Dataset Model.Default Model.FloatData.
From RD Require Import Proofs.DatasetCert.
From RD Require Proofs.CertDefault.FloatDataCert.
Import ListNotations.
Local Open Scope R_scope.

(* ---------- the instance certificate *)
Lemma default_float_data_certificate :
  chk_float_data Default (bq_of Proofs.CertDefault.FloatDataCert.B_bound) (bq_of Proofs.CertDefault.FloatDataCert.K_bound) = true /\
  chk_lambda_close Default Proofs.CertDefault.FloatDataCert.default_lam_val Proofs.CertDefault.FloatDataCert.c_bound = true /\
  chk_masses_close Default Proofs.CertDefault.FloatDataCert.c_bound = true /\
  chk_year_close Default Proofs.CertDefault.FloatDataCert.c_bound = true.
Proof.
  split; [exact Proofs.CertDefault.FloatDataCert.default_float_matrices|].
  split; [exact Proofs.CertDefault.FloatDataCert.default_lambda_close|].
  exact Proofs.CertDefault.FloatDataCert.default_masses_year_close.
Qed.

(* ---------- (C) perturbation of a decay constant *)
Lemma xexp_le : forall a, a * exp (- a) <= exp (- 1).
Proof.
  intro a.
  pose proof (exp_ineq1_le (a + - 1)) as H1. rewrite exp_plus in H1.
  pose proof (exp_pos (- a)) as H2.
  assert (H3 : exp a * exp (- a) = 1) by (rewrite <- exp_plus, Rplus_opp_r; apply exp_0).
  apply Rle_trans with ((exp a * exp (- 1)) * exp (- a)).
  - apply Rmult_le_compat_r; lra.
  - right. replace (exp a * exp (- 1) * exp (- a)) with (exp (- 1) * (exp a * exp (- a))) by ring.
    rewrite H3. ring.
Qed.

Lemma one_minus_exp : forall x, 0 <= x -> 0 <= 1 - exp (- x) <= x.
Proof.
  intros x Hx. pose proof (exp_ineq1_le (- x)) as H1.
  assert (H2 : exp (- x) <= 1).
  { rewrite <- exp_0. destruct Hx as [Hx|Hx]; [left; apply exp_increasing; lra|right; f_equal; lra]. }
  lra.
Qed.

Lemma frac_bound : forall dl s c E, 0 < E -> 0 <= dl <= c -> c < 1 -> 1 - c <= s ->
  dl * / E * / s <= c / (E * (1 - c)).
Proof.
  intros dl s c E HE Hd Hc Hs.
  assert (Hs0 : 0 < s) by lra.
  assert (Hi : / s <= / (1 - c)) by (apply Rinv_le_contravar; lra).
  assert (HiE : 0 < / E) by (apply Rinv_0_lt_compat; exact HE).
  assert (His : 0 < / s) by (apply Rinv_0_lt_compat; exact Hs0).
  unfold Rdiv. rewrite Rinv_mult.
  apply Rle_trans with (c * / E * / s).
  - apply Rmult_le_compat_r; [lra|]. apply Rmult_le_compat_r; lra.
  - rewrite <- Rmult_assoc. apply Rmult_le_compat_l; [|exact Hi].
    apply Rmult_le_pos; lra.
Qed.

Lemma lambda_perturbation : forall a delta c, 0 <= a -> Rabs delta <= c -> c < 1 ->
  Rabs (exp (- (a * (1 + delta))) - exp (- a)) <= c / (exp 1 * (1 - c)).
Proof.
  intros a delta c Ha Hd Hc.
  pose proof (exp_pos 1) as HE.
  assert (He1 : exp (- 1) = / exp 1) by apply exp_Ropp.
  destruct (Rle_lt_dec 0 delta) as [Hp|Hn].
  - rewrite Rabs_right in Hd by lra.
    set (x := a * delta).
    assert (Hx : 0 <= x) by (unfold x; apply Rmult_le_pos; lra).
    replace (- (a * (1 + delta))) with (- a + - x) by (unfold x; ring).
    rewrite exp_plus.
    pose proof (one_minus_exp x Hx) as H1.
    pose proof (exp_pos (- a)) as H3. pose proof (xexp_le a) as H4.
    assert (K1 : 0 <= exp (- a) * (1 - exp (- x)) <= delta * exp (- 1)).
    { split; [apply Rmult_le_pos; lra|].
      apply Rle_trans with (exp (- a) * x); [apply Rmult_le_compat_l; lra|].
      unfold x. replace (exp (- a) * (a * delta)) with (delta * (a * exp (- a))) by ring.
      apply Rmult_le_compat_l; lra. }
    replace (exp (- a) * exp (- x) - exp (- a)) with (- (exp (- a) * (1 - exp (- x)))) by ring.
    rewrite Rabs_Ropp, Rabs_right by lra.
    apply Rle_trans with (delta * / exp 1 * / 1).
    + rewrite Rinv_1, Rmult_1_r, <- He1. lra.
    + apply frac_bound; lra.
  - rewrite Rabs_left in Hd by lra.
    set (b := a * (1 + delta)).
    set (x := a * - delta).
    assert (Hs : 0 < 1 + delta) by lra.
    assert (Hb : 0 <= b) by (unfold b; apply Rmult_le_pos; lra).
    assert (Hx : 0 <= x) by (unfold x; apply Rmult_le_pos; lra).
    replace (- a) with (- b + - x) by (unfold b, x; ring).
    rewrite exp_plus.
    pose proof (one_minus_exp x Hx) as H1.
    pose proof (exp_pos (- b)) as H3. pose proof (xexp_le b) as H4.
    assert (Hxb : x = b * (- delta * / (1 + delta))).
    { unfold x, b. field. lra. }
    assert (Hq : 0 <= - delta * / (1 + delta)).
    { apply Rmult_le_pos; [lra|]. left. apply Rinv_0_lt_compat. exact Hs. }
    assert (K1 : 0 <= exp (- b) * (1 - exp (- x)) <= - delta * / exp 1 * / (1 + delta)).
    { split; [apply Rmult_le_pos; lra|].
      apply Rle_trans with (exp (- b) * x); [apply Rmult_le_compat_l; lra|].
      rewrite Hxb.
      replace (exp (- b) * (b * (- delta * / (1 + delta))))
        with ((b * exp (- b)) * (- delta * / (1 + delta))) by ring.
      rewrite <- He1.
      replace (- delta * exp (- 1) * / (1 + delta)) with (exp (- 1) * (- delta * / (1 + delta))) by ring.
      apply Rmult_le_compat_r; [exact Hq|exact H4]. }
    replace (exp (- b) - exp (- b) * exp (- x)) with (exp (- b) * (1 - exp (- x))) by ring.
    rewrite Rabs_right by lra.
    apply Rle_trans with (- delta * / exp 1 * / (1 + delta)); [lra|].
    apply frac_bound; lra.
Qed.

(* ---------- (E) the shipped constants *)
Lemma default_data_error_below_5e12 :
  bqv (bq_of Proofs.CertDefault.FloatDataCert.B_bound)
  + bqv (bq_of Proofs.CertDefault.FloatDataCert.K_bound) * ((1 / 10 ^ 15) / (exp 1 * (1 - 1 / 10 ^ 15))) <= 5 / 10 ^ 12.
Proof.
  rewrite !bqv_of.
  unfold Proofs.CertDefault.FloatDataCert.B_bound, Proofs.CertDefault.FloatDataCert.K_bound.
  cbn [qn qd]. unfold Q2R. cbn [Qnum Qden].
  assert (HE : 2 <= exp 1) by (pose proof (exp_ineq1_le 1); lra).
  set (c := 1 / 10 ^ 15).
  assert (Hc : c = / 1000000000000000) by (unfold c; lra).
  assert (Hc0 : 0 < c < 1) by lra.
  assert (Hm : c / (exp 1 * (1 - c)) <= c / (2 * (1 - c))).
  { unfold Rdiv. apply Rmult_le_compat_l; [lra|].
    apply Rinv_le_contravar; [lra|]. apply Rmult_le_compat_r; lra. }
  assert (Hv : c / (2 * (1 - c)) <= 1 / 1000000000000000).
  { rewrite Hc. apply Rmult_le_reg_r with (2 * (1 - / 1000000000000000)); [lra|].
    unfold Rdiv. rewrite Rmult_assoc, Rinv_l by lra. lra. }
  lra.
Qed.

(* ---------- BigQ order and absolute value *)
Lemma bqv_sub x y : bqv (BigQ.sub x y) = bqv x - bqv y.
Proof. unfold bqv. rewrite <- Q2R_minus. apply Qeq_eqR. apply BigQ.spec_sub. Qed.

Lemma bqv_cmp x y :
  match BigQ.compare x y with Eq => bqv x = bqv y | Lt => bqv x < bqv y | Gt => bqv y < bqv x end.
Proof.
  rewrite BigQ.spec_compare. unfold bqv.
  destruct (Qcompare_spec (BigQ.to_Q x) (BigQ.to_Q y)) as [E|E|E].
  - apply Qeq_eqR. exact E.
  - apply Qlt_Rlt. exact E.
  - apply Qlt_Rlt. exact E.
Qed.

Lemma bqv_abs x : bqv (FloatData.bq_abs x) = Rabs (bqv x).
Proof.
  unfold FloatData.bq_abs. pose proof (bqv_cmp x BigQ.zero) as H. rewrite bqv_0 in H.
  destruct (BigQ.compare x BigQ.zero).
  - rewrite H, Rabs_R0. reflexivity.
  - rewrite bqv_opp, Rabs_left by exact H. reflexivity.
  - rewrite Rabs_right by lra. reflexivity.
Qed.

Lemma bqv_max_l x y : bqv x <= bqv (bq_max x y).
Proof. unfold bq_max. pose proof (bqv_cmp x y) as H. destruct (BigQ.compare x y); lra. Qed.
Lemma bqv_max_r x y : bqv y <= bqv (bq_max x y).
Proof. unfold bq_max. pose proof (bqv_cmp x y) as H. destruct (BigQ.compare x y); lra. Qed.

Lemma bq_leb_spec x y : bq_leb x y = true -> bqv x <= bqv y.
Proof.
  unfold bq_leb. pose proof (bqv_cmp x y) as H. destruct (BigQ.compare x y); intro E; [lra|lra|discriminate].
Qed.

Lemma fold_max_ge_acc : forall l acc, bqv acc <= bqv (fold_left bq_max l acc).
Proof.
  induction l as [|a l IH]; intro acc; cbn [fold_left]; [lra|].
  apply Rle_trans with (bqv (bq_max acc a)); [apply bqv_max_l|apply IH].
Qed.

Lemma fold_max_ge_in : forall l acc x, In x l -> bqv x <= bqv (fold_left bq_max l acc).
Proof.
  induction l as [|a l IH]; intros acc x Hin; [contradiction|]. cbn [fold_left].
  destruct Hin as [E|Hin].
  - subst a. apply Rle_trans with (bqv (bq_max acc x)); [apply bqv_max_r|apply fold_max_ge_acc].
  - apply IH. exact Hin.
Qed.

(* ---------- sums *)
Lemma sumn_le : forall n f g, (forall k, (k < n)%nat -> f k <= g k) -> sumn n f <= sumn n g.
Proof.
  induction n as [|n IH]; intros f g H; simpl; [lra|].
  pose proof (IH f g ltac:(intros; apply H; lia)). pose proof (H n ltac:(lia)). lra.
Qed.

Lemma sumn_Rabs : forall n f, Rabs (sumn n f) <= sumn n (fun k => Rabs (f k)).
Proof.
  induction n as [|n IH]; intro f; simpl; [rewrite Rabs_R0; lra|].
  eapply Rle_trans; [apply Rabs_triang|]. pose proof (IH f). lra.
Qed.

Lemma sumn_minus : forall n f g, sumn n (fun k => f k - g k) = sumn n f - sumn n g.
Proof. induction n as [|n IH]; intros; simpl; [lra|rewrite IH; lra]. Qed.

Fixpoint lsum (l : list N) (g : N -> R) : R :=
  match l with [] => 0 | k :: l' => g k + lsum l' g end.

Lemma lsum_ext : forall l g h, (forall k, In k l -> g k = h k) -> lsum l g = lsum l h.
Proof.
  induction l as [|a l IH]; intros g h H; simpl; [reflexivity|].
  rewrite (H a) by (left; reflexivity). rewrite (IH g h); [reflexivity|].
  intros k Hk. apply H. right. exact Hk.
Qed.

Lemma lsum_dense : forall l n g, NoDup l -> (forall k, In k l -> (N.to_nat k < n)%nat) ->
  (forall k, ~ In k l -> g k = 0) -> sumn n (fun k => g (N.of_nat k)) = lsum l g.
Proof.
  induction l as [|a l IH]; intros n g Hnd Hr Hz.
  - simpl. apply sumn_zero. intros k _. apply Hz. intros [].
  - apply NoDup_cons_iff in Hnd. destruct Hnd as [Hna Hnd]. simpl.
    set (g' := fun k => if N.eqb a k then 0 else g k).
    assert (E : sumn n (fun k => (if Nat.eqb (N.to_nat a) k then 1 else 0) * g a) = g a).
    { apply (sumn_delta n (N.to_nat a) (fun _ => g a)). apply Hr. left. reflexivity. }
    transitivity (sumn n (fun k => (if Nat.eqb (N.to_nat a) k then 1 else 0) * g a)
                  + sumn n (fun k => g' (N.of_nat k))).
    + rewrite <- sumn_plus. apply sumn_ext. intros k Hk. unfold g'.
      destruct (N.eqb_spec a (N.of_nat k)) as [Ea|Ea].
      * subst a. rewrite Nat2N.id, Nat.eqb_refl. lra.
      * destruct (Nat.eqb_spec (N.to_nat a) k) as [E'|E']; [exfalso; apply Ea; lia|lra].
    + rewrite E. f_equal. rewrite (IH n g' Hnd).
      * apply lsum_ext. intros k Hk. unfold g'.
        destruct (N.eqb_spec a k) as [Ea|Ea]; [subst k; contradiction|reflexivity].
      * intros k Hk. apply Hr. right. exact Hk.
      * intros k Hk. unfold g'. destruct (N.eqb_spec a k) as [Ea|Ea]; [reflexivity|].
        apply Hz. intros [E1|E1]; [apply Ea; exact E1|apply Hk; exact E1].
Qed.

(* ---------- (A) the sparse row computation is the dense sum *)
Lemma bget_flat_map_sum : forall (f : N -> row bq) l j,
  bqv (bget (flat_map f l) j) = lsum l (fun k => bqv (bget (f k) j)).
Proof.
  induction l as [|a l IH]; intro j.
  - simpl. apply bqv_0.
  - change (flat_map f (a :: l)) with (f a ++ flat_map f l).
    rewrite (get_app bq BigQ.add BigQ.zero bqv bqv_add bqv_0). rewrite IH. reflexivity.
Qed.

Lemma cols_map_key : forall (val : N -> bq) l, cols bq (map (fun j => (j, val j)) l) = l.
Proof. intros val l. unfold cols. rewrite map_map. cbn [fst]. apply map_id. Qed.

Lemma bget_map_in : forall (val : N -> bq) l j, NoDup l -> In j l ->
  bqv (bget (map (fun j => (j, val j)) l) j) = bqv (val j).
Proof.
  induction l as [|a l IH]; intros j Hnd Hin; [contradiction|].
  apply NoDup_cons_iff in Hnd. destruct Hnd as [Hna Hnd].
  cbn [map]. rewrite bget_cons.
  destruct (N.eqb_spec a j) as [E|E].
  - subst a. rewrite bqv_add, bget_notin, bqv_0; [lra|]. rewrite cols_map_key. exact Hna.
  - destruct Hin as [E'|Hin]; [contradiction|]. apply IH; assumption.
Qed.

Lemma Rabs_zr : forall a b, Rabs (a * 0 - b * 0) = 0.
Proof. intros a b. replace (a * 0 - b * 0) with 0 by ring. apply Rabs_R0. Qed.
Lemma Rabs_zl : forall a b, Rabs (0 * a - 0 * b) = 0.
Proof. intros a b. replace (0 * a - 0 * b) with 0 by ring. apply Rabs_R0. Qed.

Section TermList.
  Variables (Ainv Binv : mat bq) (ra rb : row bq).

  Definition tval (k j : N) : bq :=
    FloatData.bq_abs (BigQ.sub (BigQ.mul (bget ra k) (bget (mrow bq Ainv (N.to_nat k)) j))
                               (BigQ.mul (bget rb k) (bget (mrow bq Binv (N.to_nat k)) j))).

  Lemma tval_val : forall k j, bqv (tval k j) =
    Rabs (bqv (bget ra k) * bqv (bget (mrow bq Ainv (N.to_nat k)) j)
          - bqv (bget rb k) * bqv (bget (mrow bq Binv (N.to_nat k)) j)).
  Proof. intros k j. unfold tval. rewrite bqv_abs, bqv_sub, !bqv_mul. reflexivity. Qed.

  Lemma term_list_eq : term_list Ainv Binv ra rb =
    flat_map (fun k => map (fun j => (j, tval k j))
                (merged_cols (mrow bq Ainv (N.to_nat k)) (mrow bq Binv (N.to_nat k)))) (merged_cols ra rb).
  Proof. reflexivity. Qed.

  Lemma merged_notin : forall (r1 r2 : row bq) j, ~ In j (merged_cols r1 r2) ->
    bget r1 j = BigQ.zero /\ bget r2 j = BigQ.zero.
  Proof.
    intros r1 r2 j H. unfold merged_cols in H. rewrite nodup_In in H.
    split; apply bget_notin; intro Hc; apply H; apply in_or_app; auto.
  Qed.

  Lemma piece_val : forall k j,
    bqv (bget (map (fun j => (j, tval k j))
            (merged_cols (mrow bq Ainv (N.to_nat k)) (mrow bq Binv (N.to_nat k)))) j) = bqv (tval k j).
  Proof.
    intros k j.
    destruct (in_dec N.eq_dec j (merged_cols (mrow bq Ainv (N.to_nat k)) (mrow bq Binv (N.to_nat k)))) as [Hin|Hnin].
    - apply bget_map_in; [apply NoDup_nodup|exact Hin].
    - rewrite bget_notin by (rewrite cols_map_key; exact Hnin).
      rewrite tval_val. destruct (merged_notin _ _ _ Hnin) as [E1 E2].
      rewrite E1, E2, !bqv_0. symmetry. apply Rabs_zr.
  Qed.

  Lemma term_list_sound : forall n j,
    (forall k, In k (cols bq ra) -> (N.to_nat k < n)%nat) ->
    (forall k, In k (cols bq rb) -> (N.to_nat k < n)%nat) ->
    bqv (bget (term_list Ainv Binv ra rb) j)
    = sumn n (fun k => Rabs (bqv (bget ra (N.of_nat k)) * bqv (bget (mrow bq Ainv k) j)
                             - bqv (bget rb (N.of_nat k)) * bqv (bget (mrow bq Binv k) j))).
  Proof.
    intros n j Ha Hb. rewrite term_list_eq, bget_flat_map_sum.
    rewrite (lsum_ext _ _ (fun k => bqv (tval k j))) by (intros k _; apply piece_val).
    rewrite <- (lsum_dense (merged_cols ra rb) n).
    - apply sumn_ext. intros k Hk. rewrite tval_val, Nat2N.id. reflexivity.
    - apply NoDup_nodup.
    - intros k Hk. unfold merged_cols in Hk. rewrite nodup_In in Hk.
      apply in_app_or in Hk. destruct Hk as [Hk|Hk]; [apply Ha|apply Hb]; exact Hk.
    - intros k Hk. rewrite tval_val. destruct (merged_notin _ _ _ Hk) as [E1 E2].
      rewrite E1, E2, !bqv_0. apply Rabs_zl.
  Qed.

  Lemma row_max_ge : forall j, bqv (bget (term_list Ainv Binv ra rb) j) <= bqv (row_max Ainv Binv ra rb).
  Proof.
    intro j. unfold row_max, col_sums. set (l := term_list Ainv Binv ra rb).
    destruct (in_dec N.eq_dec j (map fst l)) as [Hin|Hnin].
    - apply fold_max_ge_in. apply in_map_iff. exists j. split; [reflexivity|].
      apply nodup_In. exact Hin.
    - rewrite (bget_notin l j) by exact Hnin. apply fold_max_ge_acc.
  Qed.
End TermList.

Lemma row_cols_range : forall n (m : mat bq) i k, mat_in_range bq n m = true ->
  In k (cols bq (mrow bq m i)) -> (N.to_nat k < N.to_nat n)%nat.
Proof.
  intros n m i k H Hin. apply in_cols_inv in Hin. destruct Hin as [x Hin].
  apply (row_in_range_spec bq n (mrow bq m i) (mat_in_range_row bq n m i H) k x Hin).
Qed.

Lemma wf_core_ranges : forall d, wf_core d = true ->
  mat_in_range bq (nN d) (Cq d) = true /\ mat_in_range bq (nN d) (Ciq d) = true.
Proof.
  intros d H. unfold wf_core in H.
  apply andb_prop in H. destruct H as [H _].
  apply andb_prop in H. destruct H as [H _].
  apply andb_prop in H. destruct H as [H _].
  apply andb_prop in H. destruct H as [H _].
  apply andb_prop in H. destruct H as [H _].
  apply andb_prop in H. destruct H as [_ HCCi].
  unfold chk_CCi, check_prod_id in HCCi.
  apply andb_prop in HCCi. destruct HCCi as [HCCi _].
  apply andb_prop in HCCi. exact HCCi.
Qed.

Lemma chk_float_data_parts : forall d B K, chk_float_data d B K = true ->
  mat_in_range bq (nN d) (Cfq d) = true /\ mat_in_range bq (nN d) (Cifq d) = true /\
  bqv (B_data d) <= bqv B /\ bqv (K_cond d) <= bqv K.
Proof.
  intros d B K H. unfold chk_float_data in H.
  apply andb_prop in H. destruct H as [H HK].
  apply andb_prop in H. destruct H as [H HB].
  apply andb_prop in H. destruct H as [H HCi].
  apply andb_prop in H. destruct H as [_ HC].
  repeat split; [exact HC|exact HCi|apply bq_leb_spec; exact HB|apply bq_leb_spec; exact HK].
Qed.

Lemma B_data_sound : forall d, mat_in_range bq (nN d) (Cfq d) = true -> mat_in_range bq (nN d) (Cq d) = true ->
  forall i j, (i < nn d)%nat ->
  sumn (nn d) (fun k => Rabs (Cfr d i k * Cifr d k j - Cr d i k * Cir d k j)) <= bqv (B_data d).
Proof.
  intros d HA HB i j Hi.
  unfold Cfr, Cifr, Cr, Cir, ent.
  rewrite <- (term_list_sound (Cifq d) (Ciq d) (mrow bq (Cfq d) i) (mrow bq (Cq d) i) (nn d) (N.of_nat j)).
  - eapply Rle_trans; [apply row_max_ge|].
    unfold B_data. apply fold_max_ge_in. apply in_map_iff.
    exists (mrow bq (Cfq d) i, mrow bq (Cq d) i). split; [reflexivity|].
    pose proof (mat_in_range_len bq _ _ HA) as LA. pose proof (mat_in_range_len bq _ _ HB) as LB.
    rewrite nN_nn in LA, LB. unfold mrow.
    rewrite <- (combine_nth (Cfq d) (Cq d) i [] []) by congruence.
    apply nth_In. rewrite combine_length. lia.
  - intros k Hk. rewrite <- (nN_nn d). apply (row_cols_range _ _ _ _ HA Hk).
  - intros k Hk. rewrite <- (nN_nn d). apply (row_cols_range _ _ _ _ HB Hk).
Qed.

Lemma mrow_nil : forall k, mrow bq [] k = [].
Proof. intro k. unfold mrow. destruct k; reflexivity. Qed.

Lemma K_cond_sound : forall d, mat_in_range bq (nN d) (Cfq d) = true ->
  forall i j, (i < nn d)%nat ->
  sumn (nn d) (fun k => Rabs (Cfr d i k * Cifr d k j)) <= bqv (K_cond d).
Proof.
  intros d HA i j Hi.
  unfold Cfr, Cifr, ent.
  apply Rle_trans with (bqv (bget (term_list (Cifq d) zero_mat (mrow bq (Cfq d) i) []) (N.of_nat j))).
  - rewrite (term_list_sound (Cifq d) zero_mat (mrow bq (Cfq d) i) [] (nn d) (N.of_nat j)).
    + right. apply sumn_ext. intros k Hk. unfold zero_mat. rewrite mrow_nil, !bget_nil, bqv_0.
      f_equal. ring.
    + intros k Hk. rewrite <- (nN_nn d). apply (row_cols_range _ _ _ _ HA Hk).
    + intros k [].
  - eapply Rle_trans; [apply row_max_ge|].
    unfold K_cond. apply fold_max_ge_in. apply in_map_iff.
    exists (mrow bq (Cfq d) i). split; [reflexivity|].
    pose proof (mat_in_range_len bq _ _ HA) as LA. rewrite nN_nn in LA.
    unfold mrow. apply nth_In. lia.
Qed.

(* ---------- (B) a diagonal in between *)
Lemma diag_bound : forall n (P : nat -> nat -> R) (e n0 : nat -> R) Bd M,
  (forall j, (j < n)%nat -> sumn n (fun k => Rabs (P k j)) <= Bd) ->
  (forall k, (k < n)%nat -> Rabs (e k) <= M) -> (forall j, 0 <= n0 j) ->
  Rabs (sumn n (fun k => e k * sumn n (fun j => P k j * n0 j))) <= Bd * M * sumn n n0.
Proof.
  intros n P e n0 Bd M HP He Hn.
  rewrite (sumn_ext n _ (fun k => sumn n (fun j => e k * P k j * n0 j))).
  2:{ intros k Hk. rewrite <- sumn_scal. apply sumn_ext. intros; ring. }
  rewrite sumn_swap.
  eapply Rle_trans; [apply sumn_Rabs|].
  rewrite <- sumn_scal. apply sumn_le. intros j Hj.
  eapply Rle_trans; [apply sumn_Rabs|].
  apply Rle_trans with (sumn n (fun k => (M * n0 j) * Rabs (P k j))).
  - apply sumn_le. intros k Hk. rewrite !Rabs_mult. rewrite (Rabs_right (n0 j)) by (apply Rle_ge, Hn).
    pose proof (He k Hk) as H1. pose proof (Rabs_pos (P k j)) as H2. pose proof (Rabs_pos (e k)) as H3.
    pose proof (Hn j) as H4.
    replace (M * n0 j * Rabs (P k j)) with (M * (Rabs (P k j) * n0 j)) by ring.
    rewrite Rmult_assoc. apply Rmult_le_compat_r; [|exact H1]. apply Rmult_le_pos; assumption.
  - rewrite sumn_scal. pose proof (HP j Hj) as H1.
    assert (HM : 0 <= M).
    { destruct n as [|n']; [lia|]. eapply Rle_trans; [apply Rabs_pos|apply (He O); lia]. }
    replace (Bd * M * n0 j) with (M * n0 j * Bd) by ring.
    apply Rmult_le_compat_l; [|exact H1]. apply Rmult_le_pos; [exact HM|apply Hn].
Qed.

Lemma float_matrices_contribution_lt : forall d B K, wf_core d = true -> chk_float_data d B K = true ->
  forall (e n0 : nat -> R) i, (forall k, (k < nn d)%nat -> 0 <= e k <= 1) -> (forall j, 0 <= n0 j) -> (i < nn d)%nat ->
  Rabs (sumn (nn d) (fun k => Cfr d i k * (e k * sumn (nn d) (fun j => Cifr d k j * n0 j)))
        - sumn (nn d) (fun k => Cr d i k * (e k * sumn (nn d) (fun j => Cir d k j * n0 j))))
  <= bqv B * sumn (nn d) n0.
Proof.
  intros d B K Hwf Hchk e n0 i He Hn Hi.
  destruct (wf_core_ranges d Hwf) as [HC _].
  destruct (chk_float_data_parts d B K Hchk) as [HCf [_ [HB _]]].
  rewrite <- sumn_minus.
  rewrite (sumn_ext _ _ (fun k => e k * sumn (nn d)
             (fun j => (Cfr d i k * Cifr d k j - Cr d i k * Cir d k j) * n0 j))).
  2:{ intros k Hk.
      rewrite (sumn_ext _ (fun j => (Cfr d i k * Cifr d k j - Cr d i k * Cir d k j) * n0 j)
                 (fun j => Cfr d i k * (Cifr d k j * n0 j) - Cr d i k * (Cir d k j * n0 j)))
        by (intros; ring).
      rewrite sumn_minus, !sumn_scal. ring. }
  replace (bqv B * sumn (nn d) n0) with (bqv B * 1 * sumn (nn d) n0) by ring.
  apply diag_bound.
  - intros j Hj. eapply Rle_trans; [apply (B_data_sound d HCf HC i j Hi)|exact HB].
  - intros k Hk. pose proof (He k Hk). rewrite Rabs_right; lra.
  - exact Hn.
Qed.

Lemma float_matrices_contribution : forall d B K, wf_core d = true -> chk_float_data d B K = true ->
  forall (e n0 : nat -> R) i, (forall k, 0 <= e k <= 1) -> (forall j, 0 <= n0 j) -> (i < nn d)%nat ->
  Rabs (sumn (nn d) (fun k => Cfr d i k * (e k * sumn (nn d) (fun j => Cifr d k j * n0 j)))
        - sumn (nn d) (fun k => Cr d i k * (e k * sumn (nn d) (fun j => Cir d k j * n0 j))))
  <= bqv B * sumn (nn d) n0.
Proof.
  intros d B K Hwf Hchk e n0 i He Hn Hi.
  apply (float_matrices_contribution_lt d B K Hwf Hchk e n0 i); [intros k _; apply He|exact Hn|exact Hi].
Qed.

(* ---------- (D) matrices and decay constants together *)
Lemma float_data_error : forall d B K c, wf_core d = true -> chk_float_data d B K = true -> 0 <= c < 1 ->
  forall (delta : nat -> R) (n0 : nat -> R) t i, 0 <= t -> (forall k, Rabs (delta k) <= c) -> (forall j, 0 <= n0 j) -> (i < nn d)%nat ->
  Rabs (sumn (nn d) (fun k => Cfr d i k * (exp (- (lam (mur d) k * (1 + delta k)) * t) * sumn (nn d) (fun j => Cifr d k j * n0 j)))
        - Nt (nn d) (Cr d) (Cir d) (mur d) n0 t i)
  <= (bqv B + bqv K * (c / (exp 1 * (1 - c)))) * sumn (nn d) n0.
Proof.
  intros d B K c Hwf Hchk Hc delta n0 t i Ht Hd Hn Hi.
  destruct (chk_float_data_parts d B K Hchk) as [HCf [_ [_ HK]]].
  pose proof (wf_core_cert d Hwf) as Hcert.
  unfold Nt, w.
  set (e := fun k => exp (- lam (mur d) k * t)).
  set (ef := fun k => exp (- (lam (mur d) k * (1 + delta k)) * t)).
  set (S1 := sumn (nn d) (fun k => Cfr d i k * (ef k * sumn (nn d) (fun j => Cifr d k j * n0 j)))).
  set (S3 := sumn (nn d) (fun k => Cr d i k * (e k * sumn (nn d) (fun j => Cir d k j * n0 j)))).
  set (S2 := sumn (nn d) (fun k => Cfr d i k * (e k * sumn (nn d) (fun j => Cifr d k j * n0 j)))).
  assert (Ha : forall k, (k < nn d)%nat -> 0 <= lam (mur d) k * t).
  { intros k Hk. apply Rmult_le_pos; [|exact Ht]. unfold lam.
    apply Rmult_le_pos; [|apply (c_mu_nonneg _ _ _ _ _ _ _ Hcert k Hk)].
    left. rewrite <- ln_1. apply ln_increasing; lra. }
  assert (He : forall k, (k < nn d)%nat -> 0 <= e k <= 1).
  { intros k Hk. unfold e. split; [left; apply exp_pos|].
    replace (- lam (mur d) k * t) with (- (lam (mur d) k * t)) by ring.
    pose proof (one_minus_exp _ (Ha k Hk)). lra. }
  assert (H23 : Rabs (S2 - S3) <= bqv B * sumn (nn d) n0).
  { apply (float_matrices_contribution_lt d B K Hwf Hchk e n0 i He Hn Hi). }
  assert (H12 : Rabs (S1 - S2) <= bqv K * (c / (exp 1 * (1 - c))) * sumn (nn d) n0).
  { unfold S1, S2. rewrite <- sumn_minus.
    rewrite (sumn_ext _ _ (fun k => (ef k - e k) * sumn (nn d) (fun j => (Cfr d i k * Cifr d k j) * n0 j))).
    2:{ intros k Hk.
        rewrite (sumn_ext _ (fun j => (Cfr d i k * Cifr d k j) * n0 j)
                   (fun j => Cfr d i k * (Cifr d k j * n0 j))) by (intros; ring).
        rewrite sumn_scal. ring. }
    apply diag_bound.
    - intros j Hj. eapply Rle_trans; [|exact HK].
      eapply Rle_trans; [|apply (K_cond_sound d HCf i j Hi)].
      right. apply sumn_ext. intros k Hk. reflexivity.
    - intros k Hk. unfold ef, e.
      replace (- (lam (mur d) k * (1 + delta k)) * t) with (- ((lam (mur d) k * t) * (1 + delta k))) by ring.
      replace (- lam (mur d) k * t) with (- (lam (mur d) k * t)) by ring.
      apply lambda_perturbation; [apply Ha; exact Hk|apply Hd|lra].
    - exact Hn. }
  change (Rabs (S1 - S3) <= (bqv B + bqv K * (c / (exp 1 * (1 - c)))) * sumn (nn d) n0).
  replace (S1 - S3) with ((S1 - S2) + (S2 - S3)) by ring.
  eapply Rle_trans; [apply Rabs_triang|].
  rewrite Rmult_plus_distr_r, Rplus_comm. apply Rplus_le_compat; [exact H23|exact H12].
Qed.

Print Assumptions default_float_data_certificate.
Print Assumptions float_matrices_contribution.
Print Assumptions lambda_perturbation.
Print Assumptions float_data_error.
Print Assumptions default_data_error_below_5e12.
