(* The initial atoms held by the ancestors of nuclide i (i included): the nuclides listed in row i of the exact matrix C,
   whose sparsity pattern is the reachability closure of the decay links (certificate chk_pattern_closure).  Definitions only. *)
From Coq Require Import Reals NArith List Bool.
From RD Require Import Base Model.DecayR Model.Dataset.
Import ListNotations.
Local Open Scope R_scope.

Definition is_ancestor (d : dataset) (i j : nat) : bool :=
  existsb (N.eqb (N.of_nat j)) (row_cols_q (nth i (ds_c d) [])).
Definition anc_atoms (d : dataset) (n0 : nat -> R) (i : nat) : R :=
  sumn (nn d) (fun j => if is_ancestor d i j then n0 j else 0).
