(* C16 on the synthetic data set (fission branches, members in the states m n p q r x): the whole property as the same
   decidable check, discharged by the kernel for all of its roots. *)
From Coq Require Import List Bool.
From RD Require Import Base Model.Dataset Model.Synth Model.Digraph Model.DigraphD.
From RD.Gen.Synth Require Meta.
From RD Require Proofs.CertSynth.SynthGraphs.

Theorem synth_all_diagrams_correct : all_graphs_ok (graph_view Synth Meta.bf_reprs) = true.
Proof. exact (eq_ind _ (fun v => all_graphs_ok v = true) Proofs.CertSynth.SynthGraphs.synth_graphs_ok _
                     Proofs.CertSynth.SynthGraphs.synth_gv_eq). Qed.
