(* Constants that scale the error of the double-precision cumulative_decays for a data set (exact kernel computations):
   the reported value is  lambda_i * sum_k C_ik E'_k (C^-1 N0)_k  with  E'_k <= 1/lambda_k,  so every matrix term is
   weighted by  lambda_i / lambda_k = mu_i / mu_k  (0 for stable k, whose E'_k is 0):
     B_cum = max_ij sum_k | Cf_ik Cf^-1_kj - C_ik C^-1_kj | mu_i/mu_k      (stored data vs exact data)
     K_cum = max_ij sum_k | Cf_ik | | Cf^-1_kj | mu_i/mu_k                 (condition number)
     G_cum = max_i ( m_i * max_j sum_k | Cf_ik | | Cf^-1_kj | mu_i/mu_k )  (m_i rounded operations per term)
   Definitions only. *)
From Coq Require Import ZArith NArith QArith List Bool PrimFloat.
From Bignums Require Import BigQ.
From RD Require Import Base Lib.Sparse Lib.CertQ Model.Dataset Model.FloatData Model.RoundCert.
Import ListNotations.

Section Workers.
  Variable mus : list bq.
  Definition mu_n (k : nat) : bq := nth k mus BigQ.zero.
  Definition wq (i k : nat) : bq := if bq_is_zero (mu_n k) then BigQ.zero else BigQ.div (mu_n i) (mu_n k).
  Definition scale_row_w (i : nat) (r : row bq) : row bq :=
    map (fun kx => (fst kx, BigQ.mul (wq i (N.to_nat (fst kx))) (snd kx))) r.
  Fixpoint scale_rows (i : nat) (m : mat bq) : mat bq :=
    match m with [] => [] | r :: rest => scale_row_w i r :: scale_rows (S i) rest end.
End Workers.

Section WithDataset.
  Variable d : dataset.
  Definition Cfw : mat bq := let mus := muq d in scale_rows mus 0 (Cfq d).
  Definition Cw : mat bq := let mus := muq d in scale_rows mus 0 (Cq d).
  Definition B_cum : bq :=
    let A := Cfw in let Ai := Cifq d in let B := Cw in let Bi := Ciq d in
    fold_left bq_max (map (fun ab => row_max Ai Bi (fst ab) (snd ab)) (combine A B)) BigQ.zero.
  Definition K_cum : bq :=
    let A := Cfw in let Ai := Cifq d in
    fold_left bq_max (map (fun a => row_max Ai zero_mat a []) A) BigQ.zero.
  Definition G_cum : bq := let Ai := Cifq d in let A := Cfw in G_round_of Ai A.
  Definition chk_cum (Bc Kc Gc : bq) : bool := bq_leb B_cum Bc && bq_leb K_cum Kc && bq_leb G_cum Gc.
  (* the float decay constants are non-negative and below Lmax *)
  Definition chk_lam_range (lamf : list float) (Lmax : float) : bool :=
    forallb (fun f => PrimFloat.leb 0%float f && PrimFloat.leb f Lmax) lamf.
End WithDataset.

(* the integrated exponential with a (possibly perturbed) decay constant x *)
From Coq Require Import Reals.
Definition EcumP (st : bool) (x t : R) : R := if st then 0%R else ((1 - exp (- x * t)) / x)%R.
