"""pytr: a small, fail-closed Python-AST -> Gallina translator for the pure leaf functions.

Target language: coq/Lib/Py.v (error monad `res`, strings as list N, ints as Z).
Every supported construct is listed explicitly; anything else raises Unsupported, which aborts
the generation (a broken tie, reported by the checks).

Types:  'str' 'int' 'bool' 'liststr' 'pyval' 'names' 'tup:<t1>,<t2>' 'float' 'optstr' 'row'
"""
import ast


class Unsupported(Exception):
    pass


def coq_str_lit(s):
    if all(32 <= ord(c) < 127 and c != '"' for c in s):
        return f'(s2l "{s}")'
    return "[" + "; ".join(f"{ord(c)}%N" for c in s) + "]"


class Ctx:
    """translation context for one module"""

    def __init__(self):
        self.funcs = {}      # python name -> (coq name, [param types], ret type, extra leading coq args)
        self.signatures = {} # python name -> ([param names], {param name: default ast node})
        self.globals = {}    # python global name -> (coq term, type)
        self.fresh = 0

    def gensym(self, base="t"):
        self.fresh += 1
        return f"{base}_{self.fresh}"


EXN = {"ValueError", "NuclideStrError", "TypeError", "IndexError", "KeyError", "NotImplementedError"}


def ann_type(a):
    if a is None:
        raise Unsupported("parameter without annotation")
    s = ast.unparse(a)
    table = {"str": "str", "int": "int", "bool": "bool", "float": "float",
             "Union[str, int]": "pyval", "np.ndarray": "names", "List[str]": "liststr",
             "Optional[str]": "optstr", "Union[float, Expr]": "num"}
    if s in table:
        return table[s]
    raise Unsupported(f"annotation {s}")


def coq_type(t):
    if t.startswith("tup:"):
        a, b = t[4:].split(",")
        return f"({coq_type(a)} * {coq_type(b)})"
    return {"str": "str", "int": "Z", "bool": "bool", "liststr": "list str", "pyval": "pyval",
            "names": "list str", "optstr": "option str", "row": "list str", "num": "T",
            "dict_sn": "list (str * T)"}[t]


def is_self_call(e, names):
    """self.<name>() with no arguments, name in names"""
    return (isinstance(e, ast.Call) and isinstance(e.func, ast.Attribute) and isinstance(e.func.value, ast.Name)
            and e.func.value.id == "self" and e.func.attr in names and not e.args and not e.keywords)


CONVERTER_GETTERS = ("_get_unit_converter", "_get_quantity_converter")


class FuncTr:
    def __init__(self, ctx, fn, self_attrs=None, extra_params=None):
        self.ctx = ctx
        self.fn = fn
        self.self_attrs = self_attrs or {}     # attribute name -> (coq var, type)
        self.extra_params = extra_params or []

    # ------------------------------------------------------------ expressions
    def expr(self, e, env):
        """-> (binds, term, type).  binds = [(var, res_term)] to be bound before term is valid."""
        c = self.ctx
        if isinstance(e, ast.Constant):
            if isinstance(e.value, bool):
                return [], ("true" if e.value else "false"), "bool"
            if isinstance(e.value, str):
                return [], coq_str_lit(e.value), "str"
            if isinstance(e.value, int):
                return [], f"({e.value})%Z", "int"
            raise Unsupported(f"constant {e.value!r}")
        if isinstance(e, ast.Name):
            if e.id in env:
                return [], env[e.id][0], env[e.id][1]
            if e.id in c.globals:
                return [], c.globals[e.id][0], c.globals[e.id][1]
            raise Unsupported(f"unknown name {e.id}")
        if isinstance(e, ast.Attribute) and isinstance(e.value, ast.Name) and e.value.id in ("self", "cls"):
            if e.attr in self.self_attrs:
                return [], self.self_attrs[e.attr][0], self.self_attrs[e.attr][1]
            raise Unsupported(f"self.{e.attr}")
        if isinstance(e, ast.Attribute) and (is_self_call(e.value, CONVERTER_GETTERS) or
                                             (isinstance(e.value, ast.Name) and env.get(e.value.id, (None, None))[1] == "converter")):
            if e.attr in self.self_attrs:
                return [], self.self_attrs[e.attr][0], self.self_attrs[e.attr][1]
            raise Unsupported(f"converter attribute {e.attr}")
        if is_self_call(e, CONVERTER_GETTERS):
            return [], "tt", "converter"
        if isinstance(e, ast.DictComp):
            return self.dictcomp(e, env)
        if isinstance(e, ast.Dict) and not e.keys:
            return [], "[]", "dict_sn"
        if isinstance(e, ast.JoinedStr):
            binds, parts = [], []
            for v in e.values:
                if isinstance(v, ast.Constant):
                    parts.append(coq_str_lit(v.value))
                elif isinstance(v, ast.FormattedValue) and v.conversion == -1 and v.format_spec is None:
                    b, t, ty = self.expr(v.value, env)
                    binds += b
                    if ty == "str":
                        parts.append(t)
                    elif ty == "int":
                        parts.append(f"(s_of_int {t})")
                    else:
                        raise Unsupported(f"f-string of {ty}")
                else:
                    raise Unsupported("f-string conversion/format")
            return binds, "(" + " ++ ".join(parts or ["[]"]) + ")%list", "str"
        if isinstance(e, ast.UnaryOp) and isinstance(e.op, ast.Not):
            b, t, ty = self.expr(e.operand, env)
            self.need(ty, "bool")
            return b, f"(negb {t})", "bool"
        if isinstance(e, ast.UnaryOp) and isinstance(e.op, ast.USub):
            b, t, ty = self.expr(e.operand, env)
            self.need(ty, "int")
            return b, f"(- {t})%Z", "int"
        if isinstance(e, ast.BoolOp):
            op = "andb" if isinstance(e.op, ast.And) else "orb"
            binds, term, _ = self.expr_bool(e.values[0], env)
            for v in e.values[1:]:
                b2, t2, _ = self.expr_bool(v, env)
                if b2:
                    # right operand may raise: evaluate it only if needed
                    inner = self.wrap(b2, f"OK {t2}")
                    nm = c.gensym("sc")
                    if op == "andb":
                        binds = binds + [(nm, f"(if {term} then {inner} else OK false)")]
                    else:
                        binds = binds + [(nm, f"(if {term} then OK true else {inner})")]
                    term = nm
                else:
                    term = f"({op} {term} {t2})"
            return binds, term, "bool"
        if isinstance(e, ast.IfExp):
            bc, tc, _ = self.expr_bool(e.test, env)
            b1, t1, ty1 = self.expr(e.body, env)
            b2, t2, ty2 = self.expr(e.orelse, env)
            if ty1 != ty2:
                raise Unsupported(f"if-expression branches of types {ty1}/{ty2}")
            if b1 or b2:
                nm = c.gensym("ife")
                return bc + [(nm, f"(if {tc} then {self.wrap(b1, 'OK ' + t1)} else {self.wrap(b2, 'OK ' + t2)})")], nm, ty1
            return bc, f"(if {tc} then {t1} else {t2})", ty1
        if isinstance(e, ast.Compare):
            if len(e.ops) != 1:
                raise Unsupported("chained comparison")
            return self.compare(e.left, e.ops[0], e.comparators[0], env)
        if isinstance(e, ast.BinOp):
            bl, tl, tyl = self.expr(e.left, env)
            br, tr, tyr = self.expr(e.right, env)
            if tyl == tyr == "int":
                sym = {ast.Add: "+", ast.Sub: "-", ast.Mult: "*"}.get(type(e.op))
                if sym is None:
                    raise Unsupported("int operator " + type(e.op).__name__)
                return bl + br, f"({tl} {sym} {tr})%Z", "int"
            if "num" in (tyl, tyr) and {tyl, tyr} <= {"num", "int"}:
                fn = {ast.Add: "nadd", ast.Sub: "nsub", ast.Mult: "nmul", ast.Div: "ndiv"}.get(type(e.op))
                if fn is None:
                    raise Unsupported("numeric operator " + type(e.op).__name__)
                if tyl == "int":
                    tl = f"(nofz ops {tl})"
                if tyr == "int":
                    tr = f"(nofz ops {tr})"
                return bl + br, f"({fn} ops {tl} {tr})", "num"
            if tyl == tyr == "str" and isinstance(e.op, ast.Add):
                return bl + br, f"({tl} ++ {tr})%list", "str"
            raise Unsupported(f"binary operator on {tyl},{tyr}")
        if isinstance(e, ast.Subscript):
            return self.subscript(e, env)
        if isinstance(e, ast.Call):
            return self.call(e, env)
        if isinstance(e, ast.Tuple) and len(e.elts) == 2:
            b1, t1, ty1 = self.expr(e.elts[0], env)
            b2, t2, ty2 = self.expr(e.elts[1], env)
            return b1 + b2, f"({t1}, {t2})", f"tup:{ty1},{ty2}"
        raise Unsupported("expression " + ast.dump(e)[:120])

    def dictcomp(self, e, env):
        """{k: f(k, v) for k, v in D.items()}  (key kept) -> dmap_res"""
        if len(e.generators) != 1:
            raise Unsupported("dict comprehension form")
        g = e.generators[0]
        if g.ifs or g.is_async or not (isinstance(g.target, ast.Tuple) and len(g.target.elts) == 2
                                       and all(isinstance(x, ast.Name) for x in g.target.elts)):
            raise Unsupported("dict comprehension form")
        it = g.iter
        if not (isinstance(it, ast.Call) and isinstance(it.func, ast.Attribute) and it.func.attr == "items" and not it.args):
            raise Unsupported("dict comprehension iterable")
        kname, vname = g.target.elts[0].id, g.target.elts[1].id
        if not (isinstance(e.key, ast.Name) and e.key.id == kname):
            raise Unsupported("dict comprehension key is not the iteration key")
        bd, td, tyd = self.expr(it.func.value, env)
        self.need(tyd, "dict_sn")
        kv, vv = self.ctx.gensym(kname), self.ctx.gensym(vname)
        env2 = dict(env)
        env2[kname] = (kv, "str")
        env2[vname] = (vv, "num")
        bv, tv, tyv = self.expr(e.value, env2)
        self.need(tyv, "num")
        nm = self.ctx.gensym("dc")
        return bd + [(nm, f"(dmap_res (fun {kv} {vv} => {self.wrap(bv, 'OK ' + tv)}) {td})")], nm, "dict_sn"

    def expr_bool(self, e, env):
        b, t, ty = self.expr(e, env)
        self.need(ty, "bool")
        return b, t, ty

    def need(self, ty, want):
        if ty != want:
            raise Unsupported(f"expected {want}, got {ty}")

    def wrap(self, binds, body):
        out = body
        for nm, rt in reversed(binds):
            out = f"(bind {rt} (fun {nm} => {out}))"
        return out

    def compare(self, l, op, r, env):
        bl, tl, tyl = self.expr(l, env)
        neg = isinstance(op, (ast.NotEq, ast.NotIn))
        if isinstance(op, (ast.In, ast.NotIn)):
            if isinstance(r, ast.Set):
                vals = []
                for x in r.elts:
                    bx, tx, tyx = self.expr(x, env)
                    if bx or tyx != tyl or tyl != "int":
                        raise Unsupported("set literal membership")
                    vals.append(f"(Z.eqb {tl} {tx})")
                t = "(" + " || ".join(vals) + ")"
                return bl, (f"(negb {t})" if neg else t), "bool"
            br, tr, tyr = self.expr(r, env)
            if tyl == "str" and tyr in ("liststr", "names"):
                t = f"(l_mem_str {tl} {tr})"
            elif tyl == "int" and tyr == "dict_zs":
                t = f"(d_mem_zs {tr} {tl})"
            elif tyl == "str" and tyr == "dict_sz":
                t = f"(d_mem_sz {tr} {tl})"
            elif tyl == "str" and tyr == "dict_sn":
                t = f"(d_mem_sn {tr} {tl})"
            else:
                raise Unsupported(f"membership {tyl} in {tyr}")
            return bl + br, (f"(negb {t})" if neg else t), "bool"
        br, tr, tyr = self.expr(r, env)
        if tyl == "num" and tyr == "int" and tr == "(0)%Z" and isinstance(op, (ast.Eq, ast.NotEq)):
            t = f"(niszero ops {tl})"
            return bl + br, (f"(negb {t})" if neg else t), "bool"
        if tyl != tyr:
            raise Unsupported(f"comparison between {tyl} and {tyr}")
        if tyl == "str" and isinstance(op, (ast.Eq, ast.NotEq)):
            t = f"(s_eqb {tl} {tr})"
        elif tyl == "int":
            fn = {ast.Eq: "Z.eqb", ast.NotEq: "Z.eqb", ast.Lt: "Z.ltb", ast.LtE: "Z.leb",
                  ast.Gt: "Z.gtb", ast.GtE: "Z.geb"}.get(type(op))
            if fn is None:
                raise Unsupported("int comparison")
            t = f"({fn} {tl} {tr})"
        else:
            raise Unsupported(f"comparison on {tyl}")
        return bl + br, (f"(negb {t})" if neg else t), "bool"

    def subscript(self, e, env):
        c = self.ctx
        bv, tv, tyv = self.expr(e.value, env)
        sl = e.slice
        if isinstance(sl, ast.Slice):
            if sl.upper is not None or sl.step is not None or sl.lower is None:
                raise Unsupported("slice form")
            bs, ts, tys = self.expr(sl.lower, env)
            self.need(tys, "int")
            if tyv not in ("str", "liststr", "row"):
                raise Unsupported(f"slice of {tyv}")
            return bv + bs, f"(l_slice_from {tv} {ts})", tyv
        bs, ts, tys = self.expr(sl, env)
        nm = c.gensym("ix")
        if tyv == "str" and tys == "int":
            return bv + bs + [(nm, f"(s_get {tv} {ts})")], nm, "str"
        if tyv in ("liststr", "row") and tys == "int":
            return bv + bs + [(nm, f"(l_get {tv} {ts})")], nm, "str"
        if tyv == "dict_zs" and tys == "int":
            return bv + bs + [(nm, f"(d_get_zs {tv} {ts})")], nm, "str"
        if tyv == "dict_sz" and tys == "str":
            return bv + bs + [(nm, f"(d_get_sz {tv} {ts})")], nm, "int"
        if tyv == "dict_sn" and tys == "str":
            return bv + bs + [(nm, f"(d_get_sn {tv} {ts})")], nm, "num"
        raise Unsupported(f"subscript {tyv}[{tys}]")

    def call(self, e, env):
        c = self.ctx
        f = e.func
        # ---- calls routed to translated functions: converter methods, self.method(...)
        routed = None
        if isinstance(f, ast.Attribute) and (is_self_call(f.value, CONVERTER_GETTERS) or
                                             (isinstance(f.value, ast.Name) and env.get(f.value.id, (None, None))[1] == "converter")):
            routed = f.attr
        elif isinstance(f, ast.Attribute) and isinstance(f.value, ast.Name) and f.value.id == "self" \
                and ("self." + f.attr) in c.funcs:
            routed = "self." + f.attr
        if routed is not None:
            return self.call_registered(routed, e, env)
        if isinstance(f, ast.Name) and f.id == "sum" and len(e.args) == 1 and not e.keywords:
            a = e.args[0]
            if isinstance(a, ast.Call) and isinstance(a.func, ast.Attribute) and a.func.attr == "values" and not a.args:
                b, t, ty = self.expr(a.func.value, env)
                self.need(ty, "dict_sn")
                return b, f"(dsum ops {t})", "num"
            raise Unsupported("sum form")
        if isinstance(f, ast.Name) and f.id == "float" and len(e.args) == 1 and not e.keywords:
            b, t, ty = self.expr(e.args[0], env)
            self.need(ty, "num")
            return b, f"(nfloat ops {t})", "num"
        if e.keywords and not (isinstance(f, ast.Name) and f.id in c.funcs):
            raise Unsupported("keyword arguments")
        # ---- methods
        if isinstance(f, ast.Attribute):
            m = f.attr
            # "".join(x.split())  and  "".join([n for n in s if n.isdigit()])
            if m == "join" and isinstance(f.value, ast.Constant) and f.value.value == "" and len(e.args) == 1:
                a = e.args[0]
                if isinstance(a, ast.Call) and isinstance(a.func, ast.Attribute) and a.func.attr == "split" \
                        and not a.args:
                    b, t, ty = self.expr(a.func.value, env)
                    self.need(ty, "str")
                    return b, f"(s_remove_ws {t})", "str"
                if isinstance(a, ast.ListComp) and len(a.generators) == 1:
                    g = a.generators[0]
                    if isinstance(g.target, ast.Name) and isinstance(a.elt, ast.Name) and a.elt.id == g.target.id \
                            and len(g.ifs) == 1 and not g.is_async \
                            and ast.unparse(g.ifs[0]) == f"{g.target.id}.isdigit()":
                        b, t, ty = self.expr(g.iter, env)
                        self.need(ty, "str")
                        return b, f"(s_filter_digits {t})", "str"
                raise Unsupported("join form")
            b, t, ty = self.expr(f.value, env)
            args = [self.expr(a, env) for a in e.args]
            ab = [x for a in args for x in a[0]]
            at = [a[1] for a in args]
            aty = [a[2] for a in args]
            if ty == "str":
                if m == "replace" and aty == ["str", "str", "int"] and at[2] == "(1)%Z":
                    return b + ab, f"(s_replace_first {at[0]} {at[1]} {t})", "str"
                if m == "replace" and aty == ["str", "str"]:
                    return b + ab, f"(s_replace_all {at[0]} {at[1]} {t})", "str"
                if m in ("isalnum", "isnumeric", "isdigit", "isascii") and not args:
                    return b, f"(s_{m} {t})", "bool"
                if m in ("capitalize", "lower") and not args:
                    return b, f"(s_{m} {t})", "str"
                if m == "strip" and aty == ["str"]:
                    return b + ab, f"(s_strip {at[0]} {t})", "str"
                if m == "split" and aty == ["str"]:
                    nm = c.gensym("sp")
                    return b + ab + [(nm, f"(s_split_on {at[0]} {t})")], nm, "liststr"
            if ty == "liststr" and m == "index" and aty == ["str"]:
                nm = c.gensym("li")
                return b + ab + [(nm, f"(l_index_str {t} {at[0]})")], nm, "int"
            raise Unsupported(f"method {ty}.{m}({aty})")
        if not isinstance(f, ast.Name):
            raise Unsupported("call form")
        name = f.id
        if name == "len" and len(e.args) == 1:
            b, t, ty = self.expr(e.args[0], env)
            if ty in ("str", "liststr", "row"):
                return b, f"(Z.of_nat (length {t}))", "int"
            raise Unsupported(f"len of {ty}")
        if name == "int" and len(e.args) == 1:
            a = e.args[0]
            if isinstance(a, ast.BinOp) and isinstance(a.op, ast.Div):
                bl, tl, tyl = self.expr(a.left, env)
                br, tr, tyr = self.expr(a.right, env)
                self.need(tyl, "int")
                self.need(tyr, "int")
                nm = c.gensym("dv")
                return bl + br + [(nm, f"(int_truediv {tl} {tr})")], nm, "int"
            b, t, ty = self.expr(a, env)
            if ty == "str":
                nm = c.gensym("iv")
                return b + [(nm, f"(s_int {t})")], nm, "int"
            raise Unsupported(f"int() of {ty}")
        if name in c.funcs:
            return self.call_registered(name, e, env)
        raise Unsupported(f"call to {name}")

    def call_registered(self, name, e, env):
        c = self.ctx
        if name not in c.funcs:
            raise Unsupported(f"call to untranslated {name}")
        if True:
            cname, ptypes, rtype, extra = c.funcs[name]
            pnames, defaults = c.signatures.get(name, (None, {}))
            argnodes = list(e.args)
            if e.keywords or len(argnodes) != len(ptypes):
                if pnames is None:
                    raise Unsupported(f"arity of {name}")
                kw = {k.arg: k.value for k in e.keywords}
                full = []
                for i, pn in enumerate(pnames):
                    if i < len(argnodes):
                        full.append(argnodes[i])
                    elif pn in kw:
                        full.append(kw.pop(pn))
                    elif pn in defaults:
                        full.append(defaults[pn])
                    else:
                        raise Unsupported(f"missing argument {pn} of {name}")
                if kw:
                    raise Unsupported(f"unknown keyword for {name}")
                argnodes = full
            binds, terms = [], []
            for a, pt in zip(argnodes, ptypes):
                b, t, ty = self.expr(a, env)
                if ty != pt and not (pt == "pyval" and ty in ("str", "int")):
                    raise Unsupported(f"argument type {ty} for {name} (wants {pt})")
                if pt == "pyval" and ty == "str":
                    t = f"(VStr {t})"
                if pt == "pyval" and ty == "int":
                    t = f"(VInt {t})"
                binds += b
                terms.append(t)
            if rtype.startswith("pure:"):
                return binds, f"({cname} {' '.join(extra + terms)})".replace("  ", " "), rtype[5:]
            nm = c.gensym("r")
            return binds + [(nm, f"({cname} {' '.join(extra + terms)})")], nm, rtype

    # ------------------------------------------------------------ statements
    def block(self, stmts, env, cont=None):
        """Translate a statement list to a term of type res <ret>.
        cont: None for function level (must end in return/raise), or a list of variable names whose
        values are returned as a tuple when the block falls through (used for if-merges)."""
        if not stmts:
            if cont is None:
                raise Unsupported("function may fall off its end")
            return "OK (" + ", ".join(env[v][0] for v in cont) + ")" if len(cont) != 1 else f"OK {env[cont[0]][0]}"
        s, rest = stmts[0], stmts[1:]
        if isinstance(s, ast.Expr) and isinstance(s.value, ast.Constant) and isinstance(s.value.value, str):
            return self.block(rest, env, cont)
        if isinstance(s, ast.Return):
            if s.value is None:
                raise Unsupported("bare return")
            b, t, ty = self.expr(s.value, env)
            self.ret_types.add(ty)
            return self.wrap(b, f"OK {t}")
        if isinstance(s, ast.Raise):
            exc = s.exc
            nm = exc.func.id if isinstance(exc, ast.Call) and isinstance(exc.func, ast.Name) else \
                exc.id if isinstance(exc, ast.Name) else None
            if nm not in EXN:
                raise Unsupported("raise of " + ast.unparse(exc)[:60])
            if s.cause is not None and not (isinstance(s.cause, ast.Constant) and s.cause.value is None):
                raise Unsupported("raise ... from")
            return f"Raise {nm}"
        if isinstance(s, (ast.Assign, ast.AnnAssign)):
            if isinstance(s, ast.Assign):
                if len(s.targets) != 1:
                    raise Unsupported("multiple assignment targets")
                tgt, val = s.targets[0], s.value
            else:
                tgt, val = s.target, s.value
                if val is None:
                    return self.block(rest, env, cont)     # bare annotation
            if isinstance(val, ast.Dict) and not val.keys and isinstance(tgt, ast.Name):
                env2 = dict(env)
                env2[tgt.id] = ("[]", "dict_sn")
                return self.block(rest, env2, cont)
            b, t, ty = self.expr(val, env)
            env2 = dict(env)
            if isinstance(tgt, ast.Name):
                v = self.ctx.gensym(tgt.id)
                env2[tgt.id] = (v, ty)
                return self.wrap(b, f"(let {v} := {t} in\n  {self.block(rest, env2, cont)})")
            if isinstance(tgt, ast.Tuple) and len(tgt.elts) == 2 and all(isinstance(x, ast.Name) for x in tgt.elts) \
                    and ty.startswith("tup:"):
                t1, t2 = ty[4:].split(",")
                v1, v2 = self.ctx.gensym(tgt.elts[0].id), self.ctx.gensym(tgt.elts[1].id)
                env2[tgt.elts[0].id] = (v1, t1)
                env2[tgt.elts[1].id] = (v2, t2)
                return self.wrap(b, f"(let '({v1}, {v2}) := {t} in\n  {self.block(rest, env2, cont)})")
            raise Unsupported("assignment target")
        if isinstance(s, ast.AugAssign) and isinstance(s.target, ast.Name):
            fake = ast.Assign(targets=[s.target], value=ast.BinOp(left=ast.Name(id=s.target.id, ctx=ast.Load()),
                                                                   op=s.op, right=s.value))
            return self.block([fake] + rest, env, cont)
        if isinstance(s, ast.For):
            # D = {} ... for k, v in X.items(): <stmts>; D[k] = e      ->  D := dmap_res (fun k v => ...) X
            if s.orelse or not (isinstance(s.target, ast.Tuple) and len(s.target.elts) == 2
                                and all(isinstance(x, ast.Name) for x in s.target.elts)):
                raise Unsupported("for loop form")
            it = s.iter
            if not (isinstance(it, ast.Call) and isinstance(it.func, ast.Attribute) and it.func.attr == "items" and not it.args):
                raise Unsupported("for loop iterable")
            last = s.body[-1]
            kname, vname = s.target.elts[0].id, s.target.elts[1].id
            if not (isinstance(last, ast.Assign) and len(last.targets) == 1 and isinstance(last.targets[0], ast.Subscript)
                    and isinstance(last.targets[0].value, ast.Name) and isinstance(last.targets[0].slice, ast.Name)
                    and last.targets[0].slice.id == kname):
                raise Unsupported("for loop body does not end in D[k] = e")
            dname = last.targets[0].value.id
            if dname not in env or env[dname] != ("[]", "dict_sn"):
                raise Unsupported("for loop target dict is not a fresh {}")
            for n in ast.walk(ast.Module(body=s.body[:-1] + [ast.Expr(last.value)], type_ignores=[])):
                if isinstance(n, ast.Name) and n.id == dname:
                    raise Unsupported("for loop body reads the dict under construction")
            bd, td, tyd = self.expr(it.func.value, env)
            self.need(tyd, "dict_sn")
            kv, vv = self.ctx.gensym(kname), self.ctx.gensym(vname)
            env2 = dict(env)
            env2[kname] = (kv, "str")
            env2[vname] = (vv, "num")
            saved = self.ret_types
            self.ret_types = set()
            body = self.block(s.body[:-1] + [ast.Return(value=last.value)], env2, None)
            self.ret_types = saved
            nv = self.ctx.gensym(dname)
            env3 = dict(env)
            env3[dname] = (nv, "dict_sn")
            return self.wrap(bd, f"(bind (dmap_res (fun {kv} {vv} => {body}) {td}) (fun {nv} =>\n  {self.block(rest, env3, cont)}))")
        if isinstance(s, ast.If):
            # isinstance dispatch on a pyval
            iso = self.isinstance_chain(s, env)
            if iso is not None:
                return iso(rest, cont)
            bc, tc, _ = self.expr_bool(s.test, env)
            body_term = self.terminates(s.body)
            else_term = self.terminates(s.orelse)
            if body_term and else_term and rest:
                raise Unsupported("dead code after if/else that always leaves")
            # a branch that falls through continues with the rest of the block (the rest is duplicated)
            tb = self.block(s.body if body_term else s.body + rest, env, cont)
            te = self.block(s.orelse if else_term else s.orelse + rest, env, cont)
            return self.wrap(bc, f"(if {tc} then {tb}\n  else {te})")
        raise Unsupported("statement " + type(s).__name__ + ": " + ast.unparse(s)[:80])

    def isinstance_chain(self, s, env):
        """if isinstance(v, int): A elif isinstance(v, str): B else: C   on a pyval variable v"""
        def test(n):
            if isinstance(n, ast.Call) and isinstance(n.func, ast.Name) and n.func.id == "isinstance" \
                    and len(n.args) == 2 and isinstance(n.args[0], ast.Name) and isinstance(n.args[1], ast.Name):
                return n.args[0].id, n.args[1].id
            return None
        t1 = test(s.test)
        if t1 is None:
            return None
        v, k1 = t1
        if v not in env or env[v][1] != "pyval":
            raise Unsupported("isinstance on a non-union value")
        if len(s.orelse) != 1 or not isinstance(s.orelse[0], ast.If):
            raise Unsupported("isinstance chain shape")
        s2 = s.orelse[0]
        t2 = test(s2.test)
        if t2 is None or t2[0] != v or {k1, t2[1]} != {"int", "str"}:
            raise Unsupported("isinstance chain shape")
        branches = {k1: s.body, t2[1]: s2.body, "other": s2.orelse}

        def build(rest, cont):
            out = {}
            for k, body in branches.items():
                env2 = dict(env)
                if k == "int":
                    env2[v] = ("z_" + v, "int")
                elif k == "str":
                    env2[v] = ("s_" + v, "str")
                if self.terminates(body):
                    out[k] = self.block(body, env2, cont)
                else:
                    # fall through into rest with the variables assigned in the branch
                    out[k] = self.block(body + rest, env2, cont)
            return (f"(match {env[v][0]} with\n  | VInt z_{v} => {out['int']}\n  | VStr s_{v} => {out['str']}\n"
                    f"  | VOther => {out['other']}\n  end)")
        return build

    def terminates(self, stmts):
        if not stmts:
            return False
        last = stmts[-1]
        if isinstance(last, (ast.Return, ast.Raise)):
            return True
        if isinstance(last, ast.If) and last.orelse:
            return self.terminates(last.body) and self.terminates(last.orelse)
        return False

    def assigned(self, stmts):
        out = set()
        for s in stmts:
            if isinstance(s, ast.Assign):
                for t in s.targets:
                    for n in ast.walk(t):
                        if isinstance(n, ast.Name):
                            out.add(n.id)
            elif isinstance(s, (ast.AugAssign, ast.AnnAssign)) and isinstance(s.target, ast.Name):
                out.add(s.target.id)
            elif isinstance(s, ast.If):
                out |= self.assigned(s.body) | self.assigned(s.orelse)
            elif isinstance(s, (ast.Raise, ast.Return, ast.Expr)):
                pass
            else:
                raise Unsupported("statement inside merged if: " + type(s).__name__)
        return out

    def branch_types(self, stmts, env, names):
        env2 = dict(env)
        saved = self.ctx.fresh
        for s in stmts:
            if isinstance(s, ast.Assign) and len(s.targets) == 1:
                _, _, ty = self.expr(s.value, env2)
                tg = s.targets[0]
                if isinstance(tg, ast.Name):
                    env2[tg.id] = ("_", ty)
                elif isinstance(tg, ast.Tuple) and ty.startswith("tup:"):
                    a, b = ty[4:].split(",")
                    env2[tg.elts[0].id] = ("_", a)
                    env2[tg.elts[1].id] = ("_", b)
            elif isinstance(s, ast.AugAssign):
                pass
            elif isinstance(s, ast.If):
                tys = self.branch_types(s.body, env2, sorted(self.assigned([s])))
                for v, ty in zip(sorted(self.assigned([s])), tys):
                    env2[v] = ("_", ty)
        self.ctx.fresh = saved
        return [env2[v][1] for v in names]

    # ------------------------------------------------------------ whole function
    def translate(self, coq_name, params=None, ret=None):
        fn = self.fn
        env = {}
        plist = []
        args = fn.args
        if args.vararg or args.kwarg or args.kwonlyargs:
            raise Unsupported("parameter form")
        for a in args.args:
            if a.arg in ("self", "cls"):
                continue
            ty = (params or {}).get(a.arg) or ann_type(a.annotation)
            env[a.arg] = ("p_" + a.arg, ty)
            plist.append(("p_" + a.arg, ty))
        self.ret_types = set()
        body = self.block(fn.body, env, None)
        rts = {t for t in self.ret_types}
        if len(rts) > 1:
            raise Unsupported(f"several return types {rts}")
        rt = ret or (rts.pop() if rts else "str")
        ptxt = " ".join(f"({n} : {coq_type(t)})" for n, t in self.extra_params + plist)
        text = f"Definition {coq_name} {ptxt} : res ({coq_type(rt)}) :=\n  {body}.\n"
        return text, [t for _, t in plist], rt
