(* Bit-level model (primitive floats) of one entry of  ((C @ E) @ C^-1) @ N0  as SciPy 1.x evaluates it:
   csr_matmat accumulates sums[j] += v * B[k,j] over the stored entries of the left operand's row (zeros are pruned
   from the result, and the result row comes out in linked-list order), csr_matvec accumulates sum += A[i,j] * x[j]
   over the stored row.  The two row orders of the intermediate products are INPUTS (observed from the running
   SciPy by the harness); the error theorem holds for every order that passes [orders_okb].  Definitions only. *)
From Coq Require Import ZArith NArith List Bool PrimFloat FloatOps SpecFloat.
From RD Require Import Base.
Import ListNotations.

Fixpoint fget (r : frow) (k : N) : float :=
  match r with [] => 0%float | (a, v) :: rest => if N.eqb a k then v else fget rest k end.
Definition frow_of (m : list frow) (i : N) : frow := nth (N.to_nat i) m [].
Definition stored (r : frow) (j : N) : bool := existsb (fun kv => N.eqb (fst kv) j) r.
Definition fcols (r : frow) : list N := map fst r.

Definition pf_dot (l : list (float * float)) : float :=
  fold_left (fun s ax => (s + fst ax * snd ax)%float) l 0%float.

Fixpoint nodupb (l : list N) : bool :=
  match l with [] => true | x :: r => negb (existsb (N.eqb x) r) && nodupb r end.
Definition memN (x : N) (l : list N) : bool := existsb (N.eqb x) l.
(* no row stores a column twice (then "the stored entry" and "the sum of the stored entries" coincide) *)
Definition rows_nodup (m : list frow) : bool := forallb (fun r => nodupb (fcols r)) m.
Definition fzero (x : float) : bool := PrimFloat.eqb x 0%float.        (* +0 or -0 *)
Definition ffinite (x : float) : bool :=
  match Prim2SF x with S754_finite _ _ _ | S754_zero _ => true | _ => false end.

Section Eval.
  Variables cf cif : list frow.
  Variable e : frow.                 (* the stored diagonal of E at the indices in use; every other entry is +0 *)
  Variable n0 : frow.                (* the initial vector at the inventory's nuclides; every other entry is +0 *)
  Variable i : N.
  Variable ce_order : list N.        (* row i of C @ E as stored by SciPy *)
  Variable m_order : list N.         (* row i of (C @ E) @ C^-1 as stored by SciPy *)

  Definition pf_CE (k : N) : float := (fget (frow_of cf i) k * fget e k)%float.
  Definition pf_ks (j : N) : list N := filter (fun k => stored (frow_of cif k) j) ce_order.
  Definition pf_Mhat (j : N) : float := pf_dot (map (fun k => (pf_CE k, fget (frow_of cif k) j)) (pf_ks j)).
  Definition pf_yhat : float := pf_dot (map (fun j => (pf_Mhat j, fget n0 j)) m_order).

  (* every j that can receive a contribution in row i *)
  Definition m_candidates : list N := flat_map (fun k => fcols (frow_of cif k)) ce_order.

  Definition orders_okb : bool :=
    let n := N.of_nat (length cf) in
    let rowi := frow_of cf i in
    N.ltb i n && Nat.eqb (length cif) (length cf) &&
    nodupb (fcols rowi) && nodupb (fcols e) && nodupb (fcols n0) &&
    forallb (fun kv => N.ltb (fst kv) n && PrimFloat.leb 0%float (snd kv) && PrimFloat.leb (snd kv) 1%float) e &&
    forallb (fun kv => N.ltb (fst kv) n && ffinite (snd kv)) n0 &&
    (* C @ E: a duplicate-free selection of the stored row; what is left out is exactly zero *)
    nodupb ce_order && forallb (fun k => memN k (fcols rowi)) ce_order &&
    forallb (fun k => memN k ce_order || fzero (pf_CE k)) (fcols rowi) &&
    (* (C @ E) @ C^-1: a duplicate-free selection of the reachable columns; what is left out is zero or meets a zero of N0 *)
    nodupb m_order && forallb (fun j => N.ltb j n && memN j m_candidates) m_order &&
    forallb (fun j => memN j m_order || fzero (pf_Mhat j) || fzero (fget n0 j)) m_candidates.
End Eval.
