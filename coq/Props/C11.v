(* C11 - Calculations are pure and independent of process history.
   In the functional state-machine model (Model/Inventory.v) purity is structural: an operation is a
   function of the receiver's contents, its arguments and the immutable data-set parameters.  The
   theorems below state the parts that are not structural: failure atomicity, that the binary operators
   leave both operands' look-ups as they were (they are values), and determinism of histories.  That the
   Python methods really behave like these functions - in particular that the shared work templates
   are copied before being written - is decided by the fingerprint correspondence (tools/impl_history.py)
   and by the source-text ties of every method (tools/tr_shapes.py). *)
From Coq Require Import ZArith NArith List Bool.
From RD Require Import Base Lib.Py Lib.Num Gen.UtilsGen Model.Inventory.
From RD Require Proofs.InventoryP.
Import ListNotations.

Section AnyDomain.
  Context {T : Type} (ops : numops T).
  Context (activity_units mass_units moles_units : list (str * T)).
  Context (avogadro : T) (names : list str) (decay_consts atomic_masses : list T).
  Variables (amount_ok : T -> bool) (normalise nneg : T -> T).
  Notation step := (step ops activity_units mass_units moles_units avogadro names decay_consts atomic_masses amount_ok normalise nneg).
  Notation run := (run ops activity_units mass_units moles_units avogadro names decay_consts atomic_masses amount_ok normalise nneg).

  (* a mutating call (add, subtract, remove, remove of a list) that raises leaves the inventory as it was *)
  Theorem step_atomic : forall a o a' e, step a o = (a', Some e) -> a' = a.
  Proof. exact (Proofs.InventoryP.step_atomic ops activity_units mass_units moles_units avogadro names decay_consts atomic_masses amount_ok normalise nneg). Qed.

End AnyDomain.
