"""Random well-formed data sets (C01-C04 quantifier 'all well-formed datasets'): each is written in the library's file format by
tools/synth_dataset.py (random forward network, every unit, all states, one of four year lengths), loaded by the library with
load_dataset, translated by tools/tr_data.py into a scratch directory, certified by the SAME kernel checks (wf_core, the pattern
checks, the float-data check), and then used for decay / cumulative-decay requests against the SAME exact model."""
import glob, json, os, shutil
import common as C
import coqcases as Q
import corr_decay as D

MODS1 = ["Names", "Meta", "CF", "CIF", "S18", "S19"]
MODS3 = ["C18", "C19", "CI18", "CI19"]


def prepare(seed):
    """-> (dir, gen_dir) with compiled Gen modules, or raises"""
    d = os.path.join(C.SCRATCH, f"rand_{seed}")
    shutil.rmtree(d, ignore_errors=True)
    rc, out = C.sh([C.PY, os.path.join(C.TOOLS, "synth_dataset.py"), d, str(seed)], timeout=600)
    if rc != 0:
        raise RuntimeError("generator failed: " + out[-500:])
    gen = os.path.join(d, "Gen")
    rc, out = C.sh([C.PY, os.path.join(C.TOOLS, "tr_data.py"), "--dir", d, "--module", "Rand", "--out", gen], timeout=600)
    if rc != 0:
        raise RuntimeError("tr_data failed: " + out[-500:])
    shards = sorted(os.path.basename(f)[:-2] for f in glob.glob(os.path.join(gen, "M_*.v")))
    for m in MODS1 + shards + MODS3:
        rc, out = C.sh(["coqc", "-Q", C.COQ, "RD", "-Q", gen, "RD.Gen.Rand", os.path.join(gen, m + ".v")], timeout=600)
        if rc != 0:
            raise RuntimeError(f"compiling generated module {m} failed: " + out[-500:])
    return d, gen


PRE = ("From Coq Require Import ZArith NArith List PrimFloat.\nImport ListNotations.\n"
       "From RD Require Import Base Lib.CertQ Model.Dataset Model.DecayI Model.DecayCheck Model.FloatData Model.RoundCert Gen.Tables.\n"
       "From RD.Gen.Rand Require Names Meta CF CIF S19 C19 CI19.\n"
       "Definition Rand : dataset := DS Names.names Meta.hldata Meta.progeny Meta.bfs Meta.modes Meta.masses_f Meta.year_f Meta.year_dec\n"
       "  CF.cf_rows CIF.cif_rows S19.mu S19.masses_e S19.year_e C19.c_rows CI19.ci_rows.\n")


def random_dataset_stream(rng, nsets, streams, viol, samples, cum=False, hp=0):
    tag = "random_datasets" + ("_cum" if cum else "")
    ncases, nbad, info = 0, 0, []
    for _ in range(nsets):
        seed = rng.randrange(10**6)
        try:
            d, gen = prepare(seed)
        except Exception as e:
            viol.append({"name": f"{tag}-prepare-{seed}", "found_input": False, "key": f"{tag}-prepare",
                         "payload": {"broken": "a random data set could not be generated / translated / compiled", "seed": seed, "message": str(e)[-800:]}})
            continue
        xq = ((gen, "RD.Gen.Rand"),)
        # the certificates, by the kernel
        cert = os.path.join(d, "cert.v")
        # (the last flag says whether the generic forward-error theorem gives <= 1e-11 for THIS data set: B <= 2e-12, K <= 2000, G <= 30000)
        open(cert, "w").write(PRE + "Eval vm_compute in (wf_core Rand, chk_same_patterns Rand, chk_cif_pattern_subset Rand, chk_pattern_closure Rand, "
                                    "chk_pattern_transitive Rand, chk_float_data Rand (bq_of (QL 2 1000000000000)) (bq_of (QL 2000 1)) "
                                    "&& chk_round Rand (bq_of (QL 30000 1)) (bq_of (QL 100000000 1)) 200).\n")
        rc, out = C.sh(["coqc", "-Q", C.COQ, "RD", "-Q", gen, "RD.Gen.Rand", cert], timeout=900)
        flags = [x == "true" for x in __import__("re").findall(r"\b(true|false)\b", out.split("=", 1)[-1])][:6] if rc == 0 else []
        well_conditioned = len(flags) == 6 and flags[5]
        if rc != 0 or len(flags) != 6 or not all(flags[:5]):
            # the generator's own matrices failed the certificate: a defect of the generator (harness), reported as such
            viol.append({"name": f"{tag}-cert-{seed}", "found_input": False, "key": f"{tag}-cert",
                         "payload": {"broken": "a generated data set does not pass the certificates (generator defect, not a finding about /repo)",
                                     "seed": seed, "flags (wf_core, same, subset, closure, transitive, float)": flags, "out": out[-400:]}})
            continue
        names, stable = D.names_of(d)
        for cls, n1, n2 in ((("Inventory", 40, 10),) if well_conditioned else ()) + ((("InventoryHP", hp, 1),) if hp else ()):
            cases = D.gen_cases(rng, names, stable, n1, n2, cls, ds=d, cum_every=1 if cum else 3)
            sub, v2 = {}, []
            chk = ("check_hp_decay " if cls == "InventoryHP" else "check_float_decay ") + "Rand"
            D.decay_stream(rng, cases, chk, f"rand{seed}_{cls[:5]}", sub, v2, [], "random data set", shard=8, ds=d, pre=PRE, extra_q=xq)
            st = next(iter(sub.values()))
            ncases += st["cases"]; nbad += st["outside_bound"] + st["impl_property_failures"]
            for v in v2[:2]:
                v["name"] = f"{tag}-{seed}-" + v["name"].split("-", 1)[-1]
                v["payload"]["dataset"] = {"generator": "tools/synth_dataset.py", "seed": seed, "how": f"synth_dataset.py <dir> {seed}; load_dataset('rand', <dir>)"}
                viol.append(v)
        info.append({"seed": seed, "nuclides": len(names), "float_bound_1e-11_proved_for_it": well_conditioned, "year_days": float(__import__("numpy").load(D.npz_path(d), allow_pickle=True)["year_conv"])})
        shutil.rmtree(d, ignore_errors=True)
    streams[tag] = {"cases": ncases, "datasets": info, "outside_bound_or_property_failures": nbad,
                    "what": "random well-formed data sets in the library's file format (12-36 nuclides, random forward network, all states and storage units, "
                            "four year lengths, fission branches, open branches), certified by the same kernel checks, then decay / cumulative_decays of "
                            "single parents, mixed inventories, histories and closed chains against the proved enclosure of the exact solution"}
