(* Extraction of the diagram model with the shipped data set's float-free view (ExtrOcamlBasic only). *)
From Coq Require Import Extraction ExtrOcamlBasic.
From RD Require Import Base Lib.Py Model.Digraph Model.DigraphD.
From RD Require Import Proofs.CertDefault.Graphs.
Extraction Language OCaml.
Extraction "gmodel.ml" build default_gv g_name nodes edges.
