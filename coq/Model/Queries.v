(* Hand-written model of the data-set queries DecayData.half_life / branching_fraction / decay_mode
   (tie: tools/tr_shapes.py checks that the source text of these three methods is the one modelled;
   correspondence: exhaustive over all nuclides, units and pairs).  Definitions only. *)
From Coq Require Import ZArith NArith List Bool.
From Coq Require Import PrimFloat.
From RD Require Import Base Lib.Py Lib.Num Gen.Tables Gen.ConvGen Gen.UtilsGen Model.Dataset Model.Digest.
Import ListNotations.

Definition readable_s : str := [114; 101; 97; 100; 97; 98; 108; 101]%N.

Section Q.
  Context {T : Type} (ops : numops T) (time_units : list (str * T)).
  Variables (names : list str) (dsname : str).
  (* per-nuclide reporting data, number domain T *)
  Variables (hl_val : list T) (hl_units hl_readable : list str) (year : T).

  (* half_life(nuclide, units): Some float or the readable string *)
  Definition half_life (nuclide : pyval) (units : str) : res (T + str) :=
    bind (parse_nuclide nuclide names dsname) (fun n =>
    bind (by_name names hl_val n) (fun h =>
    bind (by_name names hl_units n) (fun u =>
    bind (by_name names hl_readable n) (fun r =>
      if s_eqb units readable_s then OK (inr r)
      else if s_eqb u units then OK (inl h)
      else bind (time_unit_conv ops time_units year_units h u units year) (fun x => OK (inl x)))))).

  Variables (progeny : list (list str)) (bfs : list (list T)) (modes : list (list str)).
  Fixpoint find_pos (x : str) (l : list str) (i : nat) : option nat :=
    match l with [] => None | y :: r => if s_eqb y x then Some i else find_pos x r (S i) end.

  (* branching_fraction(parent, progeny): the value listed at the position of the FIRST match, else 0 *)
  Definition branching_fraction (zero : T) (parent prog : pyval) : res T :=
    bind (parse_nuclide parent names dsname) (fun p =>
    bind (parse_nuclide prog names dsname) (fun g =>
    bind (by_name names progeny p) (fun pl =>
    bind (by_name names bfs p) (fun bl =>
      match find_pos g pl 0 with
      | Some k => match nth_error bl k with Some b => OK b | None => Raise IndexError end
      | None => OK zero
      end)))).
  Definition decay_mode (parent prog : pyval) : res str :=
    bind (parse_nuclide parent names dsname) (fun p =>
    bind (parse_nuclide prog names dsname) (fun g =>
    bind (by_name names progeny p) (fun pl =>
    bind (by_name names modes p) (fun ml =>
      match find_pos g pl 0 with
      | Some k => match nth_error ml k with Some m => OK m | None => Raise IndexError end
      | None => OK []
      end)))).
End Q.

(* float instance on a data set *)
Definition icrp : str := [].   (* the data-set name only appears in messages *)
Definition f_half_life (d : dataset) (nuc : str) (units : str) : res (float + str) :=
  half_life float_ops time_units_f (ds_names d) icrp (map hl_f (ds_hl d)) (map hl_unit (ds_hl d))
            (map hl_read (ds_hl d)) (ds_year_f d) (VStr nuc) units.

(* correspondence case: a nuclide with the implementation's answers for a list of units *)
Definition feq (a b : float) : bool := Z.eqb (fcode a) (fcode b).
Record hlcase := HC { hc_nuc : str; hc_vals : list (str * float); hc_read : str }.
Definition check_hlcase (d : dataset) (c : hlcase) : bool :=
  forallb (fun uv => match f_half_life d (hc_nuc c) (fst uv) with
                     | OK (inl x) => feq x (snd uv)
                     | _ => false
                     end) (hc_vals c)
  && match f_half_life d (hc_nuc c) readable_s with OK (inr r) => s_eqb r (hc_read c) | _ => false end.
