(* C03 (second part) - the forward error of the double-precision cumulative_decays for ALL inputs.
   Layers: (w) the rounded-evaluation theorem with a weight on the diagonal; (c) the primitive-float model of
   cumulative_decays refines it at binary64; (d) stored data vs exact data for the integrated exponential;
   (e) combination: every finite result is within  1e-11 x (initial atoms) + 2^-1000  of the exact number of decays. *)
From Coq Require Import Reals ZArith NArith List Bool Arith.
From Coq Require Import PrimFloat.
From Flocq Require Import Core.Core.
From RD Require Import Base Lib.CertQ Model.DecayR Model.Dataset Model.Default Model.Rounding Model.Rounding64
  Model.FloatDecay Model.FloatCum Model.FloatData Model.RoundCert Model.CumData.
From RD Require Proofs.CertDefault.FloatDataCert Proofs.CertDefault.RoundCert Proofs.CertDefault.CumCert.
From RD Require Proofs.CumRoundP Proofs.CumDataP Proofs.CumFloatP.
Import ListNotations.
Local Open Scope R_scope.

(* (w) decay_eval_error with a diagonal bounded by beta_k instead of 1 *)
Theorem decay_eval_error_w : forall rnd u eta, std_model rnd u eta ->
  forall n Cf Cif E n0 ks js i L L' (beta : nat -> R),
  (forall k, (k < n)%nat -> 0 <= E k <= beta k) ->
  orders_ok rnd n Cf Cif E n0 ks js i ->
  (forall j, (j < n)%nat -> (length (ks i j) <= L)%nat) -> (length (js i) <= L')%nat ->
  Rabs (yhat rnd Cf Cif E n0 ks js i - Yexact n Cf Cif E n0 i)
  <= gam u (L + L' + 3) * sumn n (fun j => sumn n (fun k => Rabs (Cf i k) * beta k * Rabs (Cif k j)) * Rabs (n0 j))
     + eta * (1 + u) ^ (L + L' + 3) *
       (sumn n (fun j => (sumn n (fun k => Rabs (Cif k j)) + 2 * INR L) * Rabs (n0 j)) + 2 * INR L').
Proof. exact Proofs.CumRoundP.decay_eval_error_w. Qed.

(* (c) the float model of cumulative_decays is the rounded evaluation followed by one rounded product *)
Theorem pf_cum_refines : forall (cf cif : list frow) (e n0 : frow) (i : N) (ce mo : list N) (lam_i : float),
  orders_okb_cum cf cif e n0 i ce mo = true ->
  ffin (pf_cum cf cif e n0 i ce mo lam_i) = true ->
  let n := length cf in
  let Cff := fun a b : nat => fval (fget (frow_of cf (N.of_nat a)) (N.of_nat b)) in
  let Ciff := fun a b : nat => fval (fget (frow_of cif (N.of_nat a)) (N.of_nat b)) in
  let Ef := fun k : nat => fval (fget e (N.of_nat k)) in
  let n0f := fun j : nat => fval (fget n0 (N.of_nat j)) in
  let ks := fun (_ j : nat) => map N.to_nat (pf_ks cif ce (N.of_nat j)) in
  let js := fun _ : nat => map N.to_nat mo in
  let ii := N.to_nat i in
  fval (pf_cum cf cif e n0 i ce mo lam_i) = rnd64 (fval lam_i * yhat rnd64 Cff Ciff Ef n0f ks js ii) /\
  ffin lam_i = true /\
  orders_ok rnd64 n Cff Ciff Ef n0f ks js ii /\
  (forall k, (k < n)%nat -> 0 <= Ef k) /\
  (forall j, (j < n)%nat -> (length (ks ii j) <= length (frow_of cf i))%nat) /\
  (length (js ii) <= length (nodup N.eq_dec (flat_map (fun k => fcols (frow_of cif k)) (fcols (frow_of cf i)))))%nat.
Proof. exact Proofs.CumRoundP.pf_cum_refines. Qed.

(* (d) a relative perturbation delta of a decay constant moves the integrated exponential by at most c / ((1-c)^2 lambda) *)
Theorem ecum_perturbation : forall lambda delta c t, 0 < lambda -> Rabs delta <= c -> c < 1 -> 0 <= t ->
  Rabs ((1 - exp (- (lambda * (1 + delta)) * t)) / (lambda * (1 + delta)) - (1 - exp (- lambda * t)) / lambda)
  <= c / ((1 - c) ^ 2 * lambda).
Proof. exact Proofs.CumDataP.ecum_perturbation. Qed.

Theorem cum_data_error : forall d B K Bc Kc Gc c,
  wf_core d = true -> chk_float_data d B K = true -> chk_cum d Bc Kc Gc = true -> 0 <= c < 1 ->
  forall (delta : nat -> R) (n0 : nat -> R) t i, 0 <= t -> (forall k, Rabs (delta k) <= c) -> (forall j, 0 <= n0 j) -> (i < nn d)%nat ->
  Rabs (lam (mur d) i * sumn (nn d) (fun k => Cfr d i k *
           (EcumP (stableb d k) (lam (mur d) k * (1 + delta k)) t * sumn (nn d) (fun j => Cifr d k j * n0 j)))
        - Dcum (nn d) (Cr d) (Cir d) (mur d) (stableb d) n0 t i)
  <= (bqv Bc + bqv Kc * (c / (1 - c) ^ 2)) * sumn (nn d) n0.
Proof. exact Proofs.CumDataP.cum_data_error. Qed.

Theorem default_cum_certificate :
  chk_cum Default (bq_of Proofs.CertDefault.CumCert.Bc_bound) (bq_of Proofs.CertDefault.CumCert.Kc_bound)
          (bq_of Proofs.CertDefault.CumCert.Gc_bound) = true /\
  chk_lam_range Proofs.CertDefault.FloatDataCert.default_lam_val Proofs.CertDefault.CumCert.Lmax_f = true.
Proof. exact (conj Proofs.CertDefault.CumCert.default_cum Proofs.CertDefault.CumCert.default_lam_range). Qed.

(* (e) any certified data set *)
Theorem cum_float_error : forall d B K Gb Hb mb Bc Kc Gc c ue Lmax,
  wf_core d = true -> chk_float_data d B K = true -> chk_round d Gb Hb mb = true -> chk_cum d Bc Kc Gc = true ->
  0 <= c <= 1 / 10 ^ 8 -> 0 <= ue <= 1 / 10 ^ 8 -> INR mb * u64 <= 1 / 10 ^ 8 -> 0 <= Lmax ->
  forall (e n0 : frow) (i : N) (ce mo : list N) (lam_i : float) (t : R) (lamf : nat -> R),
  orders_okb_cum (ds_cf d) (ds_cif d) e n0 i ce mo = true ->
  ffin (pf_cum (ds_cf d) (ds_cif d) e n0 i ce mo lam_i) = true ->
  0 <= t ->
  let n0f := fun j : nat => fval (fget n0 (N.of_nat j)) in
  let Ef := fun k : nat => fval (fget e (N.of_nat k)) in
  (forall j, 0 <= n0f j) ->
  (forall k, (k < nn d)%nat -> Rabs (lamf k - lam (mur d) k) <= c * lam (mur d) k) ->
  (forall k, (k < nn d)%nat -> lamf k <= Lmax) ->
  fval lam_i = lamf (N.to_nat i) ->
  stableb d (N.to_nat i) = false ->
  (forall k, (k < nn d)%nat -> Ef k = 0 \/
      (mur d k <> 0 /\ Rabs (Ef k - (1 - exp (- lamf k * t)) / lamf k) <= ue / lamf k)) ->
  (forall k, (k < nn d)%nat -> (exists j, (j < nn d)%nat /\ Cifr d k j * n0f j <> 0) -> mur d k <> 0 ->
      Rabs (Ef k - (1 - exp (- lamf k * t)) / lamf k) <= ue / lamf k) ->
  Rabs (fval (pf_cum (ds_cf d) (ds_cif d) e n0 i ce mo lam_i)
        - Dcum (nn d) (Cr d) (Cir d) (mur d) (stableb d) n0f t (N.to_nat i))
  <= (1 + 1 / 10 ^ 6) * (bqv Gc * u64 + bqv Kc * ue + bqv Kc * u64 + bqv Bc + 2 * bqv Kc * c) * sumn (nn d) n0f
     + eta64 * (1 + u64) ^ mb * ((bqv Hb + 2 * INR mb) * sumn (nn d) n0f + 2 * INR mb) * (Lmax * (1 + u64)) + eta64.
Proof. exact Proofs.CumFloatP.cum_float_error. Qed.

(* the shipped data set *)
Theorem default_cum_float_error :
  forall (e n0 : frow) (i : N) (ce mo : list N) (t : R),
  let lam_i := nth (N.to_nat i) Proofs.CertDefault.FloatDataCert.default_lam_val 0%float in
  orders_okb_cum (ds_cf Default) (ds_cif Default) e n0 i ce mo = true ->
  ffin (pf_cum (ds_cf Default) (ds_cif Default) e n0 i ce mo lam_i) = true ->
  0 <= t ->
  let n0f := fun j : nat => fval (fget n0 (N.of_nat j)) in
  let Ef := fun k : nat => fval (fget e (N.of_nat k)) in
  let lamf := fun k : nat => fval (nth k Proofs.CertDefault.FloatDataCert.default_lam_val 0%float) in
  (forall j, 0 <= n0f j) ->
  stableb Default (N.to_nat i) = false ->
  (forall k, (k < nn Default)%nat -> Ef k = 0 \/
      (mur Default k <> 0 /\ Rabs (Ef k - (1 - exp (- lamf k * t)) / lamf k) <= bpow radix2 (-50) / lamf k)) ->
  (forall k, (k < nn Default)%nat -> (exists j, (j < nn Default)%nat /\ Cifr Default k j * n0f j <> 0) -> mur Default k <> 0 ->
      Rabs (Ef k - (1 - exp (- lamf k * t)) / lamf k) <= bpow radix2 (-50) / lamf k) ->
  Rabs (fval (pf_cum (ds_cf Default) (ds_cif Default) e n0 i ce mo lam_i)
        - Dcum (nn Default) (Cr Default) (Cir Default) (mur Default) (stableb Default) n0f t (N.to_nat i))
  <= 1 / 10 ^ 11 * sumn (nn Default) n0f + bpow radix2 (-1000).
Proof. exact Proofs.CumFloatP.default_cum_float_error. Qed.
