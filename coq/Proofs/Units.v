(* Proofs of the unit / time-unit properties stated in Props/C05.v and Props/C06.v.
   The generated definitions (Gen/ConvGen.v, Gen/InvGen.v) are only unfolded, never referred to by
   their bound-variable names; all facts about the generated tables are closed boolean computations. *)
From Coq Require Import String.
From Coq Require Import ZArith NArith List Bool QArith Reals Qreals Lra RMicromega.
From Coq Require Import PrimFloat.
From RD Require Import Base Lib.Py Lib.Num Gen.Tables Gen.ConvGen Gen.InvGen Model.UnitSpec Model.UnitsR.
Import ListNotations.
Local Open Scope R_scope.

(* ------------------------------------------------------------------ strings, association lists *)
Lemma s_eqb_eq : forall a b, s_eqb a b = true <-> a = b.
Proof.
  induction a as [|x a IH]; destruct b as [|y b]; simpl; split; intro H;
    try reflexivity; try discriminate.
  - apply andb_true_iff in H. destruct H as [H1 H2].
    apply N.eqb_eq in H1. apply IH in H2. subst. reflexivity.
  - inversion H; subst. rewrite N.eqb_refl. simpl. apply IH. reflexivity.
Qed.

Lemma s_eqb_refl : forall a, s_eqb a a = true.
Proof. intros a. apply s_eqb_eq. reflexivity. Qed.

Lemma l_mem_str_in : forall u l, l_mem_str u l = true <-> In u l.
Proof.
  intros u l. unfold l_mem_str. rewrite existsb_exists. split.
  - intros [x [Hin He]]. apply s_eqb_eq in He. subst. exact Hin.
  - intros Hin. exists u. split; [exact Hin|apply s_eqb_refl].
Qed.

Lemma l_mem_str_same : forall l1 l2,
  forallb (fun s => l_mem_str s l2) l1 = true -> forallb (fun s => l_mem_str s l1) l2 = true ->
  forall u, l_mem_str u l1 = l_mem_str u l2.
Proof.
  intros l1 l2 H12 H21 u. apply eq_true_iff_eq.
  rewrite forallb_forall in H12, H21. rewrite !l_mem_str_in. split; intro Hin.
  - apply l_mem_str_in. apply H12. exact Hin.
  - apply l_mem_str_in. apply H21. exact Hin.
Qed.

Lemma q_assoc_in : forall k l v, q_assoc k l = Some v -> In (k, v) l.
Proof.
  intros k l. induction l as [|[a w] r IH]; simpl; intros v H; [discriminate|].
  destruct (s_eqb a k) eqn:E.
  - apply s_eqb_eq in E. inversion H; subst. left. reflexivity.
  - right. apply IH. exact H.
Qed.

Lemma q_assoc_existsb : forall k l,
  existsb (fun kv : str * Q => s_eqb (fst kv) k) l = match q_assoc k l with Some _ => true | None => false end.
Proof.
  intros k l. induction l as [|[a w] r IH]; simpl; [reflexivity|].
  destruct (s_eqb a k); simpl; [reflexivity|exact IH].
Qed.

Lemma q_assoc_forallb : forall (P : Q -> bool) k l v,
  forallb (fun kv : str * Q => P (snd kv)) l = true -> q_assoc k l = Some v -> P v = true.
Proof.
  intros P k l v Hall Hk. rewrite forallb_forall in Hall.
  apply (Hall (k, v)). apply q_assoc_in. exact Hk.
Qed.

(* ------------------------------------------------------------------ same_table *)
Lemma same_table_lookup0 : forall a b k, same_table a b = true ->
  match q_assoc k a, q_assoc k b with
  | Some x, Some y => Qeq x y
  | None, None => True
  | _, _ => False
  end.
Proof.
  intros a b k Hs. unfold same_table in Hs.
  apply andb_true_iff in Hs. destruct Hs as [Hs Hb].
  apply andb_true_iff in Hs. destruct Hs as [_ Ha].
  rewrite forallb_forall in Ha, Hb.
  destruct (q_assoc k a) as [x|] eqn:Eka.
  - specialize (Ha (k, x) (q_assoc_in _ _ _ Eka)). cbn [fst snd] in Ha.
    destruct (q_assoc k b) as [y|]; [|discriminate].
    apply Qeq_bool_iff in Ha. symmetry. exact Ha.
  - destruct (q_assoc k b) as [y|] eqn:Ekb; [|exact I].
    specialize (Hb (k, y) (q_assoc_in _ _ _ Ekb)). cbn [fst] in Hb.
    rewrite Eka in Hb. discriminate.
Qed.

Lemma same_table_lookup : forall a b k, same_table a b = true -> keys_nodup a = true -> keys_nodup b = true ->
  match q_assoc k a, q_assoc k b with
  | Some x, Some y => Qeq x y
  | None, None => True
  | _, _ => False
  end.
Proof. intros a b k Hs _ _. apply same_table_lookup0. exact Hs. Qed.

Lemma disjoint_keys_r : forall a b u x, disjoint_keys a b = true -> q_assoc u a = Some x -> q_assoc u b = None.
Proof.
  intros a b u x Hd Ha. unfold disjoint_keys in Hd. rewrite forallb_forall in Hd.
  specialize (Hd (u, x) (q_assoc_in _ _ _ Ha)). cbn [fst] in Hd.
  rewrite q_assoc_existsb in Hd. destruct (q_assoc u b); [discriminate|reflexivity].
Qed.

Lemma disjoint_keys_l : forall a b u y, disjoint_keys a b = true -> q_assoc u b = Some y -> q_assoc u a = None.
Proof.
  intros a b u y Hd Hb. destruct (q_assoc u a) as [x|] eqn:Ha; [|reflexivity].
  rewrite (disjoint_keys_r _ _ _ _ Hd Ha) in Hb. discriminate.
Qed.

(* ------------------------------------------------------------------ R tables versus Q tables *)
Lemma get_tR : forall t u,
  d_get_sn (tR t) u = match q_assoc u (tQ t) with Some q => OK (Q2R q) | None => Raise KeyError end.
Proof.
  intros t u. induction t as [|[a w] r IH]; [reflexivity|].
  change (tR ((a, w) :: r)) with ((a, Q2R (q_of w)) :: tR r).
  change (tQ ((a, w) :: r)) with ((a, q_of w) :: tQ r).
  cbn [d_get_sn q_assoc]. destruct (s_eqb a u); [reflexivity|exact IH].
Qed.

Lemma mem_tR : forall t u,
  d_mem_sn (tR t) u = match q_assoc u (tQ t) with Some _ => true | None => false end.
Proof.
  intros t u. unfold d_mem_sn. induction t as [|[a w] r IH]; [reflexivity|].
  change (tR ((a, w) :: r)) with ((a, Q2R (q_of w)) :: tR r).
  change (tQ ((a, w) :: r)) with ((a, q_of w) :: tQ r).
  cbn [existsb q_assoc fst]. destruct (s_eqb a u); [reflexivity|exact IH].
Qed.

Lemma mem_tR_some : forall t u, d_mem_sn (tR t) u = true -> exists q, q_assoc u (tQ t) = Some q.
Proof.
  intros t u H. rewrite mem_tR in H. destruct (q_assoc u (tQ t)) as [q|]; [|discriminate].
  exists q. reflexivity.
Qed.

Lemma mem_tR_none : forall t u, d_mem_sn (tR t) u = false -> q_assoc u (tQ t) = None.
Proof.
  intros t u H. rewrite mem_tR in H. destruct (q_assoc u (tQ t)) as [q|]; [discriminate|reflexivity].
Qed.

(* table entry named by the specification *)
Lemma spec_entry : forall t spec u f, same_table (tQ t) spec = true -> q_assoc u spec = Some f ->
  exists q, q_assoc u (tQ t) = Some q /\ Q2R q = Q2R f.
Proof.
  intros t spec u f Hs Hf. pose proof (same_table_lookup0 _ _ u Hs) as H.
  rewrite Hf in H. destruct (q_assoc u (tQ t)) as [q|]; [|contradiction].
  exists q. split; [reflexivity|apply Qeq_eqR; exact H].
Qed.

(* non-zero entries *)
Definition nzb (l : list (str * Q)) : bool := forallb (fun kv => negb (Qeq_bool (snd kv) 0)) l.

Lemma Q2R_nz : forall q, Qeq_bool q 0 = false -> Q2R q <> 0.
Proof.
  intros q Hq H0. rewrite <- Q2R_0 in H0. apply eqR_Qeq in H0. apply Qeq_bool_iff in H0.
  rewrite H0 in Hq. discriminate.
Qed.

Lemma nz_entry : forall l u q, nzb l = true -> q_assoc u l = Some q -> Q2R q <> 0.
Proof.
  intros l u q Hnz Hq. apply Q2R_nz.
  pose proof (q_assoc_forallb (fun v => negb (Qeq_bool v 0)) u l q Hnz Hq) as H.
  apply negb_true_iff in H. exact H.
Qed.

(* entry equal to one *)
Definition one_at (u : str) (l : list (str * Q)) : bool :=
  match q_assoc u l with Some q => Qeq_bool q 1 | None => false end.

Lemma one_at_R : forall u l, one_at u l = true -> exists q, q_assoc u l = Some q /\ Q2R q = 1.
Proof.
  intros u l H. unfold one_at in H. destruct (q_assoc u l) as [q|]; [|discriminate].
  exists q. split; [reflexivity|]. rewrite <- Q2R_1. apply Qeq_eqR. apply Qeq_bool_iff. exact H.
Qed.

(* ------------------------------------------------------------------ closed facts about the generated tables *)
Theorem tables_match_spec :
  same_table (tQ activity_units_q) spec_activity = true /\
  same_table (tQ mass_units_q) spec_mass = true /\
  same_table (tQ moles_units_q) spec_moles = true /\
  Qeq_bool (q_of avogadro_q) spec_avogadro = true.
Proof. repeat split; vm_compute; reflexivity. Qed.

Theorem float_tables_close :
  float_table_close activity_units_f activity_units_q = true /\
  float_table_close mass_units_f mass_units_q = true /\
  float_table_close moles_units_f moles_units_q = true /\
  float_close avogadro_f (q_of avogadro_q) = true.
Proof. repeat split; vm_compute; reflexivity. Qed.

Theorem kinds_disjoint :
  disjoint_keys (tQ activity_units_q) (tQ mass_units_q) = true /\
  disjoint_keys (tQ activity_units_q) (tQ moles_units_q) = true /\
  disjoint_keys (tQ mass_units_q) (tQ moles_units_q) = true /\
  q_assoc [110%N; 117%N; 109%N] (tQ activity_units_q ++ tQ mass_units_q ++ tQ moles_units_q) = None /\
  keys_nodup (tQ activity_units_q) = true /\ keys_nodup (tQ mass_units_q) = true /\ keys_nodup (tQ moles_units_q) = true.
Proof. repeat split; vm_compute; reflexivity. Qed.

Lemma time_same : same_table (tQ time_units_q) spec_time = true.
Proof. vm_compute. reflexivity. Qed.

Lemma year_same : forall u, l_mem_str u year_units = l_mem_str u spec_year_units.
Proof. apply l_mem_str_same; vm_compute; reflexivity. Qed.

Theorem time_table_spec :
  same_table (tQ time_units_q) spec_time = true /\
  float_table_close time_units_f time_units_q = true /\
  keys_nodup (tQ time_units_q) = true /\ length time_units_q = 27%nat /\
  (forall u, l_mem_str u year_units = l_mem_str u spec_year_units).
Proof.
  split; [exact time_same|]. split; [vm_compute; reflexivity|].
  split; [vm_compute; reflexivity|]. split; [vm_compute; reflexivity|].
  exact year_same.
Qed.

Lemma nz_A : nzb (tQ activity_units_q) = true. Proof. vm_compute. reflexivity. Qed.
Lemma nz_M : nzb (tQ mass_units_q) = true. Proof. vm_compute. reflexivity. Qed.
Lemma nz_Mo : nzb (tQ moles_units_q) = true. Proof. vm_compute. reflexivity. Qed.
Lemma nz_avo : Qeq_bool (q_of avogadro_q) 0 = false. Proof. vm_compute. reflexivity. Qed.
Lemma one_Bq : one_at (s2l "Bq") (tQ activity_units_q) = true. Proof. vm_compute. reflexivity. Qed.
Lemma one_g : one_at (s2l "g") (tQ mass_units_q) = true. Proof. vm_compute. reflexivity. Qed.
Lemma one_mol : one_at (s2l "mol") (tQ moles_units_q) = true. Proof. vm_compute. reflexivity. Qed.
Lemma one_s : one_at (s2l "s") (tQ time_units_q) = true. Proof. vm_compute. reflexivity. Qed.
Lemma s_not_year : l_mem_str (s2l "s") year_units = false. Proof. vm_compute. reflexivity. Qed.
Lemma num_A : q_assoc (s2l "num") (tQ activity_units_q) = None. Proof. vm_compute. reflexivity. Qed.
Lemma num_M : q_assoc (s2l "num") (tQ mass_units_q) = None. Proof. vm_compute. reflexivity. Qed.
Lemma num_Mo : q_assoc (s2l "num") (tQ moles_units_q) = None. Proof. vm_compute. reflexivity. Qed.

Lemma avoR_nz : avoR <> 0.
Proof. unfold avoR. apply Q2R_nz. exact nz_avo. Qed.

Lemma avoR_value : avoR = 602214076 * 10 ^ 15.
Proof. unfold avoR, q_of, Q2R. cbn [qn qd avogadro_q Qnum Qden]. lra. Qed.

Lemma not_num : forall t u q, q_assoc (s2l "num") (tQ t) = None -> q_assoc u (tQ t) = Some q ->
  s_eqb u (s2l "num") = false.
Proof.
  intros t u q Hn Hq. destruct (s_eqb u (s2l "num")) eqn:E; [|reflexivity].
  apply s_eqb_eq in E. subst u. rewrite Hn in Hq. discriminate.
Qed.

(* ------------------------------------------------------------------ the generated functions over R, abstract tables *)
Lemma R_iszero_nz : forall l, l <> 0 -> R_iszero l = false.
Proof. intros l Hl. unfold R_iszero. destruct (Req_EM_T l 0); [contradiction|reflexivity]. Qed.

Lemma R_iszero_0 : R_iszero 0 = true.
Proof. unfold R_iszero. destruct (Req_EM_T 0 0) as [_|H]; [reflexivity|exfalso; apply H; reflexivity]. Qed.

Lemma act_conv_eval : forall t x u v,
  activity_unit_conv R_ops (tR t) x u v =
  match q_assoc u (tQ t) with
  | Some a => match q_assoc v (tQ t) with Some b => OK (x * Q2R a / Q2R b) | None => Raise ValueError end
  | None => Raise ValueError
  end.
Proof.
  intros t x u v. unfold activity_unit_conv. rewrite !mem_tR, !get_tR.
  destruct (q_assoc u (tQ t)); [|reflexivity]. destruct (q_assoc v (tQ t)); reflexivity.
Qed.

Lemma mass_conv_eval : forall t x u v,
  mass_unit_conv R_ops (tR t) x u v =
  match q_assoc u (tQ t) with
  | Some a => match q_assoc v (tQ t) with Some b => OK (x * Q2R a / Q2R b) | None => Raise ValueError end
  | None => Raise ValueError
  end.
Proof.
  intros t x u v. unfold mass_unit_conv. rewrite !mem_tR, !get_tR.
  destruct (q_assoc u (tQ t)); [|reflexivity]. destruct (q_assoc v (tQ t)); reflexivity.
Qed.

Lemma moles_conv_eval : forall t x u v,
  moles_unit_conv R_ops (tR t) x u v =
  match q_assoc u (tQ t) with
  | Some a => match q_assoc v (tQ t) with Some b => OK (x * Q2R a / Q2R b) | None => Raise ValueError end
  | None => Raise ValueError
  end.
Proof.
  intros t x u v. unfold moles_unit_conv. rewrite !mem_tR, !get_tR.
  destruct (q_assoc u (tQ t)); [|reflexivity]. destruct (q_assoc v (tQ t)); reflexivity.
Qed.

Section Generic.
  Variables (A M Mo : list (str * qlit)) (avo : R) (names : list str) (lam mass_l : list R).

  Lemma create_activity : forall nuc x u ds q b l,
    s_eqb u (s2l "num") = false -> q_assoc u (tQ A) = Some q -> q_assoc (s2l "Bq") (tQ A) = Some b ->
    by_name names lam nuc = OK l -> l <> 0 ->
    convert_to_number R_ops (tR A) (tR M) (tR Mo) avo names lam mass_l [(nuc, x)] u ds
    = OK [(nuc, x * Q2R q / Q2R b / l)].
  Proof.
    intros nuc x u ds q b l Hnum Hq Hb Hl Hl0. unfold convert_to_number.
    rewrite Hnum, mem_tR, Hq. cbn [dmap_res]. rewrite Hl. cbn [bind niszero R_ops].
    rewrite (R_iszero_nz _ Hl0). rewrite act_conv_eval, Hq, Hb. reflexivity.
  Qed.

  Lemma create_activity_stable : forall nuc x u ds q,
    s_eqb u (s2l "num") = false -> q_assoc u (tQ A) = Some q -> by_name names lam nuc = OK 0 ->
    convert_to_number R_ops (tR A) (tR M) (tR Mo) avo names lam mass_l [(nuc, x)] u ds = Raise ValueError.
  Proof.
    intros nuc x u ds q Hnum Hq Hl. unfold convert_to_number.
    rewrite Hnum, mem_tR, Hq. cbn [dmap_res]. rewrite Hl. cbn [bind niszero R_ops].
    rewrite R_iszero_0. reflexivity.
  Qed.

  Lemma create_moles : forall nuc x u ds q b,
    s_eqb u (s2l "num") = false -> q_assoc u (tQ A) = None -> q_assoc u (tQ Mo) = Some q ->
    q_assoc (s2l "mol") (tQ Mo) = Some b ->
    convert_to_number R_ops (tR A) (tR M) (tR Mo) avo names lam mass_l [(nuc, x)] u ds
    = OK [(nuc, x * Q2R q / Q2R b * avo)].
  Proof.
    intros nuc x u ds q b Hnum HA Hq Hb. unfold convert_to_number.
    rewrite Hnum, !mem_tR, HA, Hq. cbn [dmap_res]. rewrite moles_conv_eval, Hq, Hb. reflexivity.
  Qed.

  Lemma create_mass : forall nuc x u ds q b m,
    s_eqb u (s2l "num") = false -> q_assoc u (tQ A) = None -> q_assoc u (tQ Mo) = None ->
    q_assoc u (tQ M) = Some q -> q_assoc (s2l "g") (tQ M) = Some b -> by_name names mass_l nuc = OK m ->
    convert_to_number R_ops (tR A) (tR M) (tR Mo) avo names lam mass_l [(nuc, x)] u ds
    = OK [(nuc, x * Q2R q / Q2R b / m * avo)].
  Proof.
    intros nuc x u ds q b m Hnum HA HMo Hq Hb Hm. unfold convert_to_number.
    rewrite Hnum, !mem_tR, HA, HMo, Hq. cbn [dmap_res]. rewrite mass_conv_eval, Hq, Hb.
    cbn [bind]. rewrite Hm. reflexivity.
  Qed.

  Lemma create_unknown : forall contents u ds,
    s_eqb u (s2l "num") = false -> q_assoc u (tQ A) = None -> q_assoc u (tQ M) = None -> q_assoc u (tQ Mo) = None ->
    convert_to_number R_ops (tR A) (tR M) (tR Mo) avo names lam mass_l contents u ds = Raise ValueError.
  Proof.
    intros contents u ds Hnum HA HM HMo. unfold convert_to_number.
    rewrite Hnum, !mem_tR, HA, HM, HMo. reflexivity.
  Qed.

  Lemma activities_eval : forall nuc n u q b l,
    q_assoc u (tQ A) = Some q -> q_assoc (s2l "Bq") (tQ A) = Some b -> by_name names lam nuc = OK l ->
    activities R_ops (tR A) names lam [(nuc, n)] u = OK [(nuc, n * l * Q2R b / Q2R q)].
  Proof.
    intros nuc n u q b l Hq Hb Hl. unfold activities. cbn [dmap_res]. rewrite Hl. unfold number_to_activity. cbn [bind].
    rewrite act_conv_eval, Hq, Hb. reflexivity.
  Qed.

  Lemma masses_eval : forall nuc n u q b m,
    q_assoc u (tQ M) = Some q -> q_assoc (s2l "g") (tQ M) = Some b -> by_name names mass_l nuc = OK m ->
    masses R_ops (tR M) avo names mass_l [(nuc, n)] u = OK [(nuc, n / avo * m * Q2R b / Q2R q)].
  Proof.
    intros nuc n u q b m Hq Hb Hm. unfold masses. cbn [dmap_res]. rewrite Hm. unfold number_to_mass. cbn [bind].
    rewrite mass_conv_eval, Hq, Hb. reflexivity.
  Qed.

  Lemma moles_eval : forall nuc n u q b,
    q_assoc u (tQ Mo) = Some q -> q_assoc (s2l "mol") (tQ Mo) = Some b ->
    moles R_ops (tR Mo) avo [(nuc, n)] u = OK [(nuc, n / avo * Q2R b / Q2R q)].
  Proof.
    intros nuc n u q b Hq Hb. unfold moles. cbn [dmap_res]. unfold number_to_moles. cbn [bind].
    rewrite moles_conv_eval, Hq, Hb. reflexivity.
  Qed.
End Generic.

Lemma OK1_eq : forall (nuc : str) (a b : R), a = b -> @OK (list (str * R)) [(nuc, a)] = OK [(nuc, b)].
Proof. intros nuc a b H. rewrite H. reflexivity. Qed.

(* ------------------------------------------------------------------ C05 *)
Theorem activity_readback : forall (names : list str) (lam mass_l : list R) nuc x u l,
  d_mem_sn AR u = true -> by_name names lam nuc = OK l -> l <> 0 ->
  bind (r_create names lam mass_l [(nuc, x)] u []) (fun c => r_activities names lam c u) = OK [(nuc, x)].
Proof.
  intros names lam mass_l nuc x u l Hu Hl Hl0.
  destruct (mem_tR_some _ _ Hu) as [q Hq].
  destruct (one_at_R _ _ one_Bq) as [b [Hb Hb1]].
  unfold r_create, r_activities, AR, MR, MoR.
  rewrite (create_activity _ _ _ _ _ _ _ nuc x u [] q b l (not_num _ _ _ num_A Hq) Hq Hb Hl Hl0).
  cbn [bind]. rewrite (activities_eval _ _ _ nuc _ u q b l Hq Hb Hl).
  apply OK1_eq. pose proof (nz_entry _ _ _ nz_A Hq) as Hq0. rewrite Hb1. field. split; assumption.
Qed.

Theorem mass_readback : forall (names : list str) (lam mass_l : list R) nuc x u m,
  d_mem_sn MR u = true -> by_name names mass_l nuc = OK m -> m <> 0 ->
  bind (r_create names lam mass_l [(nuc, x)] u []) (fun c => r_masses names mass_l c u) = OK [(nuc, x)].
Proof.
  intros names lam mass_l nuc x u m Hu Hm Hm0.
  destruct (mem_tR_some _ _ Hu) as [q Hq].
  destruct (one_at_R _ _ one_g) as [b [Hb Hb1]].
  destruct kinds_disjoint as [dAM [_ [dMMo _]]].
  pose proof (disjoint_keys_l _ _ _ _ dAM Hq) as HA.
  pose proof (disjoint_keys_r _ _ _ _ dMMo Hq) as HMo.
  unfold r_create, r_masses, AR, MR, MoR.
  rewrite (create_mass _ _ _ _ _ _ _ nuc x u [] q b m (not_num _ _ _ num_M Hq) HA HMo Hq Hb Hm).
  cbn [bind]. rewrite (masses_eval _ _ _ _ nuc _ u q b m Hq Hb Hm).
  apply OK1_eq. pose proof (nz_entry _ _ _ nz_M Hq) as Hq0. pose proof avoR_nz as Hav.
  rewrite Hb1. field. repeat split; assumption.
Qed.

Theorem moles_readback : forall (names : list str) (lam mass_l : list R) nuc x u,
  d_mem_sn MoR u = true ->
  bind (r_create names lam mass_l [(nuc, x)] u []) (fun c => r_moles c u) = OK [(nuc, x)].
Proof.
  intros names lam mass_l nuc x u Hu.
  destruct (mem_tR_some _ _ Hu) as [q Hq].
  destruct (one_at_R _ _ one_mol) as [b [Hb Hb1]].
  destruct kinds_disjoint as [_ [dAMo _]].
  pose proof (disjoint_keys_l _ _ _ _ dAMo Hq) as HA.
  unfold r_create, r_moles, AR, MR, MoR.
  rewrite (create_moles _ _ _ _ _ _ _ nuc x u [] q b (not_num _ _ _ num_Mo Hq) HA Hq Hb).
  cbn [bind]. rewrite (moles_eval _ _ nuc _ u q b Hq Hb).
  apply OK1_eq. pose proof (nz_entry _ _ _ nz_Mo Hq) as Hq0. pose proof avoR_nz as Hav.
  rewrite Hb1. field. split; assumption.
Qed.

Theorem kinds_tied : forall (names : list str) (lam mass_l : list R) nuc n l m,
  by_name names lam nuc = OK l -> by_name names mass_l nuc = OK m ->
  r_activities names lam [(nuc, n)] [66%N; 113%N] = OK [(nuc, n * l)] /\
  r_moles [(nuc, n)] [109%N; 111%N; 108%N] = OK [(nuc, n / avoR)] /\
  r_masses names mass_l [(nuc, n)] [103%N] = OK [(nuc, n / avoR * m)] /\
  avoR = 602214076 * 10 ^ 15.
Proof.
  intros names lam mass_l nuc n l m Hl Hm.
  destruct (one_at_R _ _ one_Bq) as [b1 [Hb1 Hb1']].
  destruct (one_at_R _ _ one_mol) as [b2 [Hb2 Hb2']].
  destruct (one_at_R _ _ one_g) as [b3 [Hb3 Hb3']].
  pose proof avoR_nz as Hav.
  unfold r_activities, r_moles, r_masses, AR, MR, MoR.
  split; [|split; [|split]].
  - rewrite (activities_eval _ _ _ nuc n [66%N; 113%N] b1 b1 l Hb1 Hb1 Hl).
    apply OK1_eq. rewrite Hb1'. field.
  - rewrite (moles_eval _ _ nuc n [109%N; 111%N; 108%N] b2 b2 Hb2 Hb2).
    apply OK1_eq. rewrite Hb2'. field. exact Hav.
  - rewrite (masses_eval _ _ _ _ nuc n [103%N] b3 b3 m Hb3 Hb3 Hm).
    apply OK1_eq. rewrite Hb3'. field. exact Hav.
  - exact avoR_value.
Qed.

Theorem unit_ratio_activity : forall (names : list str) (lam : list R) nuc n l u1 u2 f1 f2,
  by_name names lam nuc = OK l ->
  q_assoc u1 spec_activity = Some f1 -> q_assoc u2 spec_activity = Some f2 ->
  exists a1 a2, r_activities names lam [(nuc, n)] u1 = OK [(nuc, a1)] /\
                r_activities names lam [(nuc, n)] u2 = OK [(nuc, a2)] /\ a1 * Q2R f1 = a2 * Q2R f2.
Proof.
  intros names lam nuc n l u1 u2 f1 f2 Hl H1 H2.
  destruct tables_match_spec as [HsA _].
  destruct (spec_entry _ _ _ _ HsA H1) as [q1 [Hq1 E1]].
  destruct (spec_entry _ _ _ _ HsA H2) as [q2 [Hq2 E2]].
  destruct (one_at_R _ _ one_Bq) as [b [Hb Hb1]].
  pose proof (nz_entry _ _ _ nz_A Hq1) as N1. pose proof (nz_entry _ _ _ nz_A Hq2) as N2.
  unfold r_activities, AR.
  rewrite (activities_eval _ _ _ nuc n u1 q1 b l Hq1 Hb Hl).
  rewrite (activities_eval _ _ _ nuc n u2 q2 b l Hq2 Hb Hl).
  eexists. eexists. split; [reflexivity|]. split; [reflexivity|].
  rewrite <- E1, <- E2. field. split; assumption.
Qed.

Theorem unit_ratio_mass : forall (names : list str) (mass_l : list R) nuc n m u1 u2 f1 f2,
  by_name names mass_l nuc = OK m ->
  q_assoc u1 spec_mass = Some f1 -> q_assoc u2 spec_mass = Some f2 ->
  exists a1 a2, r_masses names mass_l [(nuc, n)] u1 = OK [(nuc, a1)] /\
                r_masses names mass_l [(nuc, n)] u2 = OK [(nuc, a2)] /\ a1 * Q2R f1 = a2 * Q2R f2.
Proof.
  intros names mass_l nuc n m u1 u2 f1 f2 Hm H1 H2.
  destruct tables_match_spec as [_ [HsM _]].
  destruct (spec_entry _ _ _ _ HsM H1) as [q1 [Hq1 E1]].
  destruct (spec_entry _ _ _ _ HsM H2) as [q2 [Hq2 E2]].
  destruct (one_at_R _ _ one_g) as [b [Hb Hb1]].
  pose proof (nz_entry _ _ _ nz_M Hq1) as N1. pose proof (nz_entry _ _ _ nz_M Hq2) as N2.
  pose proof avoR_nz as Hav.
  unfold r_masses, MR.
  rewrite (masses_eval _ _ _ _ nuc n u1 q1 b m Hq1 Hb Hm).
  rewrite (masses_eval _ _ _ _ nuc n u2 q2 b m Hq2 Hb Hm).
  eexists. eexists. split; [reflexivity|]. split; [reflexivity|].
  rewrite <- E1, <- E2. field. repeat split; assumption.
Qed.

Theorem unit_ratio_moles : forall nuc n u1 u2 f1 f2,
  q_assoc u1 spec_moles = Some f1 -> q_assoc u2 spec_moles = Some f2 ->
  exists a1 a2, r_moles [(nuc, n)] u1 = OK [(nuc, a1)] /\
                r_moles [(nuc, n)] u2 = OK [(nuc, a2)] /\ a1 * Q2R f1 = a2 * Q2R f2.
Proof.
  intros nuc n u1 u2 f1 f2 H1 H2.
  destruct tables_match_spec as [_ [_ [HsMo _]]].
  destruct (spec_entry _ _ _ _ HsMo H1) as [q1 [Hq1 E1]].
  destruct (spec_entry _ _ _ _ HsMo H2) as [q2 [Hq2 E2]].
  destruct (one_at_R _ _ one_mol) as [b [Hb Hb1]].
  pose proof (nz_entry _ _ _ nz_Mo Hq1) as N1. pose proof (nz_entry _ _ _ nz_Mo Hq2) as N2.
  pose proof avoR_nz as Hav.
  unfold r_moles, MoR.
  rewrite (moles_eval _ _ nuc n u1 q1 b Hq1 Hb).
  rewrite (moles_eval _ _ nuc n u2 q2 b Hq2 Hb).
  eexists. eexists. split; [reflexivity|]. split; [reflexivity|].
  rewrite <- E1, <- E2. field. repeat split; assumption.
Qed.

Theorem unknown_unit_refused : forall (names : list str) (lam mass_l : list R) contents u,
  s_eqb u [110%N; 117%N; 109%N] = false ->
  d_mem_sn AR u = false -> d_mem_sn MR u = false -> d_mem_sn MoR u = false ->
  r_create names lam mass_l contents u [] = Raise ValueError.
Proof.
  intros names lam mass_l contents u Hnum HA HM HMo. unfold r_create, AR, MR, MoR.
  apply create_unknown; [exact Hnum|apply mem_tR_none; exact HA|apply mem_tR_none; exact HM|apply mem_tR_none; exact HMo].
Qed.

Theorem stable_activity_refused : forall (names : list str) (lam mass_l : list R) nuc x u,
  d_mem_sn AR u = true -> by_name names lam nuc = OK 0 ->
  r_create names lam mass_l [(nuc, x)] u [] = Raise ValueError.
Proof.
  intros names lam mass_l nuc x u Hu Hl.
  destruct (mem_tR_some _ _ Hu) as [q Hq].
  unfold r_create, AR, MR, MoR.
  exact (create_activity_stable _ _ _ _ _ _ _ nuc x u [] q (not_num _ _ _ num_A Hq) Hq Hl).
Qed.

(* ------------------------------------------------------------------ C06 *)
Lemma time_eval : forall t yu year x u,
  convert_decay_time R_ops (tR t) yu year x u =
  match q_assoc u (tQ t) with
  | None => Raise ValueError
  | Some q =>
    match q_assoc (s2l "s") (tQ t) with
    | None => Raise ValueError
    | Some s =>
      OK (if l_mem_str u yu
          then (if l_mem_str (s2l "s") yu then x * (Q2R q * year) / (Q2R s * year) else x * (Q2R q * year) / Q2R s)
          else (if l_mem_str (s2l "s") yu then x * Q2R q / (Q2R s * year) else x * Q2R q / Q2R s))
    end
  end.
Proof.
  intros t yu year x u. unfold convert_decay_time, time_unit_conv. rewrite !mem_tR, !get_tR.
  destruct (q_assoc u (tQ t)) as [q|]; [|reflexivity].
  destruct (q_assoc (s2l "s") (tQ t)) as [s|]; [|reflexivity].
  cbn [negb bind].
  destruct (l_mem_str u yu); destruct (l_mem_str (s2l "s") yu); reflexivity.
Qed.

Lemma r_seconds_eval : forall year t u,
  r_seconds year t u =
  match q_assoc u (tQ time_units_q) with
  | None => Raise ValueError
  | Some q => OK (if l_mem_str u year_units then t * (Q2R q * year) / 1 else t * Q2R q / 1)
  end.
Proof.
  intros year t u. unfold r_seconds, TR. rewrite time_eval.
  destruct (one_at_R _ _ one_s) as [s [Hs Hs1]]. rewrite Hs, s_not_year, Hs1. reflexivity.
Qed.

Theorem seconds_of : forall year t u f, q_assoc u spec_time = Some f ->
  exists s, r_seconds year t u = OK s /\
            s = t * Q2R f * (if l_mem_str u spec_year_units then year else 1).
Proof.
  intros year t u f Hf.
  destruct (spec_entry _ _ _ _ time_same Hf) as [q [Hq E]].
  rewrite r_seconds_eval, Hq, year_same, E. eexists. split; [reflexivity|].
  destruct (l_mem_str u spec_year_units); field.
Qed.

Definition syn_ok (ab : str * str) : bool :=
  match q_assoc (fst ab) (tQ time_units_q), q_assoc (snd ab) (tQ time_units_q) with
  | Some x, Some y => Qeq_bool x y
  | _, _ => false
  end && Bool.eqb (l_mem_str (fst ab) year_units) (l_mem_str (snd ab) year_units).

Lemma syn_ok_sound : forall year t a b, syn_ok (a, b) = true -> r_seconds year t a = r_seconds year t b.
Proof.
  intros year t a b H. unfold syn_ok in H. cbn [fst snd] in H.
  apply andb_true_iff in H. destruct H as [Hq Hy]. apply eqb_prop in Hy.
  rewrite !r_seconds_eval, Hy.
  destruct (q_assoc a (tQ time_units_q)) as [x|]; [|discriminate].
  destruct (q_assoc b (tQ time_units_q)) as [y|]; [|discriminate].
  apply Qeq_bool_iff in Hq. apply Qeq_eqR in Hq. rewrite Hq. reflexivity.
Qed.

Theorem synonyms_interchangeable : forall year t a b,
  In (a, b) [ ([117; 115], [956; 115]);
              ([115], [115; 101; 99]); ([115], [115; 101; 99; 111; 110; 100]); ([115], [115; 101; 99; 111; 110; 100; 115]);
              ([104], [104; 114]); ([104], [104; 111; 117; 114]); ([104], [104; 111; 117; 114; 115]);
              ([100], [100; 97; 121]); ([100], [100; 97; 121; 115]);
              ([121], [121; 114]); ([121], [121; 101; 97; 114]); ([121], [121; 101; 97; 114; 115]);
              ([66; 121], [71; 121]) ]%N ->
  r_seconds year t a = r_seconds year t b.
Proof.
  intros year t a b Hin. apply syn_ok_sound.
  match type of Hin with
  | In _ ?L => assert (Hall : forallb syn_ok L = true) by (vm_compute; reflexivity)
  end.
  rewrite forallb_forall in Hall. exact (Hall _ Hin).
Qed.

Theorem unknown_time_unit_refused : forall (T : Type) (ops : numops T) tu yu year (t : T) u,
  d_mem_sn tu u = false -> convert_decay_time ops tu yu year t u = Raise ValueError.
Proof.
  intros T ops tu yu year t u H. unfold convert_decay_time, time_unit_conv. rewrite H. reflexivity.
Qed.

Theorem halving : forall T : R, T > 0 -> exp (- (ln 2 / T) * T) = 1 / 2.
Proof.
  intros T HT. replace (- (ln 2 / T) * T) with (- ln 2) by (field; lra).
  rewrite exp_Ropp, exp_ln by lra. lra.
Qed.

Print Assumptions tables_match_spec.
Print Assumptions same_table_lookup.
Print Assumptions float_tables_close.
Print Assumptions kinds_disjoint.
Print Assumptions activity_readback.
Print Assumptions mass_readback.
Print Assumptions moles_readback.
Print Assumptions kinds_tied.
Print Assumptions unit_ratio_activity.
Print Assumptions unit_ratio_mass.
Print Assumptions unit_ratio_moles.
Print Assumptions unknown_unit_refused.
Print Assumptions stable_activity_refused.
Print Assumptions time_table_spec.
Print Assumptions seconds_of.
Print Assumptions synonyms_interchangeable.
Print Assumptions unknown_time_unit_refused.
Print Assumptions halving.
