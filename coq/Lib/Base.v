(* Base types shared by the generated data modules and the hand-written model. *)
From Coq Require Export ZArith NArith List Bool.
From Coq Require Export PrimFloat.
Export ListNotations.

(* A Python str is a list of Unicode code points. *)
Definition str := list N.

(* exact rational literal n/d *)
Record qlit := QL { qn : Z; qd : positive }.

(* exact decimal literal m * 10^e  (the decimal repr of a float) *)
Record dlit := DL { dm : Z; de : Z }.

(* SymPy number expressions occurring in the atomic-mass pickles:
   rationals, sums, products and integer^rational powers *)
Inductive mexpr :=
| MRat (q : qlit)
| MAdd (a b : mexpr)
| MMul (a b : mexpr)
| MPow (base : Z) (e : qlit).

(* half-life record: float value, its decimal repr (None for inf), unit, readable string *)
Record hlrec := HL { hl_f : float; hl_dec : option dlit; hl_unit : str; hl_read : str }.

(* branching fraction: float value and the decimal of its repr *)
Record bfrec := BF { bf_f : float; bf_dec : dlit }.

(* sparse rows *)
Definition qrow := list (N * qlit).
Definition frow := list (N * float).

(* ASCII helper so that hand-written tables can use string literals *)
From Coq Require Import String Ascii.
Fixpoint s2l (s : string) : str :=
  match s with
  | EmptyString => []
  | String c r => N_of_ascii c :: s2l r
  end.
