"""C01 - float decay equals the exact Bateman solution of the dataset."""
import random
import common as C
import corr_decay as D
import corr_units as U

PID = "C01"
PROPS_MODULE = "Props.C01"
THEOREMS = ["closed_form_solves_ode", "closed_form_initial", "ode_solution_unique", "decay_model_is_closed_form",
            "outside_indices_zero", "default_patterns", "reference_encloses_closed_form"]
REQUIRED = ["Props/C01.v", "Model/DecayCheck.v"]
TRANSLATORS = ["tr_data", "tr_tables", "tr_pure"]
SHAPE_KEYS = ["Inventory::decay", "AbstractInventory::_setup_decay_calc", "AbstractInventory::_perform_decay_calc",
              "AbstractInventory::_convert_decay_time", "load_dataset", "DecayMatricesScipy"]
PARTIAL = ["float_forward_error (1e-11 x ancestors' atoms for ALL inputs) is not proved as a rounding-analysis theorem; it is decided per case "
           "against a PROVED interval enclosure of the exact solution (every radionuclide as single parent in the thorough tier)",
           "decay() control flow is hand-modelled over R (Model/DecayModel.v): tie = recorded source text + correspondence"]
TRUSTED_BASE = [
    "Coq 8.16.1 kernel incl. vm_compute",
    "axioms: standard Reals axioms (sig_forall_dec, sig_not_dec, functional_extensionality_dep, classic); Uint63/PrimFloat primitives (Bignums, Interval)",
    "translator tr_data.py (exact and float matrices); tr_shapes.py source-text ties for decay/_setup_decay_calc/_perform_decay_calc",
    "coq-interval (Interval 4.x) interval arithmetic: correctness lemmas are the library's; the enclosure theorem is Props.C01.reference_encloses_closed_form",
]
ASSUMPTIONS = ["np.exp, SciPy sparse products: any evaluation order (the bound is checked on the result, not on the order)"]


def correspondence(ctx):
    rng = random.Random(ctx["seed"] + 1)
    thorough = ctx["tier"] == "thorough"
    names, stable = U.dataset_names()
    cases = D.gen_cases(rng, names, stable, 100000 if thorough else 150, 1500 if thorough else 100, "Inventory")
    if thorough:   # every radionuclide at 3 more times
        radio = [n for n, s in zip(names, stable) if not s]
        for tt in (1e-3, 1e3, 1e9):
            cases += D.gen_cases(rng, names, stable, 0, 0, "Inventory", only=radio)
    streams, viol, samples = {}, [], []
    D.decay_stream(rng, cases, "check_float_decay Default", "decay_float", streams, viol, samples,
                   "Inventory.decay: nuclide set = progeny closure, alphabetical, finite, stable activity exactly 0, every amount within "
                   "1e-11 x (atoms of its ancestors) of the proved enclosure of the exact solution; single parents + mixed inventories in every unit",
                   shard=8)
    return {"streams": streams, "violations": viol, "samples": samples}


def search_broken(ctx):
    # the obligations of this property rest on the data certificate: turn its witnesses into requests
    return D.data_witness_probe(PID, ("Inventory",))


def replay(payload):
    c = payload.get("input")
    if not isinstance(c, dict) or "contents" not in c:
        return {"fails": True, "note": "nothing to replay; theorem/correspondence named in the file"}
    streams, viol, samples = {}, [], []
    D.decay_stream(random.Random(0), [c], payload.get("checker", "check_float_decay Default"), "replay", streams, viol, samples, "replay", shard=1)
    return {"fails": bool(viol), "streams": streams, "violations": [v["payload"].get("fails") for v in viol]}
