(* C04 / C01 on a SECOND data set - the synthetic one written by tools/synth_dataset.py in the library's own file format
   (states m n p q r x, every half-life unit, 365.25-day year, branches not summing to one, spontaneous fission) and
   translated by the same translator.  The generic theorems apply to it exactly as to the shipped data. *)
From Coq Require Import Reals.
From Coquelicot Require Import Coquelicot.
From RD Require Import Base Lib.CertQ Model.DecayR Model.Dataset Model.Synth Gen.Tables Model.FloatData Model.RoundCert.
From RD Require Proofs.Bateman Proofs.DatasetCert Proofs.CertSynth.SynthCert.
Local Open Scope R_scope.

Notation NtS := (Nt (nn Synth) (Cr Synth) (Cir Synth) (mur Synth)).

Theorem synth_wf_core : wf_core Synth = true.
Proof. exact Proofs.CertSynth.SynthCert.synth_wf_core. Qed.
Theorem synth_wf_struct : wf_struct Synth time_units_q year_units z_dict = true.
Proof. exact Proofs.CertSynth.SynthCert.synth_struct. Qed.
Theorem synth_patterns :
  chk_same_patterns Synth = true /\ chk_cif_pattern_subset Synth = true /\ chk_pattern_closure Synth = true /\
  chk_pattern_transitive Synth = true.
Proof. exact Proofs.CertSynth.SynthCert.synth_patterns. Qed.
Theorem synth_float_certificates :
  chk_float_data Synth (bq_of Proofs.CertSynth.SynthCert.sB_bound) (bq_of Proofs.CertSynth.SynthCert.sK_bound) = true /\
  chk_lambda_close Synth Proofs.CertSynth.SynthCert.synth_lam_val Proofs.CertSynth.SynthCert.sc_bound = true /\
  chk_round Synth (bq_of Proofs.CertSynth.SynthCert.sG_bound) (bq_of Proofs.CertSynth.SynthCert.sH_bound) 40 = true.
Proof. exact (conj Proofs.CertSynth.SynthCert.synth_float_matrices
             (conj Proofs.CertSynth.SynthCert.synth_lambda_close Proofs.CertSynth.SynthCert.synth_round)). Qed.

Theorem synth_closed_form_is_solution : forall n0 t i, (i < nn Synth)%nat ->
  is_derive (fun s => NtS n0 s i) t (sumn (nn Synth) (fun m => Lam (Mr Synth) i m * NtS n0 t m)).
Proof. exact (Proofs.Bateman.closed_form_solves_ode _ _ _ _ _ _ _
               (Proofs.DatasetCert.wf_core_cert Synth Proofs.CertSynth.SynthCert.synth_wf_core)). Qed.
Theorem synth_closed_form_initial : forall n0 i, (i < nn Synth)%nat -> NtS n0 0 i = n0 i.
Proof. exact (Proofs.Bateman.closed_form_initial _ _ _ _ _ _ _
               (Proofs.DatasetCert.wf_core_cert Synth Proofs.CertSynth.SynthCert.synth_wf_core)). Qed.
Theorem synth_solution_unique : forall (n0 : nat -> R) (y : nat -> R -> R),
  (forall i, (i < nn Synth)%nat -> y i 0 = n0 i) ->
  (forall i t, (i < nn Synth)%nat -> is_derive (y i) t (sumn (nn Synth) (fun m => Lam (Mr Synth) i m * y m t))) ->
  forall i t, (i < nn Synth)%nat -> y i t = NtS n0 t i.
Proof. exact (Proofs.Bateman.ode_solution_unique _ _ _ _ _ _ _
               (Proofs.DatasetCert.wf_core_cert Synth Proofs.CertSynth.SynthCert.synth_wf_core)). Qed.
