"""Implementation side of the C13 stream (PYTHONPATH=/repo).
stdin JSON: list of cases {"cls", "contents": {name: hex}, "kind": unit-or-fraction, "tunit", "scale": "linear"|"log",
 "tmax": hex, "npoints": int, "explicit": [hex...]|null, "plot": bool, "display": "all"|[names], "order": "dataset"|"alphabetical",
 "yscale", "ymin": hex, "ymax": hex|null, "xmin": hex}"""
import json, sys, math

def hx(x): return float(x).hex()

def readout(inv, kind, uc):
    if kind in uc.activity_units: return inv.activities(kind)
    if kind in uc.moles_units: return inv.moles(kind)
    if kind in uc.mass_units: return inv.masses(kind)
    if kind == "num": return inv.numbers()
    if kind == "activity_frac": return inv.activity_fractions()
    if kind == "mass_frac": return inv.mass_fractions()
    if kind == "mol_frac": return inv.mole_fractions()
    raise KeyError(kind)

def main():
    import numpy as np
    import radioactivedecay as rd
    import radioactivedecay.inventory as invmod
    captured = {}
    real_decay_graph = invmod.decay_graph
    def recording_decay_graph(**kw):
        captured.clear(); captured.update({k: (np.array(v, copy=True) if isinstance(v, np.ndarray) else v) for k, v in kw.items()})
        return real_decay_graph(**kw)
    invmod.decay_graph = recording_decay_graph
    import matplotlib.pyplot as plt
    out = []
    for c in json.load(sys.stdin):
        r = {}
        try:
            cls = rd.InventoryHP if c["cls"] == "InventoryHP" else rd.Inventory
            inv = cls({k: float.fromhex(v) for k, v in c["contents"].items()}, "num")
            uc = inv._get_unit_converter()
            # an earlier history on the same object: the same series / plot, then an in-place change
            for op in c.get("pre", []):
                if op[0] == "series":
                    inv.decay_time_series(float.fromhex(c["tmax"]), time_units=c["tunit"], time_scale=c["scale"], decay_units=op[1], npoints=c["npoints"])
                elif op[0] == "plot":
                    f0, _ = inv.plot(float.fromhex(c["tmax"]), xunits=c["tunit"], xscale=c["scale"], yunits=op[1], npoints=c["npoints"])
                    plt.close(f0)
                elif op[0] == "add":
                    inv.add({k: float.fromhex(v) for k, v in op[1].items()}, "num")
                elif op[0] == "subtract":
                    inv.subtract({k: float.fromhex(v) for k, v in op[1].items()}, "num")
                elif op[0] == "remove":
                    inv.remove(op[1])
            tp = np.array([float.fromhex(x) for x in c["explicit"]]) if c.get("explicit") else float.fromhex(c["tmax"])
            kw = dict(time_units=c["tunit"], time_scale=c["scale"], decay_units=c["kind"], npoints=c["npoints"])
            times, data = inv.decay_time_series(tp, **kw)
            r["times"] = [hx(t) for t in times]
            r["cols"] = list(data)
            r["data"] = {k: [hx(v) for v in vs] for k, vs in data.items()}
            # pointwise reference: separate decays at the returned times
            ref = {}
            points = []
            for t in times:
                d = readout(inv.decay(t, c["tunit"]), c["kind"], uc)
                points.append([[k, hx(v)] for k, v in d.items()])
                for k, v in d.items():
                    ref.setdefault(k, []).append(hx(v))
            r["ref"] = ref
            r["points"] = points     # per time point: the separate decay's read-out in its own order (input of the Coq model `assemble`)
            df = inv.decay_time_series_pandas(tp, **kw)
            r["df_cols"] = [str(x) for x in df.columns]
            r["df_index"] = [hx(x) for x in df.index]
            r["df_index_name"] = df.index.name
            r["df_same"] = all([hx(v) for v in df[k]] == r["data"][k] for k in data)
            if c.get("plot"):
                pk = dict(xunits=c["tunit"], xscale=c["scale"], yscale=c["yscale"], yunits=c["kind"], npoints=c["npoints"],
                          display=c["display"], order=c["order"], xmin=float.fromhex(c["xmin"]), ymin=float.fromhex(c["ymin"]))
                if c.get("ymax"):
                    pk["ymax"] = float.fromhex(c["ymax"])
                fig, ax = inv.plot(float.fromhex(c["tmax"]), **pk)
                lines = [[str(ln.get_label()), [hx(v) for v in ln.get_xdata()], [hx(v) for v in ln.get_ydata()]] for ln in ax.get_lines()]
                axinfo = {"xlabel": ax.get_xlabel(), "ylabel": ax.get_ylabel(), "xscale": ax.get_xscale(), "yscale": ax.get_yscale(),
                          "legend": [t.get_text() for t in ax.get_legend().get_texts()] if ax.get_legend() else None}
                plt.close(fig)
                r["plot"] = {"time_points": [hx(t) for t in captured["time_points"]], "nuclides": list(captured["nuclides"]),
                             "ydata": [[hx(v) for v in row] for row in captured["ydata"]], "ylabel": captured["ylabel"],
                             "ylimits": [hx(v) for v in captured["ylimits"]], "xunits": captured["xunits"],
                             "display": sorted(captured["display"]), "xscale": captured["xscale"], "yscale": captured["yscale"],
                             "lines": lines, "axes": axinfo}
                pref, ppoints = [], []
                for t in captured["time_points"]:
                    d = readout(inv.decay(t, c["tunit"]), c["kind"], uc)
                    pref.append([hx(d[n]) for n in captured["nuclides"]])
                    ppoints.append([[k, hx(v)] for k, v in d.items()])
                r["plot"]["ref"] = pref
                r["plot"]["points"] = ppoints     # full read-outs per time point (input of the Coq model `plot_curves`)
                r["plot"]["all_nuclides"] = list(inv.decay(0).nuclides)
                r["plot"]["dataset_order"] = sorted(inv.decay(0).nuclides, key=lambda n: inv.decay_data.nuclide_dict[n])
        except Exception as e:
            r["err"] = type(e).__name__ + ": " + str(e)[:150]
        out.append(r)
    json.dump(out, sys.stdout)
main()
