"""C08 - inventory arithmetic is exact multiset arithmetic on atoms."""
import random
import common as C
import corr_ops as O
import corr_units as U

PID = "C08"
PROPS_MODULE = "Props.C08"
THEOREMS = ["sort_spec", "op_add_spec", "op_sub_spec", "op_mul_spec", "op_div_spec", "remove_spec",
            "construct_keeps_every_key", "construct_duplicate_refused", "step_atomic", "construct_sorted",
            "histories_sorted"]
REQUIRED = ["Props/C08.v", "Model/InvCheck.v"]
TRANSLATORS = ["tr_pure", "tr_tables", "tr_data"]
SHAPE_KEYS = ["AbstractInventory::__init__", "_parse_nuclides", "_check_values", "AbstractInventory::add",
              "AbstractInventory::subtract", "__add__", "__sub__", "__mul__", "__rmul__", "__truediv__",
              "AbstractInventory::remove", "AbstractInventory::_", "InventoryHP::__init__", "add_dictionaries",
              "sort_dictionary_alphabetically", "load_dataset"]
PARTIAL = ["the control flow of the operators is hand-modelled (Model/Inventory.v, _handmodel): tie = recorded source text + "
           "operation-sequence correspondence; parse_nuclide and _convert_to_number inside it are generated",
           "a float scalar multiplied into an InventoryHP gives a SymPy Float by design; exactness is checked for exact scalars",
           "non-default data sets: the theorems are for every data set; the correspondence runs on the default one"]
TRUSTED_BASE = [
    "Coq 8.16.1 kernel incl. vm_compute",
    "axioms: none (closed under the global context)",
    "translators tr_pure.py/pytr.py, tr_tables.py, tr_data.py; tr_shapes.py source-text ties",
    "PrimFloat = IEEE binary64; BigQ (normalising) = SymPy Rational arithmetic; nsimplify of the supplied exact amounts is the identity (observed per case)",
]
ASSUMPTIONS = ["Python dict preserves insertion order; sorted() orders str by code point"]


def correspondence(ctx):
    rng = random.Random(ctx["seed"] + 8)
    thorough = ctx["tier"] == "thorough"
    streams, viol, samples = {}, [], []
    O.ops_stream(rng, 3000 if thorough else 300, 600 if thorough else 60, streams, viol, samples)
    return {"streams": streams, "violations": viol, "samples": samples}


def search_broken(ctx):
    return []


def replay(payload):
    h = payload.get("history")
    if not h:
        return {"fails": True, "note": "nothing to replay; theorem/correspondence named in the file"}
    rec = U.run_impl("impl_ops.py", [h])[0]
    why = O.predicate(h, rec)
    return {"fails": bool(why), "reasons": why, "observed": rec}
