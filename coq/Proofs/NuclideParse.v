(* C09 - proofs about the GENERATED nuclide-name functions of Gen/UtilsGen.v.
   The proofs never mention generated variable names: the generated definitions are unfolded,
   rewritten with the characterising lemmas of Proofs/PyLemmas.v, and what remains is either
   closed by case analysis on the conditions that occur in the goal, or is a closed boolean
   statement over the finite tables, decided by [vm_compute]. *)
From Coq Require Import ZArith NArith List Bool Lia String.
From RD Require Import Base Lib.Py Gen.Tables Gen.UtilsGen Model.NuclideSpec Proofs.PyLemmas.
Import ListNotations.

(* string literals of the generated code, as the spec vocabulary writes them *)
Ltac norm_lits :=
  change (s2l "-"%string) with hyphen;
  change (s2l ""%string) with (@nil N).

(* ================================================================== whitespace *)
Lemma ws_irrelevant : forall s s', ws_free s = ws_free s' -> parse_nuclide_str s = parse_nuclide_str s'.
Proof.
  intros s s' H. unfold ws_free in H. unfold parse_nuclide_str. cbv zeta. rewrite H. reflexivity.
Qed.

(* ================================================================== the tail of parse_nuclide_str *)
(* what parse_nuclide_str does once the input is split as p ++ A ++ q : the pair
   (element, state) it reports, independently of the mass digits A *)
Definition check_es (e m : str) : res (str * str) :=
  if negb (d_mem_sz z_dict (s_capitalize e)) then Raise NuclideStrError
  else if (Z.of_nat (length m) >? 1)%Z then Raise NuclideStrError
  else if negb (s_eqb (s_lower m) [] || l_mem_str (s_lower m) metastable_chars) then Raise NuclideStrError
  else OK (s_capitalize e, s_lower m).

Definition es_of (p q : str) : res (str * str) :=
  match p with
  | _ :: _ => check_es p q
  | [] => match q with
          | [] => Raise NuclideStrError
          | _ :: _ => bind (process_metastable_element_str q) (fun '(m, e) => check_es e m)
          end
  end.

Lemma len2_eqb {A} (x y : A) : (Z.of_nat (length [x; y]) =? 2)%Z = true.
Proof. reflexivity. Qed.

(* reduction: any input whose whitespace-free, first-hyphen-free form is letters ++ digits ++ letters *)
Lemma parse_reduce : forall s p A q,
  all_letters p = true -> all_letters q = true -> all_digits A = true -> A <> [] ->
  (length A <= 4300)%nat -> (dvalue A <= 300)%Z ->
  s_replace_first hyphen [] (s_remove_ws s) = p ++ A ++ q ->
  parse_nuclide_str s = bind (es_of p q) (fun '(e, m) => OK (e ++ hyphen ++ A ++ m)).
Proof.
  intros s p A q Hp Hq HA Hne Hlen Hv Hs.
  assert (Hsplit : s_split_on A (p ++ A ++ q) = OK [p; q]).
  { destruct A as [|d A']; [congruence|].
    assert (Hd : a_digit d = true) by (apply (all_digits_In _ d HA); left; reflexivity).
    apply split_on_once; intros c Hc.
    - apply letter_not_digit_char; [exact (all_letters_In p c Hp Hc)|exact Hd].
    - apply letter_not_digit_char; [exact (all_letters_In q c Hq Hc)|exact Hd]. }
  unfold parse_nuclide_str. cbv zeta. norm_lits. rewrite Hs.
  rewrite (isalnum_pAq p A q Hp HA Hq Hne), (isascii_pAq p A q Hp HA Hq).
  rewrite (filter_digits_pAq p A q Hp HA Hq).
  rewrite (len_nonempty_eqb0 A Hne).
  rewrite (s_int_digits A HA Hne Hlen).
  rewrite Hsplit.
  cbv [bind].
  replace (dvalue A >? 300)%Z with false by (symmetry; rewrite Z.gtb_ltb; apply Z.ltb_ge; exact Hv).
  rewrite len2_eqb, ?l_get_0, ?l_get_1.
  cbn [negb andb].
  unfold es_of, check_es.
  destruct p as [|c p]; destruct q as [|c' q]; cbn [s_eqb]; cbv [bind];
    repeat match goal with
           | |- context [match process_metastable_element_str ?x with _ => _ end] =>
               case (process_metastable_element_str x); [intros [? ?]|intros ?]
           | |- context [if ?b then _ else _] => case b
           end; reflexivity.
Qed.

Lemma parse_reduce_ok : forall s p A q e m,
  all_letters p = true -> all_letters q = true -> all_digits A = true -> A <> [] ->
  (length A <= 4300)%nat -> (dvalue A <= 300)%Z ->
  s_replace_first hyphen [] (s_remove_ws s) = p ++ A ++ q ->
  es_of p q = OK (e, m) ->
  parse_nuclide_str s = OK (e ++ hyphen ++ A ++ m).
Proof.
  intros s p A q e m Hp Hq HA Hne Hlen Hv Hs Hes.
  rewrite (parse_reduce s p A q Hp Hq HA Hne Hlen Hv Hs), Hes. reflexivity.
Qed.

(* ================================================================== the finite part *)
Definition res_es_eqb (r : res (str * str)) (e m : str) : bool :=
  match r with OK (e', m') => s_eqb e' e && s_eqb m' m | Raise _ => false end.

Lemma res_es_eqb_eq r e m : res_es_eqb r e m = true -> r = OK (e, m).
Proof.
  destruct r as [[e' m']|x]; cbn; [|discriminate]. rewrite andb_true_iff, !s_eqb_eq.
  intros [-> ->]. reflexivity.
Qed.

(* element first: every case variant of every element with every case variant of every state *)
Definition el_first_chk (El El' st st' : str) : bool :=
  all_letters El' && all_letters st' && res_es_eqb (es_of El' st') El st.

(* mass first: state then element, exact case *)
Definition mass_first_chk (El st : str) : bool :=
  all_letters (st ++ El) && all_letters st && all_letters El && res_es_eqb (es_of [] (st ++ El)) El st.

Lemma el_first_all : forall El El' st st',
  In El elements -> In El' (case_variants El) -> In st states -> In st' (case_variants st) ->
  el_first_chk El El' st st' = true.
Proof.
  apply (forallb4_In elements case_variants states case_variants el_first_chk).
  vm_compute. reflexivity.
Qed.

Lemma mass_first_all : forall El st, In El elements -> In st states -> mass_first_chk El st = true.
Proof.
  apply (forallb2_In elements (fun _ => states) mass_first_chk).
  vm_compute. reflexivity.
Qed.

Lemma el_first : forall El El' st st', In El elements -> In st states ->
  same_fold El' El -> same_fold st' st ->
  all_letters El' = true /\ all_letters st' = true /\ es_of El' st' = OK (El, st).
Proof.
  intros El El' st st' HEl Hst HfE Hfs.
  pose proof (el_first_all El El' st st' HEl (same_fold_case_variants El' El HfE) Hst
                (same_fold_case_variants st' st Hfs)) as H.
  unfold el_first_chk in H.
  apply andb_true_iff in H. destruct H as [H H5]. apply andb_true_iff in H. destruct H as [H4 H6].
  split; [exact H4|]. split; [exact H6|]. apply res_es_eqb_eq. exact H5.
Qed.

Lemma mass_first : forall El st, In El elements -> In st states ->
  all_letters (st ++ El) = true /\ all_letters st = true /\ all_letters El = true
  /\ es_of [] (st ++ El) = OK (El, st).
Proof.
  intros El st HEl Hst.
  pose proof (mass_first_all El st HEl Hst) as H.
  unfold mass_first_chk in H.
  apply andb_true_iff in H. destruct H as [H H5]. apply andb_true_iff in H. destruct H as [H H4].
  apply andb_true_iff in H. destruct H as [H2 H3].
  split; [exact H2|]. split; [exact H3|]. split; [exact H4|]. apply res_es_eqb_eq. exact H5.
Qed.

(* ================================================================== parse_canonical *)
Lemma letters_no_hyphen p : all_letters p = true -> forall c, In c p -> c <> 45%N.
Proof. intros H c Hc. apply letter_not_hyphen. exact (all_letters_In p c H Hc). Qed.
Lemma digits_no_hyphen p : all_digits p = true -> forall c, In c p -> c <> 45%N.
Proof. intros H c Hc. apply digit_not_hyphen. exact (all_digits_In p c H Hc). Qed.

Lemma mass_ok_facts A : mass_ok A ->
  all_digits A = true /\ A <> [] /\ (length A <= 4300)%nat /\ (dvalue A <= 300)%Z.
Proof.
  intros (Hd & Hz & Hv). split; [exact Hd|]. split; [destruct A; [discriminate|congruence]|].
  split; [|lia]. pose proof (digits_len3 A Hd Hz ltac:(lia)). lia.
Qed.

Lemma parse_canonical : forall El A st s w,
  In El elements -> In st states -> mass_ok A -> spelling El A st s -> ws_free w = s ->
  parse_nuclide_str w = OK (canonical El A st).
Proof.
  intros El A st s w HEl Hst HA Hsp Hw.
  destruct (mass_ok_facts A HA) as (HAd & Hne & Hlen & Hv).
  rewrite (ws_irrelevant w s) by (rewrite <- Hw; unfold ws_free; symmetry; apply remove_ws_idem).
  clear Hw w. unfold canonical.
  destruct Hsp as [El' st' HfE Hfs | El' st' HfE Hfs | | ].
  - (* El'-A st' *)
    pose proof (el_first El El' st st' HEl Hst HfE Hfs) as (HlE & Hls & Hes).
    apply (parse_reduce_ok _ El' A st' El st HlE Hls HAd Hne Hlen Hv); [|exact Hes].
    rewrite remove_ws_tok.
    + unfold hyphen. rewrite (replace_first_once 45%N [] [] El' (A ++ st')); [reflexivity|].
      apply letters_no_hyphen. exact HlE.
    + rewrite !all_tok_app, (all_tok_letters _ HlE), (all_tok_letters _ Hls), (all_tok_digits _ HAd).
      reflexivity.
  - (* El' A st' *)
    pose proof (el_first El El' st st' HEl Hst HfE Hfs) as (HlE & Hls & Hes).
    apply (parse_reduce_ok _ El' A st' El st HlE Hls HAd Hne Hlen Hv); [|exact Hes].
    rewrite remove_ws_tok.
    + unfold hyphen. apply replace_first_absent. intros c Hc. rewrite !in_app_iff in Hc.
      destruct Hc as [Hc|[Hc|Hc]].
      * exact (letters_no_hyphen _ HlE c Hc).
      * exact (digits_no_hyphen _ HAd c Hc).
      * exact (letters_no_hyphen _ Hls c Hc).
    + rewrite !all_tok_app, (all_tok_letters _ HlE), (all_tok_letters _ Hls), (all_tok_digits _ HAd).
      reflexivity.
  - (* A st El *)
    pose proof (mass_first El st HEl Hst) as (Hlq & Hls & HlE & Hes).
    apply (parse_reduce_ok _ [] A (st ++ El) El st eq_refl Hlq HAd Hne Hlen Hv); [|exact Hes].
    rewrite remove_ws_tok.
    + unfold hyphen. cbn [app]. apply replace_first_absent. intros c Hc. rewrite !in_app_iff in Hc.
      destruct Hc as [Hc|[Hc|Hc]].
      * exact (digits_no_hyphen _ HAd c Hc).
      * exact (letters_no_hyphen _ Hls c Hc).
      * exact (letters_no_hyphen _ HlE c Hc).
    + rewrite !all_tok_app, (all_tok_letters _ HlE), (all_tok_letters _ Hls), (all_tok_digits _ HAd).
      reflexivity.
  - (* A st - El *)
    pose proof (mass_first El st HEl Hst) as (Hlq & Hls & HlE & Hes).
    apply (parse_reduce_ok _ [] A (st ++ El) El st eq_refl Hlq HAd Hne Hlen Hv); [|exact Hes].
    rewrite remove_ws_tok.
    + replace (A ++ st ++ hyphen ++ El) with ((A ++ st) ++ hyphen ++ El) by (rewrite <- app_assoc; reflexivity).
      unfold hyphen. rewrite (replace_first_once 45%N [] [] (A ++ st) El).
      * cbn [app]. rewrite <- app_assoc. reflexivity.
      * intros c Hc. rewrite in_app_iff in Hc. destruct Hc as [Hc|Hc].
        -- exact (digits_no_hyphen _ HAd c Hc).
        -- exact (letters_no_hyphen _ Hls c Hc).
    + rewrite !all_tok_app, (all_tok_letters _ HlE), (all_tok_letters _ Hls), (all_tok_digits _ HAd).
      reflexivity.
Qed.

(* ================================================================== canonical_fixed_point *)
Lemma same_fold_refl a : same_fold a a.
Proof. reflexivity. Qed.

Lemma canonical_fixed_point : forall El A st, In El elements -> In st states -> mass_ok A ->
  parse_nuclide_str (canonical El A st) = OK (canonical El A st).
Proof.
  intros El A st HEl Hst HA.
  destruct (mass_ok_facts A HA) as (HAd & Hne & Hlen & Hv).
  pose proof (el_first El El st st HEl Hst (same_fold_refl El) (same_fold_refl st)) as (HlE & Hls & _).
  apply (parse_canonical El A st (canonical El A st) (canonical El A st) HEl Hst HA).
  - unfold canonical. apply sp_el_hyphen; apply same_fold_refl.
  - unfold ws_free, canonical. apply remove_ws_tok.
    rewrite !all_tok_app, (all_tok_letters _ HlE), (all_tok_letters _ Hls), (all_tok_digits _ HAd).
    reflexivity.
Qed.

(* ================================================================== tables: Z_DICT, states *)
Definition res_z_eqb (r : res Z) (z : Z) : bool := match r with OK z' => Z.eqb z' z | Raise _ => false end.
Definition res_s_eqb (r : res str) (s : str) : bool := match r with OK s' => s_eqb s' s | Raise _ => false end.

Lemma res_z_eqb_eq r z : res_z_eqb r z = true -> r = OK z.
Proof. destruct r as [z'|x]; cbn; [|discriminate]. rewrite Z.eqb_eq. intros ->. reflexivity. Qed.
Lemma res_s_eqb_eq r s : res_s_eqb r s = true -> r = OK s.
Proof. destruct r as [s'|x]; cbn; [|discriminate]. rewrite s_eqb_eq. intros ->. reflexivity. Qed.

Lemma z_of_In : forall l El z, z_of El l = Some z -> In El (map snd l).
Proof.
  induction l as [|[z' e] l IH]; intros El z H; cbn in H; [discriminate|].
  destruct (s_eqb e El) eqn:E.
  - left. apply s_eqb_eq. exact E.
  - right. exact (IH El z H).
Qed.

(* per element: the atomic number is small, Z_DICT maps it back to the symbol, SYM_DICT maps the
   symbol to it, and the symbol consists of letters *)
Definition zdict_chk (El : str) : bool :=
  match z_of El z_dict with
  | None => true
  | Some z => Z.leb 1 z && Z.leb z 200 && d_mem_zs z_dict z && res_s_eqb (d_get_zs z_dict z) El
              && res_z_eqb (d_get_sz z_dict El) z && all_letters El
  end.

Lemma zdict_all : forall El, In El elements -> zdict_chk El = true.
Proof. apply forallb_forall. vm_compute. reflexivity. Qed.

Lemma zdict_facts El z : z_of El z_dict = Some z ->
  (1 <= z <= 200)%Z /\ d_mem_zs z_dict z = true /\ d_get_zs z_dict z = OK El
  /\ d_get_sz z_dict El = OK z /\ all_letters El = true.
Proof.
  intros Hz. pose proof (zdict_all El (z_of_In z_dict El z Hz)) as H. unfold zdict_chk in H.
  rewrite Hz in H.
  apply andb_true_iff in H. destruct H as [H H6]. apply andb_true_iff in H. destruct H as [H H5].
  apply andb_true_iff in H. destruct H as [H H4]. apply andb_true_iff in H. destruct H as [H H3].
  apply andb_true_iff in H. destruct H as [H1 H2]. apply Z.leb_le in H1, H2.
  split; [lia|]. split; [exact H3|]. split; [apply res_s_eqb_eq; exact H4|].
  split; [apply res_z_eqb_eq; exact H5|exact H6].
Qed.

Lemma states_letters st : In st states -> all_letters st = true.
Proof. revert st. apply forallb_forall. vm_compute. reflexivity. Qed.

(* the seven states, one by one (the only enumeration by cases: 7 of them) *)
Ltac each_state Hst Hsn :=
  cbv [states metastable_chars In] in Hst;
  repeat (destruct Hst as [Hst|Hst]; [subst; vm_compute in Hsn; injection Hsn as Hsn; subst|]);
  [.. | contradiction].

(* evaluate the closed conditions / table look-ups left in the goal *)
Ltac eval_closed :=
  repeat first
    [ match goal with |- context [l_index_str ?l ?s] =>
        let v := eval vm_compute in (l_index_str l s) in progress change (l_index_str l s) with v end
    | match goal with |- context [l_get ?l ?i] =>
        let v := eval vm_compute in (l_get l i) in progress change (l_get l i) with v end
    | match goal with |- context [if ?b then _ else _] =>
        let v := eval vm_compute in b in
        lazymatch v with true => idtac | false => idtac end;
        change b with v; cbv iota end ];
  cbv beta iota.

(* ================================================================== build_id *)
Lemma build_id_ok : forall z a st sn, In st states -> state_num st = Some sn ->
  build_id z a st = OK (id_of z a sn).
Proof.
  intros z a st sn Hst Hsn.
  each_state Hst Hsn; unfold build_id; cbv zeta; cbv [bind]; eval_closed; unfold id_of; f_equal; lia.
Qed.

(* ================================================================== parse_id *)
Lemma parse_id_ok : forall El z a st sn, z_of El z_dict = Some z -> In st states -> state_num st = Some sn ->
  (1 <= a <= 999)%Z ->
  parse_id (id_of z a sn) = OK (El ++ hyphen ++ s_of_int a ++ st).
Proof.
  intros El z a st sn Hz Hst Hsn Ha.
  destruct (zdict_facts El z Hz) as (Hzr & Hmem & Hget & _ & _).
  each_state Hst Hsn;
  match goal with |- parse_id (id_of z a ?SN) = _ =>
    unfold parse_id;
    rewrite (int_truediv_exact (id_of z a SN) 10000 (z * 1000 + a) SN) by (unfold id_of; lia);
    cbv [bind]; cbv zeta;
    replace (id_of z a SN - (z * 1000 + a) * 10000)%Z with SN by (unfold id_of; lia);
    rewrite (int_truediv_exact (z * 1000 + a) 1000 z a) by lia;
    cbv [bind]; cbv zeta;
    replace (z * 1000 + a - z * 1000)%Z with a by lia;
    unfold build_nuclide_string; rewrite Hmem, Hget;
    cbv [bind negb]; cbv zeta; norm_lits;
    eval_closed; reflexivity
  end.
Qed.

(* ================================================================== id_roundtrip *)
Lemma id_roundtrip : forall El z A st sn, z_of El z_dict = Some z -> In st states -> state_num st = Some sn ->
  all_digits A = true -> (match A with c :: _ => negb (N.eqb c 48) | [] => false end) = true ->
  (1 <= dvalue A <= 999)%Z ->
  build_id z (dvalue A) st = OK (id_of z (dvalue A) sn) /\
  parse_id (id_of z (dvalue A) sn) = OK (canonical El A st).
Proof.
  intros El z A st sn Hz Hst Hsn HAd HAz HAv. split.
  - apply build_id_ok; assumption.
  - rewrite (parse_id_ok El z (dvalue A) st sn Hz Hst Hsn HAv).
    rewrite (s_of_int_dvalue A) by (apply in_digit_strings; [exact HAd|exact HAz|lia]).
    reflexivity.
Qed.

(* ================================================================== nuclide_Z / A / state / id *)
Lemma states_in_chars chars :
  forallb (fun st => forallb (fun c => c_in c chars) st) states = true ->
  forall st, In st states -> forall c, In c st -> c_in c chars = true.
Proof. intros H st Hst c Hc. exact (forallb_In _ _ _ (forallb_In _ _ _ H Hst) Hc). Qed.

Lemma states_notin_chars chars :
  forallb (fun st => forallb (fun c => negb (c_in c chars)) st) states = true ->
  forall st, In st states -> forall c, In c st -> c_in c chars = false.
Proof.
  intros H st Hst c Hc. apply negb_true_iff.
  exact (forallb_In _ _ _ (forallb_In (fun st => forallb (fun c => negb (c_in c chars)) st) _ _ H Hst) Hc).
Qed.

Lemma nuclide_fields_agree : forall El z A st sn, z_of El z_dict = Some z -> In El elements ->
  In st states -> state_num st = Some sn ->
  all_digits A = true -> (match A with c :: _ => negb (N.eqb c 48) | [] => false end) = true ->
  (1 <= dvalue A <= 999)%Z ->
  nuclide_Z (canonical El A st) = OK z /\
  nuclide_A (canonical El A st) = OK (dvalue A) /\
  nuclide_state (canonical El A st) = OK st /\
  nuclide_id (canonical El A st) = OK (id_of z (dvalue A) sn).
Proof.
  intros El z A st sn Hz HEl Hst Hsn HAd HAz HAv.
  destruct (zdict_facts El z Hz) as (_ & _ & _ & Hsz & HlE).
  pose proof (states_letters st Hst) as Hls.
  assert (Hne : A <> []) by (destruct A; [discriminate|congruence]).
  assert (Hlen : (length A <= 4300)%nat) by (pose proof (digits_len3 A HAd HAz ltac:(lia)); lia).
  assert (Hsplit : s_split_on hyphen (canonical El A st) = OK [El; A ++ st]).
  { unfold canonical, hyphen. apply split_on_once.
    - apply letters_no_hyphen. exact HlE.
    - intros c Hc. rewrite in_app_iff in Hc. destruct Hc as [Hc|Hc].
      + exact (digits_no_hyphen _ HAd c Hc).
      + exact (letters_no_hyphen _ Hls c Hc). }
  assert (HZ : nuclide_Z (canonical El A st) = OK z).
  { unfold nuclide_Z, elem_to_Z. norm_lits. rewrite Hsplit. cbv [bind]. rewrite l_get_0, Hsz. reflexivity. }
  assert (HA : nuclide_A (canonical El A st) = OK (dvalue A)).
  { unfold nuclide_A. norm_lits. rewrite Hsplit. cbv [bind]. rewrite l_get_1.
    rewrite (strip_keep_prefix _ A st Hne).
    - rewrite (s_int_digits A HAd Hne Hlen). reflexivity.
    - eapply digits_notin; [vm_compute; reflexivity|exact HAd].
    - eapply states_in_chars; [vm_compute; reflexivity|exact Hst]. }
  assert (HS : nuclide_state (canonical El A st) = OK st).
  { unfold nuclide_state. norm_lits. rewrite Hsplit. cbv [bind]. rewrite l_get_1.
    rewrite (strip_keep_suffix _ A st).
    - reflexivity.
    - eapply digits_in; [vm_compute; reflexivity|exact HAd].
    - eapply states_notin_chars; [vm_compute; reflexivity|exact Hst]. }
  split; [exact HZ|]. split; [exact HA|]. split; [exact HS|].
  unfold nuclide_id. rewrite HZ, HA, HS. cbv [bind]. apply build_id_ok; assumption.
Qed.

(* ================================================================== non-vacuity *)
Lemma spelling_example :
  In [88%N; 101%N] elements /\ In [109%N] states /\ mass_ok [49%N; 51%N; 53%N] /\
  spelling [88%N; 101%N] [49%N; 51%N; 53%N] [109%N] [49%N; 51%N; 53%N; 109%N; 88%N; 101%N].
Proof.
  split; [|split; [|split]].
  - assert (H : existsb (s_eqb [88%N; 101%N]) elements = true) by (vm_compute; reflexivity).
    apply existsb_exists in H. destruct H as (x & Hx & E). apply s_eqb_eq in E. subst x. exact Hx.
  - assert (H : existsb (s_eqb [109%N]) states = true) by (vm_compute; reflexivity).
    apply existsb_exists in H. destruct H as (x & Hx & E). apply s_eqb_eq in E. subst x. exact Hx.
  - unfold mass_ok. split; [reflexivity|]. split; [reflexivity|]. vm_compute. split; discriminate.
  - exact (sp_mass [88%N; 101%N] [49%N; 51%N; 53%N] [109%N]).
Qed.

Print Assumptions ws_irrelevant.
Print Assumptions parse_canonical.
Print Assumptions canonical_fixed_point.
Print Assumptions id_roundtrip.
Print Assumptions nuclide_fields_agree.
Print Assumptions spelling_example.
