"""C04 - shipped data sets exactly self-consistent."""
import json, os, re
import common as C

PID = "C04"
PROPS_MODULE = "Props.C04"
THEOREMS = ["default_wf_core", "wf_core_is_certificate", "default_wf_struct", "generations_identical",
            "default_closed_form_is_solution", "default_closed_form_initial", "default_solution_unique"]
EXTRA_PROPS = {"Props.C04b": ["default_float_data_certificate", "float_matrices_contribution", "lambda_perturbation",
                             "float_data_error", "default_data_error_below_5e12"],
               "Props.C04s": ["synth_wf_core", "synth_wf_struct", "synth_patterns", "synth_float_certificates",
                              "synth_closed_form_is_solution", "synth_closed_form_initial", "synth_solution_unique"]}
REQUIRED = ["Props/C04.v", "Props/C04b.v", "Props/C04s.v", "Proofs/CertDefault/DigestVal.v", "Proofs/CertDefault/FloatDataCert.v"]
TRANSLATORS = ["tr_data", "synth_dataset", "tr_data_synth", "tr_tables", "tr_pure"]
SHAPE_KEYS = ["load_dataset"]
PARTIAL = ["float_data_error bounds the contribution of the stored double-precision DATA (matrices, decay constants) "
           "under exact arithmetic; the rounding of the float ARITHMETIC itself (SciPy dot products, exp) is not "
           "covered by a theorem - it is measured by the C01 correspondence against interval enclosures",
           "default_data_error_below_5e12 takes the 1e-15 relative bound on the decay constants from "
           "default_float_data_certificate (chk_lambda_close, kernel-computed against ln2 enclosure)"]
TRUSTED_BASE = [
    "Coq 8.16.1 kernel incl. vm_compute (no native_compute)",
    "axioms: ClassicalDedekindReals.sig_forall_dec, sig_not_dec, functional_extensionality_dep, classic (Reals/Coquelicot); "
    "Uint63/PrimInt63 primitive specifications (Bignums BigQ); primitive float type",
    "translator tools/tr_data.py + tools/pickle_stub.py (NumPy npz reader; recording unpickler, no SymPy)",
    "translator tools/tr_tables.py (AST literals of converters.py/utils.py)",
    "correspondence: digests of the live DEFAULTDATA objects vs Coq-evaluated digests of the generated modules",
]
ASSUMPTIONS = [
    "the branching fraction / half-life used by the exact check is the decimal repr of the stored float",
    "numpy.load / scipy CSR layout read as documented",
]


def coq_digest():
    src = ("From RD Require Import Proofs.CertDefault.DigestVal.\nFrom Coq Require Import ZArith List.\n"
           "Eval vm_compute in default_digest.\n")
    p = os.path.join(C.SCRATCH, "print_digest.v")
    open(p, "w").write(src)
    rc, out = C.sh(["coqc", "-Q", C.COQ, "RD", p], timeout=300)
    if rc != 0:
        return None, out
    nums = [int(x) for x in re.findall(r"(-?\d+)\)?%Z", out)]
    return nums, out


def find_bad():
    """name the failing certificate components (failing-input search for data edits)"""
    names = ["chk_lengths", "chk_CCi", "chk_CiC", "chk_MC", "chk_mu_nonneg", "chk_stable_col", "chk_links"]
    snames = ["chk_aligned", "chk_progeny_known", "chk_names_distinct", "chk_forward", "chk_bfs",
              "chk_stable_consistent", "chk_halflife", "chk_year", "chk_modes", "chk_names_shape", "chk_readable"]
    args = {"chk_halflife": "time_units_q year_units", "chk_modes": "z_dict", "chk_names_shape": "z_dict",
            "chk_readable": "time_units_q year_units"}
    src = "From RD Require Import Base Model.Dataset Model.Default Gen.Tables Model.FindBad.\n"
    for n in names + snames:
        src += f'Eval vm_compute in ({n} Default {args.get(n, "")}).\n'
    src += "Eval vm_compute in (find_bad_all Default time_units_q year_units z_dict).\n"
    src += "Eval vm_compute in (gens_diff Default18 Default).\n"
    p = os.path.join(C.SCRATCH, "find_bad.v")
    open(p, "w").write(src)
    rc, out = C.sh(["coqc", "-Q", C.COQ, "RD", p], timeout=1500)
    vals = re.findall(r"=\s*(true|false)\s*:\s*bool", out)
    res = dict(zip(names + snames, vals))
    tail = out.split(": bool")[-1] if ": bool" in out else out
    return res, tail.strip()[:4000], rc


def search_broken(ctx):
    res, detail, rc = find_bad()
    failing = [k for k, v in res.items() if v == "false"]
    # the two witness lists printed last: find_bad_all (certificate components) and gens_diff (pickle generations)
    lists = [x.strip().replace(" ", "").replace("\n", "") for x in re.findall(r"=\s*(\[.*?\])\s*:\s*list", detail, re.S)]
    gens = lists[1] if len(lists) > 1 else "[]"
    if gens != "[]":
        names, _ = __import__("corr_units").dataset_names()
        m = re.search(r"\((\d+)%N,\[(\d+)%N", gens)
        what = {"10": "decay constant (mu)", "11": "exact atomic mass", "12": "row of the exact C", "13": "row of the exact C^-1", "14": "exact days-per-year", "15": "array lengths"}
        first = (f"{what.get(m.group(1), m.group(1))} of {names[int(m.group(2))] if int(m.group(2)) < len(names) else m.group(2)}" if m else gens[:200])
        return [{"name": "generations-differ", "key": "gens:" + gens[:80], "found_input": True,
                 "fails": "the two shipped generations of the high-precision data files (sympy_1.8 / sympy_1.9 pickles) hold different data: " + first,
                 "input": first, "witnesses (component, indices)": gens[:1000], "failing_components": failing,
                 "replay_how": "Eval vm_compute in (gens_diff Default18 Default) (coq/Model/FindBad.v)"}]
    if not failing and not detail:
        return []
    if not failing and (not lists or lists[0] == "[]") and "false" not in detail:
        return []
    return [{"name": "data-certificate", "key": "data:" + ",".join(failing),
             "broken": "certificate component(s) evaluate to false on the current data files",
             "failing_components": failing, "witnesses (component, index, detail)": detail,
             "replay_how": "Eval vm_compute in the named chk_* on Model.Default (coq/Model/Dataset.v)"}]


def correspondence(ctx):
    streams, viol, samples = {}, [], []
    rc, out = C.sh([C.PY, os.path.join(C.TOOLS, "impl_digest.py")], env=C.IMPL_ENV, timeout=900, cwd="/tmp")
    line = [l for l in out.splitlines() if l.startswith("{")]
    if rc != 0 or not line:
        viol.append({"name": "impl-digest", "found_input": False, "key": "impl-digest-crash",
                     "payload": {"broken": "implementation digest driver failed", "output": out[-2000:]}})
        return {"streams": streams, "violations": viol}
    impl = json.loads(line[-1])
    cd, cout = (None, "") if not C.vo_ok("Proofs/CertDefault/DigestVal.v") else coq_digest()
    labels = ["n", "names", "hldata", "progeny", "bfs", "modes", "masses_f", "year_f", "cf", "cif",
              "mu", "year_e", "c", "ci"]
    dis = []
    if cd is None or len(cd) != len(impl["digest"]):
        dis = ["<no coq digest>"]
    else:
        dis = [l for l, a, b in zip(labels, cd, impl["digest"]) if a != b]
    streams["digest_live_vs_generated"] = {"cases": len(labels), "disagreements": len(dis),
                                            "what": "every entry of every array DEFAULTDATA holds, folded into 14 digests"}
    samples.append({"digest_component": "c (exact matrix)", "coq": cd[12] if cd else None, "impl": impl["digest"][12]})
    if dis:
        viol.append({"name": "digest", "found_input": True, "key": "digest:" + ",".join(dis),
                     "payload": {"broken": "the data the running library holds differs from the translated modules",
                                 "components": dis, "coq": cd, "impl": impl["digest"]}})
    # float decay constants: the generated load_dataset formula (PrimFloat) vs the array the library holds
    import coqcases as Q
    import corr_units as U
    names, _ = U.dataset_names()
    pre = ("From Coq Require Import ZArith NArith List PrimFloat.\nImport ListNotations.\n"
           "From RD Require Import Base Lib.Py Model.Dataset Model.Default Model.Units Model.UnitsCheck.\n"
           "Definition lam := Eval vm_compute in default_lam Default.\n"
           "Definition chk (c : nat * float) : bool := feq (nth (fst c) lam nan) (snd c).\n")
    terms = [f"({i}%nat, {Q.fhex(float.fromhex(h))})" for i, h in enumerate(impl["decay_consts_hex"])]
    if C.vo_ok("Model/UnitsCheck.v"):
        bad, errs = Q.run_cases("lam", pre, "nat * float", terms, "chk", shard=800)
        streams["float_decay_constants"] = {"cases": len(terms), "model_disagrees": len(bad), "coq_errors": len(errs),
                                            "exhaustive": True,
                                            "what": "ln2 / time_unit_conv(half-life, unit, 's', year) in PrimFloat vs scipy_data.decay_consts, all nuclides"}
        import math
        for i in bad[:3]:
            viol.append({"name": f"decay-const-{i}", "found_input": True, "key": f"lam:{names[i]}",
                         "payload": {"fails": "float decay constant held by the library is not ln2 / (listed half-life in seconds)",
                                     "input": names[i], "impl": impl["decay_consts_hex"][i],
                                     "entry": "load_dataset(...).scipy_data.decay_consts"}})
        if errs:
            viol.append({"name": "lam-coq", "found_input": False, "key": "lam-coq",
                         "payload": {"broken": "model evaluation failed in Coq", "errors": errs[:2]}})
    return {"streams": streams, "violations": viol, "samples": samples}


def replay(payload):
    res, detail, rc = find_bad()
    failing = [k for k, v in res.items() if v == "false"]
    return {"fails": bool(failing), "failing_components": failing, "detail": detail}
