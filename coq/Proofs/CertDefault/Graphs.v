From Coq Require Import List.
From RD Require Import Base Model.Dataset Model.Default Model.Digraph Model.DigraphD.
From RD.Gen.Default Require Meta.
Definition default_gv : gview := Eval vm_compute in graph_view Default Meta.bf_reprs.
Lemma default_gv_eq : default_gv = graph_view Default Meta.bf_reprs.
Proof. vm_compute. reflexivity. Qed.
Lemma default_graphs_ok : all_graphs_ok default_gv = true.
Proof. vm_cast_no_check (eq_refl true). Qed.
