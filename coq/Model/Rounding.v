(* The double-precision evaluation of  N(t) = ((C @ E) @ C^-1) @ N0  as SciPy performs it, over the reals with an
   ABSTRACT rounding operator (standard model with underflow term):  every product and every accumulation step is
   rounded once; sparse-times-sparse accumulates, for each output entry, the rounded products in the order in which
   the left operand's row is stored; sparse-times-vector accumulates in the order of the stored row.  The orders are
   parameters (lists): the error bound holds for every order, and terms whose rounded factor is exactly zero may be
   left out (SciPy prunes zeros from the intermediate products).  Definitions only; proofs in Proofs/RoundingP.v;
   the binary64 instance is Model/Rounding64.v. *)
From Coq Require Import Reals List Arith.
From RD Require Import Model.DecayR.
Import ListNotations.
Local Open Scope R_scope.

Fixpoint lsum {A} (f : A -> R) (l : list A) : R :=
  match l with [] => 0 | x :: r => f x + lsum f r end.

Section StdModel.
  Variable rnd : R -> R.
  Variables u eta : R.

  (* rnd x = x (1 + delta) + eps  with |delta| <= u, |eps| <= eta *)
  Definition std_model : Prop :=
    0 <= u /\ 0 <= eta /\
    forall x, exists delta eps, rnd x = x * (1 + delta) + eps /\ Rabs delta <= u /\ Rabs eps <= eta.

  (* s := 0;  for (a, x) in l:  s := rnd (s + rnd (a * x)) *)
  Definition fl_dot (l : list (R * R)) : R :=
    fold_left (fun s ax => rnd (s + rnd (fst ax * snd ax))) l 0.

  Definition gam (m : nat) : R := (1 + u) ^ m - 1.

  Section Eval.
    Variable n : nat.
    Variables Cf Cif : nat -> nat -> R.     (* the stored double-precision matrices, as reals *)
    Variable E : nat -> R.                  (* the stored diagonal: computed exponentials *)
    Variable n0 : nat -> R.
    Variable ks : nat -> nat -> list nat.   (* ks i j : the k's accumulated (in this order) into entry (i,j) of (C@E)@C^-1 *)
    Variable js : nat -> list nat.          (* js i : the j's accumulated (in this order) into entry i of the result *)

    Definition CE (i k : nat) : R := rnd (Cf i k * E k).
    Definition Mhat (i j : nat) : R := fl_dot (map (fun k => (CE i k, Cif k j)) (ks i j)).
    Definition yhat (i : nat) : R := fl_dot (map (fun j => (Mhat i j, n0 j)) (js i)).

    (* what the same data give in exact arithmetic *)
    Definition Yexact (i : nat) : R :=
      sumn n (fun j => sumn n (fun k => Cf i k * E k * Cif k j) * n0 j).
    (* the condition number that scales the rounding error, entry-wise *)
    Definition Sabs (i j : nat) : R := sumn n (fun k => Rabs (Cf i k) * Rabs (Cif k j)).

    (* the orders are duplicate-free, in range, and leave out only terms that are exactly zero *)
    Definition orders_ok (i : nat) : Prop :=
      (forall j, (j < n)%nat -> NoDup (ks i j) /\ (forall k, In k (ks i j) -> (k < n)%nat) /\
                 (forall k, (k < n)%nat -> ~ In k (ks i j) -> CE i k * Cif k j = 0)) /\
      NoDup (js i) /\ (forall j, In j (js i) -> (j < n)%nat) /\
      (forall j, (j < n)%nat -> ~ In j (js i) -> Mhat i j * n0 j = 0).
  End Eval.
End StdModel.
