(* The decay flow over the reals, for an abstract data set given by dense matrices.
   This file contains DEFINITIONS only (no proofs), so that it still compiles when a proof breaks.
   Theorems about these definitions are in Proofs/Bateman.v. *)
From Coq Require Import Reals Arith.
Local Open Scope R_scope.

(* sum_{k<n} f k *)
Fixpoint sumn (n : nat) (f : nat -> R) : R :=
  match n with
  | O => 0
  | S m => sumn m f + f m
  end.

Section DecayR.
  Variable n : nat.                       (* number of nuclides, indices 0..n-1 *)
  Variables C Ci M : nat -> nat -> R.     (* eigenvector matrix, its inverse, rate matrix / ln 2 *)
  Variable mu : nat -> R.                 (* lambda_k = ln 2 * mu_k *)
  Variable bf : nat -> nat -> R.          (* bf p i = branching fraction of the link p -> i, 0 if none *)
  Variable stable : nat -> bool.          (* stable k = true  <->  mu k = 0 *)

  Definition lam (k : nat) : R := ln 2 * mu k.
  Definition Lam (i m : nat) : R := ln 2 * M i m.

  (* w = C^-1 n0 *)
  Definition w (n0 : nat -> R) (k : nat) : R := sumn n (fun j => Ci k j * n0 j).

  (* N(t) = C diag(exp(-lambda t)) C^-1 n0 *)
  Definition Nt (n0 : nat -> R) (t : R) (i : nat) : R :=
    sumn n (fun k => C i k * (exp (- lam k * t) * w n0 k)).

  (* diagonal of the "integrated exponential" matrix used by cumulative_decays:
     (1 - exp(-lambda t)) / lambda for radioactive k and 0 for stable k *)
  Definition Ecum (t : R) (k : nat) : R :=
    if stable k then 0 else (1 - exp (- lam k * t)) / lam k.

  Definition Dcum (n0 : nat -> R) (t : R) (i : nat) : R :=
    lam i * sumn n (fun k => C i k * (Ecum t k * w n0 k)).

  (* the certificate, as facts over R *)
  Record cert : Prop := {
    c_CCi : forall i j, (i < n)%nat -> (j < n)%nat ->
        sumn n (fun k => C i k * Ci k j) = if Nat.eqb i j then 1 else 0;
    c_CiC : forall i j, (i < n)%nat -> (j < n)%nat ->
        sumn n (fun k => Ci i k * C k j) = if Nat.eqb i j then 1 else 0;
    c_MC : forall i k, (i < n)%nat -> (k < n)%nat ->
        sumn n (fun m => M i m * C m k) = - mu k * C i k;
    c_M : forall i m, (i < n)%nat -> (m < n)%nat ->
        M i m = if Nat.eqb i m then - mu m else bf m i * mu m;
    c_bf_diag : forall i, (i < n)%nat -> bf i i = 0;
    c_stable : forall k, (k < n)%nat -> (stable k = true <-> mu k = 0);
    c_mu_nonneg : forall k, (k < n)%nat -> 0 <= mu k;
    c_stable_col : forall i k, (i < n)%nat -> (k < n)%nat -> stable k = true -> i <> k -> C i k = 0
  }.
End DecayR.
