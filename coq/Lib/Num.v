(* Abstract number domain of the arithmetic model: the generated converter / read-out functions are
   written once over [numops T] and instantiated with binary64 (PrimFloat), with R and with exact
   rationals (BigQ).  Definitions only. *)
From Coq Require Import ZArith NArith List Bool Reals QArith.
From Coq Require Import PrimFloat.
From Bignums Require Import BigQ.
From RD Require Import Base Lib.Py.
Import ListNotations.

Record numops (T : Type) := NumOps {
  nadd : T -> T -> T;
  nsub : T -> T -> T;
  nmul : T -> T -> T;
  ndiv : T -> T -> T;
  nofz : Z -> T;            (* a Python int used in arithmetic with a number *)
  niszero : T -> bool;      (* x == 0 *)
  nfloat : T -> T;          (* float(x): identity for binary64, rounding oracle for exact numbers *)
  nsum : list T -> T        (* Python's built-in sum(values) (start = int 0) *)
}.
Arguments nadd {T} _ _ _.
Arguments nsub {T} _ _ _.
Arguments nmul {T} _ _ _.
Arguments ndiv {T} _ _ _.
Arguments nofz {T} _ _.
Arguments niszero {T} _ _.
Arguments nfloat {T} _ _.
Arguments nsum {T} _ _.

(* dict str -> number *)
Fixpoint d_get_sn {T} (d : list (str * T)) (k : str) : res T :=
  match d with [] => Raise KeyError | (a, v) :: r => if s_eqb a k then OK v else d_get_sn r k end.
Definition d_mem_sn {T} (d : list (str * T)) (k : str) : bool := existsb (fun kv => s_eqb (fst kv) k) d.

(* ---------- binary64 *)
Definition float_of_Z (z : Z) : float :=      (* exact for |z| < 2^53; used for small literals only *)
  match z with
  | Z0 => zero
  | Zpos p => of_uint63 (Uint63.of_Z (Zpos p))
  | Zneg p => opp (of_uint63 (Uint63.of_Z (Zpos p)))
  end.
Definition float_ops : numops float :=
  NumOps float add sub mul div float_of_Z (fun x => PrimFloat.eqb x zero) (fun x => x)
         (fun l => fold_left add l zero).

(* ---------- reals *)
Local Open Scope R_scope.
Definition R_iszero (x : R) : bool := if Req_EM_T x 0 then true else false.
Definition R_ops : numops R := NumOps R Rplus Rminus Rmult Rdiv IZR R_iszero (fun x => x)
  (fun l => fold_left Rplus l 0).

(* ---------- exact rationals (SymPy Rational arithmetic) *)
Definition bigQ_ops : numops bigQ :=
  NumOps bigQ BigQ.add_norm BigQ.sub_norm BigQ.mul_norm BigQ.div_norm (fun z => BigQ.of_Q (inject_Z z))
         (fun x => BigQ.eq_bool x BigQ.zero) (fun x => x) (fun l => fold_left BigQ.add_norm l BigQ.zero).

(* ---------- dict str -> number helpers used by the generated inventory functions *)
Fixpoint dmap_res {T} (f : str -> T -> res T) (d : list (str * T)) : res (list (str * T)) :=
  match d with
  | [] => OK []
  | (k, v) :: r => bind (f k v) (fun v' => bind (dmap_res f r) (fun r' => OK ((k, v') :: r')))
  end.
(* Python's sum(d.values()): left fold starting from the int 0 *)
Definition dsum {T} (ops : numops T) (d : list (str * T)) : T := nsum ops (map snd d).

(* ---------- binary64 with the CPython / NumPy "flavour" of the value: (x, true) is an exact Python
   float, (x, false) a numpy.float64.  An operation with a numpy operand yields a numpy value.  The
   flavour only matters for the built-in sum(), which (CPython >= 3.12) adds exact floats with
   Neumaier compensation and everything else by plain left-to-right addition. *)
Definition pyf := (float * bool)%type.
Definition pf_lift (f : float -> float -> float) (a b : pyf) : pyf := (f (fst a) (fst b), snd a && snd b).
Fixpoint pf_generic_sum (acc : float) (l : list pyf) : float :=
  match l with [] => acc | x :: r => pf_generic_sum (add acc (fst x)) r end.
Definition is_finite_nz (c : float) : bool :=
  negb (PrimFloat.eqb c zero) && negb (is_nan c) && negb (is_infinity c).
Fixpoint pf_neumaier (f c : float) (l : list pyf) : float * bool :=
  match l with
  | [] => ((if is_finite_nz c then add f c else f), true)
  | (x, true) :: r =>
      let t := add f x in
      let c' := if PrimFloat.leb (abs x) (abs f) then add c (add (sub f t) x) else add c (add (sub x t) f) in
      pf_neumaier t c' r
  | (x, false) :: r =>
      let f' := if is_finite_nz c then add f c else f in
      (pf_generic_sum (add f' x) r, false)
  end.
Definition pf_sum (l : list pyf) : pyf :=
  match l with
  | [] => (zero, true)            (* the int 0; not reached with non-empty inventories *)
  | (x0, true) :: r => pf_neumaier (add zero x0) zero r
  | (x0, false) :: r => (pf_generic_sum (add zero x0) r, false)
  end.
Definition pyfloat_ops : numops pyf :=
  NumOps pyf (pf_lift add) (pf_lift sub) (pf_lift mul) (pf_lift div) (fun z => (float_of_Z z, true))
         (fun x => PrimFloat.eqb (fst x) zero) (fun x => (fst x, true)) pf_sum.

(* value stored for a nuclide name in an array indexed like the data set's nuclide list
   (self.decay_matrices.X[self.decay_data.nuclide_dict[nuc]]) *)
Fixpoint by_name {T} (names : list str) (vals : list T) (nuc : str) : res T :=
  match names, vals with
  | n :: names', v :: vals' => if s_eqb n nuc then OK v else by_name names' vals' nuc
  | _, _ => Raise KeyError
  end.
