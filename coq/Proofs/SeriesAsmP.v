(* Proofs for Props/C13b.v: the defaultdict assembly loop of decay_time_series_pandas (Model/SeriesAsm.v). *)
From Coq Require Import NArith List Bool Lia.
From RD Require Import Base Lib.Py Model.SeriesAsm.
Import ListNotations.

(* ------------------------------------------------------------------ str equality *)
Lemma s_eqb_eq : forall a b : str, s_eqb a b = true <-> a = b.
Proof.
  induction a as [|x a IH]; destruct b as [|y b]; cbn [s_eqb]; split; intro H; try discriminate; try reflexivity.
  - apply andb_true_iff in H. destruct H as [H1 H2]. apply N.eqb_eq in H1. apply IH in H2. congruence.
  - injection H as Hx Ha. subst. rewrite N.eqb_refl. cbn. apply IH. reflexivity.
Qed.
Lemma s_eqb_refl : forall a : str, s_eqb a a = true.
Proof. intro a. apply s_eqb_eq. reflexivity. Qed.
Lemma s_eqb_false : forall a b : str, s_eqb a b = false <-> a <> b.
Proof.
  intros a b. split.
  - intros H E. apply s_eqb_eq in E. congruence.
  - intro N. destruct (s_eqb a b) eqn:E; [apply s_eqb_eq in E; contradiction | reflexivity].
Qed.

Section P.
Context {V : Type}.
Implicit Types (d : list (str * list V)) (p : list (str * V)) (ps : list (list (str * V))) (k : str).

Definition col k d : list V := match d_get k d with Some vs => vs | None => [] end.

(* ------------------------------------------------------------------ one append *)
Lemma d_get_dd_append : forall d k v k',
  d_get k' (dd_append k v d) =
  if s_eqb k' k then Some (col k' d ++ [v]) else d_get k' d.
Proof.
  induction d as [|[k0 vs] r IH]; intros k v k'; cbn [dd_append d_get].
  - unfold col. cbn [d_get]. destruct (s_eqb k' k); reflexivity.
  - destruct (s_eqb k k0) eqn:E0.
    + apply s_eqb_eq in E0. subst k0. cbn [d_get]. unfold col. cbn [d_get].
      destruct (s_eqb k' k) eqn:E1; reflexivity.
    + cbn [d_get]. unfold col. cbn [d_get]. destruct (s_eqb k' k0) eqn:E1.
      * destruct (s_eqb k' k) eqn:E2; [|reflexivity].
        apply s_eqb_eq in E1. apply s_eqb_eq in E2. subst. rewrite s_eqb_refl in E0. discriminate.
      * rewrite IH. unfold col. reflexivity.
Qed.

Lemma col_dd_append : forall d k v k',
  col k' (dd_append k v d) = col k' d ++ (if s_eqb k' k then [v] else []).
Proof.
  intros d k v k'. unfold col at 1. rewrite d_get_dd_append.
  destruct (s_eqb k' k); [reflexivity|]. unfold col. rewrite app_nil_r. reflexivity.
Qed.

(* ------------------------------------------------------------------ columns: values *)
Lemma col_assemble_point : forall p d k, col k (assemble_point d p) = col k d ++ vals_of k p.
Proof.
  unfold assemble_point, vals_of.
  induction p as [|[k0 v] p IH]; intros d k; cbn [fold_left filter map fst snd].
  - rewrite app_nil_r. reflexivity.
  - rewrite IH, col_dd_append, <- app_assoc. f_equal.
    destruct (s_eqb k k0); reflexivity.
Qed.

Lemma col_assemble_from : forall ps d k, col k (assemble_from d ps) = col k d ++ flat_map (vals_of k) ps.
Proof.
  unfold assemble_from.
  induction ps as [|p ps IH]; intros d k; cbn [fold_left flat_map].
  - rewrite app_nil_r. reflexivity.
  - rewrite IH, col_assemble_point, <- app_assoc. reflexivity.
Qed.

Lemma series_column_values_s : forall ps k,
  match d_get k (assemble ps) with Some vs => vs | None => [] end = flat_map (vals_of k) ps.
Proof. intros ps k. unfold assemble. exact (col_assemble_from ps [] k). Qed.

(* ------------------------------------------------------------------ columns: keys and order *)
Lemma keys_dd_append : forall d k v, map fst (dd_append k v d) = add_key k (map fst d).
Proof.
  induction d as [|[k0 vs] r IH]; intros k v; cbn [dd_append map fst add_key]; [reflexivity|].
  destruct (s_eqb k k0); cbn [map fst]; [reflexivity|]. rewrite IH. reflexivity.
Qed.

Lemma keys_assemble_point : forall p d,
  map fst (assemble_point d p) = fold_left (fun ks kv => add_key (fst kv) ks) p (map fst d).
Proof.
  unfold assemble_point. induction p as [|kv p IH]; intro d; cbn [fold_left]; [reflexivity|].
  rewrite IH, keys_dd_append. reflexivity.
Qed.

Lemma keys_assemble_from : forall ps d, map fst (assemble_from d ps) = keys_from (map fst d) ps.
Proof.
  unfold assemble_from, keys_from. induction ps as [|p ps IH]; intro d; cbn [fold_left]; [reflexivity|].
  rewrite IH, keys_assemble_point. reflexivity.
Qed.

Lemma in_add_key : forall ks k x, In x (add_key k ks) <-> x = k \/ In x ks.
Proof.
  induction ks as [|k0 r IH]; intros k x; cbn [add_key].
  - cbn. intuition.
  - destruct (s_eqb k k0) eqn:E.
    + apply s_eqb_eq in E. subst k0. cbn. intuition.
    + cbn [In]. rewrite IH. intuition.
Qed.

Lemma nodup_add_key : forall ks k, NoDup ks -> NoDup (add_key k ks).
Proof.
  induction ks as [|k0 r IH]; intros k H; cbn [add_key].
  - constructor; [intros []|constructor].
  - destruct (s_eqb k k0) eqn:E; [exact H|].
    inversion H as [|? ? Hn Hr]; subst. constructor.
    + intro Hin. apply in_add_key in Hin. destruct Hin as [Hk|Hin]; [|contradiction].
      subst k0. rewrite s_eqb_refl in E. discriminate.
    + apply IH. exact Hr.
Qed.

Lemma nodup_fold_add_key : forall p (ks : list str),
  NoDup ks -> NoDup (fold_left (fun ks (kv : str * V) => add_key (fst kv) ks) p ks).
Proof.
  induction p as [|kv p IH]; intros ks H; cbn [fold_left]; [exact H|].
  apply IH. apply nodup_add_key. exact H.
Qed.

Lemma nodup_keys_from : forall ps (ks : list str), NoDup ks -> NoDup (keys_from ks ps).
Proof.
  unfold keys_from. induction ps as [|p ps IH]; intros ks H; cbn [fold_left]; [exact H|].
  apply IH. apply nodup_fold_add_key. exact H.
Qed.

Lemma series_column_order_s : forall ps,
  map fst (assemble ps) = keys_from [] ps /\ NoDup (map fst (assemble ps)).
Proof.
  intro ps. unfold assemble.
  assert (E : map fst (assemble_from [] ps) = keys_from [] ps) by exact (keys_assemble_from ps []).
  split; [exact E|]. rewrite E. apply nodup_keys_from. constructor.
Qed.

(* ------------------------------------------------------------------ same nuclides at every time point *)
Lemma add_key_in : forall ks k, In k ks -> add_key k ks = ks.
Proof.
  induction ks as [|k0 r IH]; intros k H; [destruct H|]. cbn [add_key].
  destruct (s_eqb k k0) eqn:E; [reflexivity|].
  destruct H as [H|H]; [subst k0; rewrite s_eqb_refl in E; discriminate|].
  rewrite IH by exact H. reflexivity.
Qed.

Lemma add_key_notin : forall ks k, ~ In k ks -> add_key k ks = ks ++ [k].
Proof.
  induction ks as [|k0 r IH]; intros k H; cbn [add_key app]; [reflexivity|].
  destruct (s_eqb k k0) eqn:E.
  - apply s_eqb_eq in E. subst k0. exfalso. apply H. left. reflexivity.
  - rewrite IH; [reflexivity|]. intro Hin. apply H. right. exact Hin.
Qed.

Lemma fold_add_key_known : forall p (ks : list str),
  (forall k, In k (map fst p) -> In k ks) ->
  fold_left (fun ks (kv : str * V) => add_key (fst kv) ks) p ks = ks.
Proof.
  induction p as [|kv p IH]; intros ks H; cbn [fold_left]; [reflexivity|].
  rewrite add_key_in by (apply H; left; reflexivity).
  apply IH. intros k Hk. apply H. right. exact Hk.
Qed.

Lemma fold_add_key_fresh : forall p (ks : list str),
  NoDup (ks ++ map fst p) ->
  fold_left (fun ks (kv : str * V) => add_key (fst kv) ks) p ks = ks ++ map fst p.
Proof.
  induction p as [|kv p IH]; intros ks H; cbn [fold_left map]; [rewrite app_nil_r; reflexivity|].
  cbn [map] in H.
  assert (Hn : ~ In (fst kv) ks).
  { intro Hin. apply NoDup_remove_2 in H. apply H. apply in_or_app. left. exact Hin. }
  rewrite add_key_notin by exact Hn.
  rewrite IH.
  - rewrite <- app_assoc. reflexivity.
  - rewrite <- app_assoc. exact H.
Qed.

Lemma keys_from_same : forall ps (ks : list str),
  (forall p, In p ps -> map fst p = ks) -> keys_from ks ps = ks.
Proof.
  unfold keys_from. induction ps as [|p ps IH]; intros ks H; cbn [fold_left]; [reflexivity|].
  rewrite fold_add_key_known.
  - apply IH. intros q Hq. apply H. right. exact Hq.
  - intros k Hk. rewrite (H p) in Hk by (left; reflexivity). exact Hk.
Qed.

Lemma keys_from_nil_same : forall ps (ks : list str),
  ps <> [] -> NoDup ks -> (forall p, In p ps -> map fst p = ks) -> keys_from [] ps = ks.
Proof.
  intros [|p ps] ks Hne Hnd H; [contradiction|].
  unfold keys_from. cbn [fold_left].
  rewrite (fold_add_key_fresh p []).
  - cbn [app]. rewrite (H p) by (left; reflexivity).
    apply (keys_from_same ps ks). intros q Hq. apply H. right. exact Hq.
  - cbn [app]. rewrite (H p) by (left; reflexivity). exact Hnd.
Qed.

Lemma vals_of_notin : forall p k, ~ In k (map fst p) -> vals_of k p = [].
Proof.
  unfold vals_of. induction p as [|[k0 v] p IH]; intros k H; cbn [filter map fst]; [reflexivity|].
  destruct (s_eqb k k0) eqn:E.
  - apply s_eqb_eq in E. subst k0. exfalso. apply H. left. reflexivity.
  - apply IH. intro Hin. apply H. right. exact Hin.
Qed.

Lemma vals_of_unique : forall p k, NoDup (map fst p) -> In k (map fst p) ->
  exists v, d_get k p = Some v /\ vals_of k p = [v].
Proof.
  induction p as [|[k0 v] p IH]; intros k Hnd Hin; [destruct Hin|].
  cbn [map fst] in Hnd, Hin. inversion Hnd as [|? ? Hn Hr]; subst.
  unfold vals_of. cbn [d_get filter map fst snd].
  destruct (s_eqb k k0) eqn:E.
  - apply s_eqb_eq in E. subst k0. exists v. split; [reflexivity|].
    cbn [map snd]. f_equal. exact (vals_of_notin p k Hn).
  - destruct Hin as [Hin|Hin]; [subst k0; rewrite s_eqb_refl in E; discriminate|].
    destruct (IH k Hr Hin) as [w [Hg Hv]]. exists w. split; [exact Hg|exact Hv].
Qed.

Lemma flat_vals_same : forall ps (ks : list str) k,
  NoDup ks -> In k ks -> (forall p, In p ps -> map fst p = ks) ->
  length (flat_map (vals_of k) ps) = length ps /\
  map Some (flat_map (vals_of k) ps) = map (d_get k) ps.
Proof.
  induction ps as [|p ps IH]; intros ks k Hnd Hin H; cbn [flat_map map length]; [split; reflexivity|].
  assert (Hp : map fst p = ks) by (apply H; left; reflexivity).
  destruct (vals_of_unique p k) as [v [Hg Hv]]; [rewrite Hp; exact Hnd | rewrite Hp; exact Hin |].
  destruct (IH ks k Hnd Hin) as [IH1 IH2]; [intros q Hq; apply H; right; exact Hq|].
  rewrite Hv, Hg. cbn [app length map]. split; [rewrite IH1; reflexivity | rewrite IH2; reflexivity].
Qed.

Lemma d_get_in : forall d k, In k (map fst d) -> exists vs, d_get k d = Some vs.
Proof.
  induction d as [|[k0 vs] r IH]; intros k H; [destruct H|]. cbn [d_get].
  destruct (s_eqb k k0) eqn:E; [exists vs; reflexivity|].
  destruct H as [H|H]; [cbn in H; subst k0; rewrite s_eqb_refl in E; discriminate|].
  apply IH. exact H.
Qed.

Lemma assemble_pointwise : forall ps (ks : list str),
  ps <> [] -> NoDup ks -> (forall p, In p ps -> map fst p = ks) ->
  map fst (assemble ps) = ks /\
  forall k, In k ks -> exists vs, d_get k (assemble ps) = Some vs /\ length vs = length ps /\
                                  map Some vs = map (d_get k) ps.
Proof.
  intros ps ks Hne Hnd H.
  assert (Hk : map fst (assemble ps) = ks).
  { destruct (series_column_order_s ps) as [E _]. rewrite E. apply keys_from_nil_same; assumption. }
  split; [exact Hk|]. intros k Hin.
  destruct (d_get_in (assemble ps) k) as [vs Hvs]; [rewrite Hk; exact Hin|].
  exists vs. split; [exact Hvs|].
  pose proof (series_column_values_s ps k) as Hc. rewrite Hvs in Hc. subst vs.
  apply (flat_vals_same ps ks k Hnd Hin H).
Qed.
End P.

(* ------------------------------------------------------------------ the statements of Props/C13b.v *)
Lemma series_column_values : forall (V : Type) (ps : list (list (str * V))) (k : str),
  match d_get k (assemble ps) with Some vs => vs | None => [] end = flat_map (vals_of k) ps.
Proof. intros V ps k. apply series_column_values_s. Qed.

Lemma series_column_order : forall (V : Type) (ps : list (list (str * V))),
  map fst (assemble ps) = keys_from [] ps /\ NoDup (map fst (assemble ps)).
Proof. intros V ps. apply series_column_order_s. Qed.

Lemma time_series_pointwise : forall (T V : Type) (times : list T) (readout_at : T -> list (str * V)) (ks : list str),
  times <> [] -> NoDup ks -> (forall t, In t times -> map fst (readout_at t) = ks) ->
  fst (time_series times readout_at) = times /\
  map fst (snd (time_series times readout_at)) = ks /\
  forall k, In k ks -> exists vs, d_get k (snd (time_series times readout_at)) = Some vs /\
                                  length vs = length times /\
                                  map Some vs = map (fun t => d_get k (readout_at t)) times.
Proof.
  intros T V times readout_at ks Hne Hnd H. unfold time_series. cbn [fst snd].
  split; [reflexivity|].
  destruct (assemble_pointwise (map readout_at times) ks) as [Hk Hv].
  - destruct times; [contradiction|discriminate].
  - exact Hnd.
  - intros p Hp. apply in_map_iff in Hp. destruct Hp as [t [Ht Hin]]. subst p. apply H. exact Hin.
  - split; [exact Hk|]. intros k Hin. destruct (Hv k Hin) as [vs [H1 [H2 H3]]].
    exists vs. split; [exact H1|]. rewrite map_length in H2. rewrite map_map in H3. split; assumption.
Qed.

Lemma time_series_example :
  time_series [1%N; 2%N] (fun t => [([72%N], (t * 10)%N); ([74%N], (t * 10 + 1)%N)])
  = ([1%N; 2%N], [([72%N], [10%N; 20%N]); ([74%N], [11%N; 21%N])]).
Proof. vm_compute. reflexivity. Qed.

Lemma series_misaligned_without_it : exists (ps : list (list (str * N))) k vs,
  d_get k (assemble ps) = Some vs /\ length vs <> length ps.
Proof.
  exists [[([72%N], 1%N)]; [([72%N], 2%N); ([74%N], 3%N)]; [([72%N], 4%N); ([74%N], 5%N)]], [74%N], [3%N; 5%N].
  split; [vm_compute; reflexivity | cbn; discriminate].
Qed.

(* ------------------------------------------------------------------ the plotted curves *)
Lemma opt_all_some : forall (A : Type) (l : list (option A)) (r : list A),
  opt_all l = Some r <-> l = map Some r.
Proof.
  intros A. induction l as [|x l IH]; intros r; cbn [opt_all].
  - split; intro H.
    + injection H as H. subst r. reflexivity.
    + destruct r as [|a r]; [reflexivity|discriminate].
  - destruct x as [a|].
    + destruct (opt_all l) as [s|] eqn:E.
      * split; intro H.
        -- injection H as H. subst r. cbn [map]. f_equal. apply IH. reflexivity.
        -- destruct r as [|b r]; [discriminate|]. cbn [map] in H. injection H as Hab Hl.
           subst b. apply (IH r) in Hl. congruence.
      * split; intro H; [discriminate|].
        destruct r as [|b r]; [discriminate|]. cbn [map] in H. injection H as Hab Hl.
        apply (IH r) in Hl. discriminate.
    + split; intro H; [discriminate|]. destruct r as [|b r]; discriminate.
Qed.

Lemma opt_all_defined : forall (A : Type) (l : list (option A)),
  opt_all l <> None <-> (forall x, In x l -> x <> None).
Proof.
  intros A. induction l as [|x l IH]; cbn [opt_all].
  - split; [intros _ x []|intros _; discriminate].
  - destruct x as [a|].
    + destruct (opt_all l) as [s|] eqn:E.
      * split; [|intros _; discriminate].
        intros _ x [Hx|Hx]; [subst x; discriminate|].
        apply IH; [discriminate|exact Hx].
      * split; [intro H; contradiction|].
        intros H. exfalso. assert (Hn : @None (list A) <> None); [|apply Hn; reflexivity].
        apply IH. intros x Hx. apply H. right. exact Hx.
    + split; [intro H; contradiction|].
      intros H. exfalso. apply (H None); [left; reflexivity|reflexivity].
Qed.

Section PlotP.
Context {T V : Type}.
Variable readout_at : T -> list (str * V).

Lemma curves_gen : forall (rows : list (list V)) (display : list str) (s : nat) (curves : list (str * list V)),
  opt_all (map (fun jr : nat * str => option_map (pair (snd jr)) (column (fst jr) rows))
               (combine (seq s (length display)) display)) = Some curves ->
  map fst curves = display /\
  forall j rad vs, nth_error curves j = Some (rad, vs) ->
    nth_error display j = Some rad /\ column (s + j) rows = Some vs.
Proof.
  intros rows. induction display as [|a display IH]; intros s curves H.
  - cbn in H. injection H as H. subst curves. split; [reflexivity|].
    intros j rad vs Hj. destruct j; discriminate.
  - cbn [length seq combine map opt_all fst snd] in H.
    destruct (column s rows) as [c|] eqn:Ec; cbn [option_map] in H; [|discriminate].
    match type of H with match ?X with _ => _ end = _ => destruct X as [cs|] eqn:Ecs end; [|discriminate].
    injection H as H. subst curves.
    destruct (IH (S s) cs Ecs) as [IH1 IH2].
    split; [cbn [map fst]; rewrite IH1; reflexivity|].
    intros j rad vs Hj. destruct j as [|j]; cbn [nth_error] in Hj |- *.
    + injection Hj as Hr Hv. subst rad vs. rewrite Nat.add_0_r. split; [reflexivity|exact Ec].
    + destruct (IH2 j rad vs Hj) as [Hd Hc]. split; [exact Hd|].
      rewrite Nat.add_succ_r. exact Hc.
Qed.

Lemma rows_col : forall (display : list str) (times : list T) (rows : list (list V)) (vs : list V) (j : nat) (rad : str),
  nth_error display j = Some rad ->
  map (fun t => plot_row display (readout_at t)) times = map Some rows ->
  map (fun row : list V => nth_error row j) rows = map Some vs ->
  length vs = length times /\ map Some vs = map (fun t => d_get rad (readout_at t)) times.
Proof.
  intros display. induction times as [|t times IH]; intros rows vs j rad Hd Hr Hc.
  - destruct rows as [|row rows]; [|discriminate]. destruct vs as [|v vs]; [|discriminate].
    split; reflexivity.
  - destruct rows as [|row rows]; [discriminate|]. destruct vs as [|v vs]; [discriminate|].
    cbn [map] in Hr, Hc. injection Hr as Hrow Hr. injection Hc as Hv Hc.
    destruct (IH rows vs j rad Hd Hr Hc) as [IH1 IH2].
    cbn [length map]. split; [rewrite IH1; reflexivity|]. rewrite IH2. f_equal.
    unfold plot_row in Hrow. apply opt_all_some in Hrow.
    pose proof (map_nth_error (fun r : str => d_get r (readout_at t)) j display Hd) as H1.
    pose proof (map_nth_error (@Some V) j row Hv) as H2.
    rewrite Hrow in H1. rewrite H2 in H1. injection H1 as H1. exact H1.
Qed.

Lemma plot_curves_pointwise_s : forall (times : list T) (display : list str) (curves : list (str * list V)),
  plot_curves times readout_at display = Some curves ->
  map fst curves = display /\
  forall j rad vs, nth_error curves j = Some (rad, vs) ->
    length vs = length times /\ map Some vs = map (fun t => d_get rad (readout_at t)) times.
Proof.
  intros times display curves H. unfold plot_curves in H.
  destruct (plot_rows times readout_at display) as [rows|] eqn:Er; [|discriminate].
  destruct (curves_gen rows display 0 curves H) as [H1 H2].
  split; [exact H1|]. intros j rad vs Hj.
  destruct (H2 j rad vs Hj) as [Hd Hc]. cbn [Nat.add] in Hc.
  unfold plot_rows in Er. apply opt_all_some in Er.
  unfold column in Hc. apply opt_all_some in Hc.
  exact (rows_col display times rows vs j rad Hd Er Hc).
Qed.

Lemma plot_rows_defined : forall (times : list T) (display : list str),
  (forall t rad, In t times -> In rad display -> d_get rad (readout_at t) <> None) <->
  plot_rows times readout_at display <> None.
Proof.
  intros times display. unfold plot_rows. rewrite opt_all_defined. split.
  - intros H x Hx. apply in_map_iff in Hx. destruct Hx as [t [Ht Hin]]. subst x.
    unfold plot_row. apply opt_all_defined. intros y Hy.
    apply in_map_iff in Hy. destruct Hy as [rad [Hrad Hind]]. subst y. apply H; assumption.
  - intros H t rad Ht Hrad.
    assert (Hp : plot_row display (readout_at t) <> None).
    { apply H. apply in_map_iff. exists t. split; [reflexivity|exact Ht]. }
    unfold plot_row in Hp. rewrite opt_all_defined in Hp. apply Hp.
    apply in_map_iff. exists rad. split; [reflexivity|exact Hrad].
Qed.

Lemma plot_rows_row_length : forall (times : list T) (display : list str) (rows : list (list V)) (row : list V),
  plot_rows times readout_at display = Some rows -> In row rows -> length row = length display.
Proof.
  intros times display rows row Hr Hin. unfold plot_rows in Hr. apply opt_all_some in Hr.
  assert (Hs : In (Some row) (map (fun t => plot_row display (readout_at t)) times)).
  { rewrite Hr. apply in_map. exact Hin. }
  apply in_map_iff in Hs. destruct Hs as [t [Ht _]].
  unfold plot_row in Ht. apply opt_all_some in Ht.
  apply (f_equal (@length (option V))) in Ht. rewrite !map_length in Ht. symmetry. exact Ht.
Qed.

Lemma plot_curves_defined_s : forall (times : list T) (display : list str),
  (forall t rad, In t times -> In rad display -> d_get rad (readout_at t) <> None) <->
  plot_curves times readout_at display <> None.
Proof.
  intros times display. rewrite plot_rows_defined. unfold plot_curves.
  destruct (plot_rows times readout_at display) as [rows|] eqn:Er.
  - split; [|intros _; discriminate]. intros _.
    apply opt_all_defined. intros x Hx.
    apply in_map_iff in Hx. destruct Hx as [[j rad] [Hx Hin]]. subst x. cbn [fst snd].
    apply in_combine_l in Hin. apply in_seq in Hin.
    assert (Hc : column j rows <> None).
    { unfold column. apply opt_all_defined. intros y Hy.
      apply in_map_iff in Hy. destruct Hy as [row [Hy Hrow]]. subst y.
      apply nth_error_Some. rewrite (plot_rows_row_length times display rows row Er Hrow). lia. }
    destruct (column j rows) as [c|]; [cbn; discriminate|contradiction].
  - split; intro H; exfalso; apply H; reflexivity.
Qed.
End PlotP.

Lemma plot_curves_pointwise : forall (T V : Type) (times : list T) (readout_at : T -> list (str * V)) (display : list str) curves,
  plot_curves times readout_at display = Some curves ->
  map fst curves = display /\
  forall j rad vs, nth_error curves j = Some (rad, vs) ->
    length vs = length times /\ map Some vs = map (fun t => d_get rad (readout_at t)) times.
Proof. intros T V times readout_at display curves. apply plot_curves_pointwise_s. Qed.

Lemma plot_curves_defined : forall (T V : Type) (times : list T) (readout_at : T -> list (str * V)) (display : list str),
  (forall t rad, In t times -> In rad display -> d_get rad (readout_at t) <> None) <->
  plot_curves times readout_at display <> None.
Proof. intros T V times readout_at display. apply plot_curves_defined_s. Qed.

Lemma plot_curves_example :
  plot_curves [1%N; 2%N] (fun t => [([72%N], (t * 10)%N); ([74%N], (t * 10 + 1)%N)]) [[74%N]; [72%N]]
  = Some [([74%N], [11%N; 21%N]); ([72%N], [10%N; 20%N])].
Proof. vm_compute. reflexivity. Qed.

(* ------------------------------------------------------------------ which curves, in which order (display == "all") *)
From Coq Require Import Arith Permutation.

Definition key (names : list str) (n : str) : nat :=
  match index_of n names with Some i => i | None => 0 end.

Fixpoint wsorted {A : Type} (k : A -> nat) (L : list A) : Prop :=
  match L with
  | [] => True
  | a :: r => (forall b, In b r -> k a <= k b) /\ wsorted k r
  end.

Lemma index_of_none : forall (names : list str) (n : str), index_of n names = None <-> ~ In n names.
Proof.
  induction names as [|x r IH]; intro n; cbn [index_of In].
  - split; [intros _ H; exact H | reflexivity].
  - destruct (s_eqb n x) eqn:E.
    + apply s_eqb_eq in E. subst x. split; [discriminate | intro H; exfalso; apply H; left; reflexivity].
    + apply s_eqb_false in E. destruct (index_of n r) as [i|] eqn:Ei; cbn [option_map].
      * split; [discriminate|]. intro H. exfalso.
        assert (Hn : ~ In n r) by (intro Hr; apply H; right; exact Hr).
        apply IH in Hn. rewrite Ei in Hn. discriminate.
      * split; [|reflexivity]. intros _ [H|H]; [apply E; symmetry; exact H | apply (proj1 (IH n) Ei); exact H].
Qed.

Lemma index_of_nth : forall (names : list str) (n : str) (i : nat),
  index_of n names = Some i -> nth_error names i = Some n.
Proof.
  induction names as [|x r IH]; intros n i H; cbn [index_of] in H.
  - discriminate.
  - destruct (s_eqb n x) eqn:E.
    + apply s_eqb_eq in E. injection H as H. subst i x. reflexivity.
    + destruct (index_of n r) as [j|] eqn:Ej; cbn [option_map] in H; [|discriminate].
      injection H as H. subst i. cbn [nth_error]. apply IH. exact Ej.
Qed.

Lemma key_inj : forall (names : list str) (a b : str),
  In a names -> In b names -> key names a = key names b -> a = b.
Proof.
  intros names a b Ha Hb. unfold key.
  destruct (index_of a names) as [i|] eqn:Ea; [|apply index_of_none in Ea; contradiction].
  destruct (index_of b names) as [j|] eqn:Eb; [|apply index_of_none in Eb; contradiction].
  intro Hij. subst j. apply index_of_nth in Ea. apply index_of_nth in Eb. congruence.
Qed.

Lemma key_cons_other : forall (x : str) (r : list str) (n : str),
  n <> x -> In n r -> key (x :: r) n = S (key r n).
Proof.
  intros x r n Hne Hin. unfold key. cbn [index_of].
  apply s_eqb_false in Hne. rewrite Hne.
  destruct (index_of n r) as [i|] eqn:E; [reflexivity|].
  apply index_of_none in E. contradiction.
Qed.

Lemma wsorted_mono : forall (A : Type) (k1 k2 : A -> nat) (L : list A),
  (forall a b, In a L -> In b L -> k1 a <= k1 b -> k2 a <= k2 b) -> wsorted k1 L -> wsorted k2 L.
Proof.
  intros A k1 k2. induction L as [|a r IH]; intros Hm Hs; cbn [wsorted] in *.
  - exact I.
  - destruct Hs as [H1 H2]. split.
    + intros b Hb. apply Hm; [left; reflexivity | right; exact Hb | apply H1; exact Hb].
    + apply IH; [|exact H2]. intros a' b' Ha' Hb'. apply Hm; right; assumption.
Qed.

Lemma names_wsorted : forall names : list str, NoDup names -> wsorted (key names) names.
Proof.
  induction names as [|x r IH]; intro Hnd; cbn [wsorted].
  - exact I.
  - inversion Hnd as [|x' r' Hx Hr]; subst. split.
    + intros b _. unfold key at 1. cbn [index_of]. rewrite s_eqb_refl. apply Nat.le_0_l.
    + apply wsorted_mono with (k1 := key r); [|apply IH; exact Hr].
      intros a b Ha Hb Hle.
      assert (Hax : a <> x) by (intro; subst; contradiction).
      assert (Hbx : b <> x) by (intro; subst; contradiction).
      rewrite (key_cons_other x r a Hax Ha), (key_cons_other x r b Hbx Hb). lia.
Qed.

Lemma wsorted_filter : forall (A : Type) (k : A -> nat) (f : A -> bool) (L : list A),
  wsorted k L -> wsorted k (filter f L).
Proof.
  intros A k f. induction L as [|a r IH]; cbn [filter wsorted]; intro Hs.
  - exact I.
  - destruct Hs as [H1 H2]. destruct (f a); cbn [wsorted].
    + split; [|apply IH; exact H2]. intros b Hb. apply filter_In in Hb. apply H1. apply Hb.
    + apply IH. exact H2.
Qed.

Lemma wsorted_unique : forall (A : Type) (k : A -> nat) (L1 L2 : list A),
  (forall a b, In a L1 -> In b L1 -> k a = k b -> a = b) ->
  NoDup L1 -> NoDup L2 -> (forall x, In x L1 <-> In x L2) ->
  wsorted k L1 -> wsorted k L2 -> L1 = L2.
Proof.
  intros A k. induction L1 as [|a r1 IH]; intros L2 Hinj Hn1 Hn2 Hiff Hs1 Hs2.
  - destruct L2 as [|b r2]; [reflexivity|]. exfalso. apply (proj2 (Hiff b)). left. reflexivity.
  - destruct L2 as [|b r2].
    + exfalso. apply (proj1 (Hiff a)). left. reflexivity.
    + cbn [wsorted] in Hs1, Hs2. destruct Hs1 as [Ha1 Hs1]. destruct Hs2 as [Hb2 Hs2].
      inversion Hn1 as [|a' r1' Hna Hnr1]; subst. inversion Hn2 as [|b' r2' Hnb Hnr2]; subst.
      assert (Eab : a = b).
      { destruct (proj1 (Hiff a) (or_introl eq_refl)) as [E|Hin]; [symmetry; exact E|].
        destruct (proj2 (Hiff b) (or_introl eq_refl)) as [E|Hin2]; [exact E|].
        apply Hinj; [left; reflexivity | right; exact Hin2 |].
        apply Nat.le_antisymm; [apply Ha1; exact Hin2 | apply Hb2; exact Hin]. }
      subst b. f_equal. apply IH; try assumption.
      * intros a' b' Ha' Hb'. apply Hinj; right; assumption.
      * intro x. split; intro Hx.
        -- destruct (proj1 (Hiff x) (or_intror Hx)) as [E|Hin]; [subst x; contradiction | exact Hin].
        -- destruct (proj2 (Hiff x) (or_intror Hx)) as [E|Hin]; [subst x; contradiction | exact Hin].
Qed.

Lemma ins_by_perm : forall (kn : nat * str) (L : list (nat * str)), Permutation (kn :: L) (ins_by kn L).
Proof.
  intros kn. induction L as [|x r IH]; cbn [ins_by].
  - apply Permutation_refl.
  - destruct (Nat.leb (fst kn) (fst x)).
    + apply Permutation_refl.
    + eapply perm_trans; [apply perm_swap | apply perm_skip; exact IH].
Qed.

Lemma sort_perm : forall l : list (nat * str), Permutation l (fold_right ins_by [] l).
Proof.
  induction l as [|kn l IH]; cbn [fold_right].
  - apply perm_nil.
  - eapply perm_trans; [apply perm_skip; exact IH | apply ins_by_perm].
Qed.

Lemma ins_by_sorted : forall (kn : nat * str) (L : list (nat * str)),
  wsorted fst L -> wsorted fst (ins_by kn L).
Proof.
  intros kn. induction L as [|x r IH]; cbn [ins_by]; intro Hs.
  - cbn [wsorted]. split; [intros b []|exact I].
  - cbn [wsorted] in Hs. destruct Hs as [H1 H2].
    destruct (Nat.leb (fst kn) (fst x)) eqn:E.
    + apply Nat.leb_le in E. cbn [wsorted]. split; [|split; assumption].
      intros b [Hb|Hb]; [subst b; exact E | specialize (H1 b Hb); lia].
    + apply Nat.leb_gt in E. cbn [wsorted]. split; [|apply IH; exact H2].
      intros b Hb. apply (Permutation_in b (Permutation_sym (ins_by_perm kn r))) in Hb.
      destruct Hb as [Hb|Hb]; [subst b; lia | apply H1; exact Hb].
Qed.

Lemma sort_sorted : forall l : list (nat * str), wsorted fst (fold_right ins_by [] l).
Proof.
  induction l as [|kn l IH]; cbn [fold_right].
  - exact I.
  - apply ins_by_sorted. exact IH.
Qed.

Lemma wsorted_map_snd : forall (k : str -> nat) (P : list (nat * str)),
  (forall p, In p P -> fst p = k (snd p)) -> wsorted fst P -> wsorted k (map snd P).
Proof.
  intros k. induction P as [|a r IH]; cbn [map wsorted]; intros Hk Hs.
  - exact I.
  - destruct Hs as [H1 H2]. split.
    + intros b Hb. apply in_map_iff in Hb. destruct Hb as [p [Ep Hp]]. subst b.
      rewrite <- (Hk a (or_introl eq_refl)), <- (Hk p (or_intror Hp)). apply H1. exact Hp.
    + apply IH; [|exact H2]. intros p Hp. apply Hk. right. exact Hp.
Qed.

Lemma index_pairs : forall (input names : list str),
  (forall n, In n input -> In n names) ->
  opt_all (map (fun n => option_map (fun i => (i, n)) (index_of n names)) input)
  = Some (map (fun n => (key names n, n)) input).
Proof.
  intros input names Hsub. apply opt_all_some. rewrite map_map. apply map_ext_in.
  intros n Hn. unfold key. destruct (index_of n names) as [i|] eqn:E; [reflexivity|].
  apply index_of_none in E. exfalso. apply E. apply Hsub. exact Hn.
Qed.

Lemma l_mem_str_in : forall (s : str) (l : list str), l_mem_str s l = true <-> In s l.
Proof.
  intros s l. unfold l_mem_str. rewrite existsb_exists. split.
  - intros [x [Hx E]]. apply s_eqb_eq in E. subst x. exact Hx.
  - intro H. exists s. split; [exact H | apply s_eqb_refl].
Qed.

Lemma dataset_order_spec : forall (input names : list str),
  NoDup names -> NoDup input -> (forall n, In n input -> In n names) ->
  sort_list_according_to_dataset input names = OK (filter (fun n => l_mem_str n input) names).
Proof.
  intros input names Hnn Hni Hsub. unfold sort_list_according_to_dataset.
  rewrite (index_pairs input names Hsub). f_equal.
  set (l := map (fun n => (key names n, n)) input).
  assert (Hperm : Permutation input (map snd (fold_right ins_by [] l))).
  { eapply perm_trans; [|apply Permutation_map; apply sort_perm].
    unfold l. rewrite map_map. cbn [snd]. rewrite map_id. apply Permutation_refl. }
  apply wsorted_unique with (k := key names).
  - intros a b Ha Hb. apply key_inj; apply Hsub.
    + apply (Permutation_in a (Permutation_sym Hperm)). exact Ha.
    + apply (Permutation_in b (Permutation_sym Hperm)). exact Hb.
  - apply (Permutation_NoDup Hperm). exact Hni.
  - apply NoDup_filter. exact Hnn.
  - intro x. rewrite filter_In, l_mem_str_in. split.
    + intro Hx. apply (Permutation_in x (Permutation_sym Hperm)) in Hx. split; [apply Hsub; exact Hx | exact Hx].
    + intros [_ Hx]. apply (Permutation_in x Hperm). exact Hx.
  - apply wsorted_map_snd; [|apply sort_sorted].
    intros p Hp. apply (Permutation_in p (Permutation_sym (sort_perm l))) in Hp.
    unfold l in Hp. apply in_map_iff in Hp. destruct Hp as [n [En _]]. subst p. reflexivity.
  - apply wsorted_filter. apply names_wsorted. exact Hnn.
Qed.

Lemma opt_all_none : forall (A : Type) (l : list (option A)), opt_all l = None <-> In None l.
Proof.
  intros A. induction l as [|x l IH]; cbn [opt_all In].
  - split; [discriminate | intros []].
  - destruct x as [a|].
    + destruct (opt_all l) as [s|] eqn:E.
      * split; [discriminate|]. intros [H|H]; [discriminate|]. apply IH in H. discriminate.
      * split; [|reflexivity]. intros _. right. apply IH. reflexivity.
    + split; [intros _; left; reflexivity | reflexivity].
Qed.

Lemma dataset_order_keyerror : forall (input names : list str),
  (exists n, In n input /\ ~ In n names) <-> sort_list_according_to_dataset input names = Raise KeyError.
Proof.
  intros input names. unfold sort_list_according_to_dataset.
  destruct (opt_all (map (fun n => option_map (fun i => (i, n)) (index_of n names)) input)) as [l|] eqn:E.
  - split; [|discriminate]. intros [n [Hin Hnot]]. exfalso.
    assert (Hn : In None (map (fun n => option_map (fun i => (i, n)) (index_of n names)) input)).
    { apply in_map_iff. exists n. split; [|exact Hin]. apply index_of_none in Hnot. rewrite Hnot. reflexivity. }
    apply opt_all_none in Hn. rewrite E in Hn. discriminate.
  - split; [reflexivity|]. intros _. apply opt_all_none in E. apply in_map_iff in E.
    destruct E as [n [En Hin]]. exists n. split; [exact Hin|]. apply index_of_none.
    destruct (index_of n names) as [i|]; [discriminate | reflexivity].
Qed.

Lemma plot_display_all_spec : forall (order : str) (decayed names : list str),
  NoDup names -> NoDup decayed -> (forall n, In n decayed -> In n names) ->
  plot_display_all order decayed names =
    if s_eqb order s_dataset then OK (filter (fun n => l_mem_str n decayed) names)
    else if s_eqb order s_alphabetical then OK decayed
    else Raise ValueError.
Proof.
  intros order decayed names Hnn Hnd Hsub. unfold plot_display_all.
  destruct (s_eqb order s_dataset); [|reflexivity].
  apply dataset_order_spec; assumption.
Qed.

Lemma dataset_order_example :
  sort_list_according_to_dataset [[3%N]; [1%N]; [2%N]] [[1%N]; [9%N]; [2%N]; [3%N]] = OK [[1%N]; [2%N]; [3%N]].
Proof. vm_compute. reflexivity. Qed.

(* the two order keywords are the literals of the source (String is imported last: it shadows [length]) *)
From Coq Require Import String.
Lemma order_literals : s_dataset = s2l "dataset"%string /\ s_alphabetical = s2l "alphabetical"%string.
Proof. split; vm_compute; reflexivity. Qed.
