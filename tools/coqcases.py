"""Run model evaluations inside Coq: shards of <= N cases, each a generated .v file evaluated by
vm_compute, printing only the count and the indices of disagreeing cases."""
import os
import re
import concurrent.futures as cf
import common as C

HEX = lambda x: None


def fhex(x):
    """float -> Coq float literal (exact bits)"""
    x = float(x)
    if x != x:
        return "nan"
    if x == float("inf"):
        return "infinity"
    if x == float("-inf"):
        return "neg_infinity"
    h = x.hex()
    return f"(-{h[1:]})%float" if h.startswith("-") else f"({h})%float"


def cstr(s):
    return "[" + "; ".join(f"{ord(c)}%N" for c in s) + "]"


def run_cases(tag, preamble, case_type, cases, checker, shard=400, timeout=900, extra_q=()):
    """cases: list of Coq terms of type case_type; checker : case_type -> bool (Coq term).
    Returns (bad_indices, raw_errors)."""
    os.makedirs(C.SCRATCH, exist_ok=True)
    files = []
    for k in range(0, len(cases), shard):
        chunk = cases[k:k + shard]
        path = os.path.join(C.SCRATCH, f"cases_{tag}_{k // shard}.v")
        with open(path, "w") as f:
            f.write(preamble + "\n")
            f.write(f"Definition cases : list ({case_type}) := [\n  " + ";\n  ".join(chunk) + "\n].\n")
            f.write("Fixpoint bad_idx (i : nat) (l : list (" + case_type + ")) : list nat :=\n"
                    "  match l with [] => [] | c :: r => if " + checker + " c then bad_idx (S i) r else i :: bad_idx (S i) r end.\n")
            f.write("Eval vm_compute in (length cases, bad_idx 0 cases).\n")
        files.append((k, path))

    def one(kp):
        k, path = kp
        rc, out = C.sh(["coqc", "-Q", C.COQ, "RD"] + [x for d, lp in extra_q for x in ("-Q", d, lp)] + [path], timeout=timeout)
        return k, rc, out

    bad, errs = [], []
    with cf.ThreadPoolExecutor(max_workers=C.NPROC) as ex:
        for k, rc, out in ex.map(one, files):
            m = re.search(r"=\s*\((\d+),\s*\[(.*?)\]\)", out, re.S)
            if rc != 0 or not m:
                errs.append((k, out[-800:]))
                continue
            idxs = [int(x) for x in re.findall(r"\d+", m.group(2))]
            bad += [k + i for i in idxs]
    keep = os.environ.get("VERIF_KEEP_CASES")
    for _, path in ([] if keep else files):
        for ext in (".v", ".vo", ".glob", ".vok", ".vos"):
            try:
                os.remove(path[:-2] + ext)
            except OSError:
                pass
    return bad, errs
