(* State-machine model of inventory arithmetic (C08, C11, C17): construct / add / subtract / + / - /
   * / / / remove, generic over the number domain.  Hand-written control flow around the GENERATED
   pieces (parse_nuclide from Gen/UtilsGen.v, convert_to_number from Gen/InvGen.v); tie: tools/tr_shapes.py
   records the source text of the modelled methods, and the correspondence runs operation sequences.
   Definitions only. *)
From Coq Require Import ZArith NArith List Bool.
From RD Require Import Base Lib.Py Lib.Num Gen.Tables Gen.ConvGen Gen.InvGen Gen.UtilsGen.
Import ListNotations.

(* ---------- ordered dicts with str keys *)
Section Dict.
  Context {T : Type}.
  Definition dict := list (str * T).

  Fixpoint d_get (d : dict) (k : str) : option T :=
    match d with [] => None | (a, v) :: r => if s_eqb a k then Some v else d_get r k end.
  Definition d_mem (d : dict) (k : str) : bool := match d_get d k with Some _ => true | None => false end.
  (* d[k] = v : replace in place or append *)
  Fixpoint d_set (d : dict) (k : str) (v : T) : dict :=
    match d with
    | [] => [(k, v)]
    | (a, w) :: r => if s_eqb a k then (a, v) :: r else (a, w) :: d_set r k v
    end.
  Fixpoint d_pop (d : dict) (k : str) : dict :=
    match d with [] => [] | (a, w) :: r => if s_eqb a k then r else (a, w) :: d_pop r k end.

  (* code-point lexicographic order of Python str *)
  Fixpoint s_ltb (a b : str) : bool :=
    match a, b with
    | [], [] => false
    | [], _ :: _ => true
    | _ :: _, [] => false
    | x :: a', y :: b' => if N.ltb x y then true else if N.ltb y x then false else s_ltb a' b'
    end.
  Definition s_leb (a b : str) : bool := negb (s_ltb b a).

  (* sorted(d.items(), key=lambda x: x[0]) : insertion sort by key (used on dicts, whose keys are distinct) *)
  Fixpoint insert_sorted (kv : str * T) (d : dict) : dict :=
    match d with
    | [] => [kv]
    | x :: r => if s_ltb (fst kv) (fst x) then kv :: x :: r else x :: insert_sorted kv r
    end.
  Definition d_sort (d : dict) : dict := fold_right insert_sorted [] d.

  Fixpoint keys_sorted (d : dict) : bool :=     (* strictly increasing keys *)
    match d with
    | (a, _) :: (((b, _) :: _) as r) => s_ltb a b && keys_sorted r
    | _ => true
    end.
End Dict.

Section Inv.
  Context {T : Type} (ops : numops T).
  Context (activity_units mass_units moles_units : list (str * T)).
  Context (avogadro : T) (names : list str) (decay_consts atomic_masses : list T).
  (* amount check of _check_values: is a number and >= 0 (NaN fails) *)
  Variable amount_ok : T -> bool.
  (* the oracle nsimplify (InventoryHP) / identity (Inventory) applied to constructor amounts *)
  Variable normalise : T -> T.
  Variable nneg : T -> T.          (* unary minus used by __sub__ *)

  Definition inv := @dict T.

  (* utils.add_dictionaries *)
  Definition add_dictionaries (a b : inv) : inv :=
    fold_left (fun acc kv => match d_get acc (fst kv) with
                             | Some x => d_set acc (fst kv) (nadd ops x (snd kv))
                             | None => d_set acc (fst kv) (snd kv)
                             end) b a.

  (* _parse_nuclides: canonical keys; a nuclide given twice (two spellings) is refused *)
  Fixpoint parse_keys (raw : list (pyval * T)) (acc : inv) : res inv :=
    match raw with
    | [] => OK acc
    | (k, v) :: r =>
        bind (parse_nuclide k names []) (fun key =>
          if d_mem acc key then Raise ValueError else parse_keys r (acc ++ [(key, v)]))
    end.

  Definition check_values (d : inv) : res unit :=
    if forallb (fun kv => amount_ok (snd kv)) d then OK tt else Raise ValueError.

  (* AbstractInventory.__init__ with check=True *)
  Definition construct (raw : list (pyval * T)) (units : str) : res inv :=
    let raw' := map (fun kv => (fst kv, normalise (snd kv))) raw in
    bind (parse_keys raw' []) (fun parsed =>
    bind (check_values parsed) (fun _ =>
    convert_to_number ops activity_units mass_units moles_units avogadro names decay_consts atomic_masses
                      (d_sort parsed) units [])).

  (* AbstractInventory.__init__ with check=False, units "num" (results of operators) *)
  Definition rebuild (d : inv) : inv := d_sort d.

  Definition op_add (a b : inv) : inv := rebuild (add_dictionaries a b).
  Definition op_sub (a b : inv) : inv :=
    rebuild (add_dictionaries a (map (fun kv => (fst kv, nneg (snd kv))) b)).
  Definition op_mul (a : inv) (c : T) : inv := rebuild (map (fun kv => (fst kv, nmul ops (snd kv) c)) a).
  Definition op_div (a : inv) (c : T) : inv := rebuild (map (fun kv => (fst kv, ndiv ops (snd kv) c)) a).

  Definition m_add (a : inv) (raw : list (pyval * T)) (units : str) : res inv :=
    bind (construct raw units) (fun other => OK (op_add a other)).
  Definition m_subtract (a : inv) (raw : list (pyval * T)) (units : str) : res inv :=
    bind (construct raw units) (fun other => OK (op_sub a other)).

  Definition m_remove (a : inv) (k : pyval) : res inv :=
    match k with
    | VOther => Raise NotImplementedError
    | _ => bind (parse_nuclide k names []) (fun key =>
             if d_mem a key then OK (d_pop a key) else Raise ValueError)
    end.
  Fixpoint pop_all (a : inv) (ks : list str) : res inv :=
    match ks with
    | [] => OK a
    | k :: r => if d_mem a k then pop_all (d_pop a k) r else Raise ValueError
    end.
  Fixpoint parse_all (ks : list pyval) : res (list str) :=
    match ks with
    | [] => OK []
    | k :: r => bind (parse_nuclide k names []) (fun key => bind (parse_all r) (fun rest => OK (key :: rest)))
    end.
  Definition m_remove_list (a : inv) (ks : list pyval) : res inv :=
    bind (parse_all ks) (fun keys => pop_all a keys).

  (* operation language for histories *)
  Inductive op :=
  | OAdd (raw : list (pyval * T)) (units : str)
  | OSubtract (raw : list (pyval * T)) (units : str)
  | OPlus (other : inv)            (* self + other, other a well-formed inventory of the same data set *)
  | OMinus (other : inv)
  | OMul (c : T)
  | ODiv (c : T)
  | ORemove (k : pyval)
  | ORemoveList (ks : list pyval).

  (* a failing mutating call leaves the inventory as it was: the state is unchanged on Raise *)
  Definition step (a : inv) (o : op) : inv * option exn :=
    let lift (r : res inv) := match r with OK a' => (a', None) | Raise e => (a, Some e) end in
    match o with
    | OAdd raw u => lift (m_add a raw u)
    | OSubtract raw u => lift (m_subtract a raw u)
    | OPlus b => (op_add a b, None)
    | OMinus b => (op_sub a b, None)
    | OMul c => (op_mul a c, None)
    | ODiv c => (op_div a c, None)
    | ORemove k => lift (m_remove a k)
    | ORemoveList ks => lift (m_remove_list a ks)
    end.
  Definition run (a : inv) (os : list op) : inv := fold_left (fun s o => fst (step s o)) os a.
End Inv.
