From RD Require Import Base Lib.CertQ Model.Dataset Model.Default Model.FloatData Model.ExactCond.
Definition Ke_bound : qlit := QL 533 1.        (* K_exact(Default) = 532.087 *)
Lemma default_exact_cond : chk_exact_cond Default (bq_of Ke_bound) = true.
Proof. vm_cast_no_check (eq_refl true). Qed.
