(* The decay flow of a certified data set: linearity and independence of the splitting of the
   decay time (used by Props/C07.v). *)
From Coq Require Import Reals ZArith NArith List Bool Arith Lia Lra.
From RD Require Import Base Model.DecayR Lib.Sparse Lib.CertQ Model.Dataset.
From RD Require Proofs.Bateman Proofs.DatasetCert.
Import ListNotations.
Local Open Scope R_scope.

(* Nt only looks at the initial vector at indices < n *)
Lemma w_ext : forall n Ci x y k, (forall j, (j < n)%nat -> x j = y j) -> w n Ci x k = w n Ci y k.
Proof.
  intros n Ci x y k H. unfold w. apply sumn_ext. intros j Hj. rewrite (H j Hj). reflexivity.
Qed.

Lemma Nt_ext : forall n C Ci mu x y t i, (forall j, (j < n)%nat -> x j = y j) ->
  Nt n C Ci mu x t i = Nt n C Ci mu y t i.
Proof.
  intros n C Ci mu x y t i H. unfold Nt. apply sumn_ext. intros k _.
  rewrite (w_ext n Ci x y k H). reflexivity.
Qed.

Lemma decay_linear : forall (d : dataset) a x y t i,
  Nt (nn d) (Cr d) (Cir d) (mur d) (fun j => a * x j + y j) t i
  = a * Nt (nn d) (Cr d) (Cir d) (mur d) x t i + Nt (nn d) (Cr d) (Cir d) (mur d) y t i.
Proof. intro d. exact (Proofs.Bateman.decay_linear (nn d) (Cr d) (Cir d) (mur d)). Qed.

Section Split.
  Variable d : dataset.
  Hypothesis Hwf : wf_core d = true.
  Notation NtD := (Nt (nn d) (Cr d) (Cir d) (mur d)).
  Let step := fun (v : nat -> R) (t : R) => NtD v t.

  Lemma fold_step_ext : forall ts v v', (forall j, (j < nn d)%nat -> v j = v' j) ->
    forall i, (i < nn d)%nat -> fold_left step ts v i = fold_left step ts v' i.
  Proof.
    induction ts as [|t ts IH]; intros v v' H i Hi; simpl.
    - exact (H i Hi).
    - apply IH; [|exact Hi]. intros j _. unfold step. apply Nt_ext. exact H.
  Qed.

  Lemma fold_step_acc : forall ts s n0 i, (i < nn d)%nat ->
    fold_left step ts (NtD n0 s) i = NtD n0 (fold_left Rplus ts s) i.
  Proof.
    pose proof (Proofs.DatasetCert.wf_core_cert d Hwf) as HC.
    induction ts as [|t ts IH]; intros s n0 i Hi; simpl.
    - reflexivity.
    - rewrite <- (IH (s + t) n0 i Hi).
      apply fold_step_ext; [|exact Hi]. intros j Hj. unfold step.
      exact (Proofs.Bateman.decay_additive _ _ _ _ _ _ _ HC n0 s t j Hj).
  Qed.

  Lemma decay_split : forall ts n0 i, (i < nn d)%nat ->
    fold_left (fun v t => NtD v t) ts n0 i = NtD n0 (fold_left Rplus ts 0) i.
  Proof.
    intros ts n0 i Hi.
    pose proof (Proofs.DatasetCert.wf_core_cert d Hwf) as HC.
    rewrite <- (fold_step_acc ts 0 n0 i Hi).
    apply fold_step_ext; [|exact Hi]. intros j Hj. symmetry.
    exact (Proofs.Bateman.closed_form_initial _ _ _ _ _ _ _ HC n0 j Hj).
  Qed.
End Split.

Print Assumptions decay_linear.
Print Assumptions decay_split.
