(* Soundness of the executable certificate: wf_core d = true gives the real-valued
   hypotheses (DecayR.cert) that the generic Bateman theorems need. *)
From Coq Require Import Reals ZArith NArith QArith List Bool Lia Lra Arith FinFun.
From Bignums Require Import BigQ.
From RD Require Import Base Model.DecayR Lib.Sparse Lib.CertQ Model.Dataset.
Import ListNotations.
Local Open Scope R_scope.

(* ---------- small facts about lists and sparse rows over BigQ *)
Lemma map_fst_combine : forall (A B : Type) (l : list A) (l' : list B),
  length l = length l' -> map fst (combine l l') = l.
Proof.
  intros A B l. induction l as [|a l IH]; intros [|b l'] H; simpl in *;
    try reflexivity; try discriminate.
  f_equal. apply IH. lia.
Qed.

Lemma bget_nil : forall j, bget [] j = BigQ.zero.
Proof. reflexivity. Qed.

Lemma bget_cons : forall k x r j,
  bget ((k, x) :: r) j = if N.eqb k j then BigQ.add x (bget r j) else bget r j.
Proof. reflexivity. Qed.

Lemma bget_notin : forall r j, ~ In j (cols bq r) -> bget r j = BigQ.zero.
Proof. intros r j H. apply get_notin. exact H. Qed.

Lemma in_cols_inv : forall (r : row bq) j, In j (cols bq r) -> exists x, In (j, x) r.
Proof.
  intros r j Hin. unfold cols in Hin. apply in_map_iff in Hin.
  destruct Hin as [[k x] [E Hin]]. cbn [fst] in E. subst k. exists x. exact Hin.
Qed.

(* ---------- get on a flat_map whose pieces have pairwise distinct keys *)
Section FlatGet.
  Variable A : Type.
  Variable f : A -> row bq.
  Variable key : A -> N.
  Hypothesis f_key : forall t k x, In (k, x) (f t) -> k = key t.

  Lemma f_notin : forall t j, key t <> j -> ~ In j (cols bq (f t)).
  Proof.
    intros t j Hne Hin. apply in_cols_inv in Hin. destruct Hin as [x Hin].
    apply Hne. symmetry. apply (f_key t j x Hin).
  Qed.

  Lemma get_flat_none : forall l j, (forall t, In t l -> key t <> j) ->
    bget (flat_map f l) j = BigQ.zero.
  Proof.
    intros l j H. apply bget_notin. intro Hin. apply in_cols_inv in Hin.
    destruct Hin as [x Hin]. apply in_flat_map in Hin. destruct Hin as [t [Ht Hin]].
    apply (H t Ht). symmetry. apply (f_key t j x Hin).
  Qed.

  Lemma get_flat_unique : forall l j, NoDup (map key l) ->
    forall t, In t l -> key t = j ->
    bqv (bget (flat_map f l) j) = bqv (bget (f t) j).
  Proof.
    induction l as [|a l IH]; intros j Hnd t Hin Hk; [contradiction|].
    change (flat_map f (a :: l)) with (f a ++ flat_map f l).
    rewrite (get_app bq BigQ.add BigQ.zero bqv bqv_add bqv_0).
    cbn [map] in Hnd. apply NoDup_cons_iff in Hnd. destruct Hnd as [Hna Hnd].
    destruct Hin as [Ea|Hin].
    - subst a. rewrite (get_flat_none l j), bqv_0; [lra|].
      intros t' Ht' E. apply Hna. rewrite Hk, <- E. apply in_map. exact Ht'.
    - rewrite (bget_notin (f a) j), bqv_0.
      + rewrite (IH j Hnd t Hin Hk). lra.
      + apply f_notin. intro E. apply Hna. rewrite E, <- Hk. apply in_map. exact Hin.
  Qed.
End FlatGet.

(* ---------- the rows of Mq *)
Definition Mf (i : N) (t : N * (row bq * bq)) : row bq :=
  if N.eqb (fst t) i then []
  else if existsb (N.eqb i) (cols bq (fst (snd t)))
       then [(fst t, BigQ.mul (bget (fst (snd t)) i) (snd (snd t)))]
       else [].

Lemma Mrow_of_eq : forall trip i mui,
  Mrow_of trip (i, mui) = (i, BigQ.opp mui) :: flat_map (Mf i) trip.
Proof. reflexivity. Qed.

Lemma Mf_key : forall i t k x, In (k, x) (Mf i t) -> k = fst t.
Proof.
  intros i t k x Hin. unfold Mf in Hin.
  destruct (N.eqb (fst t) i); [contradiction|].
  destruct (existsb (N.eqb i) (cols bq (fst (snd t)))); [|contradiction].
  destruct Hin as [E|[]]. inversion E. reflexivity.
Qed.

Lemma Mf_val : forall i m brow mum,
  bqv (bget (Mf i (m, (brow, mum))) m)
  = if N.eqb m i then 0 else bqv (bget brow i) * bqv mum.
Proof.
  intros i m brow mum. unfold Mf. cbn [fst snd].
  destruct (N.eqb m i).
  - rewrite bget_nil. apply bqv_0.
  - destruct (existsb (N.eqb i) (cols bq brow)) eqn:E.
    + rewrite bget_cons, N.eqb_refl, bget_nil, bqv_add, bqv_mul, bqv_0. lra.
    + rewrite bget_nil, bqv_0. rewrite (bget_notin brow i), bqv_0; [lra|].
      intro Hin.
      assert (Ht : existsb (N.eqb i) (cols bq brow) = true).
      { apply existsb_exists. exists i. split; [exact Hin|apply N.eqb_refl]. }
      congruence.
Qed.

Lemma nN_nn : forall d, N.to_nat (nN d) = nn d.
Proof. intro d. unfold nN, nn. apply Nat2N.id. Qed.

Lemma nrange_length : forall d, length (nrange d) = nn d.
Proof. intro d. unfold nrange. rewrite map_length, seq_length. reflexivity. Qed.

Lemma nrange_nth : forall d i, (i < nn d)%nat -> nth i (nrange d) 0%N = N.of_nat i.
Proof.
  intros d i Hi. unfold nrange. change 0%N with (N.of_nat 0).
  rewrite map_nth, seq_nth by exact Hi. reflexivity.
Qed.

Lemma nrange_NoDup : forall d, NoDup (nrange d).
Proof.
  intro d. unfold nrange. apply Injective_map_NoDup.
  - intros x y E. apply Nat2N.inj. exact E.
  - apply seq_NoDup.
Qed.

Lemma Mq_entry : forall d B mu i m,
  length B = nn d -> length mu = nn d -> (i < nn d)%nat -> (m < nn d)%nat ->
  bent (Mq_of d B mu) i m
  = if Nat.eqb i m then - bqv (nth m mu BigQ.zero)
    else bent B m i * bqv (nth m mu BigQ.zero).
Proof.
  intros d B mu i m HB Hmu Hi Hm.
  unfold ent, mrow, Mq_of. cbv zeta.
  set (trip := combine (nrange d) (combine B mu)).
  assert (HL1 : length (combine (nrange d) mu) = nn d)
    by (rewrite combine_length, nrange_length, Hmu; apply Nat.min_id).
  assert (HL2 : length (combine B mu) = nn d)
    by (rewrite combine_length, HB, Hmu; apply Nat.min_id).
  assert (HL3 : length trip = nn d)
    by (unfold trip; rewrite combine_length, nrange_length, HL2; apply Nat.min_id).
  assert (Enth : nth m trip (0%N, ([], BigQ.zero))
                 = (N.of_nat m, (nth m B [], nth m mu BigQ.zero))).
  { unfold trip.
    rewrite combine_nth by exact (eq_trans (nrange_length d) (eq_sym HL2)).
    rewrite combine_nth by exact (eq_trans HB (eq_sym Hmu)).
    rewrite nrange_nth by exact Hm. reflexivity. }
  rewrite (nth_indep _ [] (Mrow_of trip (0%N, BigQ.zero))).
  2:{ apply (Nat.lt_le_trans _ (nn d)); [exact Hi|]. apply Nat.eq_le_incl. symmetry.
      etransitivity; [apply map_length|exact HL1]. }
  rewrite map_nth.
  rewrite combine_nth by exact (eq_trans (nrange_length d) (eq_sym Hmu)).
  rewrite nrange_nth by exact Hi.
  rewrite Mrow_of_eq, bget_cons.
  assert (Htail : bqv (bget (flat_map (Mf (N.of_nat i)) trip) (N.of_nat m))
    = bqv (bget (Mf (N.of_nat i) (N.of_nat m, (nth m B [], nth m mu BigQ.zero))) (N.of_nat m))).
  { apply (get_flat_unique _ (Mf (N.of_nat i)) fst (Mf_key (N.of_nat i))).
    - unfold trip. rewrite map_fst_combine.
      + apply nrange_NoDup.
      + exact (eq_trans (nrange_length d) (eq_sym HL2)).
    - rewrite <- Enth. apply nth_In. rewrite HL3. exact Hm.
    - reflexivity. }
  destruct (Nat.eqb_spec i m) as [E|E].
  - subst m. rewrite N.eqb_refl, bqv_add, bqv_opp, Htail, Mf_val, N.eqb_refl.
    apply Rplus_0_r.
  - destruct (N.eqb_spec (N.of_nat i) (N.of_nat m)) as [E'|E'];
      [apply Nat2N.inj in E'; contradiction|].
    rewrite Htail, Mf_val.
    destruct (N.eqb_spec (N.of_nat m) (N.of_nat i)) as [E''|E''];
      [apply Nat2N.inj in E''; exfalso; apply E; symmetry; exact E''|].
    reflexivity.
Qed.

(* ---------- length facts *)
Lemma chk_lengths_mu : forall d, chk_lengths d = true -> length (muq d) = nn d.
Proof.
  intros d H. unfold chk_lengths in H. cbv zeta in H.
  rewrite !andb_true_iff, !Nat.eqb_eq in H. unfold muq. rewrite map_length. tauto.
Qed.

Lemma chk_links_len : forall d, chk_links d = true -> length (Bq d) = nn d.
Proof.
  intros d H. unfold chk_links in H. apply andb_prop in H. destruct H as [_ H].
  rewrite (mat_in_range_len _ _ _ H). apply nN_nn.
Qed.

(* ---------- the individual fields *)
Lemma cert_bf_diag : forall d, chk_links d = true ->
  forall i, (i < nn d)%nat -> bfr d i i = 0.
Proof.
  intros d H i Hi. pose proof (chk_links_len d H) as HL.
  unfold chk_links in H. apply andb_prop in H. destruct H as [H _].
  pose proof (forall_rows_spec _ _ _ _ H i) as Hrow. rewrite HL in Hrow.
  specialize (Hrow Hi). cbv beta in Hrow. rewrite forallb_forall in Hrow.
  unfold bfr, ent, mrow. rewrite bget_notin; [apply bqv_0|].
  intro Hin. apply in_cols_inv in Hin. destruct Hin as [x Hin].
  specialize (Hrow _ Hin). cbn [fst] in Hrow.
  rewrite N.add_0_l, N.eqb_refl in Hrow. discriminate.
Qed.

Lemma cert_stable_col : forall d, chk_stable_col d = true ->
  forall i k, stableb d k = true -> i <> k -> Cr d i k = 0.
Proof.
  intros d H i k Hs Hik. unfold Cr, ent, mrow.
  destruct (Nat.lt_ge_cases i (length (Cq d))) as [Hi|Hi].
  - unfold chk_stable_col, chk_stable_col_of in H.
    pose proof (forall_rows_spec _ _ _ _ H i Hi) as Hrow. cbv beta in Hrow.
    rewrite forallb_forall in Hrow.
    rewrite bget_notin; [apply bqv_0|].
    intro Hin. apply in_cols_inv in Hin. destruct Hin as [x Hin].
    specialize (Hrow _ Hin). cbn [fst] in Hrow.
    rewrite N.add_0_l, Nat2N.id in Hrow.
    unfold stableb, mu_at in Hs. rewrite Hs in Hrow.
    destruct (N.eqb_spec (N.of_nat k) (N.of_nat i)) as [E|E].
    + apply Nat2N.inj in E. apply Hik. symmetry. exact E.
    + discriminate.
  - rewrite nth_overflow by exact Hi. rewrite bget_nil. apply bqv_0.
Qed.

Lemma cert_mu_nonneg : forall d, chk_mu_nonneg d = true ->
  forall k, (k < length (muq d))%nat -> 0 <= mur d k.
Proof.
  intros d H k Hk. unfold chk_mu_nonneg in H. rewrite forallb_forall in H.
  unfold mur, mu_at. apply bq_nonneg_spec. apply H. apply nth_In. exact Hk.
Qed.

Theorem wf_core_cert : forall d : dataset, wf_core d = true ->
  cert (nn d) (Cr d) (Cir d) (Mr d) (mur d) (bfr d) (stableb d).
Proof.
  intros d H. unfold wf_core in H.
  apply andb_prop in H. destruct H as [H Hlinks].
  apply andb_prop in H. destruct H as [H Hscol].
  apply andb_prop in H. destruct H as [H Hnonneg].
  apply andb_prop in H. destruct H as [H HMC].
  apply andb_prop in H. destruct H as [H HCiC].
  apply andb_prop in H. destruct H as [Hlen HCCi].
  pose proof (chk_lengths_mu d Hlen) as Hmu.
  pose proof (chk_links_len d Hlinks) as HB.
  constructor.
  - intros i j Hi Hj. rewrite <- (nN_nn d) in *.
    exact (bcheck_prod_id_sound (nN d) (Cq d) (Ciq d) HCCi i j Hi Hj).
  - intros i j Hi Hj. rewrite <- (nN_nn d) in *.
    exact (bcheck_prod_id_sound (nN d) (Ciq d) (Cq d) HCiC i j Hi Hj).
  - intros i k Hi Hk. rewrite <- (nN_nn d) in *.
    exact (bcheck_diag_sound (nN d) (Mq d) (Cq d) (muq d) HMC i k Hi Hk).
  - intros i m Hi Hm. unfold Mr, Mq, mur, mu_at, bfr.
    apply (Mq_entry d (Bq d) (muq d) i m HB Hmu Hi Hm).
  - intros i Hi. apply (cert_bf_diag d Hlinks i Hi).
  - intros k Hk. unfold stableb, mur. split.
    + apply bq_is_zero_spec.
    + intro E. destruct (bq_is_zero (mu_at d k)) eqn:Ez; [reflexivity|].
      exfalso. apply (bq_is_zero_false _ Ez). exact E.
  - intros k Hk. apply (cert_mu_nonneg d Hnonneg). rewrite Hmu. exact Hk.
  - intros i k Hi Hk Hs Hik. apply (cert_stable_col d Hscol i k Hs Hik).
Qed.

Print Assumptions wf_core_cert.
