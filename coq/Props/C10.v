(* C10 - Invalid input is refused with the documented error, never mis-accepted.
   Statements about the GENERATED functions.  Exceptions are values of the error monad, so
   "which exception" is part of the statement. *)
From Coq Require Import ZArith NArith List Bool.
From RD Require Import Base Lib.Py Gen.Tables Gen.UtilsGen Model.NuclideSpec.
From RD Require Proofs.NuclideParse Proofs.NuclideRefuse.
Import ListNotations.

(* for EVERY string: a canonical name, NuclideStrError or ValueError - never IndexError, KeyError, ... *)
Theorem parse_str_total : forall s : str, is_ok_or_valueerror (parse_nuclide_str s).
Proof. exact Proofs.NuclideRefuse.parse_str_total. Qed.

(* for every integer id in [-1e10, 1e10]: a name or ValueError *)
Theorem parse_id_total : forall z : Z, (Z.abs z <= 10000000000)%Z -> is_ok_or_valueerror (parse_id z).
Proof. exact Proofs.NuclideRefuse.parse_id_total. Qed.

(* whatever is accepted literally contains its element, mass digits and state (up to ASCII case) *)
Theorem accepted_is_literal : forall s r, parse_nuclide_str s = OK r ->
  exists p A q El st,
    s_replace_first hyphen [] (ws_free s) = p ++ A ++ q /\
    A <> [] /\ all_digits A = true /\ (dvalue A <= 300)%Z /\ all_letters p = true /\ all_letters q = true /\
    In El elements /\ In st states /\ r = canonical El A st /\
    ( (p <> [] /\ same_fold p El /\ same_fold q st)                      (* element first *)
      \/ (p = [] /\ exists q1 q2, q = q1 ++ q2 /\ same_fold q1 st /\ same_fold q2 El) ).   (* mass first *)
Proof. exact Proofs.NuclideRefuse.accepted_is_literal. Qed.

(* an accepted id literally encodes the nuclide *)
Theorem accepted_id_is_literal : forall z r, (Z.abs z <= 10000000000)%Z -> parse_id z = OK r ->
  exists zz a sn El st, z = id_of zz a sn /\ (0 <= a < 1000)%Z /\ (0 <= sn <= 6)%Z /\
    z_of El z_dict = Some zz /\ state_num st = Some sn /\ r = El ++ hyphen ++ s_of_int a ++ st.
Proof. exact Proofs.NuclideRefuse.accepted_id_is_literal. Qed.

(* parse_nuclide: type dispatch and data-set membership *)
Theorem parse_nuclide_other : forall names dsname, parse_nuclide VOther names dsname = Raise TypeError.
Proof. exact Proofs.NuclideRefuse.parse_nuclide_other. Qed.

Theorem parse_nuclide_str_case : forall s names dsname,
  parse_nuclide (VStr s) names dsname =
  bind (parse_nuclide_str s) (fun r => if l_mem_str r names then OK r else Raise ValueError).
Proof. exact Proofs.NuclideRefuse.parse_nuclide_str_case. Qed.

Theorem parse_nuclide_int_case : forall z names dsname,
  parse_nuclide (VInt z) names dsname =
  bind (parse_id z) (fun n => bind (parse_nuclide_str n)
       (fun r => if l_mem_str r names then OK r else Raise ValueError)).
Proof. exact Proofs.NuclideRefuse.parse_nuclide_int_case. Qed.

(* whatever parse_nuclide accepts is a member of the data set, and it never raises anything but
   ValueError / NuclideStrError / TypeError for strings and for ids in [-1e10, 1e10] *)
Theorem parse_nuclide_member : forall v names dsname r,
  parse_nuclide v names dsname = OK r -> l_mem_str r names = true.
Proof. exact Proofs.NuclideRefuse.parse_nuclide_member. Qed.

Theorem parse_nuclide_total : forall v names dsname,
  (forall z, v = VInt z -> (Z.abs z <= 10000000000)%Z) ->
  match parse_nuclide v names dsname with
  | OK _ | Raise ValueError | Raise NuclideStrError | Raise TypeError => True
  | _ => False
  end.
Proof. exact Proofs.NuclideRefuse.parse_nuclide_total. Qed.
