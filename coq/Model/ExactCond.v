(* The condition number of the exact matrices: K_exact = max_ij sum_k |C_ik| |C^-1_kj| (kernel computation).
   It scales the effect of the finite working precision of the high-precision class.  Definitions only. *)
From Coq Require Import ZArith NArith QArith List Bool.
From Bignums Require Import BigQ.
From RD Require Import Base Lib.Sparse Lib.CertQ Model.Dataset Model.FloatData.
Import ListNotations.

Section WithDataset.
  Variable d : dataset.
  Definition K_exact : bq :=
    let A := Cq d in let Ai := Ciq d in
    fold_left bq_max (map (fun a => row_max Ai zero_mat a []) A) BigQ.zero.
  Definition chk_exact_cond (K : bq) : bool := bq_leb K_exact K.
End WithDataset.
