"""Implementation side of the history streams of C11 (purity / atomicity / history independence) and
C17 (equality / hashing) (PYTHONPATH=/repo).

stdin JSON: {"histories": [ {"objects": [spec...], "steps": [step...], "probe": probe} ... ]}
  spec : {"cls": "Inventory"|"InventoryHP", "contents": {name: amount}, "units": u}
  step : [obj_index, method, args]   methods: decay cumulative_decays numbers activities masses moles fractions
         half_lives progeny branching_fractions decay_modes series series_pandas plot to_csv
         add subtract remove remove_list plus minus mul div nuclide_queries dataset_queries eq
After EVERY step the fingerprint of every live object and of the shared data set is recomputed and
compared with the fingerprint before the step: a non-mutating step must change nothing; a mutating step
that raises must change nothing; a successful mutating step may change only its receiver's contents.
Output: per history the list of violations found and counters."""
import json, sys, os, hashlib, tempfile, copy, math

def main():
    import numpy as np, sympy
    import radioactivedecay as rd
    from radioactivedecay import decaydata
    req = json.load(sys.stdin)
    D = rd.DEFAULTDATA

    def h(b):
        return hashlib.sha256(b).hexdigest()[:16]

    def fp_dataset(d):
        parts = []
        sd = d.scipy_data
        for a in (sd.atomic_masses, sd.decay_consts, sd.vector_n0, sd.matrix_c.data, sd.matrix_c.indices, sd.matrix_c.indptr,
                  sd.matrix_c_inv.data, sd.matrix_c_inv.indices, sd.matrix_c_inv.indptr, sd.matrix_e.data, sd.matrix_e.indices,
                  sd.matrix_e.indptr):
            parts.append(h(np.ascontiguousarray(a).tobytes()))
        parts.append(repr(sd.ln2))
        parts.append(h(repr([list(map(str, x)) for x in d.progeny]).encode()))
        parts.append(h(repr([[float(v).hex() for v in x] for x in d.bfs]).encode()))
        parts.append(h(repr([list(map(str, x)) for x in d.modes]).encode()))
        parts.append(h(repr([(float(a).hex(), str(b), str(c)) for a, b, c in d.hldata]).encode()))
        parts.append(h(repr(list(map(str, d.nuclides))).encode()))
        parts.append(repr(float(d.float_year_conv).hex()))
        parts.append(d.dataset_name)
        sy = d._sympy_data
        if sy is not None:
            parts.append(h(sympy.srepr(sy.vector_n0).encode()))
            parts.append(str(len(sy.matrix_e.todok())) + ":" + h(sympy.srepr(sy.matrix_e.todok()).encode()))
            parts.append(str(len(sy.matrix_c.todok())))
            parts.append(str(len(sy.matrix_c_inv.todok())))
        return parts

    def fp_inv(inv):
        cont = []
        for k, v in inv.contents.items():
            cont.append((k, sympy.srepr(v) if isinstance(v, sympy.Basic) else (type(v).__name__, float(v).hex())))
        attrs = sorted(k for k in inv.__dict__)
        # values of every further instance attribute (anything besides the documented contents / data set references)
        vals = {}
        for k, v in inv.__dict__.items():
            if k in ("contents", "decay_data", "decay_matrices", "sig_fig"):
                continue
            try:
                vals[k] = h(np.ascontiguousarray(v).tobytes()) if isinstance(v, np.ndarray) else repr(v)[:200]
            except Exception:
                vals[k] = "<unprintable>"
        return {"cls": type(inv).__name__, "contents": cont, "attrs": attrs, "vals": vals, "ds": id(inv.decay_data),
                "dm": id(inv.decay_matrices), "sig": getattr(inv, "sig_fig", None)}

    def hx(d):
        return {k: float(v).hex() for k, v in d.items()}

    def readouts(o, t, heavy=True):
        """every calculation / read-out of o as bit patterns (or the exception type)"""
        r = {}
        calls = [("numbers", lambda: hx(o.numbers())), ("masses", lambda: hx(o.masses("g"))), ("moles", lambda: hx(o.moles("mol"))),
                 ("activities", lambda: hx(o.activities("Bq"))), ("activity_fractions", lambda: hx(o.activity_fractions())),
                 ("mass_fractions", lambda: hx(o.mass_fractions())), ("mole_fractions", lambda: hx(o.mole_fractions()))]
        if heavy:
            calls += [("decay", lambda: hx(o.decay(t, "s").numbers())), ("cumulative_decays", lambda: hx(o.cumulative_decays(t, "s")))]
        for name, f in calls:
            try:
                r[name] = f()
            except Exception as e:
                r[name] = type(e).__name__
        return r

    def twin_of(o):
        return type(o)(dict(o.contents), "num", False, o.decay_data)

    def twin_check(o, t, nsteps, meth, viol, heavy=True):
        """history independence: o (with its history) must answer exactly like a new object with equal contents"""
        try:
            tw = twin_of(o)
        except Exception as e:
            return
        a, b = readouts(o, t, heavy), readouts(tw, t, heavy)
        for k in a:
            if a[k] != b[k]:
                viol.append({"step": nsteps, "method": meth, "call": k,
                             "what": f"{k}() of an inventory with a history differs from {k}() of a new inventory with the same contents",
                             "with_history": a[k] if isinstance(a[k], str) else dict(list(a[k].items())[:4]),
                             "fresh": b[k] if isinstance(b[k], str) else dict(list(b[k].items())[:4]),
                             "contents": [(n, str(v)[:30]) for n, v in list(o.contents.items())[:6]]})
                break

    MUTATING = {"add", "subtract", "remove", "remove_list"}
    tmpdir = tempfile.mkdtemp(prefix="rdverif_")
    out = []
    for hist in req["histories"]:
        objs = []
        viol = []
        for s in hist["objects"]:
            cls = rd.InventoryHP if s["cls"] == "InventoryHP" else rd.Inventory
            objs.append(cls({k: float.fromhex(v) for k, v in s["contents"].items()}, s["units"]))
        extra = []     # results kept alive (new inventories from decay / operators)
        kept = []      # (step, method, the object a read-out RETURNED, a copy of its items): a result must not change afterwards
        fresh0 = fp_dataset(D)
        nsteps = 0
        results = []
        for step in hist["steps"]:
            oi, meth, args = step
            live = objs + extra
            inv = live[oi % len(live)]
            before = [fp_inv(o) for o in live]
            ds_before = fp_dataset(D)
            exc = None
            res = None
            try:
                if meth == "decay":
                    res = inv.decay(float.fromhex(args[0]), args[1]); extra.append(res); extra[:] = extra[-4:]
                    res = {k: float(v).hex() for k, v in res.numbers().items()}
                elif meth == "cumulative_decays":
                    res = {k: float(v).hex() for k, v in inv.cumulative_decays(float.fromhex(args[0]), args[1]).items()}
                elif meth == "numbers":
                    raw = inv.numbers(); kept.append((nsteps + 1, meth, raw, list(raw.items()))); kept[:] = kept[-8:]
                    res = {k: float(v).hex() for k, v in raw.items()}
                elif meth in ("activities", "masses", "moles"):
                    raw = getattr(inv, meth)(args[0]); kept.append((nsteps + 1, meth, raw, list(raw.items()))); kept[:] = kept[-8:]
                    res = {k: float(v).hex() for k, v in raw.items()}
                elif meth == "fractions":
                    res = [{k: float(v).hex() for k, v in f().items()} for f in (inv.activity_fractions, inv.mass_fractions, inv.mole_fractions)]
                elif meth in ("half_lives",):
                    res = {k: (v if isinstance(v, str) else float(v).hex()) for k, v in inv.half_lives(args[0]).items()}
                elif meth in ("progeny", "branching_fractions", "decay_modes"):
                    res = repr(getattr(inv, meth)())
                elif meth == "series":
                    t, dd = inv.decay_time_series(float.fromhex(args[0]), args[1], args[2], args[3], npoints=int(args[4]))
                    res = [[float(x).hex() for x in t], {k: [float(x).hex() for x in v] for k, v in dd.items()}]
                elif meth == "series_pandas":
                    df = inv.decay_time_series_pandas(float.fromhex(args[0]), args[1], args[2], args[3], npoints=int(args[4]))
                    res = h(df.to_csv().encode())
                elif meth == "plot":
                    import matplotlib.pyplot as plt
                    fig, ax = inv.plot(float.fromhex(args[0]), args[1], yunits=args[2], npoints=int(args[3]))
                    res = [[float(y).hex() for y in ln.get_ydata()] for ln in ax.get_lines()]
                    plt.close(fig)
                elif meth == "to_csv":
                    p = os.path.join(tmpdir, "x.csv")
                    inv.to_csv(p, args[0], write_units=True)
                    res = h(open(p, "rb").read()); os.remove(p)
                elif meth == "plot_bad":
                    inv.plot(10.0, "s", yunits="bogus", npoints=2)
                elif meth == "series_bad":
                    inv.decay_time_series(10.0, "bogus", "linear", "num", npoints=2)
                elif meth == "decay_bad":
                    inv.decay(10.0, "bogus")
                elif meth == "to_csv_bad":
                    inv.to_csv(os.path.join(tmpdir, "bad.csv"), "bogus")
                elif meth == "activities_bad":
                    inv.activities("bogus")
                elif meth == "add":
                    inv.add({k: (float.fromhex(v) if isinstance(v, str) and v.startswith(("0x", "-0x")) else v) for k, v in args[0].items()}, args[1])
                elif meth == "subtract":
                    inv.subtract({k: float.fromhex(v) for k, v in args[0].items()}, args[1])
                elif meth == "remove":
                    inv.remove(args[0])
                elif meth == "remove_list":
                    inv.remove(list(args[0]))
                elif meth in ("plus", "minus"):
                    other = live[args[0] % len(live)]
                    if type(other) is type(inv):
                        r = inv + other if meth == "plus" else inv - other
                        extra.append(r); extra[:] = extra[-4:]
                        res = {k: float(v).hex() for k, v in r.numbers().items()}
                elif meth in ("mul", "div"):
                    c = float.fromhex(args[0])
                    r = inv * c if meth == "mul" else inv / c
                    extra.append(r); extra[:] = extra[-4:]
                    res = {k: float(v).hex() for k, v in r.numbers().items()}
                elif meth == "nuclide_queries":
                    n = rd.Nuclide(args[0])
                    res = [n.Z, n.A, n.state, n.id, float(n.atomic_mass).hex(), str(n.half_life("readable")), repr(n.progeny())]
                elif meth == "dataset_queries":
                    res = [float(D.half_life(args[0], "y")).hex(), float(D.branching_fraction(args[0], args[1])).hex(), D.decay_mode(args[0], args[1])]
                    # the same quantity asked in several units one after the other: each answer is the stored half-life in that unit,
                    # whatever was asked before (m before ms, s before us, d before days ...)
                    hs_ = float(D.half_life(args[0], "s"))
                    for u_, f_ in (("m", 1 / 60.0), ("ms", 1e3), ("h", 1 / 3600.0), ("s", 1.0), ("us", 1e6), ("d", 1 / 86400.0), ("ms", 1e3), ("m", 1 / 60.0)):
                        v_ = float(D.half_life(args[0], u_))
                        if not (abs(v_ - hs_ * f_) <= 1e-12 * abs(hs_ * f_)):
                            viol.append({"step": nsteps + 1, "method": meth, "what": f"half_life({args[0]!r}, {u_!r}) = {v_!r} is not the half-life in s ({hs_!r}) x {f_!r}: the answer depends on the queries made before it"})
                            break
                elif meth == "eq":
                    other = live[args[0] % len(live)]
                    res = [inv == other, inv != other, other == inv]
            except Exception as e:
                exc = type(e).__name__
            nsteps += 1
            live2 = live          # objects that existed before the step
            after = [fp_inv(o) for o in live2]
            ds_after = fp_dataset(D)
            if ds_after != ds_before:
                viol.append({"step": nsteps, "method": meth, "what": "the shared data set changed", "exc": exc})
            for idx, (b, a, o) in enumerate(zip(before, after, live2)):
                if o is inv and meth in MUTATING and exc is None:
                    b2, a2 = dict(b, contents=None), dict(a, contents=None)
                    if b2 != a2:
                        viol.append({"step": nsteps, "method": meth, "what": "a mutating call changed more than the contents", "detail": [b2, a2]})
                    continue
                if b != a:
                    what = ("a failing mutating call left the inventory changed" if (o is inv and meth in MUTATING)
                            else ("a non-mutating call changed its receiver" if o is inv else "a call changed an unrelated inventory"))
                    viol.append({"step": nsteps, "method": meth, "what": what, "exc": exc, "object": idx,
                                 "before": b["contents"][:3], "after": a["contents"][:3], "attrs": [b["attrs"], a["attrs"]]})
            for kp in list(kept):
                if list(kp[2].items()) != kp[3]:
                    viol.append({"step": nsteps, "method": meth, "what": f"the result that {kp[1]}() returned at step {kp[0]} changed retroactively after this call",
                                 "was": [[k, float(v).hex()] for k, v in kp[3]][:3], "now": [[k, float(v).hex()] for k, v in kp[2].items()][:3]})
                    kept.remove(kp)
            if exc in ("KeyError", "IndexError", "AttributeError", "RuntimeError"):
                viol.append({"step": nsteps, "method": meth, "what": f"escaped with {exc}"})
            results.append([meth, exc])
            # (after the fingerprints:) the receiver answers like a new object with the same contents
            if len(viol) < 3 and (meth in MUTATING or nsteps % 4 == 0):
                hp_obj = isinstance(inv, rd.InventoryHP)
                twin_check(inv, 1.0e6, nsteps, meth, viol, heavy=(not hp_obj) or (meth in MUTATING and exc is None and nsteps % 3 == 0))
        # two loads of the data set stay equal; the process-wide data set equals a fresh load
        fresh = decaydata.load_dataset("icrp107_ame2020_nubase2020", load_sympy=True)
        if not (fresh == D) or (fresh != D):
            viol.append({"step": nsteps, "method": "-", "what": "DEFAULTDATA is no longer equal to a fresh load of the data set"})
        if fp_dataset(fresh) != fp_dataset(D):
            viol.append({"step": nsteps, "method": "-", "what": "DEFAULTDATA fingerprint differs from a fresh load"})
        # probe calculation after the history (compared by the harness with a fresh interpreter)
        pr = hist.get("probe")
        probe_out = None
        if pr:
            pinv = rd.Inventory({k: float.fromhex(v) for k, v in pr["contents"].items()}, "num")
            probe_out = [{k: float(v).hex() for k, v in pinv.decay(float.fromhex(pr["t"]), "s").numbers().items()},
                         {k: float(v).hex() for k, v in pinv.cumulative_decays(float.fromhex(pr["t"]), "s").items()},
                         {k: float(v).hex() for k, v in pinv.activities("Ci").items()}]
        out.append({"violations": viol, "steps": nsteps, "results": results, "probe": probe_out})
    for f in os.listdir(tmpdir):
        os.remove(os.path.join(tmpdir, f))
    os.rmdir(tmpdir)
    json.dump(out, sys.stdout)
main()
