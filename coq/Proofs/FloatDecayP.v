(* C01 (fourth part): the forward-error bound of the double-precision decay for ALL inputs -
   rounding (Proofs/RoundingP.v through the refinement of Proofs/Rounding64P.v), the stored exponentials,
   and the stored data (Proofs/FloatDataP.v) put together; the shipped data set. *)
From Coq Require Import Reals ZArith NArith QArith Qreals List Bool Lia Lra Arith Psatz.
From Coq Require Import PrimFloat.
From Flocq Require Import Core.Core.
From Bignums Require Import BigQ.
From RD Require Import Base Model.DecayR Lib.Sparse Lib.CertQ Model.Dataset Model.Default Model.Rounding Model.Rounding64
  Model.FloatDecay Model.FloatData Model.RoundCert.
From RD Require Import Proofs.FloatDecayAux.
From RD Require Proofs.DatasetCert Proofs.FloatDataP Proofs.Rounding64P Proofs.RoundingP Proofs.DecayEnclosure
  Proofs.FloatDecayLam Proofs.DefaultWf Proofs.CertDefault.FloatDataCert Proofs.CertDefault.RoundCert.
Import ListNotations.
Local Open Scope R_scope.

Definition lambda_close_sound := Proofs.FloatDecayLam.lambda_close_sound.

Lemma u64_nonneg : 0 <= u64.
Proof. destruct Rounding64P.rnd64_std_model as [H _]. exact H. Qed.
Lemma eta64_nonneg : 0 <= eta64.
Proof. destruct Rounding64P.rnd64_std_model as [_ [H _]]. exact H. Qed.

Lemma chk_float_data_finite : forall d B K, chk_float_data d B K = true ->
  all_finite (ds_cf d) = true /\ all_finite (ds_cif d) = true.
Proof.
  intros d B K H. unfold chk_float_data in H.
  apply andb_prop in H. destruct H as [H _].
  apply andb_prop in H. destruct H as [H _].
  apply andb_prop in H. destruct H as [H _].
  apply andb_prop in H. destruct H as [H _].
  apply andb_prop in H. exact H.
Qed.

Lemma wf_core_lengths : forall d, wf_core d = true -> length (ds_mu d) = nn d.
Proof.
  intros d H. unfold wf_core in H.
  apply andb_prop in H. destruct H as [H _].
  apply andb_prop in H. destruct H as [H _].
  apply andb_prop in H. destruct H as [H _].
  apply andb_prop in H. destruct H as [H _].
  apply andb_prop in H. destruct H as [H _].
  apply andb_prop in H. destruct H as [H _].
  pose proof (DatasetCert.chk_lengths_mu d H) as E. unfold muq in E. rewrite map_length in E. exact E.
Qed.

Section Main.
  Variables (d : dataset) (B K Gb Hb : bq) (mb : nat) (c ue : R).
  Hypothesis Hwf : wf_core d = true.
  Hypothesis Hfd : chk_float_data d B K = true.
  Hypothesis Hrd : chk_round d Gb Hb mb = true.
  Hypothesis Hc : 0 <= c < 1.
  Hypothesis Hue : 0 <= ue.
  Hypothesis Hmb : INR mb * u64 < 1.
  Variables (e n0 : frow) (i : N) (ce mo : list N) (t : R) (lamf : nat -> R).
  Hypothesis Hok : orders_okb (ds_cf d) (ds_cif d) e n0 i ce mo = true.
  Hypothesis Hfin : ffin (pf_yhat (ds_cf d) (ds_cif d) e n0 i ce mo) = true.
  Hypothesis Ht : 0 <= t.
  Let n0f := fun j : nat => fval (fget n0 (N.of_nat j)).
  Let Ef := fun k : nat => fval (fget e (N.of_nat k)).
  Hypothesis Hn0 : forall j, 0 <= n0f j.
  Hypothesis Hlam : forall k, (k < nn d)%nat -> Rabs (lamf k - lam (mur d) k) <= c * lam (mur d) k.
  Hypothesis HE : forall k, (k < nn d)%nat -> (exists j, (j < nn d)%nat /\ Cifr d k j * n0f j <> 0) ->
             Rabs (Ef k - exp (- lamf k * t)) <= ue.

  Let n := nn d.
  Let ii := N.to_nat i.
  Let Cff := fun a b : nat => fval (fget (frow_of (ds_cf d) (N.of_nat a)) (N.of_nat b)).
  Let Ciff := fun a b : nat => fval (fget (frow_of (ds_cif d) (N.of_nat a)) (N.of_nat b)).
  Let L := length (frow_of (ds_cf d) i).
  Let L' := length (nodup N.eq_dec (flat_map (fun k => fcols (frow_of (ds_cif d) k)) (fcols (frow_of (ds_cf d) i)))).
  Let mi := (L + L' + 3)%nat.
  Let N1 := sumn n n0f.
  Let wf := fun k : nat => sumn n (fun j => Cifr d k j * n0f j).
  Let q := u64 / (1 - INR mb * u64).

  Let HCf : mat_in_range bq (nN d) (Cfq d) = true.
  Proof. apply (FloatDataP.chk_float_data_parts d B K Hfd). Qed.
  Let HCif : mat_in_range bq (nN d) (Cifq d) = true.
  Proof. apply (FloatDataP.chk_float_data_parts d B K Hfd). Qed.
  Let HK : bqv (K_cond d) <= bqv K.
  Proof. apply (FloatDataP.chk_float_data_parts d B K Hfd). Qed.
  Let NDcf : rows_nodup (ds_cf d) = true.
  Proof. apply (chk_round_parts d Gb Hb mb Hrd). Qed.
  Let NDcif : rows_nodup (ds_cif d) = true.
  Proof. apply (chk_round_parts d Gb Hb mb Hrd). Qed.
  Let HG : bqv (G_round d) <= bqv Gb.
  Proof. apply (chk_round_parts d Gb Hb mb Hrd). Qed.
  Let HH : bqv (H_col d) <= bqv Hb.
  Proof. apply (chk_round_parts d Gb Hb mb Hrd). Qed.
  Let Hmo : (max_ops d <= mb)%nat.
  Proof. apply (chk_round_parts d Gb Hb mb Hrd). Qed.

  Lemma ii_lt : (ii < n)%nat.
  Proof.
    destruct (Rounding64P.ok_parts _ _ _ _ _ _ _ Hok) as [H _].
    rewrite (len_cf d HCf) in H. unfold ii, n. lia.
  Qed.

  Lemma Cff_eq : forall a b, Cff a b = Cfr d a b.
  Proof. intros a b. unfold Cff, Cfr, Cfq. apply bent_fget. exact NDcf. Qed.
  Lemma Ciff_eq : forall a b, Ciff a b = Cifr d a b.
  Proof. intros a b. unfold Ciff, Cifr, Cifq. apply bent_fget. exact NDcif. Qed.

  Lemma N1_nonneg : 0 <= N1.
  Proof. unfold N1. apply RoundingP.sumn_nonneg. intros; apply Hn0. Qed.

  Lemma mi_ops : mi = ops_row d ii.
  Proof. unfold mi, L, L', ii. symmetry. apply ops_row_eq. Qed.
  Lemma mi_le : (mi <= mb)%nat.
  Proof. rewrite mi_ops. eapply Nat.le_trans; [apply (max_ops_sound d HCf); apply ii_lt|exact Hmo]. Qed.

  (* ---------- rounding *)
  Lemma round_part :
    Rabs (fval (pf_yhat (ds_cf d) (ds_cif d) e n0 i ce mo) - Yexact n Cff Ciff Ef n0f ii)
    <= gam u64 mi * sumn n (fun j => Sabs n Cff Ciff ii j * Rabs (n0f j))
       + eta64 * (1 + u64) ^ mi *
         (sumn n (fun j => (sumn n (fun k => Rabs (Ciff k j)) + 2 * INR L) * Rabs (n0f j)) + 2 * INR L').
  Proof.
    destruct (chk_float_data_finite d B K Hfd) as [Fa Fb].
    pose proof (Rounding64P.pf_yhat_refines _ _ _ _ _ _ _ Hok Fa Fb Hfin) as P. cbv zeta in P.
    destruct P as (V & Ord & HEf & Hks & Hjs).
    rewrite (len_cf d HCf) in Ord, HEf, Hks.
    rewrite V.
    exact (RoundingP.decay_eval_error rnd64 u64 eta64 Rounding64P.rnd64_std_model n Cff Ciff Ef n0f _ _ ii L L'
             HEf Ord Hks Hjs).
  Qed.

  Lemma Sabs_eq : forall j, Sabs n Cff Ciff ii j = sumn n (fun k => Rabs (Cfr d ii k * Cifr d k j)).
  Proof.
    intro j. unfold Sabs. apply sumn_ext. intros k _. rewrite Rabs_mult, Cff_eq, Ciff_eq. reflexivity.
  Qed.

  Lemma q_nonneg : 0 <= q.
  Proof.
    unfold q. pose proof u64_nonneg. unfold Rdiv. apply Rmult_le_pos; [assumption|].
    left. apply Rinv_0_lt_compat. lra.
  Qed.

  Lemma T1_bound :
    gam u64 mi * sumn n (fun j => Sabs n Cff Ciff ii j * Rabs (n0f j)) <= bqv Gb * q * N1.
  Proof.
    set (S1 := sumn n (fun j => Sabs n Cff Ciff ii j * Rabs (n0f j))).
    assert (HS1 : 0 <= S1).
    { apply RoundingP.sumn_nonneg. intros j _. apply Rmult_le_pos; [|apply Rabs_pos].
      rewrite Sabs_eq. apply RoundingP.sumn_nonneg. intros; apply Rabs_pos. }
    pose proof (gam_le_mb u64 mi mb u64_nonneg mi_le Hmb) as Hg. fold q in Hg.
    apply Rle_trans with (INR mi * q * S1); [apply Rmult_le_compat_r; assumption|].
    replace (INR mi * q * S1) with (q * (INR mi * S1)) by ring.
    replace (bqv Gb * q * N1) with (q * (bqv Gb * N1)) by ring.
    apply Rmult_le_compat_l; [apply q_nonneg|].
    unfold S1, N1. rewrite <- !sumn_scal. apply FloatDataP.sumn_le. intros j Hj.
    rewrite (Rabs_right (n0f j)) by (apply Rle_ge, Hn0). rewrite <- Rmult_assoc.
    apply Rmult_le_compat_r; [apply Hn0|].
    rewrite Sabs_eq, mi_ops.
    eapply Rle_trans; [apply (G_round_sound d HCf ii j ii_lt)|exact HG].
  Qed.

  Lemma L_le : (L <= mb)%nat.
  Proof. pose proof mi_le. unfold mi in *. lia. Qed.
  Lemma L'_le : (L' <= mb)%nat.
  Proof. pose proof mi_le. unfold mi in *. lia. Qed.

  Lemma T2_bound :
    eta64 * (1 + u64) ^ mi *
      (sumn n (fun j => (sumn n (fun k => Rabs (Ciff k j)) + 2 * INR L) * Rabs (n0f j)) + 2 * INR L')
    <= eta64 * (1 + u64) ^ mb * ((bqv Hb + 2 * INR mb) * N1 + 2 * INR mb).
  Proof.
    pose proof u64_nonneg as Hu. pose proof eta64_nonneg as Het.
    assert (HL : INR L <= INR mb) by (apply le_INR, L_le).
    assert (HL' : INR L' <= INR mb) by (apply le_INR, L'_le).
    pose proof (pos_INR L) as HL0. pose proof (pos_INR L') as HL'0.
    assert (HS2 : sumn n (fun j => (sumn n (fun k => Rabs (Ciff k j)) + 2 * INR L) * Rabs (n0f j))
                  <= (bqv Hb + 2 * INR mb) * N1).
    { unfold N1. rewrite <- sumn_scal. apply FloatDataP.sumn_le. intros j Hj.
      rewrite (Rabs_right (n0f j)) by (apply Rle_ge, Hn0).
      apply Rmult_le_compat_r; [apply Hn0|].
      assert (Hcs : sumn n (fun k => Rabs (Ciff k j)) <= bqv Hb).
      { rewrite (sumn_ext n _ (fun k => Rabs (Cifr d k j))) by (intros k _; rewrite Ciff_eq; reflexivity).
        eapply Rle_trans; [apply (H_col_sound d HCif NDcif j)|exact HH]. }
      lra. }
    assert (HS2' : 0 <= sumn n (fun j => (sumn n (fun k => Rabs (Ciff k j)) + 2 * INR L) * Rabs (n0f j))).
    { apply RoundingP.sumn_nonneg. intros j _. apply Rmult_le_pos; [|apply Rabs_pos].
      apply Rplus_le_le_0_compat; [|lra]. apply RoundingP.sumn_nonneg. intros; apply Rabs_pos. }
    apply Rmult_le_compat.
    - apply Rmult_le_pos; [exact Het|]. apply pow_le. lra.
    - lra.
    - apply Rmult_le_compat_l; [exact Het|]. apply RoundingP.pow1u_mono; [exact Hu|apply mi_le].
    - lra.
  Qed.

  (* ---------- the stored exponentials *)
  Let ak := fun k : nat => sumn n (fun j => Rabs (Cifr d k j * n0f j)).
  Let Ef' := fun k : nat => if Req_EM_T (ak k) 0 then exp (- lamf k * t) else Ef k.
  Let Y1 := sumn n (fun k => Cfr d ii k * (Ef' k * wf k)).
  Let Y2 := sumn n (fun k => Cfr d ii k * (exp (- lamf k * t) * wf k)).

  Lemma Yexact_eq : Yexact n Cff Ciff Ef n0f ii = Y1.
  Proof.
    rewrite Yexact_swap. unfold Y1. apply sumn_ext. intros k Hk. rewrite Cff_eq.
    rewrite (sumn_ext n (fun j => Ciff k j * n0f j) (fun j => Cifr d k j * n0f j))
      by (intros j _; rewrite Ciff_eq; reflexivity).
    fold (wf k). unfold Ef'. destruct (Req_EM_T (ak k) 0) as [E|E]; [|reflexivity].
    assert (Hw : wf k = 0).
    { unfold wf. apply sumn_zero. intros j Hj. apply (sumn_abs_zero n _ E j Hj). }
    rewrite Hw. ring.
  Qed.

  Lemma Ef'_close : forall k, (k < n)%nat -> Rabs (Ef' k - exp (- lamf k * t)) <= ue.
  Proof.
    intros k Hk. unfold Ef'. destruct (Req_EM_T (ak k) 0) as [E|E].
    - replace (exp (- lamf k * t) - exp (- lamf k * t)) with 0 by ring. rewrite Rabs_R0. exact Hue.
    - apply (HE k Hk). apply (sumn_abs_nonzero n _ E).
  Qed.

  Lemma Y12 : Rabs (Y1 - Y2) <= bqv K * ue * N1.
  Proof.
    unfold Y1, Y2. rewrite <- FloatDataP.sumn_minus.
    rewrite (sumn_ext _ _ (fun k => (Ef' k - exp (- lamf k * t)) * sumn n (fun j => (Cfr d ii k * Cifr d k j) * n0f j))).
    2:{ intros k Hk.
        rewrite (sumn_ext _ (fun j => (Cfr d ii k * Cifr d k j) * n0f j)
                   (fun j => Cfr d ii k * (Cifr d k j * n0f j))) by (intros; ring).
        rewrite sumn_scal. fold (wf k). ring. }
    apply FloatDataP.diag_bound.
    - intros j Hj. eapply Rle_trans; [|exact HK]. apply (FloatDataP.K_cond_sound d HCf ii j ii_lt).
    - exact Ef'_close.
    - exact Hn0.
  Qed.

  (* ---------- the stored decay constants *)
  Lemma lam_nonneg : forall k, (k < n)%nat -> 0 <= lam (mur d) k.
  Proof.
    intros k Hk. unfold lam. apply Rmult_le_pos; [left; apply DecayEnclosure.ln2_pos|].
    apply (c_mu_nonneg _ _ _ _ _ _ _ (DatasetCert.wf_core_cert d Hwf) k Hk).
  Qed.

  Let delta := fun k : nat =>
    if lt_dec k n then (if Req_EM_T (lam (mur d) k) 0 then 0 else lamf k / lam (mur d) k - 1) else 0.

  Lemma delta_small : forall k, Rabs (delta k) <= c.
  Proof.
    intro k. unfold delta. destruct (lt_dec k n) as [Hk|Hk]; [|rewrite Rabs_R0; lra].
    destruct (Req_EM_T (lam (mur d) k) 0) as [E|E]; [rewrite Rabs_R0; lra|].
    pose proof (lam_nonneg k Hk) as H0. pose proof (Hlam k Hk) as H1.
    assert (Hp : 0 < lam (mur d) k) by lra.
    replace (lamf k / lam (mur d) k - 1) with ((lamf k - lam (mur d) k) * / lam (mur d) k) by (field; lra).
    rewrite Rabs_mult, (Rabs_right (/ lam (mur d) k)) by (left; apply Rinv_0_lt_compat; exact Hp).
    apply Rmult_le_reg_r with (lam (mur d) k); [exact Hp|].
    rewrite Rmult_assoc, Rinv_l by lra. lra.
  Qed.

  Lemma lamf_delta : forall k, (k < n)%nat -> lamf k = lam (mur d) k * (1 + delta k).
  Proof.
    intros k Hk. unfold delta. destruct (lt_dec k n) as [_|Hn]; [|contradiction].
    destruct (Req_EM_T (lam (mur d) k) 0) as [E|E].
    - pose proof (Hlam k Hk) as H1. rewrite E in *. rewrite Rmult_0_r, Rminus_0_r in H1.
      pose proof (Rabs_pos (lamf k)) as H2.
      assert (H3 : Rabs (lamf k) = 0) by lra.
      destruct (Req_dec (lamf k) 0) as [Z|Z]; [rewrite Z; ring|]. apply Rabs_pos_lt in Z. lra.
    - field. exact E.
  Qed.

  Lemma Y2N : Rabs (Y2 - Nt n (Cr d) (Cir d) (mur d) n0f t ii)
              <= (bqv B + bqv K * (c / (exp 1 * (1 - c)))) * N1.
  Proof.
    pose proof (FloatDataP.float_data_error d B K c Hwf Hfd Hc delta n0f t ii Ht delta_small Hn0 ii_lt) as H.
    fold n in H. fold N1 in H.
    replace Y2 with (sumn n (fun k => Cfr d ii k *
               (exp (- (lam (mur d) k * (1 + delta k)) * t) * sumn n (fun j => Cifr d k j * n0f j)))); [exact H|].
    unfold Y2. apply sumn_ext. intros k Hk. rewrite <- (lamf_delta k Hk). reflexivity.
  Qed.

  Theorem float_decay_error_sec :
    Rabs (fval (pf_yhat (ds_cf d) (ds_cif d) e n0 i ce mo) - Nt (nn d) (Cr d) (Cir d) (mur d) n0f t (N.to_nat i))
    <= (bqv Gb * (u64 / (1 - INR mb * u64)) + bqv K * ue + bqv B + bqv K * (c / (exp 1 * (1 - c)))) * sumn (nn d) n0f
       + eta64 * (1 + u64) ^ mb * ((bqv Hb + 2 * INR mb) * sumn (nn d) n0f + 2 * INR mb).
  Proof.
    fold n. fold ii. fold N1. fold q.
    pose proof round_part as R0. rewrite Yexact_eq in R0.
    pose proof T1_bound as R1. pose proof T2_bound as R2. pose proof Y12 as R3. pose proof Y2N as R4.
    set (y := fval (pf_yhat (ds_cf d) (ds_cif d) e n0 i ce mo)) in *.
    set (Nx := Nt n (Cr d) (Cir d) (mur d) n0f t ii) in *.
    replace (y - Nx) with ((y - Y1) + (Y1 - Y2) + (Y2 - Nx)) by ring.
    eapply Rle_trans; [apply Rabs_triang|].
    eapply Rle_trans; [apply Rplus_le_compat_r; apply Rabs_triang|].
    lra.
  Qed.
End Main.

Theorem float_decay_error : forall d B K Gb Hb mb c ue,
  wf_core d = true -> chk_float_data d B K = true -> chk_round d Gb Hb mb = true ->
  0 <= c < 1 -> 0 <= ue -> INR mb * u64 < 1 ->
  forall (e n0 : frow) (i : N) (ce mo : list N) (t : R) (lamf : nat -> R),
  orders_okb (ds_cf d) (ds_cif d) e n0 i ce mo = true ->
  ffin (pf_yhat (ds_cf d) (ds_cif d) e n0 i ce mo) = true ->
  0 <= t ->
  let n0f := fun j : nat => fval (fget n0 (N.of_nat j)) in
  let Ef := fun k : nat => fval (fget e (N.of_nat k)) in
  (forall j, 0 <= n0f j) ->
  (forall k, (k < nn d)%nat -> Rabs (lamf k - lam (mur d) k) <= c * lam (mur d) k) ->
  (forall k, (k < nn d)%nat -> (exists j, (j < nn d)%nat /\ Cifr d k j * n0f j <> 0) ->
             Rabs (Ef k - exp (- lamf k * t)) <= ue) ->
  Rabs (fval (pf_yhat (ds_cf d) (ds_cif d) e n0 i ce mo) - Nt (nn d) (Cr d) (Cir d) (mur d) n0f t (N.to_nat i))
  <= (bqv Gb * (u64 / (1 - INR mb * u64)) + bqv K * ue + bqv B + bqv K * (c / (exp 1 * (1 - c)))) * sumn (nn d) n0f
     + eta64 * (1 + u64) ^ mb * ((bqv Hb + 2 * INR mb) * sumn (nn d) n0f + 2 * INR mb).
Proof.
  intros d B K Gb Hb mb c ue Hwf Hfd Hrd Hc Hue Hmb e n0 i ce mo t lamf Hok Hfin Ht n0f Ef Hn0 Hlam HE.
  exact (float_decay_error_sec d B K Gb Hb mb c ue Hwf Hfd Hrd Hc Hue Hmb e n0 i ce mo t lamf Hok Hfin Ht Hn0 Hlam HE).
Qed.

(* ---------- the shipped data set *)
Lemma bqv_qlit1 : forall z, bqv (bq_of (QL z 1)) = IZR z.
Proof. intro z. rewrite bqv_of. cbn [qn qd]. unfold Q2R. cbn [Qnum Qden]. field. Qed.

Lemma bqv_c_bound : bqv (bq_of CertDefault.FloatDataCert.c_bound) = 1 / 10 ^ 15.
Proof.
  rewrite bqv_of. unfold CertDefault.FloatDataCert.c_bound. cbn [qn qd]. unfold Q2R. cbn [Qnum Qden]. lra.
Qed.

Lemma u64_val : u64 = / 9007199254740992.
Proof. unfold u64. simpl. lra. Qed.
Lemma bpow_m50 : bpow radix2 (-50) = / 1125899906842624.
Proof. simpl. lra. Qed.
Lemma bpow_m64 : bpow radix2 (-64) = / 18446744073709551616.
Proof. simpl. lra. Qed.
Lemma INR_m_bound : INR CertDefault.RoundCert.m_bound = 131.
Proof. unfold CertDefault.RoundCert.m_bound. rewrite INR_IZR_INZ. reflexivity. Qed.

Lemma pow131_le2 : (1 + u64) ^ 131 <= 2.
Proof.
  assert (H : INR 131 * u64 < 1) by (rewrite INR_IZR_INZ, u64_val; simpl Z.of_nat; lra).
  eapply Rle_trans; [apply (pow1u_le_inv u64 131 u64_nonneg H)|].
  rewrite INR_IZR_INZ, u64_val. simpl Z.of_nat.
  rewrite <- (Rinv_inv 2). apply Rinv_le_contravar; lra.
Qed.

(* eta64 (1+u64)^131 <= 2^-1074 *)
Lemma etaP_le : eta64 * (1 + u64) ^ 131 <= bpow radix2 (-1074).
Proof.
  unfold eta64. pose proof pow131_le2 as H. pose proof (bpow_ge_0 radix2 (-1074)) as H0.
  assert (H1 : 0 <= (1 + u64) ^ 131) by (apply pow_le; pose proof u64_nonneg; lra).
  nra.
Qed.

Lemma etaP_nonneg : 0 <= eta64 * (1 + u64) ^ 131.
Proof. apply Rmult_le_pos; [apply eta64_nonneg|]. apply pow_le. pose proof u64_nonneg; lra. Qed.

Lemma under_const : eta64 * (1 + u64) ^ 131 * (2 * 131) <= bpow radix2 (-1060).
Proof.
  pose proof etaP_le as H. pose proof etaP_nonneg as H0.
  apply Rle_trans with (bpow radix2 (-1074) * bpow radix2 9).
  - assert (E : bpow radix2 9 = 512) by (simpl; lra). rewrite E.
    pose proof (bpow_ge_0 radix2 (-1074)). nra.
  - rewrite <- bpow_plus. apply bpow_le. lia.
Qed.

Lemma under_coef : eta64 * (1 + u64) ^ 131 * (402222 + 2 * 131) <= 1 / 10 ^ 13.
Proof.
  pose proof etaP_le as H. pose proof etaP_nonneg as H0.
  assert (H1 : bpow radix2 (-1074) <= bpow radix2 (-64)) by (apply bpow_le; lia).
  rewrite bpow_m64 in H1.
  apply Rle_trans with (/ 18446744073709551616 * (402222 + 2 * 131)); [|lra].
  apply Rmult_le_compat_r; lra.
Qed.

Lemma q131_le : u64 / (1 - 131 * u64) <= 112 / 10 ^ 18.
Proof.
  rewrite u64_val.
  apply Rmult_le_reg_r with (1 - 131 * / 9007199254740992); [lra|].
  unfold Rdiv at 1. rewrite Rmult_assoc, Rinv_l by lra. lra.
Qed.

Theorem default_float_decay_error :
  forall (e n0 : frow) (i : N) (ce mo : list N) (t : R),
  orders_okb (ds_cf Default) (ds_cif Default) e n0 i ce mo = true ->
  ffin (pf_yhat (ds_cf Default) (ds_cif Default) e n0 i ce mo) = true ->
  0 <= t ->
  let n0f := fun j : nat => fval (fget n0 (N.of_nat j)) in
  let Ef := fun k : nat => fval (fget e (N.of_nat k)) in
  let lamf := fun k : nat => fval (nth k Proofs.CertDefault.FloatDataCert.default_lam_val 0%float) in
  (forall j, 0 <= n0f j) ->
  (forall k, (k < nn Default)%nat -> (exists j, (j < nn Default)%nat /\ Cifr Default k j * n0f j <> 0) ->
             Rabs (Ef k - exp (- lamf k * t)) <= bpow radix2 (-50)) ->
  Rabs (fval (pf_yhat (ds_cf Default) (ds_cif Default) e n0 i ce mo)
        - Nt (nn Default) (Cr Default) (Cir Default) (mur Default) n0f t (N.to_nat i))
  <= 1 / 10 ^ 11 * sumn (nn Default) n0f + bpow radix2 (-1060).
Proof.
  intros e n0 i ce mo t Hok Hfin Ht n0f Ef lamf Hn0 HE.
  assert (Hc : 0 <= 1 / 10 ^ 15 < 1) by lra.
  assert (Hue : 0 <= bpow radix2 (-50)) by apply bpow_ge_0.
  assert (Hmb : INR CertDefault.RoundCert.m_bound * u64 < 1) by (rewrite INR_m_bound, u64_val; lra).
  assert (Hlam : forall k, (k < nn Default)%nat ->
            Rabs (lamf k - lam (mur Default) k) <= 1 / 10 ^ 15 * lam (mur Default) k).
  { intros k Hk. rewrite <- bqv_c_bound. unfold lamf.
    apply (FloatDecayLam.lambda_close_sound Default _ _ CertDefault.FloatDataCert.default_lambda_close).
    rewrite (wf_core_lengths Default DefaultWf.default_wf_core). exact Hk. }
  pose proof (float_decay_error Default (bq_of CertDefault.FloatDataCert.B_bound) (bq_of CertDefault.FloatDataCert.K_bound)
                (bq_of CertDefault.RoundCert.G_bound) (bq_of CertDefault.RoundCert.H_bound) CertDefault.RoundCert.m_bound
                (1 / 10 ^ 15) (bpow radix2 (-50))
                DefaultWf.default_wf_core CertDefault.FloatDataCert.default_float_matrices CertDefault.RoundCert.default_round
                Hc Hue Hmb e n0 i ce mo t lamf Hok Hfin Ht Hn0 Hlam HE) as H.
  eapply Rle_trans; [exact H|]. clear H.
  assert (HX : 0 <= sumn (nn Default) n0f) by (apply RoundingP.sumn_nonneg; intros; apply Hn0).
  set (X := sumn (nn Default) n0f) in *.
  pose proof FloatDataP.default_data_error_below_5e12 as HD.
  set (cc := 1 / 10 ^ 15 / (exp 1 * (1 - 1 / 10 ^ 15))) in *.
  set (KB := bqv (bq_of CertDefault.FloatDataCert.B_bound) + bqv (bq_of CertDefault.FloatDataCert.K_bound) * cc) in *.
  assert (EK : bqv (bq_of CertDefault.FloatDataCert.K_bound) = 533) by apply (bqv_qlit1 533).
  assert (EG : bqv (bq_of CertDefault.RoundCert.G_bound) = 19354) by apply (bqv_qlit1 19354).
  assert (EH : bqv (bq_of CertDefault.RoundCert.H_bound) = 402222) by apply (bqv_qlit1 402222).
  rewrite INR_m_bound. unfold CertDefault.RoundCert.m_bound.
  set (P := eta64 * (1 + u64) ^ 131).
  pose proof under_const as U1. pose proof under_coef as U2. fold P in U1, U2.
  pose proof q131_le as Q1. set (qq := u64 / (1 - 131 * u64)) in *.
  rewrite EG, EH.
  change (sumn (nn Default) (fun j : nat => fval (fget n0 (N.of_nat j)))) with X.
  replace ((19354 * qq + bqv (bq_of CertDefault.FloatDataCert.K_bound) * bpow radix2 (-50)
            + bqv (bq_of CertDefault.FloatDataCert.B_bound) + bqv (bq_of CertDefault.FloatDataCert.K_bound) * cc) * X
           + P * ((402222 + 2 * 131) * X + 2 * 131))
    with ((19354 * qq + bqv (bq_of CertDefault.FloatDataCert.K_bound) * bpow radix2 (-50) + KB
           + P * (402222 + 2 * 131)) * X + P * (2 * 131)) by (unfold KB; ring).
  rewrite EK, bpow_m50.
  apply Rplus_le_compat; [|exact U1].
  apply Rmult_le_compat_r; [exact HX|]. lra.
Qed.

Print Assumptions lambda_close_sound.
Print Assumptions float_decay_error.
Print Assumptions default_float_decay_error.
