(* C08 - Inventory arithmetic is exact multiset arithmetic on atoms.
   Statements about the state-machine model (Model/Inventory.v), for every number domain. *)
From Coq Require Import ZArith NArith List Bool.
From RD Require Import Base Lib.Py Lib.Num Gen.UtilsGen Model.Inventory.
From RD Require Proofs.InventoryP.
Import ListNotations.

Section AnyDomain.
  Context {T : Type} (ops : numops T).
  Context (activity_units mass_units moles_units : list (str * T)).
  Context (avogadro : T) (names : list str) (decay_consts atomic_masses : list T).
  Variables (amount_ok : T -> bool) (normalise nneg : T -> T).

  Notation construct := (construct ops activity_units mass_units moles_units avogadro names decay_consts atomic_masses amount_ok normalise).
  Notation step := (step ops activity_units mass_units moles_units avogadro names decay_consts atomic_masses amount_ok normalise nneg).
  Notation run := (run ops activity_units mass_units moles_units avogadro names decay_consts atomic_masses amount_ok normalise nneg).
  Notation m_remove := (m_remove names).
  Notation m_remove_list := (m_remove_list names).

  (* sorting keeps every entry and orders the keys strictly (inputs with distinct keys) *)
  Theorem sort_spec : forall (d : @dict T), NoDup (map fst d) ->
    keys_sorted (d_sort d) = true /\ forall k, d_get (d_sort d) k = d_get d k.
  Proof. exact (@Proofs.InventoryP.sort_spec T). Qed.

  (* + and - are the nuclide-wise sum / difference; nothing else changes; result alphabetical *)
  Theorem op_add_spec : forall a b, keys_sorted a = true -> keys_sorted b = true ->
    keys_sorted (op_add ops a b) = true /\
    forall k, d_get (op_add ops a b) k =
      match d_get a k, d_get b k with
      | Some x, Some y => Some (nadd ops x y)
      | Some x, None => Some x
      | None, Some y => Some y
      | None, None => None
      end.
  Proof. exact (Proofs.InventoryP.op_add_spec ops). Qed.

  Theorem op_sub_spec : forall a b, keys_sorted a = true -> keys_sorted b = true ->
    keys_sorted (op_sub ops nneg a b) = true /\
    forall k, d_get (op_sub ops nneg a b) k =
      match d_get a k, d_get b k with
      | Some x, Some y => Some (nadd ops x (nneg y))
      | Some x, None => Some x
      | None, Some y => Some (nneg y)
      | None, None => None
      end.
  Proof. exact (Proofs.InventoryP.op_sub_spec ops nneg). Qed.

  Theorem op_mul_spec : forall a c, keys_sorted a = true ->
    keys_sorted (op_mul ops a c) = true /\
    forall k, d_get (op_mul ops a c) k = option_map (fun x => nmul ops x c) (d_get a k).
  Proof. exact (Proofs.InventoryP.op_mul_spec ops). Qed.

  Theorem op_div_spec : forall a c, keys_sorted a = true ->
    keys_sorted (op_div ops a c) = true /\
    forall k, d_get (op_div ops a c) k = option_map (fun x => ndiv ops x c) (d_get a k).
  Proof. exact (Proofs.InventoryP.op_div_spec ops). Qed.

  (* remove: restriction to the other nuclides; an absent nuclide and a non-nuclide key are refused *)
  Theorem remove_spec : forall (a : @dict T) k, keys_sorted a = true ->
    match m_remove a k with
    | OK a' => exists key, parse_nuclide k names [] = OK key /\ d_mem a key = true /\ keys_sorted a' = true /\
                 forall k', d_get a' k' = if s_eqb key k' then None else d_get a k'
    | Raise NotImplementedError => k = VOther
    | Raise e => k <> VOther /\ (parse_nuclide k names [] = Raise e \/
                                 exists key, parse_nuclide k names [] = OK key /\ d_mem a key = false /\ e = ValueError)
    end.
  Proof. exact (Proofs.InventoryP.remove_spec names). Qed.

  (* the constructor keeps one entry per supplied key; two spellings of one nuclide are refused,
     never silently merged *)
  Theorem construct_keeps_every_key : forall (raw : list (pyval * T)) acc d,
    parse_keys names raw acc = OK d -> NoDup (map fst acc) ->
    NoDup (map fst d) /\ length d = (length acc + length raw)%nat /\
    forall k v, In (k, v) raw -> exists key, parse_nuclide k names [] = OK key /\ d_get d key <> None.
  Proof. exact (Proofs.InventoryP.construct_keeps_every_key names). Qed.

  Theorem construct_duplicate_refused : forall k1 k2 (v1 v2 : T) key rest units,
    parse_nuclide k1 names [] = OK key -> parse_nuclide k2 names [] = OK key ->
    construct ((k1, v1) :: (k2, v2) :: rest) units = Raise ValueError.
  Proof. exact (Proofs.InventoryP.construct_duplicate_refused ops activity_units mass_units moles_units avogadro names decay_consts atomic_masses amount_ok normalise). Qed.

  (* a mutating call that raises leaves the inventory exactly as it was *)
  Theorem step_atomic : forall a o a' e, step a o = (a', Some e) -> a' = a.
  Proof. exact (Proofs.InventoryP.step_atomic ops activity_units mass_units moles_units avogadro names decay_consts atomic_masses amount_ok normalise nneg). Qed.

  (* alphabetical order is an invariant of every reachable state, for operation sequences of any length *)
  Theorem construct_sorted : forall raw units c, construct raw units = OK c -> keys_sorted c = true.
  Proof. exact (Proofs.InventoryP.construct_sorted ops activity_units mass_units moles_units avogadro names decay_consts atomic_masses amount_ok normalise). Qed.

  Definition operand_ok (o : @op T) : Prop :=
    match o with OPlus b | OMinus b => keys_sorted b = true | _ => True end.
  Theorem histories_sorted : forall os a, keys_sorted a = true -> Forall operand_ok os ->
    keys_sorted (run a os) = true.
  Proof. exact (Proofs.InventoryP.histories_sorted ops activity_units mass_units moles_units avogadro names decay_consts atomic_masses amount_ok normalise nneg). Qed.
End AnyDomain.
