(* Corollaries of the forward-error theorem for C07: a zero-time decay changes no amount beyond the error bound. *)
From Coq Require Import Reals ZArith NArith List Bool Arith Lra Lia.
From Coq Require Import PrimFloat.
From Flocq Require Import Core.Core.
From RD Require Import Base Lib.CertQ Model.DecayR Model.Dataset Model.Default Model.Rounding64
  Model.FloatDecay Model.FloatData Model.Ancestors.
From RD Require Proofs.CertDefault.FloatDataCert Proofs.FloatDecayAnc Proofs.Bateman Proofs.DefaultWf.
Import ListNotations.
Local Open Scope R_scope.

Lemma default_zero_time_decay :
  forall (e n0 : frow) (i : N) (ce mo : list N),
  orders_okb (ds_cf Default) (ds_cif Default) e n0 i ce mo = true ->
  ffin (pf_yhat (ds_cf Default) (ds_cif Default) e n0 i ce mo) = true ->
  let n0f := fun j : nat => fval (fget n0 (N.of_nat j)) in
  let Ef := fun k : nat => fval (fget e (N.of_nat k)) in
  (forall j, 0 <= n0f j) ->
  (N.to_nat i < nn Default)%nat ->
  (forall k, (k < nn Default)%nat -> (exists j, (j < nn Default)%nat /\ Cifr Default k j * n0f j <> 0) ->
             Rabs (Ef k - 1) <= bpow radix2 (-50)) ->
  Rabs (fval (pf_yhat (ds_cf Default) (ds_cif Default) e n0 i ce mo) - n0f (N.to_nat i))
  <= 1 / 10 ^ 11 * anc_atoms Default n0f (N.to_nat i) + bpow radix2 (-1060).
Proof.
  intros e n0 i ce mo Hok Hfin n0f Ef Hpos Hi Hacc.
  rewrite <- (Proofs.Bateman.closed_form_initial _ _ _ _ _ _ _ Proofs.DefaultWf.default_cert n0f (N.to_nat i) Hi).
  apply (Proofs.FloatDecayAnc.default_float_decay_error_ancestors e n0 i ce mo 0 Hok Hfin (Rle_refl 0) Hpos).
  intros k Hk Hrel. rewrite Rmult_0_r, exp_0. exact (Hacc k Hk Hrel).
Qed.
Print Assumptions default_zero_time_decay.

(* ---------- the exact flow of nuclide i depends only on the amounts of its ancestors (any data set with the pattern certificates) *)
From RD Require Proofs.DecayModelP.
Lemma sumn_ext' : forall n f g, (forall k, (k < n)%nat -> f k = g k) -> sumn n f = sumn n g.
Proof.
  induction n as [|n IH]; intros f g H; cbn [sumn]; [reflexivity|].
  rewrite (IH f g); [rewrite (H n); [reflexivity|lia]|intros k Hk; apply H; lia].
Qed.

Lemma exact_flow_depends_only_on_ancestors : forall d,
  chk_same_patterns d = true -> chk_pattern_transitive d = true ->
  forall (n0 n0' : nat -> R) t i,
  (forall j, is_ancestor d i j = true -> n0 j = n0' j) ->
  Nt (nn d) (Cr d) (Cir d) (mur d) n0 t i = Nt (nn d) (Cr d) (Cir d) (mur d) n0' t i.
Proof.
  intros d Hsp Htr n0 n0' t i Hag. unfold Nt. apply sumn_ext'. intros k _.
  destruct (existsb (N.eqb (N.of_nat k)) (row_cols_q (nth i (ds_c d) []))) eqn:Ak.
  - f_equal. f_equal. unfold w. apply sumn_ext'. intros j _.
    destruct (is_ancestor d i j) eqn:Aj; [rewrite (Hag j Aj); reflexivity|].
    rewrite (Proofs.DecayModelP.Cir_pattern_zero d k j); [ring|].
    rewrite <- (Proofs.DecayModelP.same_patterns_row d Hsp k).
    destruct (existsb (N.eqb (N.of_nat j)) (row_cols_q (nth k (ds_c d) []))) eqn:Ekj; [|reflexivity].
    exfalso.
    pose proof (Proofs.DecayModelP.pattern_transitive d Htr i k j) as T. unfold Proofs.DecayModelP.pat in T.
    specialize (T Ak Ekj). unfold is_ancestor in Aj. congruence.
  - rewrite (Proofs.DecayModelP.Cr_pattern_zero d i k Ak). ring.
Qed.
Print Assumptions exact_flow_depends_only_on_ancestors.

(* ---------- hence in double precision an amount does not depend (beyond twice the error bound) on which unrelated
   nuclides share the inventory, nor on the accumulation orders / stored exponentials of the two evaluations *)
From RD Require Proofs.CertDefault.Patterns.
Lemma default_unrelated_nuclides :
  forall (e n0 e' n0' : frow) (i : N) (ce mo ce' mo' : list N) (t : R),
  orders_okb (ds_cf Default) (ds_cif Default) e n0 i ce mo = true ->
  orders_okb (ds_cf Default) (ds_cif Default) e' n0' i ce' mo' = true ->
  ffin (pf_yhat (ds_cf Default) (ds_cif Default) e n0 i ce mo) = true ->
  ffin (pf_yhat (ds_cf Default) (ds_cif Default) e' n0' i ce' mo') = true ->
  0 <= t ->
  let n0f := fun j : nat => fval (fget n0 (N.of_nat j)) in
  let n0f' := fun j : nat => fval (fget n0' (N.of_nat j)) in
  let lamf := fun k : nat => fval (nth k Proofs.CertDefault.FloatDataCert.default_lam_val 0%float) in
  (forall j, 0 <= n0f j) -> (forall j, 0 <= n0f' j) ->
  (forall j, is_ancestor Default (N.to_nat i) j = true -> n0f j = n0f' j) ->
  (forall k, (k < nn Default)%nat -> (exists j, (j < nn Default)%nat /\ Cifr Default k j * n0f j <> 0) ->
             Rabs (fval (fget e (N.of_nat k)) - exp (- lamf k * t)) <= bpow radix2 (-50)) ->
  (forall k, (k < nn Default)%nat -> (exists j, (j < nn Default)%nat /\ Cifr Default k j * n0f' j <> 0) ->
             Rabs (fval (fget e' (N.of_nat k)) - exp (- lamf k * t)) <= bpow radix2 (-50)) ->
  Rabs (fval (pf_yhat (ds_cf Default) (ds_cif Default) e n0 i ce mo)
        - fval (pf_yhat (ds_cf Default) (ds_cif Default) e' n0' i ce' mo'))
  <= 2 / 10 ^ 11 * anc_atoms Default n0f (N.to_nat i) + 2 * bpow radix2 (-1060).
Proof.
  intros e n0 e' n0' i ce mo ce' mo' t Hok Hok' Hfin Hfin' Ht n0f n0f' lamf Hpos Hpos' Hag Hacc Hacc'.
  pose proof (Proofs.FloatDecayAnc.default_float_decay_error_ancestors e n0 i ce mo t Hok Hfin Ht Hpos Hacc) as A.
  pose proof (Proofs.FloatDecayAnc.default_float_decay_error_ancestors e' n0' i ce' mo' t Hok' Hfin' Ht Hpos' Hacc') as B.
  cbv zeta in A, B. fold n0f in A. fold n0f' in B.
  destruct Proofs.CertDefault.Patterns.default_patterns as [Hsp [_ [_ Htr]]].
  rewrite <- (exact_flow_depends_only_on_ancestors Default Hsp Htr n0f n0f' t (N.to_nat i) Hag) in B.
  assert (Hs : anc_atoms Default n0f' (N.to_nat i) = anc_atoms Default n0f (N.to_nat i)).
  { unfold anc_atoms. apply sumn_ext'. intros j _.
    destruct (is_ancestor Default (N.to_nat i) j) eqn:Aj; [symmetry; apply Hag; exact Aj|reflexivity]. }
  rewrite Hs in B.
  set (x := fval (pf_yhat (ds_cf Default) (ds_cif Default) e n0 i ce mo)) in *.
  set (y := fval (pf_yhat (ds_cf Default) (ds_cif Default) e' n0' i ce' mo')) in *.
  set (z := Nt (nn Default) (Cr Default) (Cir Default) (mur Default) n0f t (N.to_nat i)) in *.
  replace (x - y) with ((x - z) - (y - z)) by ring.
  eapply Rle_trans; [apply Rabs_triang|]. rewrite Rabs_Ropp. lra.
Qed.
Print Assumptions default_unrelated_nuclides.
