"""C17 - equality and hashing are consistent with content."""
import random
import common as C
import corr_units as U
import corr_nuclide as N

PID = "C17"
PROPS_MODULE = "Props.C17"
THEOREMS = ["inv_eq_refl", "inv_eq_sym", "inv_eq_trans", "inv_ne_negation", "inv_eq_iff_same_map", "difference_detected",
            "nuclide_eq_hash", "unrelated_false"]
REQUIRED = ["Props/C17.v"]
TRANSLATORS = ["tr_pure"]
SHAPE_KEYS = ["AbstractInventory::__eq__", "AbstractInventory::__ne__", "Nuclide::__eq__", "Nuclide::__ne__", "Nuclide::__hash__",
              "DecayData::__eq__", "DecayData::__ne__", "DecayMatrices::__ne__", "DecayMatricesScipy::__eq__",
              "DecayMatricesSympy::__eq__", "_csr_matrix_equal"]
PARTIAL = ["__eq__/__ne__/__hash__ are hand-modelled (Model/Equality.v): tie = recorded source text + pairwise/triple correspondence",
           "value equality across numeric types is Python's/NumPy's/SymPy's ==; the theorems assume it is an equivalence on the value domain "
           "(true for all-binary64-without-NaN and for all-exact values; false for mixed float/SymPy values: known finding F9)"]
TRUSTED_BASE = ["Coq 8.16.1 kernel", "axioms: none", "tr_shapes.py source-text ties of the eq/ne/hash methods",
                "harness tools/impl_equality.py"]
ASSUMPTIONS = ["np.array_equal / dict == / SymPy == as documented"]


def spellings_of(rng, name):
    el, rest = name.split("-")
    a = "".join(c for c in rest if c.isdigit())
    st = rest[len(a):]
    forms = N.spell_forms(el, int(a), st)
    return [name] + rng.sample(forms, 2) + [N.expected_id(el, int(a), st)]


def correspondence(ctx):
    rng = random.Random(ctx["seed"] + 17)
    thorough = ctx["tier"] == "thorough"
    names, stable = U.dataset_names()
    pick = rng.sample(names, 10 if thorough else 5)
    spell = {n: spellings_of(rng, n) for n in pick}
    invs = []
    for _ in range(14 if thorough else 6):
        ks = rng.sample(pick, rng.randint(1, 3))
        invs.append({"contents": {k: rng.choice([1.0, 2.0, 2.5, 1e6, 3.0]) for k in ks}})
    invs.append({"contents": dict(invs[0]["contents"])})                      # same specification twice
    k0 = next(iter(invs[0]["contents"]))
    invs.append({"contents": dict(invs[0]["contents"], **{k0: invs[0]["contents"][k0] + 1})})   # one amount differs
    extra = [n for n in pick if n not in invs[0]["contents"]][:1]
    if extra:
        invs.append({"contents": dict(invs[0]["contents"], **{extra[0]: 4.0})})  # sorted-prefix relation: one more nuclide
    res = U.run_impl("impl_equality.py", {"seed": ctx["seed"], "names": pick, "spellings": spell, "inventories": invs,
                                          "triples": 60000 if thorough else 6000}, timeout=6000)
    streams, viol, samples = {}, [], []
    seen = {}
    for v in res["violations"]:
        k = v["what"]
        seen.setdefault(k, []).append(v)
    for k, vs in seen.items():
        v = vs[0]
        key = "eq:" + k
        viol.append({"name": f"eq-{len(viol)}", "found_input": True, "key": key,
                     "payload": {"fails": k, "objects": v, "occurrences": len(vs), "entry": "==, !=, hash()"}})
    streams["equality"] = {"cases": res["counts"]["pairs"] + res["counts"]["triples"], "pairs": res["counts"]["pairs"],
                           "triples": res["counts"]["triples"], "objects": res["objects"], "impl_property_failures": len(res["violations"]),
                           "what": "nuclides (spellings, ids, 3 data sets), inventories (both classes, int/float/NumPy/Rational amounts, spellings, 3 data sets), "
                                   "data sets (default, fresh load, renamed copy, no-SymPy load, two altered copies): reflexive, symmetric, != is the negation, "
                                   "expected (in)equality from the specification, hash consistency, unrelated types, transitivity over sampled triples, "
                                   "again after calculations on the objects"}
    samples.append({"nuclide_spellings": spell[pick[0]], "inventory_spec": invs[0]})
    return {"streams": streams, "violations": viol, "samples": samples}


def search_broken(ctx):
    return []


def replay(payload):
    return {"fails": True, "note": "the objects' specifications are in the payload; re-run ./check C17 with the same VERIF_SEED"}
