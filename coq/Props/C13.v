(* C13 - Time series and plotted curves are pointwise decay results: the unit dispatch.
   The three if/elif chains of decay_time_series_pandas, plot and to_csv are GENERATED from the source
   (Gen/DispatchGen.v); for EVERY unit string they select the read-out the specification names
   (and raise ValueError otherwise), so the three differently ordered chains agree. *)
From Coq Require Import ZArith NArith List Bool String.
From RD Require Import Base Lib.Py Gen.Tables Gen.DispatchGen Model.Series.
From RD Require Proofs.SeriesP.
Import ListNotations.
Notation s2l_ x := (s2l x%string) (only parsing).
(* the generated plot chain carries (condition, read-out code, (label, with-unit)); re-associate for [select] *)
Definition plot_entries : list (dcond * (N * (str * bool))) :=
  map (fun e => (fst (fst e), (snd (fst e), snd e))) chain_plot.

Theorem series_dispatch_correct : forall u, select chain_series u = spec_select u.
Proof. exact Proofs.SeriesP.series_dispatch_correct. Qed.

Theorem plot_dispatch_correct : forall u, option_map fst (select plot_entries u) = spec_select u.
Proof. exact Proofs.SeriesP.plot_dispatch_correct. Qed.

(* to_csv knows the unit kinds and "num" (no fractions) *)
Theorem csv_dispatch_correct : forall u,
  select chain_csv u = match spec_select u with Some c => if N.leb c 3 then Some c else None | None => None end.
Proof. exact Proofs.SeriesP.csv_dispatch_correct. Qed.

(* the plot's y-label names the quantity and the requested unit *)
Theorem plot_labels : forall u c lab withunit, select plot_entries u = Some (c, (lab, withunit)) ->
  In (c, lab, withunit)
     [ (0%N, s2l_ "Activity (", true); (1%N, s2l_ "Number of moles (", true); (2%N, s2l_ "Mass (", true);
       (3%N, s2l_ "Number of atoms", false); (4%N, s2l_ "Activity fraction", false);
       (5%N, s2l_ "Mass fraction", false); (6%N, s2l_ "Mole fraction", false) ].
Proof. exact Proofs.SeriesP.plot_labels. Qed.

(* both converter classes have the same unit strings, so the dispatch is the same for both inventory classes *)
Theorem tables_same_keys :
  map fst activity_units_f = map fst activity_units_q /\ map fst mass_units_f = map fst mass_units_q /\
  map fst moles_units_f = map fst moles_units_q /\ map fst time_units_f = map fst time_units_q.
Proof. exact Proofs.SeriesP.tables_same_keys. Qed.

(* the linear time grid: n points, first = start, last = stop exactly *)
Theorem linspace_endpoints : forall a b n, (2 <= n)%nat ->
  length (linspace_f a b n) = n /\ nth 0 (linspace_f a b n) PrimFloat.nan = PrimFloat.add (PrimFloat.mul (nat_to_float 0) (PrimFloat.div (PrimFloat.sub b a) (nat_to_float (n - 1)))) a /\
  nth (n - 1) (linspace_f a b n) PrimFloat.nan = b.
Proof. exact Proofs.SeriesP.linspace_endpoints. Qed.
