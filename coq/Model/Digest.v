(* Digests of a data set, evaluated inside Coq and compared by the correspondence check with the
   same digests computed from the objects the running library holds (polices tr_data's emission
   and load_dataset's file selection). *)
From Coq Require Import ZArith NArith List Uint63 PrimFloat.
From RD Require Import Base Model.Dataset.
Import ListNotations.
Local Open Scope Z_scope.

Definition MODP : Z := 2305843009213693951.   (* 2^61 - 1 *)

(* a float as an integer code: sign, shifted exponent, 53-bit mantissa; specials get codes *)
Definition fcode (f : float) : Z :=
  match classify f with
  | FloatClass.NaN => -1
  | FloatClass.PInf => -2
  | FloatClass.NInf => -3
  | FloatClass.PZero => 0
  | FloatClass.NZero => -4
  | _ =>
    let '(m, e) := frshiftexp f in
    let mz := Uint63.to_Z (normfr_mantissa m) in
    let ez := Uint63.to_Z e in
    (if ltb f zero then 1 else 0) + 2 * (ez + 8192 * mz)
  end.

Definition mix (acc x : Z) : Z := (acc * 1000003 + x) mod MODP.

Definition dig_str (acc : Z) (s : str) : Z := fold_left (fun a c => mix a (Z.of_N c)) s (mix acc 7).
Definition dig_strs (acc : Z) (l : list str) : Z := fold_left dig_str l (mix acc 11).
Definition dig_floats (acc : Z) (l : list float) : Z := fold_left (fun a f => mix a (fcode f)) l (mix acc 13).
Definition dig_q (acc : Z) (q : qlit) : Z := mix (mix acc (qn q mod MODP)) (Zpos (qd q) mod MODP).
Definition dig_frows (acc : Z) (m : list frow) : Z :=
  fold_left (fun a r => fold_left (fun a2 kx => mix (mix a2 (Z.of_N (fst kx))) (fcode (snd kx))) r (mix a 17)) m acc.
Definition dig_qrows (acc : Z) (m : list qrow) : Z :=
  fold_left (fun a r => fold_left (fun a2 kx => dig_q (mix a2 (Z.of_N (fst kx))) (snd kx)) r (mix a 19)) m acc.

Definition ds_digest (d : dataset) : list Z :=
  [ Z.of_nat (length (ds_names d));
    dig_strs 1 (ds_names d);
    fold_left (fun a h => dig_str (dig_str (mix a (fcode (hl_f h))) (hl_unit h)) (hl_read h)) (ds_hl d) 2;
    fold_left dig_strs (ds_progeny d) 3;
    fold_left (fun a bl => dig_floats a (map bf_f bl)) (ds_bfs d) 4;
    fold_left dig_strs (ds_modes d) 5;
    dig_floats 6 (ds_masses_f d);
    fcode (ds_year_f d);
    dig_frows 8 (ds_cf d);
    dig_frows 9 (ds_cif d);
    fold_left dig_q (ds_mu d) 10;
    dig_q 11 (ds_year_e d);
    dig_qrows 12 (ds_c d);
    dig_qrows 13 (ds_ci d) ].
