(* Proofs for C17 (Props/C17.v): equality and hashing are consistent with content.
   Model: Model/Equality.v.  Self-contained (depends only on Lib and the two models). *)
From Coq Require Import ZArith NArith List Bool Arith Lia.
From RD Require Import Base Lib.Py Model.Inventory Model.Equality.
Import ListNotations.

(* ---------- booleans, strings *)
Lemma bool_eq_of_iff : forall a b : bool, (a = true <-> b = true) -> a = b.
Proof.
  intros a b [Hab Hba]. destruct a, b; try reflexivity.
  - symmetry. apply Hab. reflexivity.
  - apply Hba. reflexivity.
Qed.

Lemma s_eqb_eq : forall a b : str, s_eqb a b = true <-> a = b.
Proof.
  induction a as [|x a IH]; intros [|y b]; simpl; split; intro H; try reflexivity; try discriminate.
  - apply andb_true_iff in H. destruct H as [Hxy Hab].
    apply N.eqb_eq in Hxy. apply IH in Hab. subst. reflexivity.
  - inversion H; subst. apply andb_true_iff. split.
    + apply N.eqb_refl.
    + apply IH. reflexivity.
Qed.

Lemma s_eqb_refl : forall a : str, s_eqb a a = true.
Proof. intro a. apply s_eqb_eq. reflexivity. Qed.

Lemma s_eqb_neq : forall a b : str, a <> b -> s_eqb a b = false.
Proof.
  intros a b Hne. destruct (s_eqb a b) eqn:E; [|reflexivity].
  apply s_eqb_eq in E. contradiction.
Qed.

(* ---------- d_get versus membership *)
Section DictFacts.
  Context {V : Type}.

  Lemma d_get_some_in : forall (d : @dict V) k v, d_get d k = Some v -> In (k, v) d.
  Proof.
    induction d as [|[a w] r IH]; intros k v H; simpl in H; [discriminate|].
    destruct (s_eqb a k) eqn:E.
    - apply s_eqb_eq in E. inversion H; subst. left. reflexivity.
    - right. apply IH. exact H.
  Qed.

  Lemma d_get_none_notin : forall (d : @dict V) k, d_get d k = None -> ~ In k (map fst d).
  Proof.
    induction d as [|[a w] r IH]; intros k H Hin; simpl in *; [exact Hin|].
    destruct (s_eqb a k) eqn:E; [discriminate|].
    destruct Hin as [Hak|Hin].
    - subst. rewrite s_eqb_refl in E. discriminate.
    - exact (IH k H Hin).
  Qed.

  Lemma d_get_some_key : forall (d : @dict V) k v, d_get d k = Some v -> In k (map fst d).
  Proof.
    intros d k v H. apply d_get_some_in in H.
    apply (in_map fst) in H. exact H.
  Qed.

  Lemma in_key_d_get : forall (d : @dict V) k, In k (map fst d) -> exists v, d_get d k = Some v.
  Proof.
    intros d k Hin. destruct (d_get d k) as [v|] eqn:E.
    - exists v. reflexivity.
    - exfalso. exact (d_get_none_notin d k E Hin).
  Qed.

  Lemma nodup_in_d_get : forall (d : @dict V) k v,
    NoDup (map fst d) -> In (k, v) d -> d_get d k = Some v.
  Proof.
    induction d as [|[a w] r IH]; intros k v Hnd Hin; simpl in *; [contradiction|].
    inversion Hnd as [|a' l' Hnotin Hnd']; subst.
    destruct Hin as [Heq|Hin].
    - inversion Heq; subst. rewrite s_eqb_refl. reflexivity.
    - destruct (s_eqb a k) eqn:E.
      + apply s_eqb_eq in E. subst. exfalso. apply Hnotin.
        apply (in_map fst) in Hin. exact Hin.
      + apply IH; assumption.
  Qed.
End DictFacts.

(* ---------- dict_eq: pointwise characterisation *)
Section DictEq.
  Context {V : Type} (veq : V -> V -> bool).

  Definition orel (o1 o2 : option V) : Prop :=
    match o1, o2 with
    | Some a, Some b => veq a b = true
    | None, None => True
    | _, _ => False
    end.

  Definition chk (b : @dict V) (kv : str * V) : bool :=
    match d_get b (fst kv) with Some w => veq (snd kv) w | None => false end.

  Lemma dict_eq_unfold : forall a b : @dict V,
    dict_eq veq a b = Nat.eqb (length a) (length b) && forallb (chk b) a.
  Proof. reflexivity. Qed.

  Lemma dict_eq_pointwise : forall a b : @dict V,
    NoDup (map fst a) -> dict_eq veq a b = true -> forall k, orel (d_get a k) (d_get b k).
  Proof.
    intros a b Hnda H k. rewrite dict_eq_unfold in H.
    apply andb_true_iff in H. destruct H as [Hlen Hall].
    apply Nat.eqb_eq in Hlen. rewrite forallb_forall in Hall.
    unfold orel. destruct (d_get a k) as [v|] eqn:Ea.
    - apply d_get_some_in in Ea. specialize (Hall _ Ea). unfold chk in Hall. simpl in Hall.
      destruct (d_get b k) as [w|]; [exact Hall|discriminate].
    - destruct (d_get b k) as [w|] eqn:Eb; [|exact I].
      apply d_get_none_notin in Ea. apply Ea.
      assert (Hincl : incl (map fst a) (map fst b)).
      { intros k' Hin. apply in_map_iff in Hin. destruct Hin as [[k'' v'] [Hk Hin]].
        simpl in Hk. subst k''. specialize (Hall _ Hin). unfold chk in Hall. simpl in Hall.
        destruct (d_get b k') as [w'|] eqn:Eb'; [|discriminate].
        exact (d_get_some_key b k' w' Eb'). }
      assert (Hincl' : incl (map fst b) (map fst a)).
      { apply NoDup_length_incl; [exact Hnda| |exact Hincl].
        rewrite !map_length. lia. }
      apply Hincl'. exact (d_get_some_key b k w Eb).
  Qed.

  Lemma pointwise_incl : forall a b : @dict V,
    (forall k, orel (d_get a k) (d_get b k)) -> incl (map fst a) (map fst b).
  Proof.
    intros a b Hpw k Hin. apply in_key_d_get in Hin. destruct Hin as [v Ea].
    specialize (Hpw k). unfold orel in Hpw. rewrite Ea in Hpw.
    destruct (d_get b k) as [w|] eqn:Eb; [|contradiction].
    exact (d_get_some_key b k w Eb).
  Qed.

  Lemma pointwise_incl_rev : forall a b : @dict V,
    (forall k, orel (d_get a k) (d_get b k)) -> incl (map fst b) (map fst a).
  Proof.
    intros a b Hpw k Hin. apply in_key_d_get in Hin. destruct Hin as [w Eb].
    specialize (Hpw k). unfold orel in Hpw. rewrite Eb in Hpw.
    destruct (d_get a k) as [v|] eqn:Ea; [|contradiction].
    exact (d_get_some_key a k v Ea).
  Qed.

  Lemma pointwise_dict_eq : forall a b : @dict V,
    NoDup (map fst a) -> NoDup (map fst b) ->
    (forall k, orel (d_get a k) (d_get b k)) -> dict_eq veq a b = true.
  Proof.
    intros a b Hnda Hndb Hpw. rewrite dict_eq_unfold. apply andb_true_iff. split.
    - apply Nat.eqb_eq.
      pose proof (NoDup_incl_length Hnda (pointwise_incl a b Hpw)) as H1.
      pose proof (NoDup_incl_length Hndb (pointwise_incl_rev a b Hpw)) as H2.
      rewrite !map_length in H1, H2. lia.
    - apply forallb_forall. intros [k v] Hin. unfold chk. simpl.
      pose proof (nodup_in_d_get a k v Hnda Hin) as Ea.
      specialize (Hpw k). unfold orel in Hpw. rewrite Ea in Hpw.
      destruct (d_get b k) as [w|]; [exact Hpw|contradiction].
  Qed.

  Lemma dict_eq_iff : forall a b : @dict V,
    NoDup (map fst a) -> NoDup (map fst b) ->
    (dict_eq veq a b = true <-> forall k, orel (d_get a k) (d_get b k)).
  Proof.
    intros a b Hnda Hndb. split.
    - apply dict_eq_pointwise. exact Hnda.
    - apply pointwise_dict_eq; assumption.
  Qed.

  Lemma orel_refl : (forall x, veq x x = true) -> forall o, orel o o.
  Proof. intros Hr [v|]; simpl; [apply Hr|exact I]. Qed.

  Lemma orel_sym : (forall x y, veq x y = veq y x) -> forall o1 o2, orel o1 o2 -> orel o2 o1.
  Proof.
    intros Hs [v|] [w|] H; simpl in *; try exact H.
    rewrite Hs. exact H.
  Qed.

  Lemma orel_trans : (forall x y z, veq x y = true -> veq y z = true -> veq x z = true) ->
    forall o1 o2 o3, orel o1 o2 -> orel o2 o3 -> orel o1 o3.
  Proof.
    intros Ht [u|] [v|] [w|] H1 H2; simpl in *; try contradiction; try exact I.
    exact (Ht u v w H1 H2).
  Qed.
End DictEq.

(* ---------- ds_eq *)
Definition fields_eqb (l1 l2 : list N) : bool :=
  Nat.eqb (length l1) (length l2) && forallb (fun ab => N.eqb (fst ab) (snd ab)) (combine l1 l2).

Lemma fields_eqb_eq : forall l1 l2, fields_eqb l1 l2 = true <-> l1 = l2.
Proof.
  unfold fields_eqb.
  induction l1 as [|x l1 IH]; intros [|y l2]; simpl; split; intro H;
    try reflexivity; try discriminate.
  - apply andb_true_iff in H. destruct H as [Hlen Hall].
    apply andb_true_iff in Hall. destruct Hall as [Hxy Hall].
    apply N.eqb_eq in Hxy. subst y. f_equal. apply IH.
    apply andb_true_iff. split; assumption.
  - inversion H; subst. assert (Hrefl : l2 = l2) by reflexivity.
    apply IH in Hrefl. apply andb_true_iff in Hrefl. destruct Hrefl as [Hlen Hall].
    rewrite Hlen, N.eqb_refl, Hall. reflexivity.
Qed.

Lemma ds_eq_unfold : forall x y,
  ds_eq x y = s_eqb (ds_name x) (ds_name y) && fields_eqb (ds_fields x) (ds_fields y).
Proof. intros x y. unfold ds_eq, fields_eqb. rewrite andb_assoc. reflexivity. Qed.

Lemma ds_eq_iff : forall x y,
  ds_eq x y = true <-> ds_name x = ds_name y /\ ds_fields x = ds_fields y.
Proof.
  intros x y. rewrite ds_eq_unfold, andb_true_iff, s_eqb_eq, fields_eqb_eq. reflexivity.
Qed.

Lemma ds_eq_refl : forall x, ds_eq x x = true.
Proof. intro x. apply ds_eq_iff. split; reflexivity. Qed.

Lemma ds_eq_sym : forall x y, ds_eq x y = ds_eq y x.
Proof.
  intros x y. apply bool_eq_of_iff. rewrite !ds_eq_iff.
  split; intros [H1 H2]; split; symmetry; assumption.
Qed.

Lemma ds_eq_trans : forall x y z, ds_eq x y = true -> ds_eq y z = true -> ds_eq x z = true.
Proof.
  intros x y z Hxy Hyz. apply ds_eq_iff in Hxy. apply ds_eq_iff in Hyz. apply ds_eq_iff.
  destruct Hxy as [H1 H2]. destruct Hyz as [H3 H4].
  split; [rewrite H1; exact H3 | rewrite H2; exact H4].
Qed.

Lemma ds_eq_equivalence : (forall x, ds_eq x x = true) /\ (forall x y, ds_eq x y = ds_eq y x) /\
  (forall x y z, ds_eq x y = true -> ds_eq y z = true -> ds_eq x z = true).
Proof. split; [exact ds_eq_refl | split; [exact ds_eq_sym | exact ds_eq_trans]]. Qed.

(* ---------- inventories *)
Section InvEq.
  Context {V : Type} (veq : V -> V -> bool).

  Lemma inv_eq_refl (veq_refl : forall x, veq x x = true) :
    forall x : @invobj V, NoDup (map fst (io_contents x)) -> inv_eq veq x x = true.
  Proof.
    intros x Hx. unfold inv_eq. apply andb_true_iff. split.
    - apply pointwise_dict_eq; try exact Hx. intro k. apply orel_refl. exact veq_refl.
    - apply ds_eq_refl.
  Qed.

  Lemma inv_eq_sym (veq_sym : forall x y, veq x y = veq y x) :
    forall x y : @invobj V, NoDup (map fst (io_contents x)) -> NoDup (map fst (io_contents y)) ->
    inv_eq veq x y = inv_eq veq y x.
  Proof.
    intros x y Hx Hy. unfold inv_eq. rewrite (ds_eq_sym (io_ds x) (io_ds y)). f_equal.
    apply bool_eq_of_iff. rewrite (dict_eq_iff veq _ _ Hx Hy), (dict_eq_iff veq _ _ Hy Hx).
    split; intros H k; apply (orel_sym veq veq_sym); apply H.
  Qed.

  Lemma inv_eq_trans (veq_trans : forall x y z, veq x y = true -> veq y z = true -> veq x z = true) :
    forall x y z : @invobj V,
    NoDup (map fst (io_contents x)) -> NoDup (map fst (io_contents y)) -> NoDup (map fst (io_contents z)) ->
    inv_eq veq x y = true -> inv_eq veq y z = true -> inv_eq veq x z = true.
  Proof.
    intros x y z Hx Hy Hz Hxy Hyz. unfold inv_eq in *.
    apply andb_true_iff in Hxy. destruct Hxy as [Hc1 Hd1].
    apply andb_true_iff in Hyz. destruct Hyz as [Hc2 Hd2].
    apply andb_true_iff. split.
    - apply (dict_eq_iff veq _ _ Hx Hz). intro k.
      apply (orel_trans veq veq_trans _ (d_get (io_contents y) k)).
      + apply (dict_eq_iff veq _ _ Hx Hy). exact Hc1.
      + apply (dict_eq_iff veq _ _ Hy Hz). exact Hc2.
    - exact (ds_eq_trans _ _ _ Hd1 Hd2).
  Qed.

  Lemma inv_ne_negation : forall x y : @invobj V, inv_ne veq x y = negb (inv_eq veq x y).
  Proof. reflexivity. Qed.

  Lemma inv_eq_iff_same_map : forall x y : @invobj V,
    NoDup (map fst (io_contents x)) -> NoDup (map fst (io_contents y)) ->
    (inv_eq veq x y = true <->
     (forall k, match d_get (io_contents x) k, d_get (io_contents y) k with
                | Some a, Some b => veq a b = true
                | None, None => True
                | _, _ => False
                end) /\ ds_eq (io_ds x) (io_ds y) = true).
  Proof.
    intros x y Hx Hy. unfold inv_eq. rewrite andb_true_iff, (dict_eq_iff veq _ _ Hx Hy).
    unfold orel. reflexivity.
  Qed.

  Lemma difference_detected : forall (x y : @invobj V) k,
    NoDup (map fst (io_contents x)) -> NoDup (map fst (io_contents y)) ->
    (match d_get (io_contents x) k, d_get (io_contents y) k with
     | Some a, Some b => veq a b = false
     | None, None => False
     | _, _ => True
     end \/ ds_eq (io_ds x) (io_ds y) = false) -> inv_eq veq x y = false.
  Proof.
    intros x y k Hx Hy Hdiff. destruct (inv_eq veq x y) eqn:E; [|reflexivity]. exfalso.
    apply (inv_eq_iff_same_map x y Hx Hy) in E. destruct E as [Hpw Hds].
    destruct Hdiff as [Hk|Hd].
    - specialize (Hpw k).
      destruct (d_get (io_contents x) k) as [a|]; destruct (d_get (io_contents y) k) as [b|];
        try contradiction.
      rewrite Hk in Hpw. discriminate.
    - rewrite Hd in Hds. discriminate.
  Qed.

  Lemma unrelated_false : forall x : @invobj V,
    py_eq veq x (@PUnrelated V) = false /\ py_ne veq x (@PUnrelated V) = true.
  Proof. intro x. split; reflexivity. Qed.
End InvEq.

(* ---------- nuclides *)
Lemma nuclide_eq_hash : forall (H : str -> str -> Z) x y,
  nuc_eq x y = true -> nuc_hash H x = nuc_hash H y.
Proof.
  intros H x y Heq. unfold nuc_eq in Heq. apply andb_true_iff in Heq.
  destruct Heq as [Hn Hd]. apply s_eqb_eq in Hn. apply ds_eq_iff in Hd.
  destruct Hd as [Hdn _]. unfold nuc_hash. rewrite Hn, Hdn. reflexivity.
Qed.

Print Assumptions inv_eq_refl.
Print Assumptions inv_eq_sym.
Print Assumptions inv_eq_trans.
Print Assumptions inv_ne_negation.
Print Assumptions inv_eq_iff_same_map.
Print Assumptions difference_detected.
Print Assumptions unrelated_false.
Print Assumptions nuclide_eq_hash.
Print Assumptions ds_eq_equivalence.
