(* Checkers for the operation-sequence correspondence (C08, C11, C17): the state machine of
   Model/Inventory.v instantiated for the float class (PrimFloat, bit-exact) and for the
   high-precision class (exact BigQ), run on a history and compared with the implementation's
   contents after every step. *)
From Coq Require Import ZArith NArith List Bool QArith.
From Coq Require Import PrimFloat.
From Bignums Require Import BigQ.
From RD Require Import Base Lib.Py Lib.Num Lib.CertQ Gen.Tables Gen.ConvGen Gen.InvGen Gen.UtilsGen
  Model.Dataset Model.Digest Model.Units Model.Inventory.
Import ListNotations.

Definition feq (a b : float) : bool := Z.eqb (fcode a) (fcode b).
Definition exn_code (e : exn) : N :=
  match e with ValueError => 1 | NuclideStrError => 1 | TypeError => 2 | NotImplementedError => 3
             | IndexError => 4 | KeyError => 5 | _ => 9 end%N.

Section Generic.
  Context {T : Type}.
  Variable eqT : T -> T -> bool.
  Variable stepT : @dict T -> op (T := T) -> @dict T * option exn.
  (* expected observation after a step: exception code (0 = none) and the contents *)
  Definition same_contents (a b : @dict T) : bool :=
    Nat.eqb (length a) (length b) &&
    forallb (fun xy => s_eqb (fst (fst xy)) (fst (snd xy)) && eqT (snd (fst xy)) (snd (snd xy))) (combine a b).
  Fixpoint check_history (s : @dict T) (l : list (op (T := T) * (N * @dict T))) : bool :=
    match l with
    | [] => true
    | (o, (code, expect)) :: r =>
        let '(s', e) := stepT s o in
        N.eqb (match e with None => 0%N | Some x => exn_code x end) code
        && same_contents s' expect && check_history s' r
    end.
End Generic.

(* ---------- float class *)
Definition f_amount_ok (x : float) : bool := PrimFloat.leb zero x.
Definition f_step (d : dataset) (lam : list float) :=
  step float_ops activity_units_f mass_units_f moles_units_f avogadro_f (ds_names d) lam (ds_masses_f d)
       f_amount_ok (fun x => x) PrimFloat.opp.
Definition f_construct (d : dataset) (lam : list float) :=
  construct float_ops activity_units_f mass_units_f moles_units_f avogadro_f (ds_names d) lam (ds_masses_f d)
            f_amount_ok (fun x => x).
Record fhist := FH { fh_raw : list (pyval * float); fh_units : str; fh_init_code : N; fh_init : @dict float;
                     fh_steps : list (op (T := float) * (N * @dict float)) }.
Definition check_fhist (d : dataset) (lam : list float) (h : fhist) : bool :=
  match f_construct d lam (fh_raw h) (fh_units h) with
  | OK s => N.eqb (fh_init_code h) 0 && same_contents feq s (fh_init h)
            && check_history feq (f_step d lam) s (fh_steps h)
  | Raise e => N.eqb (exn_code e) (fh_init_code h)
  end.

(* ---------- high-precision class: exact rationals; activity units are outside this model because the
   decay constants are rational multiples of ln 2 *)
Definition masses_bq (d : dataset) : list bigQ :=
  map (fun m => match m with MRat q => bq_of q | _ => BigQ.zero end) (ds_masses_e d).
Definition q_amount_ok (x : bigQ) : bool := match BigQ.compare BigQ.zero x with Gt => false | _ => true end.
Definition tq (l : list (str * qlit)) : list (str * bigQ) := map (fun kv => (fst kv, bq_of (snd kv))) l.
Definition q_step (d : dataset) :=
  step bigQ_ops [] (tq mass_units_q) (tq moles_units_q) (bq_of avogadro_q) (ds_names d) [] (masses_bq d)
       q_amount_ok (fun x => x) BigQ.opp.
Definition q_construct (d : dataset) :=
  construct bigQ_ops [] (tq mass_units_q) (tq moles_units_q) (bq_of avogadro_q) (ds_names d) [] (masses_bq d)
            q_amount_ok (fun x => x).
Record qhist := QH { qh_raw : list (pyval * bigQ); qh_units : str; qh_init_code : N; qh_init : @dict bigQ;
                     qh_steps : list (op (T := bigQ) * (N * @dict bigQ)) }.
Definition check_qhist (d : dataset) (h : qhist) : bool :=
  match q_construct d (qh_raw h) (qh_units h) with
  | OK s => N.eqb (qh_init_code h) 0 && same_contents BigQ.eq_bool s (qh_init h)
            && check_history BigQ.eq_bool (q_step d) s (qh_steps h)
  | Raise e => N.eqb (exn_code e) (qh_init_code h)
  end.
Definition Qb (n : Z) (d : positive) : bigQ := BigQ.of_Q (Qmake n d).
