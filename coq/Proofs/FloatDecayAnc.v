(* C01 (fifth part): the forward-error bound of Proofs/FloatDecayP.v with the initial atoms of the ANCESTORS of the
   output nuclide in place of all initial atoms.  Proof by restriction: the entries of N0 at non-ancestors are read
   neither by the float evaluation of row i (pattern certificates) nor by the exact solution (pattern of C is
   transitively closed, C and C^-1 have the same pattern), so the theorem of FloatDecayP.v applies to the restricted N0. *)
From Coq Require Import Reals Lra Lia List Bool ZArith NArith.
From Coq Require Import PrimFloat.
From Flocq Require Import Core.Core.
From RD Require Import Base Model.DecayR Lib.Sparse Lib.CertQ Model.Dataset Model.Default Model.Rounding64
  Model.FloatDecay Model.FloatData Model.Ancestors.
From RD Require Proofs.DecayModelP Proofs.Rounding64P Proofs.FloatDecayP Proofs.CertDefault.FloatDataCert
  Proofs.CertDefault.Patterns Proofs.CertDefault.StoredPatterns.
Import ListNotations.
Local Open Scope R_scope.

(* ---------- association lists restricted by a predicate on the key *)
Section Filter.
  Variable p : N -> bool.
  Let q := fun jv : N * float => p (fst jv).

  Lemma fget_filter : forall (l : frow) j, fget (filter q l) j = if p j then fget l j else 0%float.
  Proof.
    induction l as [|[a v] r IH]; intro j; cbn [filter fget].
    - destruct (p j); reflexivity.
    - unfold q at 1. cbn [fst]. destruct (p a) eqn:Pa; cbn [fget].
      + destruct (N.eqb_spec a j) as [E|E].
        * subst a. rewrite Pa. reflexivity.
        * apply IH.
      + rewrite IH. destruct (N.eqb_spec a j) as [E|E].
        * subst a. rewrite Pa. reflexivity.
        * reflexivity.
  Qed.

  Lemma existsb_fcols_filter : forall f (l : frow),
    existsb f (fcols (filter q l)) = true -> existsb f (fcols l) = true.
  Proof.
    intros f l H. apply existsb_exists in H. destruct H as [x [Hin Hx]].
    apply existsb_exists. exists x. split; [|exact Hx].
    unfold fcols in *. apply in_map_iff in Hin. destruct Hin as [jv [E Hin]].
    apply filter_In in Hin. apply in_map_iff. exists jv. split; [exact E|apply Hin].
  Qed.

  Lemma nodupb_filter : forall l : frow, nodupb (fcols l) = true -> nodupb (fcols (filter q l)) = true.
  Proof.
    induction l as [|[a v] r IH]; intro H; cbn [filter]; [reflexivity|].
    cbn [fcols map fst nodupb] in H. fold (fcols r) in H.
    apply andb_prop in H. destruct H as [H1 H2].
    destruct (q (a, v)).
    - cbn [fcols map fst nodupb]. fold (fcols (filter q r)).
      apply andb_true_intro. split; [|apply IH; exact H2].
      apply negb_true_iff. apply negb_true_iff in H1.
      destruct (existsb (N.eqb a) (fcols (filter q r))) eqn:E; [|reflexivity].
      apply existsb_fcols_filter in E. congruence.
    - apply IH. exact H2.
  Qed.
End Filter.

(* ---------- decoding the pattern certificates *)
Lemma stored_cf_row : forall d, StoredPatterns.chk_stored_cf d = true -> forall i k,
  In k (fcols (frow_of (ds_cf d) i)) ->
  existsb (N.eqb k) (row_cols_q (nth (N.to_nat i) (ds_c d) [])) = true.
Proof.
  intros d H i k Hin. unfold StoredPatterns.chk_stored_cf in H.
  pose proof (DecayModelP.all2_nth qrow frow
                (fun r1 r2 => forallb (fun k => existsb (N.eqb k) (row_cols_q r1)) (fcols r2)) [] []
                eq_refl (ds_c d) (ds_cf d) H (N.to_nat i)) as R.
  cbv beta in R. rewrite forallb_forall in R. apply R. exact Hin.
Qed.

Lemma stored_cif_row : forall d, StoredPatterns.chk_stored_cif d = true -> forall k j,
  In j (fcols (frow_of (ds_cif d) k)) ->
  existsb (N.eqb j) (row_cols_q (nth (N.to_nat k) (ds_ci d) [])) = true.
Proof.
  intros d H k j Hin. unfold StoredPatterns.chk_stored_cif in H.
  pose proof (DecayModelP.all2_nth qrow frow
                (fun r1 r2 => forallb (fun k => existsb (N.eqb k) (row_cols_q r1)) (fcols r2)) [] []
                eq_refl (ds_ci d) (ds_cif d) H (N.to_nat k)) as R.
  cbv beta in R. rewrite forallb_forall in R. apply R. exact Hin.
Qed.

Section Restrict.
  Variable d : dataset.
  Hypothesis Hsp : chk_same_patterns d = true.
  Hypothesis Htr : chk_pattern_transitive d = true.
  Hypothesis Hscf : StoredPatterns.chk_stored_cf d = true.
  Hypothesis Hscif : StoredPatterns.chk_stored_cif d = true.
  Variables (e n0 : frow) (i : N) (ce mo : list N).
  Hypothesis Hok : orders_okb (ds_cf d) (ds_cif d) e n0 i ce mo = true.

  Let ii := N.to_nat i.
  Definition anc (j : N) : bool := existsb (N.eqb j) (row_cols_q (nth (N.to_nat i) (ds_c d) [])).
  Definition n0r : frow := filter (fun jv => anc (fst jv)) n0.

  Lemma fget_n0r : forall j, fget n0r j = if anc j then fget n0 j else 0%float.
  Proof. intro j. unfold n0r. apply (fget_filter anc). Qed.

  Lemma anc_is_ancestor : forall j, anc (N.of_nat j) = is_ancestor d (N.to_nat i) j.
  Proof. reflexivity. Qed.

  (* transitivity in terms of N indices *)
  Lemma anc_trans : forall k j, anc k = true ->
    existsb (N.eqb j) (row_cols_q (nth (N.to_nat k) (ds_c d) [])) = true -> anc j = true.
  Proof.
    intros k j Hk Hj. unfold anc in *.
    pose proof (DecayModelP.pattern_transitive d Htr (N.to_nat i) (N.to_nat k) (N.to_nat j)) as T.
    unfold DecayModelP.pat in T. rewrite !N2Nat.id in T. exact (T Hk Hj).
  Qed.

  Lemma cand_anc : forall j,
    (forall k, In k ce -> In k (fcols (frow_of (ds_cf d) i))) ->
    In j (m_candidates (ds_cif d) ce) -> anc j = true.
  Proof.
    intros j Hce Hj. unfold m_candidates in Hj. apply in_flat_map in Hj. destruct Hj as [k [Hk Hjk]].
    apply (anc_trans k j).
    - unfold anc. apply (stored_cf_row d Hscf). apply Hce. exact Hk.
    - rewrite (DecayModelP.same_patterns_row d Hsp). apply (stored_cif_row d Hscif). exact Hjk.
  Qed.

  Lemma ce_incl : forall k, In k ce -> In k (fcols (frow_of (ds_cf d) i)).
  Proof. destruct (Rounding64P.ok_parts _ _ _ _ _ _ _ Hok) as (_ & _ & _ & _ & _ & H & _). exact H. Qed.

  Lemma fget_n0r_cand : forall j, In j (m_candidates (ds_cif d) ce) -> fget n0r j = fget n0 j.
  Proof. intros j Hj. rewrite fget_n0r, (cand_anc j ce_incl Hj). reflexivity. Qed.

  Lemma mo_cand : forall j, In j mo -> In j (m_candidates (ds_cif d) ce).
  Proof.
    destruct (Rounding64P.ok_parts _ _ _ _ _ _ _ Hok) as (_ & _ & _ & _ & _ & _ & _ & _ & H & _).
    intros j Hj. apply (H j Hj).
  Qed.

  Lemma yhat_restrict : pf_yhat (ds_cf d) (ds_cif d) e n0r i ce mo = pf_yhat (ds_cf d) (ds_cif d) e n0 i ce mo.
  Proof.
    unfold pf_yhat. f_equal. apply map_ext_in. intros j Hj.
    rewrite (fget_n0r_cand j (mo_cand j Hj)). reflexivity.
  Qed.

  Lemma ok_restrict : orders_okb (ds_cf d) (ds_cif d) e n0r i ce mo = true.
  Proof.
    pose proof Hok as H. unfold orders_okb in H |- *. cbv zeta in H |- *.
    apply andb_prop in H; destruct H as [H H13].
    apply andb_prop in H; destruct H as [H H12].
    apply andb_prop in H; destruct H as [H H11].
    apply andb_prop in H; destruct H as [H H10].
    apply andb_prop in H; destruct H as [H H9].
    apply andb_prop in H; destruct H as [H H8].
    apply andb_prop in H; destruct H as [H H7].
    apply andb_prop in H; destruct H as [H H6].
    apply andb_prop in H; destruct H as [H H5].
    rewrite H, H6, H8, H9, H10, H11, H12. cbn [andb].
    assert (A5 : nodupb (fcols n0r) = true) by (apply (nodupb_filter anc); exact H5).
    assert (A7 : forallb (fun kv => N.ltb (fst kv) (N.of_nat (length (ds_cf d))) && ffinite (snd kv)) n0r = true).
    { rewrite forallb_forall in H7 |- *. intros kv Hkv. apply H7. unfold n0r in Hkv.
      apply filter_In in Hkv. apply Hkv. }
    rewrite A5, A7. cbn [andb].
    rewrite forallb_forall in H13 |- *. intros j Hj. rewrite (fget_n0r_cand j Hj). apply H13. exact Hj.
  Qed.

  (* ---------- the real-valued side *)
  Let n0f := fun j : nat => fval (fget n0 (N.of_nat j)).
  Let n0rf := fun j : nat => fval (fget n0r (N.of_nat j)).

  Lemma n0rf_eq : forall j, n0rf j = if is_ancestor d ii j then n0f j else 0.
  Proof.
    intro j. unfold n0rf, n0f. rewrite fget_n0r, anc_is_ancestor. fold ii.
    destruct (is_ancestor d ii j); [reflexivity|apply Rounding64P.fval_zero].
  Qed.

  Lemma n0rf_nonneg : (forall j, 0 <= n0f j) -> forall j, 0 <= n0rf j.
  Proof. intros H j. rewrite n0rf_eq. destruct (is_ancestor d ii j); [apply H|lra]. Qed.

  Lemma n0rf_nonzero : forall x j, x * n0rf j <> 0 -> x * n0f j <> 0.
  Proof.
    intros x j H. rewrite n0rf_eq in H. destruct (is_ancestor d ii j); [exact H|].
    exfalso. apply H. ring.
  Qed.

  Lemma sum_restrict : sumn (nn d) n0rf = anc_atoms d n0f ii.
  Proof. unfold anc_atoms. apply sumn_ext. intros j _. apply n0rf_eq. Qed.

  Lemma Nt_restrict : forall t,
    Nt (nn d) (Cr d) (Cir d) (mur d) n0rf t ii = Nt (nn d) (Cr d) (Cir d) (mur d) n0f t ii.
  Proof.
    intro t. unfold Nt. apply sumn_ext. intros k _.
    destruct (anc (N.of_nat k)) eqn:Ak.
    - f_equal. f_equal. unfold w. apply sumn_ext. intros j _.
      rewrite n0rf_eq. destruct (is_ancestor d ii j) eqn:Aj; [reflexivity|].
      rewrite (DecayModelP.Cir_pattern_zero d k j); [ring|].
      rewrite <- (DecayModelP.same_patterns_row d Hsp k).
      destruct (existsb (N.eqb (N.of_nat j)) (row_cols_q (nth k (ds_c d) []))) eqn:Ekj; [|reflexivity].
      exfalso. rewrite <- (Nat2N.id k) in Ekj.
      pose proof (anc_trans (N.of_nat k) (N.of_nat j) Ak Ekj) as T.
      rewrite anc_is_ancestor in T. fold ii in T. congruence.
    - rewrite (DecayModelP.Cr_pattern_zero d ii k Ak). ring.
  Qed.
End Restrict.

Theorem default_float_decay_error_ancestors :
  forall (e n0 : frow) (i : N) (ce mo : list N) (t : R),
  orders_okb (ds_cf Default) (ds_cif Default) e n0 i ce mo = true ->
  ffin (pf_yhat (ds_cf Default) (ds_cif Default) e n0 i ce mo) = true ->
  0 <= t ->
  let n0f := fun j : nat => fval (fget n0 (N.of_nat j)) in
  let Ef := fun k : nat => fval (fget e (N.of_nat k)) in
  let lamf := fun k : nat => fval (nth k Proofs.CertDefault.FloatDataCert.default_lam_val 0%float) in
  (forall j, 0 <= n0f j) ->
  (forall k, (k < nn Default)%nat -> (exists j, (j < nn Default)%nat /\ Cifr Default k j * n0f j <> 0) ->
             Rabs (Ef k - exp (- lamf k * t)) <= bpow radix2 (-50)) ->
  Rabs (fval (pf_yhat (ds_cf Default) (ds_cif Default) e n0 i ce mo)
        - Nt (nn Default) (Cr Default) (Cir Default) (mur Default) n0f t (N.to_nat i))
  <= 1 / 10 ^ 11 * anc_atoms Default n0f (N.to_nat i) + bpow radix2 (-1060).
Proof.
  intros e n0 i ce mo t Hok Hfin Ht n0f Ef lamf Hn0 HE.
  destruct Patterns.default_patterns as (Hsp & _ & _ & Htr).
  destruct StoredPatterns.default_stored_patterns as (Hscf & Hscif).
  pose proof (ok_restrict Default Hsp Htr Hscf Hscif e n0 i ce mo Hok) as Hok'.
  pose proof (yhat_restrict Default Hsp Htr Hscf Hscif e n0 i ce mo Hok) as EY.
  pose proof (FloatDecayP.default_float_decay_error e (n0r Default n0 i) i ce mo t Hok') as H.
  rewrite EY in H. specialize (H Hfin Ht). cbv zeta in H.
  rewrite (Nt_restrict Default Hsp Htr n0 i t) in H.
  rewrite (sum_restrict Default n0 i) in H.
  apply H.
  - apply (n0rf_nonneg Default n0 i). exact Hn0.
  - intros k Hk [j [Hj Hne]]. apply (HE k Hk). exists j. split; [exact Hj|].
    apply (n0rf_nonzero Default n0 i _ j Hne).
Qed.

Print Assumptions default_float_decay_error_ancestors.
