(* Checkers for the decay correspondence (C01, C03, C07; C02 with a relative tolerance): the
   implementation's numbers must lie within the stated bound of the interval enclosure of the exact
   flow, and the nuclide set must be the progeny closure. *)
From Coq Require Import ZArith NArith List Bool.
From Coq Require Import PrimFloat.
From Interval Require Import Float.Specific_bigint Float.Specific_ops Interval.Float_full Interval.Interval Float.Basic Real.Xreal.
From RD Require Import Base Model.Dataset Model.DecayI.
Import ListNotations.

Record dcase := DC { dc_n0 : list (N * qlit); dc_t : qlit; dc_out : list (N * float);
                     dc_cum : list (N * float) }.

Definition same_set (a b : list N) : bool :=
  forallb (fun x => existsb (N.eqb x) b) a && forallb (fun x => existsb (N.eqb x) a) b.

Section P.
  Variable p : positive.
  Let prec := F.PtoP p.
  Variable d : dataset.
  (* absolute forward-error bound: tolq * (atoms held by the ancestors) + 1e-290 *)
  Variable tolq : qlit.

  Definition tiny : I.type := iq prec (QL 1 (Pos.pow 10 290)).
  Definition check_abs (c : dcase) : bool :=
    let n0 := map (fun kv => (fst kv, iq prec (snd kv))) (dc_n0 c) in
    let t := iq prec (dc_t c) in
    let ref := NtI_all prec d n0 t in
    same_set (map fst ref) (map fst (dc_out c)) &&
    forallb (fun iv =>
      within prec (ifloat prec (snd iv)) (lookupI (fst iv) ref)
             (I.add prec (I.mul prec (iq prec tolq) (anc_sum prec d n0 (fst iv))) tiny)) (dc_out c) &&
    (match dc_cum c with
     | [] => true
     | cum =>
       let refc := DcumI_all prec d n0 t in
       same_set (map fst refc) (map fst cum) &&
       forallb (fun iv =>
         within prec (ifloat prec (snd iv)) (lookupI (fst iv) refc)
                (I.add prec (I.mul prec (iq prec tolq) (anc_sum prec d n0 (fst iv))) tiny)) cum
     end).

  (* relative bound (high-precision class): |v - e| <= relq * |e| + (values below the smallest normal) *)
  Variable relq : qlit.
  (* guard of the fixed working precision (320 digits): an absolute term guardq * (atoms of the ancestors);
     guardq = 0 gives the property as written *)
  Variable guardq : qlit.
  Definition subnormal : I.type := idyadic prec 1 (-1021).
  Definition check_rel (c : dcase) : bool :=
    let n0 := map (fun kv => (fst kv, iq prec (snd kv))) (dc_n0 c) in
    let t := iq prec (dc_t c) in
    let ref := NtI_all prec d n0 t in
    same_set (map fst ref) (map fst (dc_out c)) &&
    forallb (fun iv =>
      let e := lookupI (fst iv) ref in
      within prec (ifloat prec (snd iv)) e
             (I.add prec (I.add prec (I.mul prec (iq prec relq) (I.abs e)) subnormal)
                    (I.mul prec (iq prec guardq) (anc_sum prec d n0 (fst iv))))) (dc_out c) &&
    (match dc_cum c with
     | [] => true
     | cum =>
       let refc := DcumI_all prec d n0 t in
       same_set (map fst refc) (map fst cum) &&
       forallb (fun iv =>
         let e := lookupI (fst iv) refc in
         within prec (ifloat prec (snd iv)) e
                (I.add prec (I.add prec (I.mul prec (iq prec relq) (I.abs e)) subnormal)
                       (I.mul prec (iq prec guardq) (anc_sum prec d n0 (fst iv))))) cum
     end).
End P.

(* try a moderate precision first; deep chains with cancellation need the large one *)
Definition check_float_decay (d : dataset) (c : dcase) : bool :=
  if check_abs 200 d (QL 1 100000000000) c then true
  else if check_abs 700 d (QL 1 100000000000) c then true else check_abs 1800 d (QL 1 100000000000) c.
Definition check_hp_decay (d : dataset) (c : dcase) : bool :=
  let g := QL 1 (Pos.pow 10 315) in
  if check_rel 300 d (QL 1 10000000000000) g c then true
  else if check_rel 1200 d (QL 1 10000000000000) g c then true else check_rel 2200 d (QL 1 10000000000000) g c.
(* the property exactly as written (no guard): used on the recorded known-finding inputs *)
Definition check_hp_decay_unguarded (d : dataset) (c : dcase) : bool :=
  let g := QL 0 1 in
  if check_rel 1200 d (QL 1 10000000000000) g c then true else check_rel 2200 d (QL 1 10000000000000) g c.

(* compositions (C07): k decay calls accumulate k times the single-call bound *)
Definition check_float_decay_k (k : positive) (d : dataset) (c : dcase) : bool :=
  let tol := QL (Zpos k) 100000000000 in
  if check_abs 200 d tol c then true else if check_abs 700 d tol c then true else check_abs 1800 d tol c.
Definition check_hp_decay_k (k : positive) (d : dataset) (c : dcase) : bool :=
  let g := QL (Zpos k) (Pos.pow 10 315) in
  let r := QL (Zpos k) 10000000000000 in
  if check_rel 300 d r g c then true else if check_rel 1200 d r g c then true else check_rel 2200 d r g c.
