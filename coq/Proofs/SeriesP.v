(* Proofs for C13 (Props/C13.v): the generated unit-dispatch chains of decay_time_series_pandas / plot /
   to_csv (Gen/DispatchGen.v) against the specification Model/Series.v, for EVERY unit string; the two
   converter classes have the same unit strings; end points of the linear time grid. *)
From Coq Require Import ZArith NArith List Bool String Lia.
From Coq Require Import PrimFloat.
From RD Require Import Base Lib.Py Lib.Num Gen.Tables Gen.DispatchGen Model.Series.
Import ListNotations.

(* ------------------------------------------------------------------ str equality *)
Lemma s_eqb_true_eq : forall a b : str, s_eqb a b = true -> a = b.
Proof.
  induction a as [|x a IH]; destruct b as [|y b]; cbn [s_eqb]; intro H; try discriminate; [reflexivity|].
  apply andb_true_iff in H. destruct H as [H1 H2]. apply N.eqb_eq in H1. apply IH in H2. congruence.
Qed.

Lemma l_mem_str_true : forall u l, l_mem_str u l = true -> In u l.
Proof.
  intros u l H. unfold l_mem_str in H. apply existsb_exists in H. destruct H as [k [Hin Hk]].
  apply s_eqb_true_eq in Hk. subst k. exact Hin.
Qed.

(* ------------------------------------------------------------------ the literals *)
Lemma lit_num : s2l "num" = s_num. Proof. reflexivity. Qed.
Lemma lit_activity_frac : s2l "activity_frac" = s_activity_frac. Proof. reflexivity. Qed.
Lemma lit_mass_frac : s2l "mass_frac" = s_mass_frac. Proof. reflexivity. Qed.
Lemma lit_mol_frac : s2l "mol_frac" = s_mol_frac. Proof. reflexivity. Qed.

(* ------------------------------------------------------------------ mass and moles unit strings are disjoint *)
Lemma mass_moles_disjoint_b :
  forallb (fun k => negb (l_mem_str k (map fst moles_units_q))) (map fst mass_units_q) = true.
Proof. vm_compute. reflexivity. Qed.

Lemma mass_not_moles : forall u,
  l_mem_str u (map fst mass_units_q) = true -> l_mem_str u (map fst moles_units_q) = false.
Proof.
  intros u H. apply l_mem_str_true in H.
  pose proof (proj1 (forallb_forall _ _) mass_moles_disjoint_b u H) as Hn.
  apply negb_true_iff in Hn. exact Hn.
Qed.

(* ------------------------------------------------------------------ the three chains *)
Theorem series_dispatch_correct : forall u, select chain_series u = spec_select u.
Proof.
  intros u. unfold chain_series, spec_select.
  cbn [select cond_holds table_keys].
  rewrite lit_num, lit_activity_frac, lit_mass_frac, lit_mol_frac.
  reflexivity.
Qed.

(* chain_plot is generated as list ((dcond * N) * (str * bool)); [select] wants list (dcond * A):
   re-associate the entries (condition, (code, (label, with-unit))) *)
Theorem plot_dispatch_correct : forall u,
  option_map fst (select (map (fun e => (fst (fst e), (snd (fst e), snd e))) chain_plot) u) = spec_select u.
Proof.
  intros u. unfold chain_plot, spec_select.
  cbn [map fst snd select cond_holds table_keys].
  rewrite lit_num, lit_activity_frac, lit_mass_frac, lit_mol_frac.
  destruct (l_mem_str u (map fst activity_units_q)); [reflexivity|].
  destruct (l_mem_str u (map fst moles_units_q)); [reflexivity|].
  destruct (l_mem_str u (map fst mass_units_q)); [reflexivity|].
  destruct (s_eqb u s_num); [reflexivity|].
  destruct (s_eqb u s_activity_frac); [reflexivity|].
  destruct (s_eqb u s_mass_frac); [reflexivity|].
  destruct (s_eqb u s_mol_frac); reflexivity.
Qed.

Theorem csv_dispatch_correct : forall u,
  select chain_csv u = match spec_select u with Some c => if N.leb c 3 then Some c else None | None => None end.
Proof.
  intros u. unfold chain_csv, spec_select.
  cbn [select cond_holds table_keys].
  rewrite lit_num.
  destruct (l_mem_str u (map fst activity_units_q)); [reflexivity|].
  destruct (l_mem_str u (map fst mass_units_q)) eqn:Hmass.
  - rewrite (mass_not_moles u Hmass). reflexivity.
  - destruct (l_mem_str u (map fst moles_units_q)); [reflexivity|].
    destruct (s_eqb u s_num); [reflexivity|].
    destruct (s_eqb u s_activity_frac); [reflexivity|].
    destruct (s_eqb u s_mass_frac); [reflexivity|].
    destruct (s_eqb u s_mol_frac); reflexivity.
Qed.

Theorem plot_labels : forall u c lab withunit,
  select (map (fun e => (fst (fst e), (snd (fst e), snd e))) chain_plot) u = Some (c, (lab, withunit)) ->
  In (c, lab, withunit)
     [ (0%N, s2l "Activity (", true); (1%N, s2l "Number of moles (", true); (2%N, s2l "Mass (", true);
       (3%N, s2l "Number of atoms", false); (4%N, s2l "Activity fraction", false);
       (5%N, s2l "Mass fraction", false); (6%N, s2l "Mole fraction", false) ].
Proof.
  intros u c lab withunit H. unfold chain_plot in H.
  cbn [map fst snd select] in H.
  repeat match type of H with
         | (if ?b then _ else _) = _ => destruct b
         end;
    try discriminate; inversion H; subst; cbn [In]; tauto.
Qed.

(* ------------------------------------------------------------------ both converter classes: same unit strings *)
Theorem tables_same_keys :
  map fst activity_units_f = map fst activity_units_q /\ map fst mass_units_f = map fst mass_units_q /\
  map fst moles_units_f = map fst moles_units_q /\ map fst time_units_f = map fst time_units_q.
Proof. repeat split; vm_compute; reflexivity. Qed.

(* ------------------------------------------------------------------ the linear grid *)
Lemma nth_map_seq : forall {A} (f : nat -> A) n i d, (i < n)%nat -> nth i (map f (seq 0 n)) d = f i.
Proof.
  intros A f n i d Hi.
  rewrite (nth_indep (map f (seq 0 n)) d (f 0%nat)) by (rewrite map_length, seq_length; exact Hi).
  rewrite map_nth. rewrite seq_nth by exact Hi. reflexivity.
Qed.

Theorem linspace_endpoints : forall a b n, (2 <= n)%nat ->
  length (linspace_f a b n) = n /\
  nth 0 (linspace_f a b n) PrimFloat.nan =
    PrimFloat.add (PrimFloat.mul (nat_to_float 0) (PrimFloat.div (PrimFloat.sub b a) (nat_to_float (n - 1)))) a /\
  nth (n - 1) (linspace_f a b n) PrimFloat.nan = b.
Proof.
  intros a b n Hn.
  destruct n as [|[|m]]; [lia|lia|].
  replace (S (S m) - 1)%nat with (S m) by lia.
  change (linspace_f a b (S (S m))) with
    (map (fun i => if Nat.eqb i (S m) then b
                   else add (mul (nat_to_float i) (PrimFloat.div (sub b a) (nat_to_float (S m)))) a)
         (seq 0 (S (S m)))).
  split; [|split].
  - rewrite map_length, seq_length. reflexivity.
  - rewrite nth_map_seq by lia. reflexivity.
  - rewrite nth_map_seq by lia. rewrite Nat.eqb_refl. reflexivity.
Qed.

Print Assumptions series_dispatch_correct.
Print Assumptions plot_dispatch_correct.
Print Assumptions csv_dispatch_correct.
Print Assumptions plot_labels.
Print Assumptions tables_same_keys.
Print Assumptions linspace_endpoints.
