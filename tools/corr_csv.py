"""C12 stream: CSV export/import through real files."""
import json
import math
import random
import corr_units as U
import corr_nuclide as N

ALL_UNITS = U.ACT + U.MASS + U.MOL + ["num"]


def close(a, b, ulps):
    return a == b or abs(a - b) <= ulps * math.ulp(max(abs(a), abs(b)))


def csv_stream(rng, nfiles, streams, viol, samples):
    names, stable = U.dataset_names()
    radio = [n for n, s in zip(names, stable) if not s]
    rts = []
    for k in range(nfiles):
        hp = (k % 5 == 0)
        unit = rng.choice(ALL_UNITS)
        if hp:   # the high-precision class takes amounts >= ~1e-25 in their unit (F13, fixed: below that nsimplify used to flush to zero)
            unit = rng.choice(["num", "Bq", "kBq", "mBq", "Ci", "dpm", "g", "mg", "kg", "ug", "mol", "mmol", "kmol"])
        pool = radio if unit in U.ACT else names
        nn = rng.randint(1, 30 if not hp else 6)
        chosen = rng.sample(pool, nn)
        cunit = "num"
        if hp:
            cunit = rng.choice(["num", "num", "mol", "g", "Bq"]) if all(c in radio for c in chosen) else rng.choice(["num", "num", "mol", "g"])
            lo, hi = {"num": (-2, 25), "mol": (-20, 3), "g": (-18, 5), "Bq": (-5, 18)}[cunit]
            cont = {c: float(f"{10 ** rng.uniform(lo, hi):.6g}").hex() for c in chosen}
        else:
            cont = {c: float(10 ** rng.uniform(-20, 28) if rng.random() < 0.93 else 0.0).hex() for c in chosen}
        enc = rng.choice(["utf-8", "utf-16", "latin-1", "utf-8-sig"])
        if enc == "latin-1" and "μ" in unit:
            enc = "utf-8"
        if enc == "utf-8-sig" and rng.random() < 0.5:
            enc = "utf-8"
        wu = rng.random() < 0.5
        rts.append({"cls": "InventoryHP" if hp else "Inventory", "contents": cont, "cunit": cunit, "unit": unit,
                    "delim": rng.choice([",", ";", "\t", "|"]), "enc": enc, "write_units": wu, "header": rng.random() < 0.5,
                    "wrong_units_arg": (rng.choice(["Ci", "kg", "num"]) if wu and rng.random() < 0.5 else None)})
    # hand-written files: precedence, ids, skip_rows, accumulation, equality to direct construction
    hw = []
    def H(text, kwargs, direct):
        hw.append({"text": text, "kwargs": kwargs, "direct": direct})
    H("H-3,2.0,kBq\nC-14,3.0\nK-40,1.5,mol\n", {"units": "Ci"}, [["H-3", 2.0, "kBq"], ["C-14", 3.0, "Ci"], ["K-40", 1.5, "mol"]])
    H("H-3,2.0\nC-14,3.0\n", {}, [["H-3", 2.0, None], ["C-14", 3.0, None]])
    H("H-3,2.0,\nC-14,3.0,\n", {}, [["H-3", 2.0, None], ["C-14", 3.0, None]])
    H("H-3,2.0,\nC-14,3.0,g\n", {"units": "mg"}, [["H-3", 2.0, "mg"], ["C-14", 3.0, "g"]])
    H("10030000,5.0,num\n190400000,7.0,num\nH-3,1.0,num\n", {}, [[10030000, 5.0, "num"], [190400000, 7.0, "num"], ["H-3", 1.0, "num"]])
    H("H-3,1.5,num\n3H,2.25,num\n10030000,4.0,num\n H - 3 ,1.0,num\n", {}, [["H-3", 1.5, "num"], ["3H", 2.25, "num"], [10030000, 4.0, "num"], [" H - 3 ", 1.0, "num"]])
    H("a,b,c\nx,y\nH-3,1.0,num\nC-14,2.0,num\n", {"skip_rows": 2}, [["H-3", 1.0, "num"], ["C-14", 2.0, "num"]])
    H("H-3,9.0,num\nH-3,1.0,num\nC-14,2.0,num\n", {"skip_rows": 1}, [["H-3", 1.0, "num"], ["C-14", 2.0, "num"]])
    H("K-40,2.5,mol\nSr-90,0.0,Bq\nPb-208,0.0,g\n", {}, [["K-40", 2.5, "mol"], ["Sr-90", 0.0, "Bq"], ["Pb-208", 0.0, "g"]])
    H("H-3;1.5;mol\nH-3;2.5;mol\nHe-3;1.0;g\n", {"delimiter": ";", "inventory_type": "InventoryHP"},
      [["H-3", 1.5, "mol"], ["H-3", 2.5, "mol"], ["He-3", 1.0, "g"]])
    H("U-238\t1e3\tBq\nU-235\t2e3\tBq\n", {"delimiter": "\t", "units": "num"}, [["U-238", 1e3, "Bq"], ["U-235", 2e3, "Bq"]])
    hw.append({"text": "H-3,1.0,num\n\nC-14,2.0,num\n", "kwargs": {}, "direct": None, "expect_err": "ValueError"})
    hw.append({"text": "title\n\nH-3,1.0,num\nC-14,2.0,num\n", "kwargs": {"skip_rows": 2}, "direct": [["H-3", 1.0, "num"], ["C-14", 2.0, "num"]]})
    for _ in range(30):
        rows, direct = [], []
        for _ in range(rng.randint(1, 8)):
            n = rng.choice(radio[:40])
            el, rest = n.split("-"); a = "".join(ch for ch in rest if ch.isdigit()); st = rest[len(a):]
            sp = rng.choice(N.spell_forms(el, int(a), st)[:4] + [str(N.expected_id(el, int(a), st))])
            amt = float(f"{10 ** rng.uniform(0, 12):.5g}")
            u = rng.choice(["num", "Bq", "kBq", "mol", "g", ""])
            rows.append(f"{sp},{amt!r}" + (f",{u}" if u or rng.random() < 0.5 else ""))
            direct.append([int(sp) if sp.isdigit() else sp, amt, u or None])
        arg = rng.choice([None, "num", "mg"])
        direct = [[n, a, (u if u else arg)] for n, a, u in direct]
        hp = rng.random() < 0.3
        kw = {}
        if arg:
            kw["units"] = arg
        if hp:
            kw["inventory_type"] = "InventoryHP"
        # an arbitrary preamble (titles, column headers, blank lines, stray separators) that skip_rows must skip EXACTLY
        if rng.random() < 0.5:
            pre = [rng.choice(["", "Inventory export 2024-05-01", "nuclide,quantity,unit", " ", "# comment", "a,b,c,d", "H-3,99.0,num", ","])
                   for _ in range(rng.randint(1, 4))]
            kw["skip_rows"] = len(pre)
            H("\n".join(pre + rows) + "\n", kw, direct)
        else:
            H("\n".join(rows) + "\n", kw, direct)
    # the recorded known-finding input: an amount below ~1e-32 is flushed to zero by the high-precision class
    hw.append({"text": "Sr-90,1e-33,num\n", "kwargs": {"inventory_type": "InventoryHP"}, "direct": None, "probe": "hp-tiny"})
    res = U.run_impl("impl_csv.py", {"roundtrips": rts, "handwritten": hw}, timeout=3000)
    bad = []
    pr = res["handwritten"][-1]
    if "got" in pr and float.fromhex(pr["got"]["numbers"].get("Sr-90", "0x0p+0")) == 0.0:
        bad.append((hw[-1], "hp-tiny-flush: InventoryHP read 1e-33 atoms of Sr-90 from a file as exactly 0", pr))
    for c, r in zip(rts, res["roundtrips"]):
        if "err" in r:
            bad.append((c, "round trip raised " + r["err"], r)); continue
        lines = [ln for ln in r["text"].lstrip("﻿").split("\r\n") if ln != ""]
        if c["header"]:
            lines = lines[1:]
        rows = [ln.split(c["delim"]) for ln in lines]
        want_names = list(r["orig"]["numbers"])
        if [row[0] for row in rows] != want_names:
            bad.append((c, "file rows do not list the inventory's nuclides (one row each, alphabetical)", r)); continue
        for row in rows:
            if len(row) != (3 if c["write_units"] else 2) or (c["write_units"] and row[2] != c["unit"]):
                bad.append((c, f"row {row} has the wrong columns / unit", r)); break
            try:
                v = float(row[1])
            except ValueError:
                bad.append((c, f"quantity {row[1]!r} is not a number", r)); break
            ro = float.fromhex(r["readout"][row[0]])
            if not close(v, ro, 2):
                bad.append((c, f"quantity written for {row[0]} is {v!r}, the inventory's read-out in {c['unit']} is {ro!r}", r)); break
        if r["back"]["cls"] != c["cls"]:
            bad.append((c, f"read_csv returned a {r['back']['cls']}", r))
        if list(r["back"]["numbers"]) != want_names:
            bad.append((c, "the nuclides read back differ from those written", r)); continue
        tol = 64 if c["cls"] == "InventoryHP" else 8
        for n in want_names:
            a, b = float.fromhex(r["orig"]["numbers"][n]), float.fromhex(r["back"]["numbers"][n])
            if not close(a, b, tol):
                bad.append((c, f"{n}: {a!r} atoms written, {b!r} read back", r)); break
        if c["cls"] == "InventoryHP" and any(t in ("Float", "float", "float64") for t in r["back"]["types"]):
            bad.append((c, "high-precision inventory read back with inexact (float) amounts", r))
    for c, r in zip(hw, res["handwritten"]):
        if c.get("expect_err"):
            if r.get("err") != c["expect_err"]:
                bad.append((c, f"a row without 2 or 3 fields must be refused with {c['expect_err']}, got {r.get('err', 'accepted')}", r))
            continue
        if c["direct"] is None:
            continue
        if ("err" in r) != ("direct_err" in r):
            bad.append((c, f"read_csv {'raised ' + r['err'] if 'err' in r else 'succeeded'} but direct construction from the same rows {'raised ' + r.get('direct_err', '') if 'direct_err' in r else 'succeeded'}", r)); continue
        if "err" in r:
            continue
        if r["got"]["cls"] != r["direct"]["cls"] or list(r["got"]["numbers"]) != list(r["direct"]["numbers"]):
            bad.append((c, "read_csv result differs from direct construction (class / nuclides)", r)); continue
        for n in r["got"]["numbers"]:
            if r["got"]["numbers"][n] != r["direct"]["numbers"][n]:
                bad.append((c, f"read_csv result differs from direct construction for {n}", r)); break
    encs, units = {}, {}
    for c in rts:
        encs[c["enc"]] = encs.get(c["enc"], 0) + 1
        units[c["unit"]] = units.get(c["unit"], 0) + 1
    streams["csv_files"] = {"cases": len(rts) + len(hw), "roundtrips": len(rts), "handwritten": len(hw),
                            "impl_property_failures": len(bad), "encodings": encs, "distinct_units": len(units),
                            "hp": sum(1 for c in rts if c["cls"] == "InventoryHP"),
                            "what": "real files: to_csv then read_csv (both classes, 1-30 nuclides, all 44 units, 4 delimiters, 4 encodings, units column, header); "
                                    "file rows vs the inventory's read-out; hand-written files: unit precedence, ids, skip_rows, accumulation, equality with direct construction"}
    seen = set()
    for c, why, r in bad:
        k = why.split(":")[0][:50]
        if k in seen:
            continue
        seen.add(k)
        viol.append({"name": f"csv-{len(seen)}", "found_input": True, "key": "csv:" + k,
                     "payload": {"fails": why, "input": c, "observed": {kk: vv for kk, vv in r.items() if kk != "text"},
                                 "file_text": r.get("text", c.get("text", ""))[:300], "entry": "Inventory.to_csv / read_csv"}})
        if len(seen) >= 5:
            break
    samples.append({"roundtrip_case": {k: v for k, v in rts[0].items() if k != "contents"}, "file_text": res["roundtrips"][0].get("text", "")[:200]})
