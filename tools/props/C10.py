"""C10 - invalid input is refused with the documented error, never mis-accepted."""
import random
import common as C
import corr_nuclide as N
from props.C09 import lib_stream

PID = "C10"
PROPS_MODULE = "Props.C10"
THEOREMS = ["parse_str_total", "parse_id_total", "accepted_is_literal", "accepted_id_is_literal",
            "parse_nuclide_other", "parse_nuclide_str_case", "parse_nuclide_int_case",
            "parse_nuclide_member", "parse_nuclide_total"]
REQUIRED = ["Props/C10.v"]
TRANSLATORS = ["tr_pure", "tr_tables", "tr_unicode"]
SHAPE_KEYS = ["_check_values", "_parse_nuclides", "AbstractInventory::__init__", "InventoryHP::__init__", "AbstractInventory::add",
              "AbstractInventory::subtract", "AbstractInventory::remove", "DecayData::half_life", "DecayData::branching_fraction",
              "DecayData::decay_mode", "Nuclide::half_life", "AbstractInventory::half_lives", "_convert_decay_time", "fileio.py::"]
PARTIAL = ["amount checks (_check_values), unit refusal and stable-activity refusal are decided by the "
           "correspondence stream 'entry_points' only (no theorem yet)"]
TRUSTED_BASE = [
    "Coq 8.16.1 kernel incl. vm_compute",
    "axioms: none expected (closed under the global context)",
    "translator tools/tr_pure.py + tools/pytr.py, tr_tables.py, tr_unicode.py",
    "coq/Lib/Py.v as the model of CPython str/int/list semantics (validated by the 'pylib' stream)",
    "extraction: ExtrOcamlBasic only; OCaml 4.13.1; coq/Extract/driver.ml",
]
ASSUMPTIONS = ["CPython str methods behave as modelled in coq/Lib/Py.v",
               "int(a/b) equals truncated integer division for |a| < 2^53, 0 < b <= 10^4 (boundary ids are in the stream)"]
OKERR = ("ERR ValueError", "ERR NuclideStrError")


def correspondence(ctx):
    rng = random.Random(ctx["seed"] + 10)
    thorough = ctx["tier"] == "thorough"
    streams, viol, samples, notes = {}, [], [], []
    ok, msg = N.build_driver()
    if not ok:
        viol.append({"name": "extract", "found_input": False, "key": "extract",
                     "payload": {"broken": "the generated model could not be extracted/compiled", "message": msg}})
        return {"streams": streams, "violations": viol}
    lib_stream(rng, 20000 if thorough else 4000, viol, streams)

    # --- strings
    strs = list(N.short_strings(3 if thorough else 2))
    strs += N.random_malformed(rng, 1500000 if thorough else 150000)
    reqs = ["P " + N.enc(s) for s in strs]
    mo, io = N.run_both(reqs)
    nbad = ndis = nacc = 0
    kinds = {}
    for s, a, b in zip(strs, mo, io):
        kinds[b.split(" ")[0] + (" " + b.split(" ")[1] if b.startswith("ERR") else "")] = kinds.get(
            b.split(" ")[0] + (" " + b.split(" ")[1] if b.startswith("ERR") else ""), 0) + 1
        bad = None
        if b.startswith("OK"):
            nacc += 1
            r = N.dec(b[3:])
            if not N.literal_ok(s, r):
                bad = "accepted although element/mass/state do not literally appear"
        elif b not in OKERR:
            bad = "escapes with an undocumented exception"
        if bad:
            nbad += 1
            if nbad <= 4:
                viol.append({"name": f"string-{nbad}", "found_input": True, "key": "string:" + s,
                             "payload": {"fails": bad, "input": s, "input_codepoints": [ord(c) for c in s],
                                         "impl": b, "model": a, "entry": "radioactivedecay.utils.parse_nuclide_str"}})
        elif a != b and "Unmodelled" not in a:
            ndis += 1
            if ndis <= 2:
                viol.append({"name": f"string-model-{ndis}", "found_input": False, "key": "model:" + s,
                             "payload": {"broken": "generated model and implementation disagree (property holds on the implementation here)",
                                         "input": s, "input_codepoints": [ord(c) for c in s], "impl": b, "model": a}})
    streams["strings"] = {"cases": len(strs), "accepted": nacc, "impl_wrong": nbad, "model_disagrees": ndis,
                          "result_kinds": kinds,
                          "what": "all strings up to length %d over a %d-symbol alphabet + random / mutated names up to length 8"
                                  % (3 if thorough else 2, len(N.ALPHABET))}
    samples += [{"input": strs[i], "impl": io[i]} for i in (5, len(strs) // 2, len(strs) - 1)]

    # --- ids
    ids = list(range(-12000, 12001)) + [k * 10000 + d for k in rng.sample(range(0, 1200000), 20000 if thorough else 3000)
                                        for d in (-1, 0, 1, 6, 7, 9999)]
    ids += [rng.randint(-10**10, 10**10) for _ in range(1000000 if thorough else 60000)]
    ids += [-10**10, 10**10, 10**10 - 1, 1180000000 + 2950000, 1180000000 + 2950006, 1190010000]
    reqs = [f"I {z}" for z in ids]
    mo, io = N.run_both(reqs)
    nbad = ndis = 0
    for z, a, b in zip(ids, mo, io):
        bad = None
        if b.startswith("OK"):
            r = N.dec(b[3:])
            zz, rest = z // 10000000, z % 10000000
            aa, sn = rest // 10000, rest % 10000
            if not (1 <= zz <= 118 and 0 <= sn <= 6 and r == f"{N.ELEMENTS[zz - 1]}-{aa}{N.STATES[sn]}"):
                bad = "accepted id does not denote the returned nuclide"
        elif b not in OKERR:
            bad = "escapes with an undocumented exception"
        if bad:
            nbad += 1
            if nbad <= 3:
                viol.append({"name": f"id-{nbad}", "found_input": True, "key": f"id:{z}",
                             "payload": {"fails": bad, "input": z, "impl": b, "model": a, "entry": "radioactivedecay.utils.parse_id"}})
        elif a != b and "Unmodelled" not in a:
            ndis += 1
            if ndis <= 2:
                viol.append({"name": f"id-model-{ndis}", "found_input": False, "key": f"model-id:{z}",
                             "payload": {"broken": "generated model and implementation disagree on an id", "input": z, "impl": b, "model": a}})
    streams["ids"] = {"cases": len(ids), "impl_wrong": nbad, "model_disagrees": ndis,
                      "what": "all ids in [-12000, 12000], boundaries 10000k+{-1,0,1,6,7,9999}, random ids in [-1e10, 1e10]"}

    # --- entry points: amounts, units, key types (implementation vs the property's predicate)
    try:
        import corr_entry
        corr_entry.run(ctx, rng, streams, viol, samples)
    except ImportError:
        notes.append("entry-point stream not built yet")
    return {"streams": streams, "violations": viol, "samples": samples, "notes": notes}


def search_broken(ctx):
    return []


def replay(payload):
    N.build_driver()
    if isinstance(payload.get("input"), int):
        reqs = [f"I {payload['input']}"]
    elif "input_codepoints" in payload:
        reqs = ["P " + " ".join(str(c) for c in payload["input_codepoints"])]
    else:
        return {"fails": True, "note": "nothing to replay; theorem/correspondence named in the file"}
    mo, io = N.run_both(reqs, shards=1)
    b = io[0]
    fails = not (b in OKERR or (b.startswith("OK") and (isinstance(payload.get("input"), int)
                 or N.literal_ok(payload["input"], N.dec(b[3:])))))
    return {"fails": fails, "impl": b, "model": mo[0]}
