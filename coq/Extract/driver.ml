(* Correspondence driver: reads one request per line, prints one result per line.
   Requests:  P <cp>*            parse_nuclide_str
              I <int>            parse_id
              F <cp>*            nuclide fields (Z A state id) of a canonical name
              L <fn> <arg-groups separated by '|'>   library function
*)
open Model

let rec pos_of_int n = if n = 1 then XH else if n land 1 = 0 then XO (pos_of_int (n lsr 1)) else XI (pos_of_int (n lsr 1))
let n_of_int n = if n = 0 then N0 else Npos (pos_of_int n)
let rec int_of_pos = function XH -> 1 | XO p -> 2 * int_of_pos p | XI p -> 2 * int_of_pos p + 1
let int_of_n = function N0 -> 0 | Npos p -> int_of_pos p
(* Z via decimal strings so that values beyond 2^62 survive *)
let z_of_string s =
  let neg = String.length s > 0 && s.[0] = '-' in
  let digits = if neg then String.sub s 1 (String.length s - 1) else s in
  (* build positive by Horner with Z arithmetic from the extracted code *)
  let ten = Zpos (pos_of_int 10) in
  let acc = ref Z0 in
  String.iter (fun c -> acc := Z.add (Z.mul !acc ten) (let d = Char.code c - 48 in if d = 0 then Z0 else Zpos (pos_of_int d))) digits;
  if neg then Z.opp !acc else !acc
let rec string_of_pos_dec p =   (* decimal printing of a positive via repeated division in OCaml big-int-free way *)
  (* use the extracted Z.div/modulo *)
  let ten = Zpos (pos_of_int 10) in
  let rec go z acc = match z with
    | Z0 -> acc
    | _ -> let q = Z.div z ten and r = Z.modulo z ten in
           let d = (match r with Z0 -> 0 | Zpos p -> int_of_pos p | Zneg _ -> 0) in
           go q (String.make 1 (Char.chr (48 + d)) ^ acc) in
  go (Zpos p) ""
let string_of_z = function Z0 -> "0" | Zpos p -> string_of_pos_dec p | Zneg p -> "-" ^ string_of_pos_dec p

let exn_name = function
  | ValueError -> "ValueError" | NuclideStrError -> "NuclideStrError" | TypeError -> "TypeError"
  | IndexError -> "IndexError" | KeyError -> "KeyError" | NotImplementedError -> "NotImplementedError"
  | ZeroDivisionError -> "ZeroDivisionError" | OverflowError -> "OverflowError" | Unmodelled -> "Unmodelled"

let str_of_cps l = String.concat " " (List.map (fun c -> string_of_int (int_of_n c)) l)
let cps_of_words ws = List.map (fun w -> n_of_int (int_of_string w)) (List.filter (fun w -> w <> "") ws)
let pr_str = function OK s -> "OK " ^ str_of_cps s | Raise e -> "ERR " ^ exn_name e
let pr_z = function OK z -> "OK " ^ string_of_z z | Raise e -> "ERR " ^ exn_name e
let pr_bool b = if b then "OK True" else "OK False"
let pr_list l = "OK " ^ String.concat " | " (List.map str_of_cps l)

let split_groups ws =
  let rec go cur acc = function
    | [] -> List.rev (List.rev cur :: acc)
    | "|" :: r -> go [] (List.rev cur :: acc) r
    | w :: r -> go (w :: cur) acc r in
  go [] [] ws

let () =
  try
    while true do
      let line = input_line stdin in
      let ws = String.split_on_char ' ' line in
      (match ws with
       | "P" :: r -> print_endline (pr_str (parse_nuclide_str (cps_of_words r)))
       | "I" :: [z] -> print_endline (pr_str (parse_id (z_of_string z)))
       | "F" :: r ->
         let s = cps_of_words r in
         print_endline (pr_z (nuclide_Z s) ^ " ; " ^ pr_z (nuclide_A s) ^ " ; " ^ pr_str (nuclide_state s) ^ " ; " ^ pr_z (nuclide_id s))
       | "L" :: fn :: r ->
         let gs = List.map cps_of_words (split_groups r) in
         let a k = List.nth gs k in
         print_endline (match fn with
           | "remove_ws" -> "OK " ^ str_of_cps (s_remove_ws (a 0))
           | "split_ws" -> pr_list (s_split_ws (a 0))
           | "replace_first" -> "OK " ^ str_of_cps (s_replace_first (a 1) (a 2) (a 0))
           | "replace_all" -> "OK " ^ str_of_cps (s_replace_all (a 1) (a 2) (a 0))
           | "split_on" -> (match s_split_on (a 1) (a 0) with OK l -> pr_list l | Raise e -> "ERR " ^ exn_name e)
           | "isalnum" -> pr_bool (s_isalnum (a 0))
           | "isnumeric" -> pr_bool (s_isnumeric (a 0))
           | "isdigit" -> pr_bool (s_isdigit (a 0))
           | "isascii" -> pr_bool (s_isascii (a 0))
           | "lower" -> "OK " ^ str_of_cps (s_lower (a 0))
           | "capitalize" -> "OK " ^ str_of_cps (s_capitalize (a 0))
           | "strip" -> "OK " ^ str_of_cps (s_strip (a 1) (a 0))
           | "int" -> pr_z (s_int (a 0))
           | "filter_digits" -> "OK " ^ str_of_cps (s_filter_digits (a 0))
           | _ -> "ERR unknown-function")
       | _ -> print_endline "ERR bad-request")
    done
  with End_of_file -> ()
