"""C01 - float decay equals the exact Bateman solution of the dataset."""
import random
import common as C
import corr_decay as D
import corr_units as U

PID = "C01"
PROPS_MODULE = "Props.C01"
THEOREMS = ["closed_form_solves_ode", "closed_form_initial", "ode_solution_unique", "decay_model_is_closed_form",
            "outside_indices_zero", "default_patterns", "reference_encloses_closed_form"]
EXTRA_PROPS = {"Props.C01b": ["fl_dot_error", "decay_eval_error"],
               "Props.C01c": ["rnd64_std_model", "pf_mul_finite", "pf_add_finite", "bq_of_float_value", "pf_yhat_refines"],
               "Props.C01d": ["default_round_certificate", "lambda_close_sound", "float_decay_error", "default_float_decay_error"],
               "Props.C01e": ["default_float_decay_error_ancestors"],
               "Props.C01s": ["synth_float_decay_error", "synth_cum_float_error"]}
REQUIRED = ["Props/C01.v", "Props/C01b.v", "Props/C01c.v", "Props/C01d.v", "Props/C01e.v", "Props/C01s.v", "Props/C04s.v", "Model/DecayCheck.v", "Model/FloatDecay.v",
            "Proofs/CertDefault/RoundCert.v", "Proofs/CertDefault/FloatDataCert.v"]
TRANSLATORS = ["tr_data", "synth_dataset", "tr_data_synth", "tr_tables", "tr_pure"]
SHAPE_KEYS = ["Inventory::decay", "AbstractInventory::_setup_decay_calc", "AbstractInventory::_perform_decay_calc",
              "AbstractInventory::_convert_decay_time", "load_dataset", "DecayMatricesScipy"]
PARTIAL = ["default_float_decay_error_ancestors (Props/C01e.v) proves, for ALL inputs, |result - exact| <= 1e-11 x (atoms of that nuclide's ancestors) + 2^-1060 "
           "for the shipped data; for other data sets the generic float_decay_error gives the bound from that data set's kernel-computed constants",
           "the theorem is about the primitive-float model Model/FloatDecay.v (tied to the implementation bit for bit per case, with SciPy's accumulation "
           "orders observed) and assumes each stored exponential is within 2^-50 of exp(-lambda t) (libm; checked per case by interval arithmetic)",
           "the cumulative_decays analogue is Props/C03b.v (claimed under C03)",
           "decay() control flow is hand-modelled over R (Model/DecayModel.v): tie = recorded source text + correspondence"]
TRUSTED_BASE = [
    "Coq 8.16.1 kernel incl. vm_compute",
    "axioms: standard Reals axioms (sig_forall_dec, sig_not_dec, functional_extensionality_dep, classic); Uint63/PrimFloat primitives (Bignums, Interval)",
    "translator tr_data.py (exact and float matrices); tr_shapes.py source-text ties for decay/_setup_decay_calc/_perform_decay_calc",
    "Flocq (binary64 rounding, PrimFloat <-> binary_float equivalence) for Props/C01c.v; FloatAxioms primitive-float specifications",
    "coq-interval (Interval 4.x) interval arithmetic: correctness lemmas are the library's; the enclosure theorem is Props.C01.reference_encloses_closed_form",
]
ASSUMPTIONS = ["numpy.exp accurate to 2^-50 absolute on arguments <= 0 (checked on every case of the bit-level stream)",
               "SciPy csr_matmat / csr_matvec accumulate sequentially without fused multiply-add, pruning exact zeros (tied bit for bit per case; "
               "the error theorem holds for every accumulation order)"]


def correspondence(ctx):
    rng = random.Random(ctx["seed"] + 1)
    thorough = ctx["tier"] == "thorough"
    names, stable = U.dataset_names()
    cases = D.gen_cases(rng, names, stable, 100000 if thorough else 150, 1500 if thorough else 100, "Inventory")
    if thorough:   # every radionuclide at 3 more times
        radio = [n for n, s in zip(names, stable) if not s]
        for tt in (1e-3, 1e3, 1e9):
            cases += D.gen_cases(rng, names, stable, 0, 0, "Inventory", only=radio)
    streams, viol, samples = {}, [], []
    D.decay_stream(rng, cases, "check_float_decay Default", "decay_float", streams, viol, samples,
                   "Inventory.decay: nuclide set = progeny closure, alphabetical, finite, stable activity exactly 0, every amount within "
                   "1e-11 x (atoms of its ancestors) of the proved enclosure of the exact solution; single parents + mixed inventories in every unit",
                   shard=8, py_pred=D.parent_tail_pred())
    # the same requests against the synthetic data set (states p q r x, other year length, SF, open branches), same model, same bound
    sn, ss = D.names_of("synth")
    scases = D.gen_cases(rng, sn, ss, 100, 200 if thorough else 20, "Inventory", ds="synth")
    D.decay_stream(rng, scases, "check_float_decay Synth", "decay_float_synth", streams, viol, samples,
                   "as decay_float, on the synthetic data set loaded with load_dataset from files in the library's format",
                   shard=8, ds="synth", pre=D.PRE.replace("Model.Default", "Model.Default Model.Synth"))
    import corr_floateval as FE
    FE.floateval_stream(rng, 400 if thorough else 40, streams, viol, samples)
    FE.floateval_stream(rng, 100 if thorough else 20, streams, viol, samples, ds="synth")
    import corr_randds as RD
    RD.random_dataset_stream(rng, 10 if ctx["tier"] == "thorough" else 2, streams, viol, samples, cum=False, hp=0)
    return {"streams": streams, "violations": viol, "samples": samples}


def search_broken(ctx):
    # the obligations of this property rest on the data certificate: turn its witnesses into requests
    return D.data_witness_probe(PID, ("Inventory",))


def replay(payload):
    c = payload.get("input")
    if not isinstance(c, dict) or "contents" not in c:
        return None          # not a single decay case: the generic replay of ./check re-runs the recorded seed
    if False:
        c = dict(c, cum=True)
    return D.replay_case(c, payload.get("checker"))
