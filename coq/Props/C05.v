(* C05 - Amounts convert consistently between every unit and quantity kind.
   Statements about the GENERATED tables (Gen/Tables.v) and the GENERATED converter / inventory
   functions (Gen/ConvGen.v, Gen/InvGen.v) instantiated over the reals (Model/UnitsR.v). *)
From Coq Require Import ZArith NArith List Bool QArith Reals Qreals.
From RD Require Import Base Lib.Py Lib.Num Gen.Tables Gen.ConvGen Gen.InvGen Model.UnitSpec Model.UnitsR.
From RD Require Proofs.Units.
Import ListNotations.
Local Open Scope R_scope.

(* the exact (SymPy) tables are the unit definitions the property states *)
Theorem tables_match_spec :
  same_table (tQ activity_units_q) spec_activity = true /\
  same_table (tQ mass_units_q) spec_mass = true /\
  same_table (tQ moles_units_q) spec_moles = true /\
  Qeq_bool (q_of avogadro_q) spec_avogadro = true.
Proof. exact Proofs.Units.tables_match_spec. Qed.

(* what [same_table] means: equal look-ups for every key *)
Theorem same_table_lookup : forall a b k, same_table a b = true -> keys_nodup a = true -> keys_nodup b = true ->
  match q_assoc k a, q_assoc k b with
  | Some x, Some y => Qeq x y
  | None, None => True
  | _, _ => False
  end.
Proof. exact Proofs.Units.same_table_lookup. Qed.

(* the float tables hold the same definitions to within one ulp, with identical key sets *)
Theorem float_tables_close :
  float_table_close activity_units_f activity_units_q = true /\
  float_table_close mass_units_f mass_units_q = true /\
  float_table_close moles_units_f moles_units_q = true /\
  float_close avogadro_f (q_of avogadro_q) = true.
Proof. exact Proofs.Units.float_tables_close. Qed.

(* no unit string belongs to two kinds, and "num" to none; keys are not repeated *)
Theorem kinds_disjoint :
  disjoint_keys (tQ activity_units_q) (tQ mass_units_q) = true /\
  disjoint_keys (tQ activity_units_q) (tQ moles_units_q) = true /\
  disjoint_keys (tQ mass_units_q) (tQ moles_units_q) = true /\
  q_assoc [110%N; 117%N; 109%N] (tQ activity_units_q ++ tQ mass_units_q ++ tQ moles_units_q) = None /\
  keys_nodup (tQ activity_units_q) = true /\ keys_nodup (tQ mass_units_q) = true /\ keys_nodup (tQ moles_units_q) = true.
Proof. exact Proofs.Units.kinds_disjoint. Qed.

Section AnyDataSet.
  Variables (names : list str) (lam mass_l : list R).

  (* create in unit u, read back in unit u: the same quantity, for every unit of the three tables *)
  Theorem activity_readback : forall nuc x u l, d_mem_sn AR u = true -> by_name names lam nuc = OK l -> l <> 0 ->
    bind (r_create names lam mass_l [(nuc, x)] u []) (fun c => r_activities names lam c u) = OK [(nuc, x)].
  Proof. exact (Proofs.Units.activity_readback names lam mass_l). Qed.

  Theorem mass_readback : forall nuc x u m, d_mem_sn MR u = true -> by_name names mass_l nuc = OK m -> m <> 0 ->
    bind (r_create names lam mass_l [(nuc, x)] u []) (fun c => r_masses names mass_l c u) = OK [(nuc, x)].
  Proof. exact (Proofs.Units.mass_readback names lam mass_l). Qed.

  Theorem moles_readback : forall nuc x u, d_mem_sn MoR u = true ->
    bind (r_create names lam mass_l [(nuc, x)] u []) (fun c => r_moles c u) = OK [(nuc, x)].
  Proof. exact (Proofs.Units.moles_readback names lam mass_l). Qed.

  (* the kinds are tied: activity = lambda * N, moles = N / N_A, mass = moles * M *)
  Theorem kinds_tied : forall nuc n l m, by_name names lam nuc = OK l -> by_name names mass_l nuc = OK m ->
    r_activities names lam [(nuc, n)] [66%N; 113%N] = OK [(nuc, n * l)] /\
    r_moles [(nuc, n)] [109%N; 111%N; 108%N] = OK [(nuc, n / avoR)] /\
    r_masses names mass_l [(nuc, n)] [103%N] = OK [(nuc, n / avoR * m)] /\
    avoR = 602214076 * 10 ^ 15.
  Proof. exact (Proofs.Units.kinds_tied names lam mass_l). Qed.

  (* readings in two units of one kind differ by the defined ratio of the units *)
  Theorem unit_ratio_activity : forall nuc n l u1 u2 f1 f2, by_name names lam nuc = OK l ->
    q_assoc u1 spec_activity = Some f1 -> q_assoc u2 spec_activity = Some f2 ->
    exists a1 a2, r_activities names lam [(nuc, n)] u1 = OK [(nuc, a1)] /\
                  r_activities names lam [(nuc, n)] u2 = OK [(nuc, a2)] /\ a1 * Q2R f1 = a2 * Q2R f2.
  Proof. exact (Proofs.Units.unit_ratio_activity names lam). Qed.

  Theorem unit_ratio_mass : forall nuc n m u1 u2 f1 f2, by_name names mass_l nuc = OK m ->
    q_assoc u1 spec_mass = Some f1 -> q_assoc u2 spec_mass = Some f2 ->
    exists a1 a2, r_masses names mass_l [(nuc, n)] u1 = OK [(nuc, a1)] /\
                  r_masses names mass_l [(nuc, n)] u2 = OK [(nuc, a2)] /\ a1 * Q2R f1 = a2 * Q2R f2.
  Proof. exact (Proofs.Units.unit_ratio_mass names mass_l). Qed.

  Theorem unit_ratio_moles : forall nuc n u1 u2 f1 f2,
    q_assoc u1 spec_moles = Some f1 -> q_assoc u2 spec_moles = Some f2 ->
    exists a1 a2, r_moles [(nuc, n)] u1 = OK [(nuc, a1)] /\
                  r_moles [(nuc, n)] u2 = OK [(nuc, a2)] /\ a1 * Q2R f1 = a2 * Q2R f2.
  Proof. exact Proofs.Units.unit_ratio_moles. Qed.

  (* an unsupported unit is refused; an activity for a stable nuclide is refused *)
  Theorem unknown_unit_refused : forall contents u, s_eqb u [110%N; 117%N; 109%N] = false ->
    d_mem_sn AR u = false -> d_mem_sn MR u = false -> d_mem_sn MoR u = false ->
    r_create names lam mass_l contents u [] = Raise ValueError.
  Proof. exact (Proofs.Units.unknown_unit_refused names lam mass_l). Qed.

  Theorem stable_activity_refused : forall nuc x u, d_mem_sn AR u = true -> by_name names lam nuc = OK 0 ->
    r_create names lam mass_l [(nuc, x)] u [] = Raise ValueError.
  Proof. exact (Proofs.Units.stable_activity_refused names lam mass_l). Qed.
End AnyDataSet.
