"""Decay correspondence (C01, C02, C03, C07): implementation vs the interval enclosure of the exact flow
(coq/Model/DecayI.v), evaluated in Coq."""
import json
import math
import random

import common as C
import coqcases as Q
import corr_units as U

PRE = ("From Coq Require Import ZArith NArith List PrimFloat.\nImport ListNotations.\n"
       "From RD Require Import Base Model.Dataset Model.Default Model.DecayI Model.DecayCheck.\n")


SYNTH_DIR = __import__("os").path.join(C.SCRATCH, "synth")


def npz_path(ds=None):
    import os
    if ds and os.path.isdir(ds):          # a data set directory (random data sets)
        return os.path.join(ds, "decay_data.npz")
    return os.path.join(SYNTH_DIR, "decay_data.npz") if ds == "synth" else \
        os.path.join(C.REPO, "radioactivedecay/icrp107_ame2020_nubase2020/decay_data.npz")


def names_of(ds=None):
    import numpy as np
    d = np.load(npz_path(ds), allow_pickle=True)
    return [str(x) for x in d["nuclides"]], [float(h[0]) == math.inf for h in d["hldata"]]


_EXT = {}


def extreme_parents(ds=None):
    """parents (columns) whose stored float C or C^-1 column holds an explicit zero or an entry below 1e-30 in magnitude:
    the places where the float matrices differ structurally or by underflow from the exact ones"""
    if ds in _EXT:
        return _EXT[ds]
    import os, numpy as np, scipy.sparse as sp
    base = ds if (ds and os.path.isdir(ds)) else (SYNTH_DIR if ds == "synth" else os.path.join(C.REPO, "radioactivedecay/icrp107_ame2020_nubase2020"))
    names, _ = names_of(ds)
    out, zeros = set(), set()
    for f in ("c_scipy.npz", "c_inv_scipy.npz"):
        m = sp.load_npz(os.path.join(base, f)).tocoo()
        for i, j, v in zip(m.row, m.col, m.data):
            if abs(v) < 1e-30:
                out.add(names[j])
            if v == 0:
                zeros.add(names[j])
    # the columns with explicit zeros first (they are few), then the merely tiny ones
    _EXT[ds] = sorted(zeros) + sorted(out - zeros)
    _EXT[(ds, "zeros")] = len(zeros)
    return _EXT[ds]


def qlit(pq):
    p, q = int(pq[0]), int(pq[1])
    return f"(QL ({p})%Z {q}%positive)"


def term(c, r, idx, with_cum=True):
    n0 = "[" + "; ".join(f"({idx[k]}%N, {qlit(v)})" for k, v in r["n0"].items()) + "]"
    out = "[" + "; ".join(f"({idx[k]}%N, {Q.fhex(float.fromhex(v))})" for k, v in r["out"].items()) + "]"
    cum = "[" + "; ".join(f"({idx[k]}%N, {Q.fhex(float.fromhex(v))})" for k, v in r.get("cum", {}).items()) + "]" \
        if with_cum else "[]"
    return f"(DC {n0} {qlit(r['t'])} {out} {cum})"


def gen_cases(rng, names, stable, n_single, n_mixed, cls, cum_every=3, tmax=30, only=None, progeny=None, ds=None):
    radio = [n for n, s in zip(names, stable) if not s]
    radio_set = set(radio)
    cases = []
    singles = only if only is not None else (radio if n_single >= len(radio) else rng.sample(radio, n_single))
    if only is None and n_single and n_single < len(radio):
        ext = [x for x in extreme_parents(ds) if x in radio_set]
        nz = min(_EXT.get((ds, "zeros"), 0), 20)
        singles = list(singles) + ext[:nz] + rng.sample(ext[nz:], min(len(ext) - nz, max(4, n_single // 8)))
    for n in singles:
        amt = 10 ** rng.uniform(-5, 30)
        cases.append({"cls": cls, "contents": {n: float(amt).hex()}, "unit": "num",
                      "t": float(10 ** rng.uniform(-6, tmax)).hex(), "tunit": "s"})
    for _ in range(n_mixed):
        k = rng.randint(1, 12)
        chosen = rng.sample(names, min(k, len(names)))
        unit = rng.choice(["num", "num", "mol", "g", "kg", "Bq", "Ci"])
        if unit in ("Bq", "Ci") :
            chosen = [c for c in chosen if c in radio] or [rng.choice(radio)]
        if cls == "InventoryHP" and unit in ("Bq", "Ci", "g", "kg"):
            unit = "mol"
        scale = {"num": (0, 30), "mol": (-25, 5), "g": (-20, 6), "kg": (-22, 3), "Bq": (-10, 20), "Ci": (-20, 8)}[unit]
        cont = {c: float(10 ** rng.uniform(*scale)).hex() for c in chosen}
        tunit = rng.choice(U.TIME)
        cases.append({"cls": cls, "contents": cont, "unit": unit, "t": float(10 ** rng.uniform(-9, 12)).hex(), "tunit": tunit})
    # zero time: nothing has decayed yet - the nuclide set, the stable / radioactive split of cumulative decays and the amounts
    for _ in range(2):
        ks = rng.sample(names, min(3, len(names)))
        cases.append({"cls": cls, "contents": {k: float(round(10 ** rng.uniform(3, 12), 2)).hex() for k in ks}, "unit": "num",
                      "t": float(0.0).hex(), "tunit": rng.choice(["s", "y", "h"]), "kind": "zero-time"})
    # tail cases: the decay time is chosen so that the parent's remaining amount N0 * 2^(-t/T) has a target
    # magnitude spread uniformly (in log) over the whole range of normal doubles
    import numpy as np, os
    dd = np.load(npz_path(ds), allow_pickle=True)
    hl = {str(n): h for n, h in zip(dd["nuclides"], dd["hldata"])}
    yr = 86400.0 * float(dd["year_conv"])
    secs = {"s": 1.0, "m": 60.0, "h": 3600.0, "d": 86400.0, "y": yr, "ms": 1e-3, "\u03bcs": 1e-6, "ns": 1e-9, "ps": 1e-12,
            "ky": yr * 1e3, "My": yr * 1e6, "Gy": yr * 1e9}
    ntail = max(2, (n_single if only is None else len(only)) // 6)
    for _ in range(ntail):
        n = rng.choice(radio)
        T = float(hl[n][0]) * secs[str(hl[n][1])]
        amt = 10 ** rng.uniform(10, 30)
        texp = rng.uniform(-305, math.log10(amt))
        if _ % 2 == 1:          # deep tail: what is left is a small NORMAL double
            amt = 10 ** rng.uniform(27, 30)
            texp = rng.uniform(-305, -290)
        t = T * (math.log10(amt) - texp) * math.log2(10.0)
        cases.append({"cls": cls, "contents": {n: float(amt).hex()}, "unit": "num", "t": float(t).hex(), "tunit": "s", "kind": "tail"})
    # history cases: a random interleaving of earlier calculations and in-place changes on the SAME object before
    # the measured call (every in-place entry point: add, subtract, remove by name / id / list)
    nhist = max(3, len(cases) // 5)
    idmap = None
    for _ in range(nhist):
        pool = rng.sample(radio, 5)
        keys = [pool[0]]
        cont0 = {pool[0]: float(10 ** rng.uniform(8, 20)).hex()}
        pre = []
        for step in range(rng.randint(2, 7)):
            if step % 2 == 0 or rng.random() < 0.3:
                pre.append([rng.choice(["decay", "decay", "cumulative_decays", "series", "fractions"]), float(10 ** rng.uniform(0, 8)).hex()])
                continue
            r = rng.random()
            fresh = [x for x in pool if x not in keys]
            if (r < 0.45 or len(keys) < 2) and fresh:
                new = rng.sample(fresh, rng.randint(1, min(2, len(fresh))))
                pre.append(["add", {x: float(10 ** rng.uniform(5, 20)).hex() for x in new}])
                keys += new
            elif r < 0.6 and len(keys) >= 2:
                x = rng.choice(keys); keys.remove(x)
                pre.append([rng.choice(["remove", "remove_id", "remove_nuclide"]), x])
            elif r < 0.8 and len(keys) >= 2:
                xs = rng.sample(keys, rng.randint(1, len(keys) - 1))
                for x in xs:
                    keys.remove(x)
                pre.append(["remove_list", xs])
            else:
                pre.append(["subtract", {rng.choice(keys): float(1.0).hex()}])
        cases.append({"cls": cls, "contents": cont0, "unit": "num",
                      "t": float(10 ** rng.uniform(0, 9)).hex(), "tunit": "s", "pre": pre, "kind": "history"})
    # closed-chain cases: the inventory holds EVERY radioactive member of a decay chain (in-growth between members of the inventory)
    if progeny is None:
        progeny = {str(n): [str(x) for x in pr] for n, pr in zip(dd["nuclides"], dd["progeny"])}
    if True:
        for _ in range(max(2, len(cases) // 10)):
            for _try in range(20):
                root = rng.choice(radio)
                members = [x for x in closure_of(names, progeny, [root]) if x in radio_set]
                if 2 <= len(members) <= 8:
                    break
            else:
                continue
            cases.append({"cls": cls, "contents": {x: float(round(10 ** rng.uniform(5, 20), 3)).hex() for x in members}, "unit": "num",
                          "t": float(round(10 ** rng.uniform(0, 9), 3)).hex(), "tunit": "s", "kind": "closed"})
    if ds:
        import os
        for c in cases:
            if os.path.isdir(ds):
                c["ds"], c["ds_dir"] = "rand", ds
            else:
                c["ds"] = ds
    for i, c in enumerate(cases):
        c["cum"] = (i % cum_every == 0) or c.get("kind") in ("history", "closed", "zero-time")
        c["zero"] = (i % 10 == 0) and "pre" not in c
    return cases


def closure_of(names, progeny, start):
    seen, todo = set(start), list(start)
    while todo:
        x = todo.pop()
        for p in progeny[x]:
            if p != "SF" and p in progeny and p not in seen:
                seen.add(p)
                todo.append(p)
    return seen


def decay_stream(rng, cases, checker, tag, streams, viol, samples, what, shard=24, py_pred=None, ds=None, pre=None, extra_q=()):
    import numpy as np
    import os
    d = np.load(npz_path(ds), allow_pickle=True)
    names = [str(x) for x in d["nuclides"]]
    idx = {n: i for i, n in enumerate(names)}
    progeny = {n: [str(x) for x in pl] for n, pl in zip(names, d["progeny"])}
    impl = U.run_impl("impl_decay.py", cases, timeout=6000)
    terms, tidx, bad_prop = [], [], []
    for k, (c, r) in enumerate(zip(cases, impl)):
        if "err" in r:
            bad_prop.append((k, "decay raised " + r["err"]))
            continue
        want = closure_of(names, progeny, list(r["n0"]))
        if set(r["out"]) != want:
            bad_prop.append((k, f"nuclide set differs from the progeny closure: missing {sorted(want - set(r['out']))[:4]}, unexpected {sorted(set(r['out']) - want)[:4]}"))
        if not r["keys_sorted"]:
            bad_prop.append((k, "decayed nuclides are not in alphabetical order"))
        if r["cls_out"] != c["cls"]:
            bad_prop.append((k, f"decay returned a {r['cls_out']}"))
        if not r["finite"]:
            bad_prop.append((k, "a returned amount is NaN or infinite"))
        for n, a in r["stable_act"].items():
            if float.fromhex(a) != 0.0:
                bad_prop.append((k, f"stable nuclide {n} reports activity {float.fromhex(a)!r}"))
        if "cum" in r:
            st = [n for n in r["cum"] if not progeny.get(n) and n in want and all(False for _ in [])]
            stable_listed = [n for n in r["cum"] if d["hldata"][idx[n]][0] == math.inf]
            if stable_listed:
                bad_prop.append((k, f"stable nuclides listed in cumulative decays: {stable_listed[:3]}"))
        if "zero_out" in r:
            for n, v in r["zero_out"].items():
                if n in r["n0"] and r["n0"][n] is None:
                    continue      # the stored amount is not a rational (SymPy expression): no exact reference here
                v0 = float(Fraction_of(r["n0"].get(n))) if n in r["n0"] and r["n0"][n] else 0.0
                if abs(float.fromhex(v) - v0) > 1e-11 * max(sum(float(Fraction_of(x)) for x in r["n0"].values() if x), 1e-300):
                    bad_prop.append((k, f"decay for zero time changed {n}: {float.fromhex(v)!r} vs {v0!r}"))
                    break
        if py_pred:
            for why in py_pred(c, r):
                bad_prop.append((k, why))
        if any(v is None for v in r["n0"].values()) or r["t"] is None:
            continue
        terms.append(term(c, r, idx))
        tidx.append(k)
    bad, errs = Q.run_cases(tag, pre or PRE, "dcase", terms, checker, shard=shard, timeout=3000, extra_q=extra_q)
    streams[tag] = {"cases": len(cases), "evaluated_in_coq": len(terms), "outside_bound": len(bad),
                    "impl_property_failures": len(bad_prop), "coq_errors": len(errs), "what": what,
                    "chain_sizes": {"max": max((len(r.get("out", {})) for r in impl), default=0)}}
    seen = set()
    for k, why in bad_prop:
        key = why[:40]
        if key in seen:
            continue
        seen.add(key)
        if len(seen) > 5:
            break
        viol.append({"name": f"{tag}-{len(seen)}", "found_input": True, "key": f"{tag}:{why[:60]}",
                     "payload": {"fails": why, "input": cases[k], "impl": {kk: vv for kk, vv in impl[k].items() if kk != 'n0'},
                                 "entry": f"{cases[k]['cls']}.decay / cumulative_decays"}})
    for j in bad[:3]:
        k = tidx[j]
        viol.append({"name": f"{tag}-bound-{j}", "found_input": True, "key": f"{tag}-bound:{json.dumps(cases[k]['contents'], sort_keys=True)[:80]}",
                     "payload": {"fails": "a decayed amount (or cumulative decay count) lies outside the stated bound around the exact solution "
                                          "(interval enclosure from the exact matrices), or the nuclide set is not the closure",
                                 "input": cases[k], "impl": {kk: vv for kk, vv in impl[k].items() if kk != 'n0'},
                                 "entry": f"{cases[k]['cls']}.decay / cumulative_decays", "checker": checker}})
    if errs:
        viol.append({"name": f"{tag}-coq", "found_input": False, "key": f"{tag}-coq",
                     "payload": {"broken": "reference evaluation failed in Coq", "errors": errs[:2]}})
    samples.append({"case": cases[0], "impl_out": dict(list(impl[0].get("out", {}).items())[:4])})
    return impl


def Fraction_of(pq):
    from fractions import Fraction
    return Fraction(int(pq[0]), int(pq[1])) if pq else 0


def flow_stream(rng, ncases, cls, tag, streams, viol, samples):
    """C07: split decays and linear combinations vs the exact flow"""
    import numpy as np, os
    d = np.load(os.path.join(C.REPO, "radioactivedecay/icrp107_ame2020_nubase2020/decay_data.npz"), allow_pickle=True)
    names = [str(x) for x in d["nuclides"]]
    idx = {n: i for i, n in enumerate(names)}
    stable = [float(h[0]) == math.inf for h in d["hldata"]]
    radio = [n for n, s in zip(names, stable) if not s]
    hp = cls == "InventoryHP"
    cases = []
    for _ in range(ncases):
        k = rng.randint(2, 4)
        chosen = rng.sample(radio, rng.randint(1, 3)) + rng.sample(names, rng.randint(0, 2))
        if rng.random() < 0.3 and extreme_parents():
            chosen[0] = rng.choice([x for x in extreme_parents()[:max(1, _EXT.get((None, "zeros"), 1))] if x in radio] or radio)
        cont = {c: float(round(10 ** rng.uniform(3, 25), 3) if hp else 10 ** rng.uniform(0, 28)).hex() for c in set(chosen)}
        ttot = 10 ** rng.uniform(-3, 10)
        cuts = sorted(rng.random() for _ in range(k - 1))
        parts = [b - a for a, b in zip([0.0] + cuts, cuts + [1.0])]
        split = [float(round(p * ttot, 6) if hp else p * ttot).hex() for p in parts]
        other = {c: float(round(10 ** rng.uniform(3, 25), 3) if hp else 10 ** rng.uniform(0, 28)).hex()
                 for c in rng.sample(names, rng.randint(1, 3))}
        a = float(rng.choice([2.0, 3.0, 10.0, 7.0]) if hp else 10 ** rng.uniform(-3, 3)).hex()
        cases.append({"cls": cls, "contents": cont, "unit": "num", "t": float(sum(float.fromhex(s) for s in split)).hex(),
                      "tunit": rng.choice(["s", "h", "d", "y"]), "split": split, "lin": {"a": a, "contents": other}, "zero": True})
    impl = U.run_impl("impl_decay.py", cases, timeout=6000)
    terms_split, terms_lin, tmap, bad_prop, lmap = [], [], [], [], []
    for kk, (c, r) in enumerate(zip(cases, impl)):
        if "err" in r:
            bad_prop.append((kk, "raised " + r["err"]))
            continue
        if set(r["split_out"]) != set(r["out"]) or set(r["lin_comb"]) != set(r["lin_sum"]):
            bad_prop.append((kk, "the nuclide set depends on how the calculation was split up / combined"))
        if "zero_after_other" in r and r["zero_after_other"] != r["zero_out"]:
            n = next((k for k in r["zero_after_other"] if r["zero_after_other"][k] != r["zero_out"].get(k)), "?")
            bad_prop.append((kk, f"zero-time decay no longer leaves the amounts unchanged after ANOTHER inventory (holding {sorted(r['zero_other'])}) "
                                 f"accumulated its decays: {n} = {float.fromhex(r['zero_after_other'][n])!r} instead of {float.fromhex(r['zero_out'].get(n, float(0).hex()))!r}"))
        if r.get("split_t") and all(v is not None for v in r["n0"].values()):
            k = len(c["split"])
            r2 = dict(r, out=r["split_out"], t=r["split_t"])
            terms_split.append((k, term(c, r2, idx, with_cum=False)))
            tmap.append(kk)
        if all(v is not None for v in r["lin_n0"].values()) and r["t"] is not None:
            r3 = dict(r, n0=r["lin_n0"], out=r["lin_sum"])
            terms_lin.append(term(c, r3, idx, with_cum=False)); lmap.append((kk, "a*X.decay(t) + Y.decay(t)"))
            r4 = dict(r, n0=r["lin_n0"], out=r["lin_comb"])
            terms_lin.append(term(c, r4, idx, with_cum=False)); lmap.append((kk, "(a*X + Y).decay(t)"))
        if all(v is not None for v in r["inpl_n0"].values()) and r["t"] is not None:
            r5 = dict(r, n0=r["inpl_n0"], out=r["inpl_out"])
            terms_lin.append(term(c, r5, idx, with_cum=False)); lmap.append((kk, "X.decay(t); X.cumulative_decays(t); X.add(Y); X.decay(t)"))
    bad = []
    errs = []
    for k in (2, 3, 4):
        ts = [t for kq, t in terms_split if kq == k]
        chk = f"{'check_hp_decay_k' if hp else 'check_float_decay_k'} {k}%positive Default"
        b, e = Q.run_cases(f"{tag}_s{k}", PRE, "dcase", ts, chk, shard=6 if not hp else 2, timeout=3000)
        ks = [j for j, (kq, _) in enumerate(terms_split) if kq == k]
        bad += [("split", k, i, (tmap[ks[i]], "decay(t1)...decay(tk)")) for i in b]
        errs += e
    chk = f"{'check_hp_decay_k' if hp else 'check_float_decay_k'} 3%positive Default"
    b, e = Q.run_cases(f"{tag}_lin", PRE, "dcase", terms_lin, chk, shard=6 if not hp else 2, timeout=3000)
    bad += [("linear", 3, i, lmap[i]) for i in b]
    errs += e
    streams[tag] = {"cases": len(cases), "split_checked": len(terms_split), "linear_checked": len(terms_lin),
                    "outside_bound": len(bad), "impl_property_failures": len(bad_prop), "coq_errors": len(errs),
                    "what": "decay(t1)...decay(tk) (k<=4) vs the exact flow at t1+...+tk; (a*X+Y).decay(t) and a*X.decay(t)+Y.decay(t) "
                            "vs the exact flow of a*X+Y; X.add(Y) in place after earlier calculations on X, then decay(t), vs the exact flow of X+Y; bound = k x the single-call bound; "
                            "zero-time decay repeated after ANOTHER inventory holding the chain's stable end members accumulated its decays (bit-identical)"}
    for kk, why in bad_prop[:3]:
        viol.append({"name": f"{tag}-{len(viol)}", "found_input": True, "key": f"{tag}:{why[:50]}",
                     "payload": {"fails": why, "input": cases[kk], "entry": f"{cls}.decay composition"}})
    for kind, k, i, (kk, how) in bad[:3]:
        viol.append({"name": f"{tag}-{kind}-{i}", "found_input": True, "key": f"{tag}-{kind}:{i}",
                     "payload": {"fails": f"{kind} composition (k={k}) lies outside k x the bound around the exact flow: {how}",
                                 "input": cases[kk], "observed": {q: impl[kk].get(q) for q in ("out", "split_out", "lin_comb", "lin_sum", "inpl_out")},
                                 "case_index_in_stream": i,
                                 "entry": f"{cls}.decay composition"}})
    if errs:
        viol.append({"name": f"{tag}-coq", "found_input": False, "key": f"{tag}-coq",
                     "payload": {"broken": "reference evaluation failed in Coq", "errors": errs[:2]}})
    samples.append({"case": cases[0]})


def parent_tail_pred(ds=None):
    """python predicate for single-parent cases: the parent's own remaining amount is N0 * 2^(-t/T) with T from the half-life
    TABLE (no cancellation is involved, so the high-precision class must deliver it to 1e-13 of ITSELF at every magnitude of a normal double;
    the float class to 1e-11 of the initial amount).  Evaluated with 60-digit arithmetic on the exact rationals the implementation stored."""
    import numpy as np, mpmath
    from decimal import Decimal
    from fractions import Fraction
    dd = np.load(npz_path(ds), allow_pickle=True)
    yr = Fraction(Decimal(repr(float(dd["year_conv"]))))
    units = {"ps": Fraction(1, 10**12), "ns": Fraction(1, 10**9), "\u03bcs": Fraction(1, 10**6), "ms": Fraction(1, 10**3), "s": Fraction(1),
             "m": Fraction(60), "h": Fraction(3600), "d": Fraction(86400), "y": 86400 * yr, "ky": 86400 * yr * 10**3,
             "My": 86400 * yr * 10**6, "Gy": 86400 * yr * 10**9}
    hl = {str(n): (Fraction(Decimal(repr(float(h[0])))) * units[str(h[1])] if float(h[0]) != math.inf and str(h[1]) in units else None)
          for n, h in zip(dd["nuclides"], dd["hldata"])}

    def pred(c, r):
        if len(c["contents"]) != 1 or c.get("pre") or r.get("t") is None:
            return []
        (name, n0), = r["n0"].items()
        if n0 is None or hl.get(name) is None or name not in r["out"]:
            return []
        mpmath.mp.dps = 60
        N0 = mpmath.mpf(int(n0[0])) / int(n0[1])
        t = mpmath.mpf(int(r["t"][0])) / int(r["t"][1])
        T = mpmath.mpf(hl[name].numerator) / hl[name].denominator
        want = N0 * mpmath.power(2, -t / T)
        got = mpmath.mpf(float.fromhex(r["out"][name]))
        if want < mpmath.mpf(2) ** -1021:          # below the smallest normal double: excepted by the property
            return []
        # high precision: relative to the result; double precision: relative to the initial atoms (the property's forward-error bound)
        tol = mpmath.mpf("1e-13") * want if c["cls"] == "InventoryHP" else mpmath.mpf("1e-11") * N0
        if abs(got - want) > tol:
            return [f"the parent's remaining amount is {float(got)!r}, N0 * 2^(-t/T) from the half-life table is {float(want)!r}"]
        return []
    return pred


def data_witness_probe(pid, classes=("Inventory", "InventoryHP")):
    """Failing-input search when the data certificate no longer checks: the certificate's own witnesses (indices named by
    Model/FindBad.v) are turned into requests against the implementation whose expectation comes from the half-life TABLE
    alone: decaying a lone radionuclide for its listed half-life leaves half of it (float: 16 ulp, high precision: 1e-13)."""
    import re, sys, os
    sys.path.insert(0, os.path.join(C.TOOLS, "props"))
    import C04
    res, detail, rc = C04.find_bad()
    failing = [k for k, v in res.items() if v == "false"]
    idxs = sorted({int(x) for x in re.findall(r"(\d+)%N", detail)})
    names, stable = U.dataset_names()
    # the witnesses themselves and their neighbours in the decay network (a failing row names the progeny, the edit may sit at the parent)
    import numpy as np
    dd = np.load(npz_path(None), allow_pickle=True)
    prog = {str(n): [str(x) for x in pl if str(x) != "SF"] for n, pl in zip(dd["nuclides"], dd["progeny"])}
    wit = [names[i] for i in idxs if 20 <= i < len(names)] or [names[i] for i in idxs if i < len(names)]
    near = [p for p, pl in prog.items() if any(w in pl for w in wit)] + [c for w in wit for c in prog.get(w, [])]
    radio_set = {n for n, s_ in zip(names, stable) if not s_}
    cand = [x for x in dict.fromkeys(near + wit) if x in radio_set][:12]
    if not cand:
        return []
    found = []
    if pid == "C03":
        st, vv = {}, []
        balance_stream(random.Random(0), 0, st, vv, [], only=cand[:12])
        for v in vv:
            found.append(dict(v["payload"], name="data-" + v["name"], key="data-" + v["key"], failing_certificate_components=failing))
        if found:
            return found
    req = {"cases": [], "units": ["s", "y", "d"], "halving": cand if "Inventory" in classes else [],
           "hp": cand if "InventoryHP" in classes else [], "hp_units": ["s", "y", "d"], "bad_units": []}
    impl = U.run_impl("impl_time.py", req, timeout=3000)
    for cls, rows, tol in (("Inventory", impl["halving"], 16 * 2 ** -53), ("InventoryHP", impl["hp"], 1e-13)):
        for row in rows:
            for u, v in row["left"].items():
                x = float.fromhex(v)
                if abs(x - 0.5) > tol * 0.5 + (0 if cls == "InventoryHP" else tol):
                    found.append({"name": f"data-halving-{len(found)}", "key": f"data-halving:{cls}:{row['name']}:{u}",
                                  "fails": f"{cls}({{'{row['name']}': 1.0}}, 'num').decay(half_life('{row['name']}', '{u}'), '{u}') leaves {x!r} of the "
                                           f"nuclide, not 0.5: the data the calculation uses disagree with the listed half-life",
                                  "input": {"cls": cls, "nuclide": row["name"], "unit": u},
                                  "failing_certificate_components": failing, "witness_indices": idxs[:20]})
                    break
            if len(found) >= 3:
                return found
    return found


def replay_case(c, checker=None):
    """re-run one recorded decay / cumulative case against the current tree (data set and class from the case)"""
    ds = c.get("ds")
    dsname = "Synth" if ds == "synth" else "Default"
    chk = checker or (("check_hp_decay " if c.get("cls") == "InventoryHP" else "check_float_decay ") + dsname)
    streams, viol, samples = {}, [], []
    decay_stream(random.Random(0), [dict(c)], chk, "replay", streams, viol, samples, "replay", shard=1, ds=ds,
                 pre=PRE.replace("Model.Default", "Model.Default Model.Synth"),
                 py_pred=parent_tail_pred(ds) if c.get("cls") == "InventoryHP" else None)
    return {"fails": bool(viol), "streams": streams, "violations": [v["payload"].get("fails") for v in viol]}


def balance_stream(rng, n, streams, viol, samples, only=None):
    """C03, the atom-balance clause on the implementation with the data set's own branching fractions (independent of the matrices
    of the model): amount(t) - amount(0) = - own cumulative decays + sum over parents of bf x their cumulative decays."""
    import numpy as np
    names, stable = names_of(None)
    radio = [x for x, s in zip(names, stable) if not s]
    d = np.load(npz_path(None), allow_pickle=True)
    hl = {str(a): U.half_life_seconds(float(h[0]), str(h[1]), float(d["year_conv"])) for a, h in zip(d["nuclides"], d["hldata"]) if float(h[0]) != math.inf}
    pick = only if only is not None else (rng.sample(radio, n) + [x for x in extreme_parents()[:13] if x in radio][:6])
    cases = []
    for nuc in pick:
        cases.append({"nuc": nuc, "t": float(hl[nuc] * rng.choice([0.3, 1.0, 3.0, 20.0])).hex(), "cls": "Inventory"})
    for nuc in pick[:2]:
        cases.append({"nuc": nuc, "t": float(hl[nuc]).hex(), "cls": "InventoryHP"})
    res = U.run_impl("impl_balance.py", {"cases": cases}, timeout=3000)
    bad = []
    for c, r in zip(cases, res):
        if "err" in r:
            bad.append((c, "raised " + r["err"]))
        elif r["stable_listed"]:
            bad.append((c, f"stable nuclides listed in cumulative decays: {r['stable_listed'][:3]}"))
        elif r["worst"] > 1e-9:
            bad.append((c, f"atom balance open for {r['who']}: imbalance {r['worst']:.3e} of the initial atoms"))
    streams["atom_balance"] = {"cases": len(cases), "impl_property_failures": len(bad),
                               "what": "lone parents (random + the structurally extreme ones), decay and cumulative_decays over the same time: for every nuclide "
                                       "amount(t) - amount(0) = -own decays + sum_p bf(p->i) x decays of p, with the data set's pairwise branching fractions (1e-9 x atoms)"}
    for c, why in bad[:3]:
        viol.append({"name": f"balance-{len(viol)}", "found_input": True, "key": f"balance:{c['nuc']}:{why[:30]}",
                     "payload": {"fails": why, "input": c, "entry": "decay + cumulative_decays + branching_fraction"}})
    return bad
