"""C05/C06/C14/C15 float-class correspondence: generated functions evaluated in Coq (PrimFloat,
bit-exact) vs the implementation."""
import json
import math
import os
import random
import subprocess

import common as C
import coqcases as Q

ACT = ["pBq", "nBq", "μBq", "uBq", "mBq", "Bq", "kBq", "MBq", "GBq", "TBq", "PBq", "EBq", "pCi", "nCi", "μCi", "uCi",
       "mCi", "Ci", "kCi", "MCi", "GCi", "TCi", "PCi", "ECi", "dpm"]
MASS = ["pg", "ng", "μg", "ug", "mg", "g", "kg", "Mg", "t", "ton"]
MOL = ["pmol", "nmol", "μmol", "umol", "mmol", "mol", "kmol", "Mmol"]
TIME = ["ps", "ns", "μs", "us", "ms", "s", "m", "h", "d", "y", "sec", "second", "seconds", "hr", "hour", "hours",
        "day", "days", "yr", "year", "years", "ky", "My", "By", "Gy", "Ty", "Py"]


def dataset_names():
    import numpy as np
    d = np.load(os.path.join(C.REPO, "radioactivedecay/icrp107_ame2020_nubase2020/decay_data.npz"), allow_pickle=True)
    names = [str(x) for x in d["nuclides"]]
    stable = [float(h[0]) == math.inf for h in d["hldata"]]
    return names, stable


def run_impl(script, payload, timeout=1800):
    p = subprocess.run([C.PY, os.path.join(C.TOOLS, script)], input=json.dumps(payload), text=True,
                       stdout=subprocess.PIPE, stderr=subprocess.PIPE, env=C.IMPL_ENV, cwd="/tmp", timeout=timeout)
    if p.returncode != 0:
        raise RuntimeError(f"{script} failed: {p.stderr[-2000:]}")
    return json.loads(p.stdout)


PRE_UNITS = ("From Coq Require Import ZArith NArith List PrimFloat.\nImport ListNotations.\n"
             "From RD Require Import Base Model.Dataset Model.Default Model.Units Model.UnitsCheck.\n"
             "Definition lam := Eval vm_compute in default_lam Default.\n")


def units_stream(rng, per_unit, streams, viol, samples):
    names, stable = dataset_names()
    cases = []
    for kind, units in (("activity", ACT), ("mass", MASS), ("moles", MOL), ("num", ["num"])):
        for u in units:
            idxs = rng.sample(range(len(names)), per_unit)
            for i in idxs:
                x = 10 ** rng.uniform(-25, 25) if rng.random() < 0.9 else float(rng.choice([0, 1, 2, 1e-300, 5e-324, 1e300]))
                cases.append({"nuc": names[i], "unit": u, "kind": kind, "amount": float(x).hex(), "stable": stable[i]})
    # the same composition through the high-precision class (predicate only: read-back within a few ulp)
    hp_cases = []
    for c in cases[::max(1, len(cases) // (400 if per_unit > 20 else 130))]:
        x = float(f"{10 ** rng.uniform(-25, 25):.6g}")     # the high-precision class takes its inputs to 15 significant digits
        hp_cases.append(dict(c, hp=True, amount=float(x).hex()))
    hp_impl = run_impl("impl_units.py", hp_cases)
    fl_impl = run_impl("impl_units.py", [dict(c, hp=False) for c in hp_cases])      # the same requests through the double-precision class
    hp_bad = []
    for c, r, rf in zip(hp_cases, hp_impl, fl_impl):
        if "err" not in r and "err" not in rf:
            nh, nf = float.fromhex(r["num"]), float.fromhex(rf["num"])
            if abs(nh - nf) > 1e-12 * max(abs(nh), abs(nf)):
                hp_bad.append((c, r, f"the two classes disagree on the atoms for {float.fromhex(c['amount'])!r} {c['unit']}: "
                                     f"InventoryHP {nh!r}, Inventory {nf!r} (their unit tables must define the same unit)"))
                continue
    for c, r in zip(hp_cases, hp_impl):
        if "err" in r:
            if not (r["err"] == "ValueError" and c["kind"] == "activity" and c["stable"]):
                hp_bad.append((c, r, "unexpected exception (high-precision class)"))
            continue
        x = float.fromhex(c["amount"]); back = float.fromhex(r["back"])
        if abs(back - x) > 8 * math.ulp(x):
            hp_bad.append((c, r, f"InventoryHP read-back {back!r} differs from {x!r} by more than 8 ulp"))
        a2 = float.fromhex(r["add"]); n1 = float.fromhex(r["num"])
        if abs(a2 - 2 * n1) > 8 * math.ulp(2 * n1) or abs(float.fromhex(r["sub"]) - n1) > 8 * math.ulp(n1):
            hp_bad.append((c, r, "InventoryHP add()/subtract() of the same quantity does not give 2x / 1x the atoms"))
    impl = run_impl("impl_units.py", cases)
    kinds = {"activity": 0, "mass": 1, "moles": 2, "num": 3}
    terms, prop_bad = [], []
    for c, r in zip(cases, impl):
        z = "0%float"
        if "err" in r:
            err = r["err"]
            # property: an activity for a stable nuclide is refused with ValueError; nothing else may fail
            if not (err == "ValueError" and c["kind"] == "activity" and c["stable"]):
                prop_bad.append((c, r, "unexpected exception"))
            terms.append(f"(UC {Q.cstr(c['nuc'])} {Q.cstr(c['unit'])} {kinds[c['kind']]}%N {Q.fhex(float.fromhex(c['amount']))} "
                         f"{'true' if err == 'ValueError' else 'false'} {z} {z} {z} {z} {z})")
        else:
            f = lambda k: Q.fhex(float.fromhex(r[k]))
            terms.append(f"(UC {Q.cstr(c['nuc'])} {Q.cstr(c['unit'])} {kinds[c['kind']]}%N {Q.fhex(float.fromhex(c['amount']))} "
                         f"false {f('num')} {f('back')} {f('base')} {f('add')} {f('sub')})")
            # property predicate on the implementation itself: read-back within a few ulp
            x = float.fromhex(c["amount"]); back = float.fromhex(r["back"])
            if x > 1e-290 and x < 1e290 and math.isfinite(back):
                if abs(back - x) > 8 * math.ulp(x):
                    prop_bad.append((c, r, f"read-back {back!r} differs from {x!r} by more than 8 ulp"))
    bad, errs = Q.run_cases("units", PRE_UNITS, "ucase", terms, "check_ucase Default lam")
    streams["units_float_bitexact"] = {"cases": len(cases), "model_disagrees": len(bad), "impl_property_failures": len(prop_bad),
                                       "coq_errors": len(errs), "by_kind": {k: sum(1 for c in cases if c["kind"] == k) for k in kinds},
                                       "what": "Inventory({nuc: x}, unit): stored atoms, read-out in the same unit and in the base unit, add(), subtract(); every unit"}
    streams["units_hp_readback"] = {"cases": len(hp_cases), "impl_property_failures": len(hp_bad),
                                    "what": "InventoryHP({nuc: x}, unit) -> read-out in the same unit within 8 ulp; add/subtract in that unit; amounts 1e-25..1e25"}
    for c, r, why in (prop_bad + hp_bad)[:3] if False else (hp_bad[:2] + prop_bad[:3]):
        viol.append({"name": f"units-{len(viol)}", "found_input": True, "key": f"units:{c['nuc']}:{c['unit']}:{'hp' if c.get('hp') else 'f'}",
                     "payload": {"fails": why, "input": c, "impl": r, "entry": "Inventory(...).numbers()/activities()/masses()/moles()"}})
    for i in bad[:3]:
        viol.append({"name": f"units-model-{i}", "found_input": False, "key": f"units-model:{cases[i]['nuc']}:{cases[i]['unit']}",
                     "payload": {"broken": "generated float model and implementation disagree bit-for-bit", "input": cases[i], "impl": impl[i]}})
    if errs:
        viol.append({"name": "units-coq", "found_input": False, "key": "units-coq",
                     "payload": {"broken": "model evaluation failed in Coq", "errors": errs[:2]}})
    samples += [{"case": cases[i], "impl": impl[i]} for i in (0, len(cases) // 2)]


PRE_Q = ("From Coq Require Import ZArith NArith List PrimFloat.\nImport ListNotations.\n"
         "From RD Require Import Base Model.Dataset Model.Default Model.Queries.\n")


def half_life_seconds(value, unit, year_days):
    """a listed half-life (value, storage unit) in seconds, by the documented unit definitions (correctly rounded)"""
    from fractions import Fraction
    from decimal import Decimal
    yr = Fraction(Decimal(repr(float(year_days)))) * 86400
    secs = {"ps": Fraction(1, 10**12), "ns": Fraction(1, 10**9), "μs": Fraction(1, 10**6), "us": Fraction(1, 10**6), "ms": Fraction(1, 10**3),
            "s": Fraction(1), "m": Fraction(60), "h": Fraction(3600), "d": Fraction(86400), "y": yr, "ky": yr * 10**3, "My": yr * 10**6,
            "By": yr * 10**9, "Gy": yr * 10**9, "Ty": yr * 10**12, "Py": yr * 10**15}[unit]
    return float(Fraction(Decimal(repr(float(value)))) * secs)


def readable_denotes(readable, seconds, year_days):
    """does the human-readable half-life ('32.76 ky', '100.5 d', 'stable') denote the numeric one (in seconds)?
    Independent of the library: documented unit definitions, half a unit of the last displayed digit of tolerance."""
    from fractions import Fraction
    from decimal import Decimal
    if readable == "stable":
        return seconds == math.inf
    if seconds == math.inf:
        return False
    try:
        val, unit = readable.split(" ")
        yr = Fraction(Decimal(repr(float(year_days)))) * 86400
        secs = {"ps": Fraction(1, 10**12), "ns": Fraction(1, 10**9), "μs": Fraction(1, 10**6), "us": Fraction(1, 10**6), "ms": Fraction(1, 10**3),
                "s": Fraction(1), "m": Fraction(60), "h": Fraction(3600), "d": Fraction(86400), "y": yr, "ky": yr * 10**3, "My": yr * 10**6,
                "By": yr * 10**9, "Gy": yr * 10**9, "Ty": yr * 10**12, "Py": yr * 10**15}[unit]
        d = Decimal(val)
        quantum = Fraction(1, 2) * Fraction(10) ** d.as_tuple().exponent if d.as_tuple().exponent < 0 else Fraction(1, 2)
        if "e" in val.lower():
            mant = Decimal(val.lower().split("e")[0])
            quantum = Fraction(1, 2) * Fraction(10) ** (mant.as_tuple().exponent + int(val.lower().split("e")[1]))
        return abs(Fraction(d) * secs - Fraction(seconds)) <= quantum * secs * (1 + Fraction(1, 10**9))
    except Exception:
        return False


def queries_stream(rng, thorough, streams, viol, samples, ds=None):
    """C15: exhaustive over all nuclides: half-lives in every unit (bit-exact vs the Coq float model),
    readable string, lists through the three interfaces, pairwise look-ups inside each chain vs the data file."""
    import numpy as np
    d = np.load(os.path.join(C.SCRATCH, "synth", "decay_data.npz") if ds == "synth" else
                os.path.join(C.REPO, "radioactivedecay/icrp107_ame2020_nubase2020/decay_data.npz"), allow_pickle=True)
    names = [str(x) for x in d["nuclides"]]
    tag = "queries" + ("_" + ds if ds else "")
    units = TIME if thorough else (["s", "y"] + rng.sample(TIME, 6))
    year_nucs = [str(n) for n, h in zip(d["nuclides"], d["hldata"]) if str(h[1]) == "y"][:3]
    other = [str(n) for n, h in zip(d["nuclides"], d["hldata"]) if str(h[1]) in ("d", "h") and float(h[0]) != math.inf][:3]
    req = {"units": TIME, "pairs": True}
    if ds:
        req["ds"] = ds
        units = TIME
    else:
        req.update(second_dataset=year_nucs[:2] + other[:1], second_probe=year_nucs[2:] + other[1:])
    impl = run_impl("impl_queries.py", req)
    second = impl.pop()["second"] if not ds else []
    terms, bad_prop = [], []
    for r in second:
        for got, exp, lab in ((r["default"], r["expect_default"], "default data set"), (r["default_again"], r["expect_default"], "default data set (after querying a second data set)"),
                              (r["copy"], r["expect_copy"], "second data set (other days-per-year / half-lives)"),
                              (r["copy_nuclide"], r["expect_copy"], "second data set through Nuclide")):
            if not (got == exp or abs(got - exp) <= 4 * math.ulp(exp)):
                bad_prop.append((r["nuc"], f"half_life({r['nuc']!r}, {r['unit']!r}) of the {lab} is {got!r}, its stored half-life converts to {exp!r}", r))
                break
    n_pairs = 0
    for i, r in enumerate(impl):
        name = names[i]
        for mm in r["iface_mismatch"]:
            bad_prop.append((name, "interfaces disagree", mm))
        # lists vs the data file
        if r["progeny"] != [str(x) for x in d["progeny"][i]] or r["modes"] != [str(x) for x in d["modes"][i]] \
                or r["bfs"] != [float(x).hex() for x in d["bfs"][i]]:
            bad_prop.append((name, "progeny/bfs/modes differ from the data set", [r["progeny"], r["bfs"], r["modes"]]))
        rd_str = r["hl"]["readable"][4:] if r["hl"]["readable"].startswith("str:") else None
        if rd_str is not None and not r["hl"]["s"].startswith(("ERR", "str")) and \
                not readable_denotes(rd_str, float.fromhex(r["hl"]["s"]), float(d["year_conv"])):
            bad_prop.append((name, f"the readable half-life {rd_str!r} does not denote the numeric half-life {float.fromhex(r['hl']['s'])!r} s", r["hl"]["readable"]))
        if r["mass"] != float(d["masses"][i]).hex():
            bad_prop.append((name, "atomic mass differs from the data set", r["mass"]))
        bf = [float.fromhex(x) for x in r["bfs"]]
        if any(bf[k] < bf[k + 1] for k in range(len(bf) - 1)):
            bad_prop.append((name, "branching fractions not in decreasing order", r["bfs"]))
        # pairwise look-ups
        links = dict(zip(r["progeny"], zip(r["bfs"], r["modes"])))
        for other, v in r["pairs"].items():
            n_pairs += 1
            want = [links[other][0], links[other][1]] if other in links else [float(0).hex(), ""]
            if v != want:
                bad_prop.append((name, f"look-up ({name} -> {other})", {"got": v, "want": want}))
        vals = "; ".join(f"({Q.cstr(u)}, {Q.fhex(float.fromhex(r['hl'][u]))})" for u in units
                         if not r["hl"][u].startswith(("ERR", "str")))
        if any(r["hl"][u].startswith("ERR") for u in TIME):
            bad_prop.append((name, "half_life raised", r["hl"]))
        terms.append(f"(HC {Q.cstr(name)} [{vals}] {Q.cstr(r['hl']['readable'][4:])})")
    bad, errs = Q.run_cases(tag, PRE_Q.replace("Model.Default", "Model.Default Model.Synth"), "hlcase", terms,
                            "check_hlcase " + ("Synth" if ds == "synth" else "Default"), shard=100)
    streams[tag] = {"cases": len(impl) * (len(units) + 1), "nuclides": len(impl), "units_checked_in_coq": len(units),
                          "pairs": n_pairs, "model_disagrees": len(bad), "impl_property_failures": len(bad_prop),
                          "coq_errors": len(errs), "exhaustive": True,
                          "what": "all nuclides x time units (+readable) through DecayData/Nuclide/Inventory; all pairs inside each chain"
                            + (" - on the synthetic data set (states p q r x, every storage unit, 365.25-day year)" if ds else "")}
    for name, why, det in bad_prop[:4]:
        viol.append({"name": f"{tag}-{len(viol)}", "found_input": True, "key": f"query:{name}:{why}",
                     "payload": {"fails": why, "input": name, "detail": det, "entry": "DecayData/Nuclide/Inventory queries"}})
    for i in bad[:3]:
        viol.append({"name": f"query-model-{i}", "found_input": False, "key": f"query-model:{names[i]}",
                     "payload": {"broken": "half-life model (Model/Queries.v + generated time_unit_conv) and implementation disagree bit-for-bit",
                                 "input": names[i], "impl": impl[i]["hl"]}})
    if errs:
        viol.append({"name": "queries-coq", "found_input": False, "key": "queries-coq",
                     "payload": {"broken": "model evaluation failed in Coq", "errors": errs[:2]}})
    samples += [{"nuclide": impl[k]["name"], "half_lives": dict(list(impl[k]["hl"].items())[:4])} for k in (0, min(700, len(impl) - 1))]


PRE_T = ("From Coq Require Import ZArith NArith List PrimFloat.\nImport ListNotations.\n"
         "From RD Require Import Base Lib.Py Model.Dataset Model.Default Model.Units Model.UnitsCheck.\n"
         "Definition chk (c : str * float * float) : bool := let '(u, t, s) := c in\n"
         "  match f_decay_time Default t u with OK x => feq x s | _ => false end.\n")


def time_stream(rng, thorough, streams, viol, samples):
    names, stable = dataset_names()
    radio = [n for n, s in zip(names, stable) if not s]
    cases = []
    for u in TIME:
        for _ in range(40 if thorough else 8):
            t = 10 ** rng.uniform(-12, 12)
            cases.append({"nuc": rng.choice(radio), "t": float(t).hex(), "unit": u})
    import numpy as np
    dd = np.load(os.path.join(C.REPO, "radioactivedecay/icrp107_ame2020_nubase2020/decay_data.npz"), allow_pickle=True)
    by_unit = {}
    for n, h in zip(dd["nuclides"], dd["hldata"]):
        if float(h[0]) != math.inf:
            by_unit.setdefault(str(h[1]), []).append(str(n))
    rare = [n for u, l in by_unit.items() for n in l[:3]]          # every storage unit is represented
    halving = radio if thorough else sorted(set(rng.sample(radio, 150) + rare))
    hp = rng.sample(radio, 12 if thorough else 2)
    hp_units = TIME if thorough else rng.sample(TIME, 6)
    bad_units = ["", "S", "Y", "sec ", "minutes", "min", "w", "a", "Ky", "ks", "yrs", "µs", "Sec", "Bq", "num", "readable "]
    impl = run_impl("impl_time.py", {"cases": cases, "units": TIME, "halving": halving, "hp": hp, "hp_units": hp_units, "bad_units": bad_units},
                    timeout=3000)
    terms, bad_prop = [], []
    for c, r in zip(cases, impl["cases"]):
        if "err" in r:
            bad_prop.append((c, "a supported time unit was refused: " + r["err"]))
            terms.append(f"({Q.cstr(c['unit'])}, {Q.fhex(float.fromhex(c['t']))}, nan)")
            continue
        for k in ("decay_same", "cum_same", "series_same"):
            if not r[k]:
                bad_prop.append((c, f"{k}: result for t {c['unit']} differs from the result for the equivalent seconds"))
        terms.append(f"({Q.cstr(c['unit'])}, {Q.fhex(float.fromhex(c['t']))}, {Q.fhex(float.fromhex(r['secs']))})")
    nhalf = 0
    for row in impl["halving"] + impl["hp"]:
        for u, v in row["left"].items():
            nhalf += 1
            x = float.fromhex(v)
            if abs(x - 0.5) > 16 * 2 ** -53:
                bad_prop.append(({"nuc": row["name"], "unit": u}, f"decaying for the reported half-life leaves {x!r}, not 0.5"))
    for b in impl["bad_units"]:
        bad_prop.append(({"unit": b[0], "entry": b[1]}, "unknown time unit not refused with ValueError: " + b[2]))
    bad, errs = Q.run_cases("time", PRE_T, "str * float * float", terms, "chk")
    streams["time_units"] = {"cases": len(cases), "halving_cases": nhalf, "bad_units": len(bad_units) * 4,
                             "model_disagrees": len(bad), "impl_property_failures": len(bad_prop), "coq_errors": len(errs),
                             "what": "27 unit strings x random times: seconds bit-exact vs generated time_unit_conv; decay / cumulative_decays / "
                                     "time series identical to the call in seconds; halving for every unit; unknown units refused"}
    for c, why in bad_prop[:4]:
        viol.append({"name": f"time-{len(viol)}", "found_input": True, "key": f"time:{json.dumps(c, sort_keys=True)}:{why[:40]}",
                     "payload": {"fails": why, "input": c, "entry": "decay/cumulative_decays/decay_time_series/half_life"}})
    for i in bad[:3]:
        viol.append({"name": f"time-model-{i}", "found_input": False, "key": f"time-model:{cases[i]['unit']}",
                     "payload": {"broken": "generated time_unit_conv (float) and implementation disagree bit-for-bit", "input": cases[i],
                                 "impl": impl["cases"][i]}})
    if errs:
        viol.append({"name": "time-coq", "found_input": False, "key": "time-coq",
                     "payload": {"broken": "model evaluation failed in Coq", "errors": errs[:2]}})
    samples += [{"case": cases[0], "impl": impl["cases"][0]}]


PRE_F = ("From Coq Require Import ZArith NArith List PrimFloat.\nImport ListNotations.\n"
         "From RD Require Import Base Lib.Py Model.Dataset Model.Default Model.Units Model.UnitsCheck.\n"
         "Definition lam := Eval vm_compute in default_lam Default.\n"
         "From RD Require Import Lib.Num.\n"
         "Definition same (r : res (list (str * pyf))) (e : list float) : bool :=\n"
         "  match r with OK l => Nat.eqb (length l) (length e) && forallb (fun ab => feq (fst (snd (fst ab))) (snd ab)) (combine l e) | _ => false end.\n"
         "Definition chk (c : list (str * pyf) * (list float * list float * list float)) : bool :=\n"
         "  let '(cont, (a, m, n)) := c in\n"
         "  same (pf_activity_fractions Default lam cont) a && same (pf_mass_fractions Default cont) m && same (pf_mole_fractions cont) n.\n")


def fractions_stream(rng, thorough, streams, viol, samples):
    names, stable = dataset_names()
    radio = [n for n, s in zip(names, stable) if not s]
    ncase = 1500 if thorough else 160
    cases = []
    for k in range(ncase):
        n = rng.randint(1, 40)
        pool = radio if rng.random() < 0.5 else names
        chosen = rng.sample(pool, min(n, len(pool)))
        if not any(c in radio for c in chosen):
            chosen[0] = rng.choice(radio)
        center = rng.uniform(-10, 20)
        cont = {c: float(10 ** (center + rng.uniform(-20, 20))).hex() for c in chosen}
        unit = rng.choice(["num", "mol", "g", "kg", "Mmol"]) if any(c not in radio for c in chosen) else \
            rng.choice(["num", "Bq", "Ci", "g", "mol", "dpm"])
        decay = float(10 ** rng.uniform(-3, 12)).hex() if rng.random() < 0.4 else None
        cases.append({"contents": cont, "unit": unit, "decay": decay, "scale": float(2.0 ** rng.randint(-30, 30)).hex(),
                      "hp": (k % (25 if thorough else 40) == 0) and len(chosen) <= 6})
    # both classes on small inventories whose amounts are small or large in the creation unit (6 significant digits)
    for k in range(40 if thorough else 10):
        chosen = rng.sample(radio, rng.randint(2, 4))
        mag = rng.choice([-22, -18, -12, -6, 0, 6, 15])
        unit = rng.choice(["Bq", "g", "mol", "kBq", "mg", "num"])
        spread = 2 if k % 2 == 0 else 30      # every other one spans 30 orders of magnitude: shares far below 1e-16
        cont = {c: float(f"{10 ** (mag + rng.uniform(0, spread)):.5g}").hex() for c in chosen}
        cases.append({"contents": cont, "unit": unit, "decay": None, "scale": float(4.0).hex(), "hp": True})
    impl = run_impl("impl_fractions.py", cases, timeout=3000)
    terms, idxmap, bad_prop = [], [], []
    for k, (c, r) in enumerate(zip(cases, impl)):
        if "err" in r:
            bad_prop.append((c, "fractions raised: " + r["err"]))
            continue
        fr = r["fr"]
        if any(isinstance(fr[x], str) for x in fr):
            # a zero total (e.g. fully decayed) is outside the property's hypothesis
            continue
        keys = list(r["numbers"])
        for kind, ro in (("activity", r["readouts"]["activity"]), ("mass", r["readouts"]["mass"]), ("mole", r["numbers"])):
            vals = [float.fromhex(fr[kind][n]) for n in keys]
            ro_v = [float.fromhex(ro[n]) for n in keys]
            tot = sum(ro_v)
            if min(ro_v) < 0 or tot <= 0:
                continue      # negative rounding noise after a decay: hypothesis (non-negative contents) not met
            if any(v < 0 or v > 1 for v in vals):
                bad_prop.append((c, f"{kind} fraction outside [0,1]"))
            if abs(sum(vals) - 1) > 4 * len(vals) * 2 ** -52:
                bad_prop.append((c, f"{kind} fractions sum to {sum(vals)!r}"))
            for n, v, x in zip(keys, vals, ro_v):
                # (the library's total is a plain left-to-right sum of NumPy scalars, this one is Python's compensated sum: allow n ulp)
                if abs(v - x / tot) > (4 + len(vals)) * 2 ** -52 * v + 2.0 ** -1000:      # (absolute floor: quotients in the subnormal range carry no relative accuracy)
                    bad_prop.append((c, f"{kind} fraction of {n} is not its share"))
                    break
            # scaling by a power of two is exact
            # (only while every scaled read-out stays a normal double: in the subnormal range a power of two no longer scales exactly)
            sc = float.fromhex(c["scale"])
            nums = [float.fromhex(r["numbers"][n]) for n in keys]
            in_range = all(x == 0 or (abs(x) >= 2.0 ** -1000 and abs(x * sc) >= 2.0 ** -1000) for x in ro_v) and \
                all(x == 0 or (abs(x) >= 2.0 ** -900 and abs(x * sc) >= 2.0 ** -900) for x in nums)   # (a read-out of 0.0 may be an underflowed amount)
            if in_range and isinstance(r["fr_scaled"][kind], dict) and r["fr_scaled"][kind] != fr[kind]:
                sv = [float.fromhex(r["fr_scaled"][kind][n]) for n in keys]
                if any(abs(a - b) > 8 * 2 ** -52 * max(abs(b), 1e-300) for a, b in zip(sv, vals)):
                    bad_prop.append((c, f"{kind} fractions change under scaling"))
            if "fr_hp" in r and isinstance(r["fr_hp"][kind], dict):
                hv = [float.fromhex(r["fr_hp"][kind][n]) for n in keys if n in r["fr_hp"][kind]]
                if len(hv) == len(vals) and any(abs(a - b) > 1e-9 * max(abs(b), 1e-300) + 1e-300 for a, b in zip(hv, vals)) and not c.get("decay"):
                    bad_prop.append((c, f"{kind} fractions differ between the two classes"))
            elif "fr_hp" in r and isinstance(r["fr_hp"][kind], str) and not c.get("decay"):
                bad_prop.append((c, f"{kind} fractions of the high-precision class raised {r['fr_hp'][kind]} although the total is positive"))
        cont = "[" + "; ".join(f"({Q.cstr(n)}, ({Q.fhex(float.fromhex(r['numbers'][n]))}, {'true' if r['pyfloat'][n] else 'false'}))" for n in keys) + "]"
        lst = lambda kind: "[" + "; ".join(Q.fhex(float.fromhex(fr[kind][n])) for n in keys) + "]"
        terms.append(f"({cont}, ({lst('activity')}, {lst('mass')}, {lst('mole')}))")
        idxmap.append(k)
    bad, errs = Q.run_cases("frac", PRE_F, "list (str * pyf) * (list float * list float * list float)", terms, "chk", shard=60)
    sizes = [len(c["contents"]) for c in cases]
    streams["fractions"] = {"cases": len(cases), "evaluated_in_coq": len(terms), "model_disagrees": len(bad),
                            "impl_property_failures": len(bad_prop), "coq_errors": len(errs),
                            "sizes": {"min": min(sizes), "max": max(sizes), "mean": round(sum(sizes) / len(sizes), 1)},
                            "decayed": sum(1 for c in cases if c["decay"]), "hp": sum(1 for c in cases if c["hp"]),
                            "what": "three fraction kinds bit-exact vs the generated functions (PrimFloat; Python sum = left fold from 0); "
                                    "share / [0,1] / sum-to-one / power-of-two scaling / class agreement on the implementation"}
    for c, why in bad_prop[:4]:
        viol.append({"name": f"frac-{len(viol)}", "found_input": True, "key": "frac:" + why[:50] + json.dumps(c["contents"], sort_keys=True)[:80],
                     "payload": {"fails": why, "input": c, "entry": "activity_fractions/mass_fractions/mole_fractions"}})
    for i in bad[:3]:
        viol.append({"name": f"frac-model-{i}", "found_input": False, "key": f"frac-model:{i}",
                     "payload": {"broken": "generated fraction functions (float) and implementation disagree bit-for-bit",
                                 "input": cases[idxmap[i]], "impl": impl[idxmap[i]]}})
    if errs:
        viol.append({"name": "frac-coq", "found_input": False, "key": "frac-coq",
                     "payload": {"broken": "model evaluation failed in Coq", "errors": errs[:2]}})
    samples += [{"case": cases[0], "impl_fractions": impl[0].get("fr")}]


# ---------------------------------------------------------------- data sets with another year length (C06)
PRE_Y = ("From Coq Require Import ZArith NArith List PrimFloat.\nImport ListNotations.\n"
         "From Bignums Require Import BigQ.\n"
         "From RD Require Import Base Lib.Py Lib.Num Lib.CertQ Gen.Tables Gen.ConvGen Gen.InvGen Model.Units Model.UnitsCheck.\n"
         "Definition chkf (c : float * str * float * float) : bool := let '(yr, u, t, s) := c in\n"
         "  match convert_decay_time float_ops time_units_f year_units yr t u with OK x => feq x s | _ => false end.\n"
         "Definition chkh (c : float * (float * str) * str * float) : bool := let '(yr, (v, su), u, s) := c in\n"
         "  match time_unit_conv float_ops time_units_f year_units v su u yr with OK x => feq x s | _ => false end.\n"
         "Definition chkq (c : qlit * str * qlit * qlit) : bool := let '(yr, u, x, y) := c in\n"
         "  match convert_decay_time bigQ_ops (tq time_units_q) year_units (bq_of yr) (bq_of x) u with\n"
         "  | OK r => BigQ.eq_bool r (bq_of y) | _ => false end.\n")
YEAR_UNITS = ["y", "yr", "year", "years", "ky", "My", "By", "Gy", "Ty", "Py"]


def year_dataset_stream(rng, thorough, streams, viol, samples):
    """the default data set and two copies with other year lengths (365.25 and 360 days), used interleaved in one process"""
    import numpy as np
    from fractions import Fraction
    names, stable = dataset_names()
    radio = [n for n, s in zip(names, stable) if not s]
    dd = np.load(os.path.join(C.REPO, "radioactivedecay/icrp107_ame2020_nubase2020/decay_data.npz"), allow_pickle=True)
    stored_y = [str(n) for n, h in zip(dd["nuclides"], dd["hldata"]) if str(h[1]) in YEAR_UNITS and float(h[0]) != math.inf]
    years = [["1461", "4"], ["360", "1"]]
    yfloat = [float(dd["year_conv"]), 365.25, 360.0]
    yexact = [None, Fraction(1461, 4), Fraction(360)]
    from decimal import Decimal
    yexact[0] = Fraction(Decimal(repr(yfloat[0])))
    steps = []
    n = 60 if thorough else 12
    for _ in range(n):
        u = rng.choice(YEAR_UNITS + (["d", "h", "s"] if rng.random() < 0.2 else []))
        t = float(round(10 ** rng.uniform(-6, 6), rng.randint(0, 6)) or 1.0).hex()
        nuc = rng.choice(stored_y)
        order = [0, 1, 2]
        rng.shuffle(order)
        for di in order:          # the same request against every data set, back to back
            steps.append([di, "conv", [t, u]])
        for di in order:
            steps.append([di, "decay", [nuc, t, u]])
        hu = rng.choice(["s", "d", "y", "ky", "h", "My"])
        for di in order:
            steps.append([di, "half_life", [nuc, hu]])
        if rng.random() < (1.0 if thorough else 0.5):
            for di in order:
                steps.append([di, "hpconv", [t, u]])
    os.makedirs(C.SCRATCH, exist_ok=True)
    impl = run_impl("impl_yeards.py", {"scratch": C.SCRATCH, "years": years, "steps": steps}, timeout=3000)
    tf, th, tq_, mapf, maph, mapq, bad_prop = [], [], [], [], [], [], []

    def ql(fr):
        return f"(QL ({fr.numerator})%Z {fr.denominator}%positive)"
    for k, ((di, kind, args), r) in enumerate(zip(steps, impl)):
        c = {"dataset_year_days": yfloat[di], "call": kind, "args": args, "step": k}
        if "err" in r:
            bad_prop.append((c, "raised " + r["err"]))
            continue
        if kind in ("conv", "decay"):
            t, u = (args[0], args[1]) if kind == "conv" else (args[1], args[2])
            tf.append(f"({Q.fhex(yfloat[di])}, {Q.cstr(u)}, {Q.fhex(float.fromhex(t))}, {Q.fhex(float.fromhex(r['secs']))})")
            mapf.append((c, r))
            if kind == "decay":
                for key in ("decay_same", "cum_same"):
                    if not r[key]:
                        bad_prop.append((c, f"{key}: the result for t {u} differs from the result for the equivalent seconds"))
        elif kind == "half_life":
            sv, su = r["stored"]
            if args[1] == su:
                if r["T"] != sv:
                    bad_prop.append((c, "half_life in the storage unit is not the stored value"))
            else:
                th.append(f"({Q.fhex(yfloat[di])}, ({Q.fhex(float.fromhex(sv))}, {Q.cstr(su)}), {Q.cstr(args[1])}, {Q.fhex(float.fromhex(r['T']))})")
                maph.append((c, r))
            if abs(float.fromhex(r["left"]) - 0.5) > 16 * 2 ** -53:
                bad_prop.append((c, f"decaying for the reported half-life leaves {float.fromhex(r['left'])!r}, not 0.5"))
            if not (r["via_nuclide"] == r["via_inventory"] == r["T"]):
                bad_prop.append((c, "the three half-life interfaces disagree"))
        elif kind == "hpconv":
            if r["x"] is None or r["y"] is None:
                continue
            x, y = Fraction(int(r["x"][0]), int(r["x"][1])), Fraction(int(r["y"][0]), int(r["y"][1]))
            tq_.append(f"({ql(yexact[di])}, {Q.cstr(args[1])}, {ql(x)}, {ql(y)})")
            mapq.append((c, r))
            if not r["same_in_inventory"]:
                bad_prop.append((c, "InventoryHP._convert_decay_time differs from UnitConverterSympy.time_unit_conv"))
    bad_m, errs = [], []
    for tag, typ, terms, chk, mp in (("yearf", "float * str * float * float", tf, "chkf", mapf),
                                     ("yearh", "float * (float * str) * str * float", th, "chkh", maph),
                                     ("yearq", "qlit * str * qlit * qlit", tq_, "chkq", mapq)):
        if terms:
            b, e = Q.run_cases(tag, PRE_Y, typ, terms, chk)
            bad_m += [mp[i] for i in b]
            errs += e
    streams["year_datasets"] = {"cases": len(steps), "float_conversions": len(tf), "half_lives": len(th), "exact_conversions": len(tq_),
                                "model_disagrees": len(bad_m), "impl_property_failures": len(bad_prop), "coq_errors": len(errs),
                                "what": "default data set + copies with 365.25 and 360 days per year used interleaved in one process: seconds / "
                                        "half-lives bit-exact (float) and exact (SymPy) vs the generated conversion with THAT data set's year; "
                                        "decay/cumulative_decays in year units = call in seconds; halving; three half-life interfaces agree"}
    for c, why in bad_prop[:3]:
        viol.append({"name": f"yeards-{len(viol)}", "found_input": True, "key": f"yeards:{why[:50]}",
                     "payload": {"fails": why, "input": c, "how": "tools/impl_yeards.py (copies of the data set with year_conv replaced)"}})
    for c, r in bad_m[:3]:
        # the model IS the specification here (year-based units use the data set's days-per-year): a disagreement is a failing input
        viol.append({"name": f"yeards-model-{len(viol)}", "found_input": True, "key": f"yeards-model:{c['call']}:{c['args'][-1]}",
                     "payload": {"fails": "time conversion with the data set's own days-per-year differs from what the implementation used",
                                 "input": c, "observed": r}})
    if errs:
        viol.append({"name": "yeards-coq", "found_input": False, "key": "yeards-coq",
                     "payload": {"broken": "model evaluation failed in Coq", "errors": errs[:2]}})
    samples.append({"year_dataset_case": steps[0], "impl": impl[0]})
