(* C01 / C03 forward-error theorems instantiated on the SECOND (synthetic) data set: the generic theorems
   float_decay_error and cum_float_error with that data set's own kernel-computed constants. *)
From Coq Require Import Reals ZArith NArith List Bool Arith.
From Coq Require Import PrimFloat.
From Flocq Require Import Core.Core.
From RD Require Import Base Lib.CertQ Model.DecayR Model.Dataset Model.Synth Model.Rounding64
  Model.FloatDecay Model.FloatCum Model.FloatData.
From RD Require Proofs.CertSynth.SynthCert Proofs.SynthFloatP.
Import ListNotations.
Local Open Scope R_scope.

Theorem synth_float_decay_error :
  forall (e n0 : frow) (i : N) (ce mo : list N) (t : R),
  orders_okb (ds_cf Synth) (ds_cif Synth) e n0 i ce mo = true ->
  ffin (pf_yhat (ds_cf Synth) (ds_cif Synth) e n0 i ce mo) = true ->
  0 <= t ->
  let n0f := fun j : nat => fval (fget n0 (N.of_nat j)) in
  let Ef := fun k : nat => fval (fget e (N.of_nat k)) in
  let lamf := fun k : nat => fval (nth k Proofs.CertSynth.SynthCert.synth_lam_val 0%float) in
  (forall j, 0 <= n0f j) ->
  (forall k, (k < nn Synth)%nat -> (exists j, (j < nn Synth)%nat /\ Cifr Synth k j * n0f j <> 0) ->
             Rabs (Ef k - exp (- lamf k * t)) <= bpow radix2 (-50)) ->
  Rabs (fval (pf_yhat (ds_cf Synth) (ds_cif Synth) e n0 i ce mo)
        - Nt (nn Synth) (Cr Synth) (Cir Synth) (mur Synth) n0f t (N.to_nat i))
  <= 1 / 10 ^ 13 * sumn (nn Synth) n0f + bpow radix2 (-1060).
Proof. exact Proofs.SynthFloatP.synth_float_decay_error. Qed.

Theorem synth_cum_float_error :
  forall (e n0 : frow) (i : N) (ce mo : list N) (t : R),
  let lam_i := nth (N.to_nat i) Proofs.CertSynth.SynthCert.synth_lam_val 0%float in
  orders_okb_cum (ds_cf Synth) (ds_cif Synth) e n0 i ce mo = true ->
  ffin (pf_cum (ds_cf Synth) (ds_cif Synth) e n0 i ce mo lam_i) = true ->
  0 <= t ->
  let n0f := fun j : nat => fval (fget n0 (N.of_nat j)) in
  let Ef := fun k : nat => fval (fget e (N.of_nat k)) in
  let lamf := fun k : nat => fval (nth k Proofs.CertSynth.SynthCert.synth_lam_val 0%float) in
  (forall j, 0 <= n0f j) ->
  stableb Synth (N.to_nat i) = false ->
  (forall k, (k < nn Synth)%nat -> Ef k = 0 \/
      (mur Synth k <> 0 /\ Rabs (Ef k - (1 - exp (- lamf k * t)) / lamf k) <= bpow radix2 (-50) / lamf k)) ->
  (forall k, (k < nn Synth)%nat -> (exists j, (j < nn Synth)%nat /\ Cifr Synth k j * n0f j <> 0) -> mur Synth k <> 0 ->
      Rabs (Ef k - (1 - exp (- lamf k * t)) / lamf k) <= bpow radix2 (-50) / lamf k) ->
  Rabs (fval (pf_cum (ds_cf Synth) (ds_cif Synth) e n0 i ce mo lam_i)
        - Dcum (nn Synth) (Cr Synth) (Cir Synth) (mur Synth) (stableb Synth) n0f t (N.to_nat i))
  <= 1 / 10 ^ 13 * sumn (nn Synth) n0f + bpow radix2 (-1000).
Proof. exact Proofs.SynthFloatP.synth_cum_float_error. Qed.
