(* Model of fileio._parse_row / read_csv and of the row construction of Inventory.to_csv at the row
   seam (lists of lists of strings, the seam the test-suite mocks), over the state machine of
   Model/Inventory.v.  The csv codec and float <-> str conversions are parameters.  Tie: tr_shapes.py
   records the source of _parse_row, read_csv, to_csv, _write_csv_file, _read_csv_file; the to_csv unit
   dispatch is GENERATED (Gen/DispatchGen.v chain_csv).  Definitions only. *)
From Coq Require Import ZArith NArith List Bool.
From RD Require Import Base Lib.Py Lib.Num Gen.Tables Gen.ConvGen Gen.InvGen Gen.UtilsGen Gen.DispatchGen
  Model.Inventory Model.Series.
Import ListNotations.

Section Csv.
  Context {T : Type} (ops : numops T).
  Context (activity_units mass_units moles_units : list (str * T)).
  Context (avogadro : T) (names : list str) (decay_consts atomic_masses : list T).
  Variables (amount_ok : T -> bool) (normalise nneg : T -> T).
  Variable parse_float : str -> res T.        (* float(row[1]) *)
  Variable print_num : T -> str.              (* str(quantity) *)

  Notation construct := (construct ops activity_units mass_units moles_units avogadro names decay_consts atomic_masses amount_ok normalise).
  Notation m_add := (m_add ops activity_units mass_units moles_units avogadro names decay_consts atomic_masses amount_ok normalise).

  Definition default_units : str := [66; 113]%N.      (* "Bq": the constructor's / add()'s default *)

  (* _parse_row *)
  Definition parse_row (row : list str) (default_unit : option str) : res (pyval * T * option str) :=
    match row with
    | [nuc; qty] | [nuc; qty; _] =>
        bind (if s_isnumeric nuc then bind (s_int nuc) (fun z => OK (VInt z)) else OK (VStr nuc)) (fun key =>
        bind (parse_float qty) (fun x =>
        OK (key, x, match row with [_; _; u] => Some u | _ => default_unit end)))
    | _ => Raise ValueError
    end.

  (* kwargs["units"] = row_unit or units  (if row_unit or units is not None); otherwise the default *)
  Definition effective_unit (row_unit units : option str) : str :=
    match row_unit with
    | Some (c :: u) => c :: u
    | _ => match units with Some u => u | None => default_units end
    end.

  Definition add_row (units : option str) (acc : res (@dict T)) (row : list str) : res (@dict T) :=
    bind acc (fun a =>
    bind (parse_row row units) (fun kxu =>
      let '(key, x, ru) := kxu in m_add a [(key, x)] (effective_unit ru units))).

  (* read_csv after the file has been read into lines *)
  Definition read_rows (lines : list (list str)) (skip_rows : nat) (units : option str) : res (@dict T) :=
    match skipn skip_rows lines with
    | [] => Raise ValueError
    | r0 :: rest =>
        fold_left (add_row units) rest
          (bind (parse_row r0 units) (fun kxu =>
             let '(key, x, ru) := kxu in construct [(key, x)] (effective_unit ru units)))
    end.

  (* to_csv: the read-out selected by the GENERATED dispatch chain, one row per nuclide *)
  Definition readout_by_code (code : N) (contents : @dict T) (units : str) : res (@dict T) :=
    match code with
    | 0%N => activities ops activity_units names decay_consts contents units
    | 2%N => masses ops mass_units avogadro names atomic_masses contents units
    | 1%N => moles ops moles_units avogadro contents units
    | 3%N => OK contents
    | _ => Raise ValueError
    end.
  Definition to_rows (contents : @dict T) (units : str) (write_units : bool) (header : option (list str)) : res (list (list str)) :=
    match select chain_csv units with
    | None => Raise ValueError
    | Some code =>
        bind (readout_by_code code contents units) (fun ro =>
          OK ((match header with Some (h :: hs) => [h :: hs] | _ => [] end) ++
              map (fun kv => if write_units then [fst kv; print_num (snd kv); units] else [fst kv; print_num (snd kv)]) ro))
    end.
End Csv.
