(* C14 - Activity, mass and mole fractions are true shares of the total.
   Statements about the GENERATED fraction methods (Gen/InvGen.v) over the reals. *)
From Coq Require Import ZArith NArith List Bool QArith Reals Qreals.
From RD Require Import Base Lib.Py Lib.Num Gen.Tables Gen.ConvGen Gen.InvGen Model.UnitSpec Model.UnitsR.
From RD Require Proofs.Fractions.
Import ListNotations.
Local Open Scope R_scope.

Section AnyDataSet.
  Variables (names : list str) (lam mass_l : list R).

  (* each fraction is the nuclide's read-out divided by the total of that read-out *)
  Theorem activity_fraction_is_share : forall contents acts,
    r_activities names lam contents [66%N; 113%N] = OK acts ->
    r_activity_fractions names lam contents = OK (vmap (fun a => a / vsum acts) acts).
  Proof. exact (Proofs.Fractions.activity_fraction_is_share names lam). Qed.

  Theorem mass_fraction_is_share : forall contents ms,
    r_masses names mass_l contents [103%N] = OK ms ->
    r_mass_fractions names mass_l contents = OK (vmap (fun a => a / vsum ms) ms).
  Proof. exact (Proofs.Fractions.mass_fraction_is_share names mass_l). Qed.

  Theorem mole_fraction_is_share : forall contents,
    r_mole_fractions contents = OK (vmap (fun a => a / vsum contents) contents).
  Proof. exact Proofs.Fractions.mole_fraction_is_share. Qed.
End AnyDataSet.

(* shares of a positive total of non-negative read-outs lie in [0,1] and sum to one *)
Theorem shares_in_unit_interval : forall (l : list (str * R)),
  (forall kv, In kv l -> 0 <= snd kv) -> 0 < vsum l ->
  forall kv, In kv (vmap (fun a => a / vsum l) l) -> 0 <= snd kv <= 1.
Proof. exact Proofs.Fractions.shares_in_unit_interval. Qed.

Theorem shares_sum_to_one : forall (l : list (str * R)), vsum l <> 0 ->
  vsum (vmap (fun a => a / vsum l) l) = 1.
Proof. exact Proofs.Fractions.shares_sum_to_one. Qed.

(* shares do not change when every amount is scaled by the same non-zero factor *)
Theorem shares_scale_invariant : forall (l : list (str * R)) c, c <> 0 -> vsum l <> 0 ->
  vmap (fun a => a / vsum (vmap (Rmult c) l)) (vmap (Rmult c) l) = vmap (fun a => a / vsum l) l.
Proof. exact Proofs.Fractions.shares_scale_invariant. Qed.

(* the read-outs are linear in the stored amounts, so scaling an inventory scales every read-out
   (hence, with the theorem above, leaves every fraction unchanged) *)
Theorem readouts_scale : forall names lam mass_l contents c acts ms,
  r_activities names lam contents [66%N; 113%N] = OK acts ->
  r_masses names mass_l contents [103%N] = OK ms ->
  r_activities names lam (vmap (Rmult c) contents) [66%N; 113%N] = OK (vmap (Rmult c) acts) /\
  r_masses names mass_l (vmap (Rmult c) contents) [103%N] = OK (vmap (Rmult c) ms).
Proof. exact Proofs.Fractions.readouts_scale. Qed.
