From RD Require Import Base Model.Dataset Model.Default.
Lemma default_lengths : chk_lengths Default = true.
Proof. vm_cast_no_check (eq_refl true). Qed.
Lemma default_mu_nonneg : chk_mu_nonneg Default = true.
Proof. vm_cast_no_check (eq_refl true). Qed.
Lemma default_stable_col : chk_stable_col Default = true.
Proof. vm_cast_no_check (eq_refl true). Qed.
Lemma default_links : chk_links Default = true.
Proof. vm_cast_no_check (eq_refl true). Qed.
