"""Implementation side of the C14 stream `fractions_all_nuclides` (PYTHONPATH=/repo): for EVERY nuclide of the data set a
two-nuclide float inventory (the nuclide + a fixed reference, equal atom counts); its mass / mole / activity fractions are
compared with the shares computed from the EXACT (high-precision) atomic masses and decay constants, so both classes' data
must agree nuclide by nuclide.  stdout JSON: {"n": count, "bad": [[nuclide, kind, got, want]]}"""
import json, sys, math

def main():
    import radioactivedecay as rd
    ds = rd.DEFAULTDATA
    sy = ds.sympy_data
    names = list(ds.nuclides)
    masses = [float(m.evalf(30)) for m in sy.atomic_masses]
    lams = [float(l.evalf(30)) for l in sy.decay_consts]
    ref = "K-40"
    ri = ds.nuclide_dict[ref]
    bad = []
    for i, n in enumerate(names):
        if n == ref:
            continue
        inv = rd.Inventory({n: 1e20, ref: 1e20}, "num")
        want = {"mass": masses[i] / (masses[i] + masses[ri]), "mole": 0.5, "activity": lams[i] / (lams[i] + lams[ri])}
        got = {"mass": inv.mass_fractions()[n], "mole": inv.mole_fractions()[n], "activity": inv.activity_fractions()[n]}
        for k in want:
            if not (abs(got[k] - want[k]) <= 1e-11 * max(abs(want[k]), 1e-300) + 1e-300):
                bad.append([n, k, repr(got[k]), repr(want[k])])
    json.dump({"n": len(names) - 1, "bad": bad[:20]}, sys.stdout)
main()
