(* C01 (fourth part), first lemma: what the interval check [chk_lambda_close] of the float decay constants means
   over the reals. *)
From Coq Require Import Reals ZArith NArith QArith Qreals List Bool Lia Lra Arith.
From Coq Require Import PrimFloat FloatOps SpecFloat.
From Flocq Require Import Core.Core IEEE754.BinarySingleNaN IEEE754.PrimFloat.
From Bignums Require Import BigQ.
From Interval Require Import Float.Specific_bigint Float.Specific_ops Interval.Float_full Interval.Interval
  Float.Basic Real.Xreal.
From RD Require Import Base Model.DecayR Lib.Sparse Lib.CertQ Model.Dataset Model.DecayI Model.Rounding64 Model.FloatData.
From RD Require Proofs.DecayEnclosure Proofs.Rounding64P.
Import ListNotations.
Local Open Scope R_scope.

Section Lam.
  Variable prec : F.precision.

  (* m * 2^e *)
  Lemma idyadic_correct : forall m e,
    contains (I.convert (idyadic prec m e)) (Xreal (IZR m * bpow radix2 e)).
  Proof.
    intros m e. destruct e as [|p|p]; unfold idyadic.
    - simpl bpow. rewrite Rmult_1_r. apply I.fromZ_correct.
    - apply DecayEnclosure.imul_correct; [apply I.fromZ_correct|].
      change (bpow radix2 (Z.pos p)) with (IZR (Z.pow_pos 2 p)). apply I.fromZ_correct.
    - change (bpow radix2 (Z.neg p)) with (/ IZR (Z.pow_pos 2 p)).
      apply DecayEnclosure.idiv_correct; [|apply I.fromZ_correct|apply I.fromZ_correct].
      apply IZR_neq. rewrite Z.pow_pos_fold. apply Z.pow_nonzero; lia.
  Qed.

  (* the extended-real value of a float: its real value when finite *)
  Definition xval (f : float) : ExtendedR :=
    match Prim2SF f with
    | S754_zero _ | S754_finite _ _ _ => Xreal (fval f)
    | _ => Xnan
    end.

  Lemma ifloat_correct : forall f, contains (I.convert (ifloat prec f)) (xval f).
  Proof.
    intro f. unfold ifloat, xval. rewrite Rounding64P.fval_SF.
    destruct (Prim2SF f) as [s|s| |s m e].
    - simpl SF2R. apply DecayEnclosure.izero_correct.
    - rewrite I.nai_correct. exact I.
    - rewrite I.nai_correct. exact I.
    - unfold SF2R, F2R. simpl Fnum. simpl Fexp.
      replace (cond_Zopp s (Z.pos m)) with (if s then Z.neg m else Z.pos m) by (destruct s; reflexivity).
      apply idyadic_correct.
  Qed.

  Lemma within_sound : forall v e tol (xv : ExtendedR) (er tr : R),
    contains (I.convert v) xv -> contains (I.convert e) (Xreal er) -> contains (I.convert tol) (Xreal tr) ->
    within prec v e tol = true ->
    exists vr, xv = Xreal vr /\ Rabs (vr - er) <= tr.
  Proof.
    intros v e tol xv er tr Hv He Ht H. unfold within in H.
    pose proof (I.sub_correct prec _ _ _ _ Hv He) as H1.
    pose proof (I.abs_correct _ _ H1) as H2.
    pose proof (I.sub_correct prec _ _ _ _ Ht H2) as H3.
    pose proof (I.sign_large_correct (I.sub prec tol (I.abs (I.sub prec v e)))) as HS.
    destruct xv as [|vr].
    - exfalso. simpl in H3.
      destruct (I.sign_large (I.sub prec tol (I.abs (I.sub prec v e)))); try discriminate.
      + specialize (HS _ H3). discriminate.
      + destruct (HS _ H3) as [E _]. discriminate.
    - exists vr. split; [reflexivity|]. simpl in H3.
      destruct (I.sign_large (I.sub prec tol (I.abs (I.sub prec v e)))); try discriminate.
      + specialize (HS _ H3). inversion HS. lra.
      + destruct (HS _ H3) as [_ E]. simpl in E. lra.
  Qed.
End Lam.

Lemma mur_nth : forall d k, mur d k = DecayEnclosure.qval (nth k (ds_mu d) (QL 0 1)).
Proof.
  intros d k. pose proof (DecayEnclosure.mur_mu_of d (N.of_nat k)) as H.
  unfold mu_of in H. rewrite Nat2N.id in H. exact H.
Qed.

Lemma lambda_close_sound : forall d lamf c, chk_lambda_close d lamf c = true ->
  forall k, (k < length (ds_mu d))%nat ->
  Rabs (fval (nth k lamf 0%float) - lam (mur d) k) <= bqv (bq_of c) * lam (mur d) k.
Proof.
  intros d lamf c H k Hk. unfold chk_lambda_close in H.
  apply andb_prop in H. destruct H as [HL H]. apply Nat.eqb_eq in HL.
  rewrite forallb_forall in H. specialize (H k).
  assert (Hin : In k (seq 0 (length lamf))) by (apply in_seq; lia).
  specialize (H Hin). unfold lam_close_at in H.
  set (mu := nth k (ds_mu d) (QL 0 1)) in H.
  assert (He : contains (I.convert (I.mul prec300 (iq prec300 mu) (iln2 prec300)))
                        (Xreal (DecayEnclosure.qval mu * ln 2))).
  { apply DecayEnclosure.imul_correct; [apply DecayEnclosure.iq_correct|apply DecayEnclosure.iln2_correct]. }
  assert (Ht : contains (I.convert (I.mul prec300 (iq prec300 c) (I.mul prec300 (iq prec300 mu) (iln2 prec300))))
                        (Xreal (DecayEnclosure.qval c * (DecayEnclosure.qval mu * ln 2)))).
  { apply DecayEnclosure.imul_correct; [apply DecayEnclosure.iq_correct|exact He]. }
  destruct (within_sound prec300 _ _ _ _ _ _ (ifloat_correct prec300 (nth k lamf PrimFloat.zero)) He Ht H)
    as [vr [E1 E2]].
  assert (Ev : vr = fval (nth k lamf 0%float)).
  { unfold xval in E1. change PrimFloat.zero with 0%float in E1.
    destruct (Prim2SF (nth k lamf 0%float)); try discriminate; inversion E1; reflexivity. }
  subst vr. unfold lam. rewrite (mur_nth d k). fold mu. rewrite DecayEnclosure.bqv_of_q.
  rewrite (Rmult_comm (ln 2)). exact E2.
Qed.

Print Assumptions lambda_close_sound.
