(* Extraction of the generated model for the correspondence checks.
   Only ExtrOcamlBasic is used (bool, option, unit, list, prod, sumbool, sumor mapped to OCaml's;
   andb/orb inlined); N, Z, positive, nat stay the extracted inductive types. *)
From Coq Require Import Extraction ExtrOcamlBasic.
From RD Require Import Base Lib.Py Gen.Tables Gen.UtilsGen.
Extraction Language OCaml.
Set Extraction Output Directory ".".
Extraction "model.ml" parse_nuclide_str parse_id parse_nuclide nuclide_Z nuclide_A nuclide_state nuclide_id
  build_id build_nuclide_string
  s_remove_ws s_split_ws s_replace_first s_replace_all s_split_on s_isalnum s_isnumeric s_isdigit s_isascii
  s_lower s_capitalize s_strip s_int s_of_int s_filter_digits.
