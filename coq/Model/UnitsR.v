(* The generated converter / inventory functions instantiated over the reals with the generated
   EXACT tables (the SymPy variant), and the float tables as exact rationals.  Definitions only. *)
From Coq Require Import ZArith NArith List Bool QArith Qabs Reals Qreals.
From Coq Require Import PrimFloat FloatOps SpecFloat.
From RD Require Import Base Lib.Py Lib.Num Gen.Tables Gen.ConvGen Gen.InvGen Model.UnitSpec.
Import ListNotations.

Definition q_of (q : qlit) : Q := Qmake (qn q) (qd q).
Definition tQ (l : list (str * qlit)) : list (str * Q) := map (fun kv => (fst kv, q_of (snd kv))) l.
Definition tR (l : list (str * qlit)) : list (str * R) := map (fun kv => (fst kv, Q2R (q_of (snd kv)))) l.

Definition AR := tR activity_units_q.
Definition MR := tR mass_units_q.
Definition MoR := tR moles_units_q.
Definition TR := tR time_units_q.
Definition avoR : R := Q2R (q_of avogadro_q).

(* exact value of a finite binary64 number *)
Definition Q_of_float (f : float) : option Q :=
  match Prim2SF f with
  | S754_zero _ => Some 0%Q
  | S754_finite s m e =>
      let mz := if s then Zneg m else Zpos m in
      Some (match e with
            | Z0 => inject_Z mz
            | Zpos p => inject_Z (mz * Z.pow_pos 2 p)
            | Zneg p => Qmake mz (Pos.pow 2 p)
            end)
  | _ => None
  end.
(* |f - q| <= 2^-52 * |q|  (within one ulp of the exact table entry) *)
Definition float_close (f : float) (q : Q) : bool :=
  match Q_of_float f with
  | Some x => Qle_bool (Qabs (x - q)) (Qabs q * Qmake 1 (Pos.pow 2 52))
  | None => false
  end.
Definition float_table_close (tf : list (str * float)) (tq : list (str * qlit)) : bool :=
  Nat.eqb (length tf) (length tq) &&
  forallb (fun kf => match q_assoc (fst kf) (tQ tq) with Some q => float_close (snd kf) q | None => false end) tf.

Section WithDataR.
  Variables (names : list str) (lam mass_l : list R) (year : R).
  Definition r_create := convert_to_number R_ops AR MR MoR avoR names lam mass_l.
  Definition r_activities := activities R_ops AR names lam.
  Definition r_masses := masses R_ops MR avoR names mass_l.
  Definition r_moles := moles R_ops MoR avoR.
  Definition r_seconds (t : R) (u : str) := convert_decay_time R_ops TR year_units year t u.
End WithDataR.

Section FractionsR.
  Variables (names : list str) (lam mass_l : list R).
  Definition r_activity_fractions := activity_fractions R_ops AR names lam.
  Definition r_mass_fractions := mass_fractions R_ops MR avoR names mass_l.
  Definition r_mole_fractions := @mole_fractions R R_ops.
End FractionsR.

(* sum of the values of a dict, and pointwise operations, used to state the fraction theorems *)
Definition vsum (l : list (str * R)) : R := fold_left Rplus (map snd l) 0%R.
Definition vmap (f : R -> R) (l : list (str * R)) : list (str * R) := map (fun kv => (fst kv, f (snd kv))) l.
