(* C10 - proofs that the GENERATED nuclide parsers (Gen/UtilsGen.v) refuse invalid input with the
   documented exception and that whatever they accept is literally present in the input.

   Robustness: Gen/UtilsGen.v is regenerated on every run and its gensym suffixes change.  No proof
   below mentions a generated variable name: the generated functions are unfolded and walked by case
   analysis on their *conditions*, and by rewriting with characterising lemmas about Lib/Py.v. *)
From Coq Require Import ZArith NArith List Bool Lia.
From RD Require Import Base Lib.Py Gen.Unicode Gen.Tables Gen.UtilsGen Model.NuclideSpec.
Import ListNotations.

(* ------------------------------------------------------------------------------------------ *)
(* 1. Finite facts about the Unicode tables on ASCII, by computation over 0..127               *)
(* ------------------------------------------------------------------------------------------ *)

Definition ascii_range : list N := map N.of_nat (seq 0 128).

Lemma ascii_range_in : forall c : N, (c < 128)%N -> In c ascii_range.
Proof.
  intros c Hc. unfold ascii_range. rewrite <- (N2Nat.id c).
  apply in_map. apply in_seq. lia.
Qed.

Lemma ascii_forall : forall P : N -> bool,
  forallb P ascii_range = true -> forall c, (c < 128)%N -> P c = true.
Proof.
  intros P HP c Hc. rewrite forallb_forall in HP. apply HP. apply ascii_range_in. exact Hc.
Qed.

Lemma c_is_ascii_lt : forall c, c_is_ascii c = true -> (c < 128)%N.
Proof. intros c H. unfold c_is_ascii in H. apply N.ltb_lt in H. exact H. Qed.

Lemma a_digit_lt : forall c, a_digit c = true -> (c < 128)%N.
Proof.
  intros c H. unfold a_digit in H. apply andb_true_iff in H as [_ H]. apply N.leb_le in H. lia.
Qed.

Lemma a_letter_lt : forall c, a_letter c = true -> (c < 128)%N.
Proof.
  intros c H. unfold a_letter, a_upper, a_lower in H.
  apply orb_true_iff in H as [H|H]; apply andb_true_iff in H as [_ H]; apply N.leb_le in H; lia.
Qed.

(* an ASCII character that str.isdigit accepts is 0..9 *)
Lemma ascii_isdigit_a_digit : forall c, c_is_ascii c = true -> c_isdigit c = true -> a_digit c = true.
Proof.
  intros c Ha Hd.
  assert (T : forallb (fun c => implb (c_isdigit c) (a_digit c)) ascii_range = true) by (vm_compute; reflexivity).
  pose proof (ascii_forall _ T c (c_is_ascii_lt c Ha)) as H. cbv beta in H.
  rewrite Hd in H. exact H.
Qed.

Lemma a_digit_props : forall c, a_digit c = true ->
  c_isdigit c = true /\ c_int_special c = false /\ c_decimal_value c = Some (c - 48)%N.
Proof.
  intros c Hd.
  assert (T : forallb (fun c => implb (a_digit c)
             (c_isdigit c && negb (c_int_special c) &&
              match c_decimal_value c with Some d => N.eqb d (c - 48) | None => false end)) ascii_range = true)
    by (vm_compute; reflexivity).
  pose proof (ascii_forall _ T c (a_digit_lt c Hd)) as H. cbv beta in H.
  rewrite Hd in H. cbn [implb] in H.
  apply andb_true_iff in H as [H H3]. apply andb_true_iff in H as [H1 H2].
  split; [exact H1|]. split.
  - apply negb_true_iff in H2. exact H2.
  - destruct (c_decimal_value c) as [d|]; [|discriminate]. apply N.eqb_eq in H3. subst d. reflexivity.
Qed.

(* an ASCII alphanumeric character that is not a digit is an ASCII letter *)
Lemma ascii_alnum_nondigit_letter : forall c,
  c_is_ascii c = true -> c_isalnum c = true -> c_isdigit c = false -> a_letter c = true.
Proof.
  intros c Ha Hal Hd.
  assert (T : forallb (fun c => implb (c_isalnum c) (c_isdigit c || a_letter c)) ascii_range = true)
    by (vm_compute; reflexivity).
  pose proof (ascii_forall _ T c (c_is_ascii_lt c Ha)) as H. cbv beta in H.
  rewrite Hal, Hd in H. exact H.
Qed.

(* str.lower and the first-character map of str.capitalize are ASCII case maps on ASCII letters *)
Lemma a_letter_fold : forall c, a_letter c = true ->
  map a_fold (c_lower c) = [a_fold c] /\ map a_fold (c_capfirst c) = [a_fold c].
Proof.
  intros c Hl.
  assert (T : forallb (fun c => implb (a_letter c)
             (s_eqb (map a_fold (c_lower c)) [a_fold c] && s_eqb (map a_fold (c_capfirst c)) [a_fold c]))
             ascii_range = true) by (vm_compute; reflexivity).
  pose proof (ascii_forall _ T c (a_letter_lt c Hl)) as H. cbv beta in H.
  rewrite Hl in H. cbn [implb] in H. apply andb_true_iff in H as [H1 H2].
  assert (E : forall a b : str, s_eqb a b = true -> a = b).
  { induction a as [|x a IH]; intros [|y b] Hab; cbn in Hab; try discriminate; [reflexivity|].
    apply andb_true_iff in Hab as [Hxy Hab]. apply N.eqb_eq in Hxy. subst y. f_equal. apply IH. exact Hab. }
  split; apply E; assumption.
Qed.

(* ------------------------------------------------------------------------------------------ *)
(* 2. Lemmas about the Lib/Py.v functions                                                       *)
(* ------------------------------------------------------------------------------------------ *)

Lemma s_eqb_eq : forall a b : str, s_eqb a b = true -> a = b.
Proof.
  induction a as [|x a IH]; intros [|y b] Hab; cbn in Hab; try discriminate; [reflexivity|].
  apply andb_true_iff in Hab as [Hxy Hab]. apply N.eqb_eq in Hxy. subst y. f_equal. apply IH. exact Hab.
Qed.

Lemma s_eqb_nil_true : forall a : str, s_eqb a [] = true -> a = [].
Proof. intros a H. apply s_eqb_eq. exact H. Qed.

Lemma s_eqb_nil_false : forall a : str, s_eqb a [] = false -> a <> [].
Proof. intros a H E. subst a. cbn in H. discriminate. Qed.

Lemma l_mem_str_in : forall x l, l_mem_str x l = true -> In x l.
Proof.
  intros x l H. unfold l_mem_str in H. apply existsb_exists in H as (y & Hy & Hxy).
  apply s_eqb_eq in Hxy. subst y. exact Hy.
Qed.

Lemma d_mem_sz_in : forall d e, d_mem_sz d e = true -> In e (map snd d).
Proof.
  intros d e H. unfold d_mem_sz in H. apply existsb_exists in H as (kv & Hkv & He).
  apply s_eqb_eq in He. subst e. apply in_map. exact Hkv.
Qed.

Lemma d_mem_zs_in : forall d k, d_mem_zs d k = true -> In k (map fst d).
Proof.
  intros d k H. unfold d_mem_zs in H. apply existsb_exists in H as (kv & Hkv & He).
  apply Z.eqb_eq in He. subst k. apply in_map. exact Hkv.
Qed.

Lemma d_mem_zs_get : forall d k, d_mem_zs d k = true -> exists v, d_get_zs d k = OK v.
Proof.
  induction d as [|[a v] d IH]; intros k H; cbn in H; [discriminate|].
  cbn [d_get_zs]. destruct (Z.eqb a k) eqn:E.
  - exists v. reflexivity.
  - cbn [orb] in H. apply IH. exact H.
Qed.

Lemma d_get_zs_in : forall d k v, d_get_zs d k = OK v -> In (k, v) d.
Proof.
  induction d as [|[a w] d IH]; intros k v H; cbn [d_get_zs] in H; [discriminate|].
  destruct (Z.eqb a k) eqn:E.
  - apply Z.eqb_eq in E. subst a. injection H as ->. left. reflexivity.
  - right. apply IH. exact H.
Qed.

(* --- indexing *)
Lemma length2 : forall (A : Type) (l : list A), Z.of_nat (length l) = 2%Z -> exists a b, l = [a; b].
Proof.
  intros A l H. destruct l as [|a [|b [|c l]]]; cbn [length] in H; try lia.
  exists a, b. reflexivity.
Qed.

Lemma l_get_pair_0 : forall (A : Type) (a b : A), l_get [a; b] 0%Z = OK a.
Proof. reflexivity. Qed.

Lemma l_get_pair_1 : forall (A : Type) (a b : A), l_get [a; b] 1%Z = OK b.
Proof. reflexivity. Qed.

Lemma s_get_cons_0 : forall c r, s_get (c :: r) 0%Z = OK [c].
Proof.
  intros c r. unfold s_get, l_get. cbn [Z.ltb Z.compare orb].
  replace (Z.leb (Z.of_nat (length (c :: r))) 0) with false.
  - reflexivity.
  - symmetry. apply Z.leb_gt. cbn [length]. lia.
Qed.

Lemma l_slice_from_cons_1 : forall (A : Type) (c : A) r, l_slice_from (c :: r) 1%Z = r.
Proof.
  intros A c r. unfold l_slice_from. cbn [Z.ltb Z.compare].
  rewrite Z.min_l by (cbn [length]; lia). reflexivity.
Qed.

Lemma l_get_in_range : forall (A : Type) (l : list A) i,
  (0 <= i < Z.of_nat (length l))%Z -> exists x, l_get l i = OK x.
Proof.
  intros A l i Hi. unfold l_get. cbv zeta.
  replace (Z.ltb i 0) with false by (symmetry; apply Z.ltb_ge; lia).
  cbv beta iota.
  replace (Z.ltb i 0) with false by (symmetry; apply Z.ltb_ge; lia).
  replace (Z.leb (Z.of_nat (length l)) i) with false by (symmetry; apply Z.leb_gt; lia).
  cbn [orb].
  destruct (nth_error l (Z.to_nat i)) as [x|] eqn:E.
  - exists x. reflexivity.
  - apply nth_error_None in E. lia.
Qed.

(* --- int(a / b) *)
Lemma int_truediv_quot : forall a b,
  (Z.abs a < 9007199254740992)%Z -> (0 < b <= 10000)%Z -> int_truediv a b = OK (Z.quot a b).
Proof.
  intros a b Ha Hb. unfold int_truediv.
  replace (Z.eqb b 0) with false by (symmetry; apply Z.eqb_neq; lia).
  replace (Z.ltb (Z.abs a) 9007199254740992) with true by (symmetry; apply Z.ltb_lt; lia).
  replace (Z.ltb 0 b) with true by (symmetry; apply Z.ltb_lt; lia).
  replace (Z.leb b 10000) with true by (symmetry; apply Z.leb_le; lia).
  reflexivity.
Qed.

(* --- filters *)
Lemma filter_id : forall (A : Type) (f : A -> bool) l, forallb f l = true -> filter f l = l.
Proof.
  induction l as [|x l IH]; intros H; cbn in *; [reflexivity|].
  apply andb_true_iff in H as [Hx Hl]. rewrite Hx. f_equal. apply IH. exact Hl.
Qed.

Lemma filter_nil_forallb : forall (A : Type) (f : A -> bool) l, filter f l = [] -> forallb (fun x => negb (f x)) l = true.
Proof.
  induction l as [|x l IH]; intros H; cbn in *; [reflexivity|].
  destruct (f x); [discriminate|]. cbn. apply IH. exact H.
Qed.

(* the digits of an ASCII string are ASCII digits *)
Lemma filter_digits_all_digits : forall u, s_isascii u = true -> all_digits (s_filter_digits u) = true.
Proof.
  unfold s_isascii, all_digits, s_filter_digits.
  induction u as [|c u IH]; intros H; cbn [filter forallb] in *; [reflexivity|].
  apply andb_true_iff in H as [Hc Hu].
  destruct (c_isdigit c) eqn:Hd.
  - cbn [forallb]. rewrite (ascii_isdigit_a_digit c Hc Hd). cbn [andb]. apply IH. exact Hu.
  - apply IH. exact Hu.
Qed.

Lemma all_digits_filter_id : forall A, all_digits A = true -> s_filter_digits A = A.
Proof.
  intros A H. apply filter_id. unfold all_digits in H.
  rewrite forallb_forall in *. intros c Hc. apply a_digit_props. apply H. exact Hc.
Qed.

Lemma nondigit_alnum_letters : forall x,
  forallb c_isalnum x = true -> s_isascii x = true -> s_filter_digits x = [] -> all_letters x = true.
Proof.
  unfold s_isascii, s_filter_digits, all_letters.
  induction x as [|c x IH]; intros Hal Has Hf; cbn [filter forallb] in *; [reflexivity|].
  apply andb_true_iff in Hal as [Hal1 Hal2]. apply andb_true_iff in Has as [Has1 Has2].
  destruct (c_isdigit c) eqn:Hd; [discriminate|].
  rewrite (ascii_alnum_nondigit_letter c Has1 Hal1 Hd). cbn [andb]. apply IH; assumption.
Qed.

(* --- int(str) on ASCII digit strings *)
Lemma s_digits_value_dvalue : forall A acc, all_digits A = true ->
  s_digits_value acc A = Some (fold_left (fun acc c => (acc * 10 + Z.of_N (c - 48))%Z) A acc).
Proof.
  unfold all_digits.
  induction A as [|c A IH]; intros acc H; cbn [s_digits_value fold_left forallb] in *; [reflexivity|].
  apply andb_true_iff in H as [Hc HA].
  destruct (a_digit_props c Hc) as (_ & _ & Hv). rewrite Hv. apply IH. exact HA.
Qed.

Lemma all_digits_not_special : forall A, all_digits A = true -> existsb c_int_special A = false.
Proof.
  unfold all_digits.
  induction A as [|c A IH]; intros H; cbn [existsb forallb] in *; [reflexivity|].
  apply andb_true_iff in H as [Hc HA].
  destruct (a_digit_props c Hc) as (_ & Hs & _). rewrite Hs. cbn [orb]. apply IH. exact HA.
Qed.

Lemma s_int_digits : forall A, A <> [] -> all_digits A = true ->
  s_int A = if Nat.ltb 4300 (length A) then Raise ValueError else OK (dvalue A).
Proof.
  intros A Hne Hd. unfold s_int. destruct A as [|c A]; [contradiction|].
  rewrite (all_digits_not_special _ Hd). rewrite (s_digits_value_dvalue _ 0%Z Hd). reflexivity.
Qed.

(* --- str.split(sep) *)
Lemma s_prefix_some : forall p s r, s_prefix p s = Some r -> s = p ++ r.
Proof.
  induction p as [|x p IH]; intros s r H; cbn [s_prefix] in H.
  - injection H as ->. reflexivity.
  - destruct s as [|y s]; [discriminate|]. destruct (N.eqb x y) eqn:E; [|discriminate].
    apply N.eqb_eq in E. subst y. cbn [app]. f_equal. apply IH. exact H.
Qed.

Lemma s_split_on_fuel_nonnil : forall fuel sep cur s, s_split_on_fuel fuel sep cur s <> [].
Proof.
  induction fuel as [|f IH]; intros sep cur s; cbn [s_split_on_fuel]; [discriminate|].
  destruct s as [|c r]; [discriminate|]. destruct (s_prefix sep (c :: r)); [discriminate|]. apply IH.
Qed.

Lemma s_split_on_fuel_one : forall fuel sep cur s q,
  s_split_on_fuel fuel sep cur s = [q] -> q = rev cur ++ s.
Proof.
  induction fuel as [|f IH]; intros sep cur s q H; cbn [s_split_on_fuel] in H.
  - injection H as <-. reflexivity.
  - destruct s as [|c r].
    + injection H as <-. rewrite app_nil_r. reflexivity.
    + destruct (s_prefix sep (c :: r)) as [rest|] eqn:E.
      * injection H as _ H. exfalso. exact (s_split_on_fuel_nonnil _ _ _ _ H).
      * apply IH in H. subst q. cbn [rev]. rewrite <- app_assoc. reflexivity.
Qed.

Lemma s_split_on_fuel_two : forall fuel sep cur s p q,
  s_split_on_fuel fuel sep cur s = [p; q] -> rev cur ++ s = p ++ sep ++ q.
Proof.
  induction fuel as [|f IH]; intros sep cur s p q H; cbn [s_split_on_fuel] in H.
  - discriminate.
  - destruct s as [|c r]; [discriminate|].
    destruct (s_prefix sep (c :: r)) as [rest|] eqn:E.
    + injection H as Hp H. apply s_split_on_fuel_one in H. cbn [rev app] in H. subst p q.
      apply s_prefix_some in E. rewrite E. reflexivity.
    + apply IH in H. cbn [rev] in H. rewrite <- app_assoc in H. exact H.
Qed.

Lemma s_split_on_two : forall sep s p q, s_split_on sep s = OK [p; q] -> s = p ++ sep ++ q.
Proof.
  intros sep s p q H. unfold s_split_on in H. destruct sep as [|c sep]; [discriminate|].
  injection H as H. apply s_split_on_fuel_two in H. exact H.
Qed.

Lemma s_split_on_ok : forall sep s, sep <> [] -> exists l, s_split_on sep s = OK l.
Proof.
  intros sep s H. unfold s_split_on. destruct sep; [contradiction|]. eexists. reflexivity.
Qed.

(* --- case folding *)
Lemma s_lower_fold : forall x, all_letters x = true -> map a_fold (s_lower x) = map a_fold x.
Proof.
  unfold all_letters, s_lower.
  induction x as [|c x IH]; intros H; cbn [flat_map map forallb] in *; [reflexivity|].
  apply andb_true_iff in H as [Hc Hx]. rewrite map_app.
  destruct (a_letter_fold c Hc) as [E _]. rewrite E. cbn [app]. f_equal. apply IH. exact Hx.
Qed.

Lemma s_capitalize_fold : forall x, all_letters x = true -> map a_fold (s_capitalize x) = map a_fold x.
Proof.
  intros x H. unfold s_capitalize. destruct x as [|c x]; [reflexivity|].
  unfold all_letters in H. cbn [forallb] in H. apply andb_true_iff in H as [Hc Hx].
  rewrite map_app. destruct (a_letter_fold c Hc) as [_ E]. rewrite E. cbn [app map]. f_equal.
  apply s_lower_fold. exact Hx.
Qed.
