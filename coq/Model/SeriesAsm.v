(* Model of the assembly loop of AbstractInventory.decay_time_series_pandas (and, through it, of
   decay_time_series): the inventory is decayed separately to every time point, the read-out of each
   decayed inventory is an insertion-ordered dict  nuclide -> value,  and the loop

        decayed_data = collections.defaultdict(list)
        for e in data_map:
            for iso, en in e.<read-out>(...).items():
                decayed_data[iso].append(en)

   appends every value to the column of its nuclide, creating the column (at the END of the dict) the
   first time the nuclide is seen.  The value type is a parameter (IEEE double for both classes' read-outs;
   the model does not look inside the values).  Tie: source text of decay_time_series_pandas /
   decay_time_series (tools/shapes.json) + the stream `series_assemble`, which evaluates [assemble] on the
   per-point read-outs observed from separate decays and compares with the columns the library returned.
   Definitions only. *)
From Coq Require Import NArith List Bool.
From RD Require Import Base Lib.Py.
Import ListNotations.

Section Assemble.
Context {V : Type}.

(* decayed_data[k].append(v) on a defaultdict(list), insertion ordered *)
Fixpoint dd_append (k : str) (v : V) (d : list (str * list V)) : list (str * list V) :=
  match d with
  | [] => [(k, [v])]
  | (k', vs) :: r => if s_eqb k k' then (k', vs ++ [v]) :: r else (k', vs) :: dd_append k v r
  end.

(* the inner loop over one decayed inventory's read-out *)
Definition assemble_point (d : list (str * list V)) (p : list (str * V)) : list (str * list V) :=
  fold_left (fun d kv => dd_append (fst kv) (snd kv) d) p d.

(* the outer loop over the time points *)
Definition assemble_from (d : list (str * list V)) (ps : list (list (str * V))) : list (str * list V) :=
  fold_left assemble_point ps d.
Definition assemble (ps : list (list (str * V))) : list (str * list V) := assemble_from [] ps.

(* ---------- specification vocabulary *)
(* dict look-up *)
Fixpoint d_get {A} (k : str) (d : list (str * A)) : option A :=
  match d with [] => None | (k', a) :: r => if s_eqb k k' then Some a else d_get k r end.
(* the values a read-out holds for nuclide k (a dict holds at most one) *)
Definition vals_of (k : str) (p : list (str * V)) : list V :=
  map snd (filter (fun kv => s_eqb k (fst kv)) p).
(* keys in first-occurrence order *)
Fixpoint add_key (k : str) (ks : list str) : list str :=
  match ks with [] => [k] | k' :: r => if s_eqb k k' then ks else k' :: add_key k r end.
Definition keys_from (ks : list str) (ps : list (list (str * V))) : list str :=
  fold_left (fun ks p => fold_left (fun ks kv => add_key (fst kv) ks) p ks) ps ks.
End Assemble.

(* the result of decay_time_series: (list(df.index), df.to_dict(orient="list")) - the time points as given and the
   assembled columns; pandas keeps dict insertion order for the columns *)
Definition time_series {T V : Type} (times : list T) (readout_at : T -> list (str * V)) : list T * list (str * list V) :=
  (times, assemble (map readout_at times)).

(* ---------- the curves of AbstractInventory.plot / InventoryHP.plot

        ydata = np.zeros(shape=(npoints, len(display)))
        for idx in range(0, npoints):
            decayed_contents = self.decay(time_points[idx], xunits).<read-out>(yunits)
            ydata[idx] = [decayed_contents[rad] for rad in display]        # KeyError if rad is missing
        ... decay_graph(time_points=time_points, ydata=ydata.T, nuclides=display, ...)

   one row per time point, one entry per displayed nuclide; the transposed table (one curve per displayed
   nuclide) is what is drawn.  [None] models the KeyError. *)
Fixpoint opt_all {A} (l : list (option A)) : option (list A) :=
  match l with
  | [] => Some []
  | None :: _ => None
  | Some a :: r => match opt_all r with Some s => Some (a :: s) | None => None end
  end.

Section Plot.
Context {T V : Type}.
Definition plot_row (display : list str) (contents : list (str * V)) : option (list V) :=
  opt_all (map (fun rad => d_get rad contents) display).
Definition plot_rows (times : list T) (readout_at : T -> list (str * V)) (display : list str) : option (list (list V)) :=
  opt_all (map (fun t => plot_row display (readout_at t)) times).
(* ydata.T[j] *)
Definition column (j : nat) (rows : list (list V)) : option (list V) :=
  opt_all (map (fun row => nth_error row j) rows).
Definition plot_curves (times : list T) (readout_at : T -> list (str * V)) (display : list str) : option (list (str * list V)) :=
  match plot_rows times readout_at display with
  | None => None
  | Some rows => opt_all (map (fun jr => option_map (pair (snd jr)) (column (fst jr) rows))
                              (combine (seq 0 (length display)) display))
  end.
End Plot.

(* ---------- which curves, in which order (plot, display == "all"):
        if order == "dataset":        display = sort_list_according_to_dataset(self.decay(0).nuclides, self.decay_data.nuclide_dict)
        elif order == "alphabetical": display = self.decay(0).nuclides
        else: raise ValueError
   utils.sort_list_according_to_dataset = sorted(input_list, key=lambda nuclide: key_dict[nuclide]): a STABLE sort on the
   nuclide's position in the data set (KeyError for a name the data set does not list). *)
Fixpoint index_of (n : str) (names : list str) : option nat :=
  match names with
  | [] => None
  | x :: r => if s_eqb n x then Some O else option_map S (index_of n r)
  end.
Fixpoint ins_by (kn : nat * str) (l : list (nat * str)) : list (nat * str) :=
  match l with
  | [] => [kn]
  | x :: r => if Nat.leb (fst kn) (fst x) then kn :: x :: r else x :: ins_by kn r
  end.
Definition sort_list_according_to_dataset (input : list str) (names : list str) : res (list str) :=
  match opt_all (map (fun n => option_map (fun i => (i, n)) (index_of n names)) input) with
  | None => Raise KeyError
  | Some l => OK (map snd (fold_right ins_by [] l))
  end.
Definition s_dataset : str := [100; 97; 116; 97; 115; 101; 116]%N.
Definition s_alphabetical : str := [97; 108; 112; 104; 97; 98; 101; 116; 105; 99; 97; 108]%N.
Definition plot_display_all (order : str) (decayed : list str) (names : list str) : res (list str) :=
  if s_eqb order s_dataset then sort_list_according_to_dataset decayed names
  else if s_eqb order s_alphabetical then OK decayed
  else Raise ValueError.
