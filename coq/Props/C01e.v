(* C01 (fifth part) - the forward-error theorem in the form the property states it: for the shipped data set every
   finite double-precision result is within 1e-11 x (initial atoms held by that nuclide's ANCESTORS) of the exact solution. *)
From Coq Require Import Reals ZArith NArith List Bool Arith.
From Coq Require Import PrimFloat.
From Flocq Require Import Core.Core.
From RD Require Import Base Lib.CertQ Model.DecayR Model.Dataset Model.Default Model.Rounding64
  Model.FloatDecay Model.FloatData Model.Ancestors.
From RD Require Proofs.CertDefault.FloatDataCert Proofs.FloatDecayAnc.
Import ListNotations.
Local Open Scope R_scope.

Theorem default_float_decay_error_ancestors :
  forall (e n0 : frow) (i : N) (ce mo : list N) (t : R),
  orders_okb (ds_cf Default) (ds_cif Default) e n0 i ce mo = true ->
  ffin (pf_yhat (ds_cf Default) (ds_cif Default) e n0 i ce mo) = true ->
  0 <= t ->
  let n0f := fun j : nat => fval (fget n0 (N.of_nat j)) in
  let Ef := fun k : nat => fval (fget e (N.of_nat k)) in
  let lamf := fun k : nat => fval (nth k Proofs.CertDefault.FloatDataCert.default_lam_val 0%float) in
  (forall j, 0 <= n0f j) ->
  (forall k, (k < nn Default)%nat -> (exists j, (j < nn Default)%nat /\ Cifr Default k j * n0f j <> 0) ->
             Rabs (Ef k - exp (- lamf k * t)) <= bpow radix2 (-50)) ->
  Rabs (fval (pf_yhat (ds_cf Default) (ds_cif Default) e n0 i ce mo)
        - Nt (nn Default) (Cr Default) (Cir Default) (mur Default) n0f t (N.to_nat i))
  <= 1 / 10 ^ 11 * anc_atoms Default n0f (N.to_nat i) + bpow radix2 (-1060).
Proof. exact Proofs.FloatDecayAnc.default_float_decay_error_ancestors. Qed.
