"""Implementation side of the C10 entry-point stream (PYTHONPATH=/repo): every entry point that takes a
nuclide, a unit or an amount is called with invalid input; reports the exception class (or 'accepted')."""
import json, sys, os, tempfile

def main():
    import numpy as np, sympy
    import radioactivedecay as rd
    req = json.load(sys.stdin)
    BADK = {"float": 1.5, "none": None, "tuple": ("H-3",), "list": ["H-3"], "bytes": b"H-3", "npstr": np.str_("H-3"),
            "npint": np.int64(10030000), "bool": True,
            # not str / int / Nuclide, but equal (and hash-equal) to a valid id that has been used successfully before
            "floatid": 10030000.0, "npfloatid": np.float64(10030000.0), "fracid": __import__("fractions").Fraction(10030000),
            "decid": __import__("decimal").Decimal(10030000), "symid": sympy.Integer(10030000)}
    BADA = {"nan": float("nan"), "neg": -1.0, "str": "1", "none": None, "complex": 1 + 0j, "npnan": np.float64("nan"),
            "negint": -3, "negrat": sympy.Rational(-1, 3), "symnan": sympy.nan, "symbol": sympy.Symbol("x"), "list": [1.0],
            "negnp": np.float32(-2.0), "neginf": float("-inf"), "npneginf": np.float64("-inf"), "symneginf": -sympy.oo,
            "zoo": sympy.zoo, "imag": sympy.I, "cplx": 1 + sympy.I}     # (+inf is not in the property's list of invalid amounts: it is >= 0)
    GOODA = {"int": 2, "float": 2.0, "np64": np.float64(2.0), "np32": np.float32(2.0), "npint": np.int64(2),
             "rat": sympy.Rational(2, 1), "symint": sympy.Integer(2), "frac": __import__("fractions").Fraction(2, 1),
             "symfloat": sympy.Float(2.0)}
    out = []
    d = rd.DEFAULTDATA
    # ordinary successful use first: the refusals below must not depend on what was asked before
    rd.Nuclide(10030000); rd.Nuclide("H-3"); rd.Inventory({10030000: 1.0, "C-14": 2.0}, "num").remove(10030000)
    rd.InventoryHP({10030000: 1.0}, "num"); d.half_life(10030000); d.half_life("H-3")

    def run(label, f):
        try:
            r = f()
            out.append([label, "accepted", None if r is None else str(r)[:80]])
        except Exception as e:
            out.append([label, type(e).__name__, str(e)[:80]])
    for cname, cls in (("Inventory", rd.Inventory), ("InventoryHP", rd.InventoryHP)):
        for s in req["bad_strings"]:
            run(f"{cname}.ctor key={s!r}", lambda: cls({s: 1.0}, "num").contents)
            run(f"{cname}.add key={s!r}", lambda: cls({"H-3": 1.0}, "num").add({s: 1.0}, "num"))
            run(f"{cname}.subtract key={s!r}", lambda: cls({"H-3": 1.0}, "num").subtract({s: 1.0}, "num"))
            run(f"{cname}.remove key={s!r}", lambda: cls({"H-3": 1.0}, "num").remove(s))
            run(f"{cname}.remove_list key={s!r}", lambda: cls({"H-3": 1.0}, "num").remove(["H-3", s]))
        for z in req["bad_ids"]:
            run(f"{cname}.ctor id={z}", lambda: cls({z: 1.0}, "num").contents)
            run(f"{cname}.remove id={z}", lambda: cls({"H-3": 1.0}, "num").remove(z))
        for k, v in BADK.items():
            run(f"{cname}.ctor badkey={k}", lambda: cls({v: 1.0}, "num").contents if k != "list" else cls({tuple(v): 1.0}, "num").contents)
            run(f"{cname}.add badkey={k}", lambda: cls({"H-3": 1.0}, "num").add({v if k != "list" else tuple(v): 1.0}, "num"))
            if k != "list":
                run(f"{cname}.remove badkey={k}", lambda: cls({"H-3": 1.0}, "num").remove(v))
        for k, v in BADA.items():
            for u in ("num", "Bq", "g", "mol"):
                run(f"{cname}.ctor badamount={k} unit={u}", lambda: cls({"H-3": v}, u).contents)
            run(f"{cname}.ctor badamount2={k}", lambda: cls({"C-14": 1.0, "H-3": v}, "num").contents)
            run(f"{cname}.add badamount={k}", lambda: cls({"H-3": 1.0}, "num").add({"H-3": v}, "num"))
            run(f"{cname}.subtract badamount={k}", lambda: cls({"H-3": 1.0}, "num").subtract({"H-3": v}, "num"))
        for u in req["bad_units"]:
            run(f"{cname}.ctor badunit={u!r}", lambda: cls({"H-3": 1.0}, u).contents)
            run(f"{cname}.add badunit={u!r}", lambda: cls({"H-3": 1.0}, "num").add({"H-3": 1.0}, u))
            run(f"{cname}.activities badunit={u!r}", lambda: cls({"H-3": 1.0}, "num").activities(u))
            run(f"{cname}.masses badunit={u!r}", lambda: cls({"H-3": 1.0}, "num").masses(u))
            run(f"{cname}.moles badunit={u!r}", lambda: cls({"H-3": 1.0}, "num").moles(u))
        for st in req["stable"]:
            for u in ("Bq", "Ci", "dpm", "kBq"):
                run(f"{cname}.ctor stable-activity {st} {u}", lambda: cls({st: 1.0}, u).contents)
                run(f"{cname}.add stable-activity {st} {u}", lambda: cls({"H-3": 1.0}, "num").add({st: 1.0}, u))
        vals = {}
        for k, v in GOODA.items():
            try:
                vals[k] = [float(x) for x in cls({"H-3": v}, "num").numbers().values()] + \
                          [float(x) for x in cls({"H-3": v}, "mol").numbers().values()]
            except Exception as e:
                vals[k] = type(e).__name__
        out.append([f"{cname}.equal-valued amounts", "values", json.dumps(vals)])
    for s in req["bad_strings"]:
        run(f"Nuclide key={s!r}", lambda: rd.Nuclide(s).nuclide)
        run(f"half_life key={s!r}", lambda: d.half_life(s))
        run(f"branching_fraction key={s!r}", lambda: d.branching_fraction(s, "He-3"))
        run(f"decay_mode key={s!r}", lambda: d.decay_mode("H-3", s))
    for z in req["bad_ids"]:
        run(f"Nuclide id={z}", lambda: rd.Nuclide(z).nuclide)
    for k, v in BADK.items():
        run(f"Nuclide badkey={k}", lambda: rd.Nuclide(v if k != "list" else tuple(v)).nuclide)
    # time units: every entry point that takes one, with radioactive AND stable receivers (a stable nuclide must not slip through)
    for u in req.get("bad_time_units", []):
        for name in ("H-3", "He-3", "Pb-208", "Tc-99m"):
            run(f"half_life badtimeunit={u!r} {name}", lambda: d.half_life(name, u))
            run(f"Nuclide.half_life badtimeunit={u!r} {name}", lambda: rd.Nuclide(name).half_life(u))
            for cname, cls in (("Inventory", rd.Inventory), ("InventoryHP", rd.InventoryHP)):
                run(f"{cname}.half_lives badtimeunit={u!r} {name}", lambda: cls({name: 1.0}, "num").half_lives(u))
                run(f"{cname}.decay badtimeunit={u!r} {name}", lambda: cls({name: 1.0}, "num").decay(1.0, u).contents)
                run(f"{cname}.cumulative_decays badtimeunit={u!r} {name}", lambda: cls({name: 1.0}, "num").cumulative_decays(1.0, u))
            run(f"Inventory.decay_time_series badtimeunit={u!r} {name}", lambda: rd.Inventory({name: 1.0}, "num").decay_time_series(1.0, time_units=u, npoints=2))
    # the same read-outs on an EMPTY inventory (nothing to convert): one combined row, recorded as a known finding
    acc = []
    for cname, cls in (("Inventory", rd.Inventory), ("InventoryHP", rd.InventoryHP)):
        e0 = cls({}, "num")
        for meth, arg in (("activities", "bogus"), ("masses", "bogus"), ("moles", "bogus"), ("half_lives", "bogus")):
            try:
                getattr(e0, meth)(arg); acc.append(f"{cname}.{meth}")
            except ValueError:
                pass
            except Exception as ex:
                acc.append(f"{cname}.{meth}:{type(ex).__name__}")
    out.append(["empty-inventory read-outs with an unsupported unit", "accepted" if acc else "ValueError", ", ".join(acc)])
    # read_csv rows
    tmp = tempfile.mkdtemp(prefix="rdverif_")
    try:
        for i, row in enumerate(req["bad_rows"]):
            p = os.path.join(tmp, f"r{i}.csv")
            with open(p, "w", encoding="utf-8") as f:
                f.write("H-3,1.0,num\n" + row + "\n")
            run(f"read_csv row={row!r}", lambda: rd.read_csv(p).contents)
            os.remove(p)
    finally:
        os.rmdir(tmp)
    json.dump(out, sys.stdout)
main()
