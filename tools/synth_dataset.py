#!/venv/bin/python
"""Writes a small SYNTHETIC decay data set in the library's own file format (decay_data.npz, c_scipy.npz,
c_inv_scipy.npz and the SymPy pickles) so that it can be loaded with radioactivedecay.decaydata.load_dataset(name, dir)
and translated by tools/tr_data.py like the shipped one.  It exercises what the shipped data never do: metastable states
p, q, r, x; every half-life storage unit; a year of 365.25 days; branches that do not sum to one; spontaneous fission.

The chain data are written out literally below (deterministic).  The eigenvector matrix C (unit diagonal) and its inverse are
computed here in exact rational arithmetic from  Lambda C = C diag(-lambda):  C_ij = sum_p bf(p->i) mu_p C_pj / (mu_i - mu_j);
that this is right is NOT trusted: the Coq certificate (wf_core) re-checks C C^-1 = I, C^-1 C = I, M C = C D on the files."""
import os, pickle, sys
from fractions import Fraction
from decimal import Decimal

YEAR = Fraction(1461, 4)        # 365.25 days
SECS = {"ps": Fraction(1, 10**12), "ns": Fraction(1, 10**9), "μs": Fraction(1, 10**6), "ms": Fraction(1, 10**3), "s": Fraction(1),
        "m": Fraction(60), "h": Fraction(3600), "d": Fraction(86400), "y": 86400 * YEAR, "ky": 86400 * YEAR * 10**3,
        "My": 86400 * YEAR * 10**6, "Gy": 86400 * YEAR * 10**9}

# name, half-life value (decimal text), unit, [(progeny, branching fraction text, mode)], atomic mass (decimal text)
CHAINS = [
    ("Cf-252", "2.645", "y", [("Cm-248", "0.96908", "α"), ("SF", "0.03092", "SF")], "252.081627"),
    ("Cm-248", "348.0", "ky", [("Pu-244", "0.9161", "α"), ("SF", "0.0839", "SF")], "248.072349"),
    ("Pu-244", "80.0", "My", [("U-240", "0.9988", "α")], "244.064205"),
    ("U-240", "14.1", "h", [("Np-240m", "1.0", "β-")], "240.056593"),
    ("Np-240m", "7.22", "m", [("Pu-240", "0.9989", "β-"), ("Np-240", "0.0011", "IT")], "240.056188"),
    ("Np-240", "61.9", "m", [("Pu-240", "1.0", "β-")], "240.056164"),
    ("Pu-240", "6.561", "ky", [("U-236", "1.0", "α")], "240.053814"),
    ("U-236", "inf", "s", [], "236.045566"),
    ("Hf-178x", "31.0", "y", [("Hf-178r", "1.0", "IT")], "178.046327"),
    ("Hf-178r", "4.0", "s", [("Hf-178q", "0.6", "IT"), ("Hf-178p", "0.4", "IT")], "178.045001"),
    ("Hf-178q", "68.0", "μs", [("Hf-178p", "1.0", "IT")], "178.044002"),
    ("Hf-178p", "2.1", "ms", [("Hf-178n", "1.0", "IT")], "178.043503"),
    ("Hf-178n", "12.0", "ns", [("Hf-178m", "1.0", "IT")], "178.043004"),
    ("Hf-178m", "350.0", "ps", [("Hf-178", "1.0", "IT")], "178.042505"),
    ("Hf-178", "inf", "s", [], "177.943706"),
    ("Tc-99m", "6.015", "h", [("Tc-99", "0.99996", "IT"), ("Ru-99", "0.00004", "β-")], "98.906408"),
    ("Tc-99", "211.1", "ky", [("Ru-99", "1.0", "β-")], "98.906255"),
    ("Ru-99", "inf", "s", [], "98.905934"),
    ("I-131", "8.0252", "d", [("Xe-131", "0.9882", "β-"), ("Xe-131m", "0.0118", "β-")], "130.906126"),
    ("Xe-131m", "11.84", "d", [("Xe-131", "1.0", "IT")], "130.905258"),
    ("Xe-131", "inf", "s", [], "130.905084"),
    ("K-40", "1.251", "Gy", [("Ca-40", "0.8914", "β-"), ("Ar-40", "0.1086", "β+ & EC")], "39.963998"),
    ("Ca-40", "inf", "s", [], "39.962591"),
    ("Ar-40", "inf", "s", [], "39.962383"),
]


ELEMENTS = ["H", "He", "Li", "Be", "B", "C", "N", "O", "F", "Ne", "Na", "Mg", "Al", "Si", "P", "S", "Cl", "Ar", "K", "Ca", "Sc", "Ti", "V", "Cr",
            "Mn", "Fe", "Co", "Ni", "Cu", "Zn", "Ga", "Ge", "As", "Se", "Br", "Kr", "Rb", "Sr", "Y", "Zr", "Nb", "Mo", "Tc", "Ru", "Rh", "Pd",
            "Ag", "Cd", "In", "Sn", "Sb", "Te", "I", "Xe", "Cs", "Ba", "La", "Ce", "Pr", "Nd", "Pm", "Sm", "Eu", "Gd", "Tb", "Dy", "Ho", "Er",
            "Tm", "Yb", "Lu", "Hf", "Ta", "W", "Re", "Os", "Ir", "Pt", "Au", "Hg", "Tl", "Pb", "Bi", "Po", "At", "Rn", "Fr", "Ra", "Ac", "Th",
            "Pa", "U", "Np", "Pu", "Am", "Cm", "Bk", "Cf", "Es", "Fm"]


def random_chains(seed):
    """a random well-formed decay network: forward links only (parents listed first), 0-3 progeny per nuclide with decreasing
    branching fractions summing to at most one, mid-chain stable nuclides, occasional fission branches, every storage unit,
    pairwise distinct half-lives, members in all seven states"""
    import random
    rng = random.Random(seed)
    n = rng.randint(12, 36)
    names, used = [], set()
    while len(names) < n:
        nm = f"{rng.choice(ELEMENTS)}-{rng.randint(1, 270)}{rng.choice(['', '', '', 'm', 'n', 'p', 'q', 'r', 'x'])}"
        if nm not in used:
            used.add(nm); names.append(nm)
    units = ["ps", "ns", "μs", "ms", "s", "m", "h", "d", "y", "ky", "My", "Gy"]
    chains, seen_hl = [], set()
    for i, nm in enumerate(names):
        stable = (i == n - 1) or rng.random() < 0.25
        if stable:
            chains.append((nm, "inf", "s", [], f"{rng.uniform(1, 270):.6f}"))
            continue
        while True:
            v, u = f"{rng.uniform(1, 999):.4g}", rng.choice(units)
            key = Fraction(Decimal(v)) * SECS[u]
            if key not in seen_hl:
                seen_hl.add(key); break
        k = min(rng.choice([1, 1, 1, 2, 2, 3]), n - 1 - i)
        progs = rng.sample(range(i + 1, n), k) if k else []
        weights = sorted((rng.uniform(0.05, 1.0) for _ in progs), reverse=True)
        tot = sum(weights) / rng.choice([1.0, 1.0, 0.999, 0.97])
        bfs = [float(f"{w / tot:.5f}") for w in weights] if progs else []
        links = [(names[j], repr(b), rng.choice(["α", "β-", "β+", "EC", "IT", "β+ & EC"])) for j, b in zip(progs, bfs)]
        if progs and rng.random() < 0.15:
            sf = min(bfs) / 2
            links.append(("SF", f"{sf:.6f}", "SF"))
            if sum(float(l[1]) for l in links) > 1.0:
                links.pop()
        links.sort(key=lambda l: -float(l[1]))
        chains.append((nm, v, u, links, f"{rng.uniform(1, 270):.6f}"))
    year = rng.choice([Fraction(1461, 4), Fraction(3652422, 10000), Fraction(365), Fraction(366)])
    return chains, year


def build(CHAINS=None, YEAR=None):
    if CHAINS is None:
        CHAINS, YEAR = globals()["CHAINS"], globals()["YEAR"]
    secs = dict(SECS, y=86400 * YEAR, ky=86400 * YEAR * 10**3, My=86400 * YEAR * 10**6, Gy=86400 * YEAR * 10**9)
    names = [c[0] for c in CHAINS]
    idx = {n: i for i, n in enumerate(names)}
    n = len(names)
    mu = []
    for _, v, u, _, _ in CHAINS:
        mu.append(Fraction(0) if v == "inf" else 1 / (Fraction(Decimal(v)) * secs[u]))
    # rate matrix / ln2
    lam = [[Fraction(0)] * n for _ in range(n)]
    for j, (_, _, _, links, _) in enumerate(CHAINS):
        lam[j][j] = -mu[j]
        for prog, bf, _ in links:
            if prog != "SF":
                i = idx[prog]
                assert i > j, "parents come first"
                lam[i][j] += Fraction(Decimal(bf)) * mu[j]
    C = [[Fraction(0)] * n for _ in range(n)]
    for j in range(n):
        C[j][j] = Fraction(1)
        for i in range(j + 1, n):
            s = sum(lam[i][p] * C[p][j] for p in range(j, i) if lam[i][p] != 0 and C[p][j] != 0)
            if s != 0:
                assert mu[i] != mu[j], "distinct decay constants needed"
                C[i][j] = s / (mu[i] - mu[j])
    # inverse of a unit lower-triangular matrix
    Ci = [[Fraction(0)] * n for _ in range(n)]
    for j in range(n):
        Ci[j][j] = Fraction(1)
        for i in range(j + 1, n):
            Ci[i][j] = -sum(C[i][p] * Ci[p][j] for p in range(j, i) if C[i][p] != 0)
    return names, mu, C, Ci


def write(outdir, seed=None):
    import numpy as np, scipy.sparse as sp, sympy
    os.makedirs(outdir, exist_ok=True)
    CHAINS, YEAR = (globals()["CHAINS"], globals()["YEAR"]) if seed is None else random_chains(seed)
    names, mu, C, Ci = build(CHAINS, YEAR)
    n = len(names)
    hldata = np.empty((n, 3), dtype=object)
    progeny = np.empty(n, dtype=object); bfs = np.empty(n, dtype=object); modes = np.empty(n, dtype=object)
    for i, (name, v, u, links, mass) in enumerate(CHAINS):
        if v == "inf":
            hldata[i] = [np.float64("inf"), "s", "stable"]
        else:
            hldata[i] = [np.float64(v), u, f"{float(v)} {u}"]
        progeny[i] = [l[0] for l in links]; bfs[i] = [float(l[1]) for l in links]; modes[i] = [l[2] for l in links]
    np.savez(os.path.join(outdir, "decay_data.npz"), nuclides=np.array(names), masses=np.array([float(c[4]) for c in CHAINS]),
             hldata=hldata, progeny=progeny, bfs=bfs, modes=modes, year_conv=np.array(float(YEAR)))
    for fname, M in (("c_scipy.npz", C), ("c_inv_scipy.npz", Ci)):
        rows, cols, vals = [], [], []
        for i in range(n):
            for j in range(n):
                if M[i][j] != 0:
                    rows.append(i); cols.append(j); vals.append(float(M[i][j]))
        sp.save_npz(os.path.join(outdir, fname), sp.csr_matrix((vals, (rows, cols)), shape=(n, n)))
    R = lambda f: sympy.Rational(f.numerator, f.denominator)
    masses = sympy.Matrix([[R(Fraction(Decimal(c[4])))] for c in CHAINS])
    consts = sympy.Matrix([[sympy.log(2) * R(m)] for m in mu])
    cs = sympy.SparseMatrix(n, n, {(i, j): R(C[i][j]) for i in range(n) for j in range(n) if C[i][j] != 0})
    cis = sympy.SparseMatrix(n, n, {(i, j): R(Ci[i][j]) for i in range(n) for j in range(n) if Ci[i][j] != 0})
    for ver in ("1.8", "1.9"):
        for stem, obj in (("atomic_masses", masses), ("decay_consts", consts), ("c", cs), ("c_inv", cis), ("year_conversion", R(YEAR))):
            with open(os.path.join(outdir, f"{stem}_sympy_{ver}.pickle"), "wb") as fh:
                pickle.dump(obj, fh, protocol=4)
    return n


if __name__ == "__main__":
    out = sys.argv[1] if len(sys.argv) > 1 else os.path.join(os.path.dirname(os.path.abspath(__file__)), "..", ".scratch", "synth")
    seed = int(sys.argv[2]) if len(sys.argv) > 2 else None
    print(write(out, seed), "nuclides ->", os.path.normpath(out))
