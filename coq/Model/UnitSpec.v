(* Unit definitions as the property states them (hand-written, independent of converters.py):
   SI prefixes, 1 Ci = 3.7e10 Bq, 1 dpm = 1/60 Bq, t = ton = Mg, u = micro, time units with synonyms. *)
From Coq Require Import ZArith NArith List Bool QArith String.
From RD Require Import Base Lib.Py.
Import ListNotations.
Local Open Scope string_scope.

Definition mu_sign : str := [956%N].     (* the micro sign used by the library: U+03BC *)

(* prefix, power of ten *)
Definition prefixes_small : list (str * Z) :=
  [ (s2l "p", -12); (s2l "n", -9); (mu_sign, -6); (s2l "u", -6); (s2l "m", -3); ([], 0); (s2l "k", 3); (s2l "M", 6) ]%Z.
Definition prefixes_all : list (str * Z) :=
  (prefixes_small ++ [ (s2l "G", 9%Z); (s2l "T", 12%Z); (s2l "P", 15%Z); (s2l "E", 18%Z) ])%list.

Definition pow10 (e : Z) : Q :=
  match e with
  | Z0 => 1
  | Zpos p => inject_Z (Z.pow_pos 10 p)
  | Zneg p => Qmake 1 (Pos.pow 10 p)
  end.

Definition with_prefixes (ps : list (str * Z)) (base : str) (scale : Q) : list (str * Q) :=
  map (fun pe => ((fst pe ++ base)%list, pow10 (snd pe) * scale)) ps.

Definition spec_activity : list (str * Q) :=
  (with_prefixes prefixes_all (s2l "Bq") 1 ++ with_prefixes prefixes_all (s2l "Ci") (inject_Z 37000000000)
  ++ [ (s2l "dpm", Qmake 1 60) ])%list.
Definition spec_mass : list (str * Q) :=
  (with_prefixes prefixes_small (s2l "g") 1 ++ [ (s2l "t", inject_Z 1000000); (s2l "ton", inject_Z 1000000) ])%list.
Definition spec_moles : list (str * Q) := with_prefixes prefixes_small (s2l "mol") 1.

(* time: seconds per unit; year-based units are in DAYS-per-year-free form (multiplied by the data
   set's days-per-year by the conversion), exactly as the property says *)
Definition spec_time_plain : list (str * Q) :=
  [ (s2l "ps", pow10 (-12)); (s2l "ns", pow10 (-9)); ((mu_sign ++ s2l "s")%list, pow10 (-6)); (s2l "us", pow10 (-6));
    (s2l "ms", pow10 (-3)); (s2l "s", 1); (s2l "sec", 1); (s2l "second", 1); (s2l "seconds", 1);
    (s2l "m", inject_Z 60); (s2l "h", inject_Z 3600); (s2l "hr", inject_Z 3600); (s2l "hour", inject_Z 3600);
    (s2l "hours", inject_Z 3600); (s2l "d", inject_Z 86400); (s2l "day", inject_Z 86400); (s2l "days", inject_Z 86400) ].
Definition spec_time_year : list (str * Q) :=      (* seconds per unit = this * days-per-year *)
  [ (s2l "y", inject_Z 86400); (s2l "yr", inject_Z 86400); (s2l "year", inject_Z 86400); (s2l "years", inject_Z 86400);
    (s2l "ky", inject_Z 86400 * pow10 3); (s2l "My", inject_Z 86400 * pow10 6); (s2l "By", inject_Z 86400 * pow10 9);
    (s2l "Gy", inject_Z 86400 * pow10 9); (s2l "Ty", inject_Z 86400 * pow10 12); (s2l "Py", inject_Z 86400 * pow10 15) ].
Definition spec_time : list (str * Q) := (spec_time_plain ++ spec_time_year)%list.
Definition spec_year_units : list str := map fst spec_time_year.

Definition spec_avogadro : Q := inject_Z 602214076000000000000000.

(* two tables denote the same finite map (same key set, equal values) *)
Fixpoint q_assoc (k : str) (l : list (str * Q)) : option Q :=
  match l with [] => None | (a, v) :: r => if s_eqb a k then Some v else q_assoc k r end.
Definition same_table (a b : list (str * Q)) : bool :=
  Nat.eqb (length a) (length b) &&
  forallb (fun kv => match q_assoc (fst kv) b with Some v => Qeq_bool v (snd kv) | None => false end) a &&
  forallb (fun kv => match q_assoc (fst kv) a with Some _ => true | None => false end) b.
Fixpoint keys_nodup (l : list (str * Q)) : bool :=
  match l with [] => true | (k, _) :: r => negb (existsb (fun kv => s_eqb (fst kv) k) r) && keys_nodup r end.
Definition disjoint_keys (a b : list (str * Q)) : bool :=
  forallb (fun kv => negb (existsb (fun kw => s_eqb (fst kw) (fst kv)) b)) a.
