(* Proofs for C16 (decay-chain diagram): meaning of the decidable check [graph_ok], the layered search
   really follows [children], the meaning of [distinct_pos], and - for every view and every root - the
   per-generation right-most-column bookkeeping of the breadth-first loop keeps all positions distinct. *)
From Coq Require Import ZArith NArith List Bool Lia.
From RD Require Import Base Lib.Py Model.Dataset Model.Default Model.Digraph Model.DigraphD.
From RD.Gen.Default Require Meta.
From RD Require Proofs.CertDefault.Graphs.
Import ListNotations.
Local Open Scope Z_scope.

(* ---------- 1. the certificate for the shipped data set *)
Lemma default_all_diagrams_correct :
  all_graphs_ok (graph_view Default Meta.bf_reprs) = true.
Proof.
  rewrite <- Proofs.CertDefault.Graphs.default_gv_eq.
  exact Proofs.CertDefault.Graphs.default_graphs_ok.
Qed.

(* ---------- string equality *)
Lemma s_eqb_true : forall a b : str, s_eqb a b = true -> a = b.
Proof.
  induction a as [|x a IHa]; intros [|y b] H; simpl in H; try discriminate.
  - reflexivity.
  - apply andb_prop in H. destruct H as [Hxy Hab].
    apply N.eqb_eq in Hxy. apply IHa in Hab. subst. reflexivity.
Qed.

Lemma l_mem_str_In : forall s l, l_mem_str s l = true -> In s l.
Proof.
  intros s l H. unfold l_mem_str in H. apply existsb_exists in H.
  destruct H as [x [Hin Heq]]. apply s_eqb_true in Heq. subst x. exact Hin.
Qed.

(* ---------- 2. what [graph_ok] says *)
Lemma graph_ok_meaning : forall (v : gview) root st, graph_ok v root = true -> build v root = OK st ->
  let ls := depth_layers v root in
  (forall s, In s (concat ls) -> exists n, In n (nodes st) /\ n_id n = s) /\
  (forall n, In n (nodes st) -> is_sf_node (n_id n) = false -> In (n_id n) (concat ls) /\
                                depth_in ls 0 (n_id n) = Some (n_gen n)) /\
  distinct_pos (nodes st) = true /\ distinct_ids (nodes st) = true.
Proof.
  intros v root st Hok Hb ls.
  unfold graph_ok in Hok. rewrite Hb in Hok. fold ls in Hok.
  apply andb_prop in Hok. destruct Hok as [Hok Hpos].
  apply andb_prop in Hok. destruct Hok as [Hok _].
  apply andb_prop in Hok. destruct Hok as [Hok _].
  apply andb_prop in Hok. destruct Hok as [Hok _].
  apply andb_prop in Hok. destruct Hok as [Hok Hdepth].
  apply andb_prop in Hok. destruct Hok as [Hok Hids].
  apply andb_prop in Hok. destruct Hok as [Hall Honly].
  split; [|split; [|split]].
  - intros s Hs.
    rewrite forallb_forall in Hall. specialize (Hall s Hs).
    apply existsb_exists in Hall. destruct Hall as [n [Hn Heq]].
    apply filter_In in Hn. destruct Hn as [Hn _].
    exists n. split; [exact Hn|]. apply s_eqb_true. exact Heq.
  - intros n Hn Hsf.
    assert (Hreal : In n (filter (fun n0 => negb (is_sf_node (n_id n0))) (nodes st))).
    { apply filter_In. split; [exact Hn|]. rewrite Hsf. reflexivity. }
    rewrite forallb_forall in Honly. specialize (Honly n Hreal).
    rewrite forallb_forall in Hdepth. specialize (Hdepth n Hreal).
    split.
    + apply l_mem_str_In. exact Honly.
    + destruct (depth_in ls 0 (n_id n)) as [k|]; [|discriminate].
      apply Z.eqb_eq in Hdepth. subst k. reflexivity.
  - exact Hpos.
  - exact Hids.
Qed.

(* ---------- 3. the layered search follows [children] *)
Lemma dedup_In : forall l acc x, In x (dedup l acc) -> In x l \/ In x acc.
Proof.
  induction l as [|a l IHl]; intros acc x H; simpl in H.
  - right. exact H.
  - destruct (l_mem_str a acc).
    + apply IHl in H. destruct H as [H|H]; [left; right; exact H | right; exact H].
    + apply IHl in H. destruct H as [H|H]; [left; right; exact H |].
      apply in_app_or in H. destruct H as [H|H]; [right; exact H|].
      destruct H as [H|[]]. left. left. exact H.
Qed.

Lemma layers_S_cons : forall (v : gview) f c cur visited,
  layers v (S f) (c :: cur) visited =
  (c :: cur) :: layers v f (dedup (filter (fun c0 => in_view v c0 && negb (l_mem_str c0 visited))
                                           (flat_map (children v) (c :: cur))) [])
                         (visited ++ dedup (filter (fun c0 => in_view v c0 && negb (l_mem_str c0 visited))
                                                    (flat_map (children v) (c :: cur))) []).
Proof. reflexivity. Qed.

Lemma layers_head : forall (v : gview) fuel cur visited l rest,
  layers v fuel cur visited = l :: rest -> l = cur.
Proof.
  intros v fuel cur visited l rest H.
  destruct fuel as [|f]; [discriminate H|].
  destruct cur as [|c cur]; [discriminate H|].
  rewrite layers_S_cons in H. injection H as H1 _. symmetry. exact H1.
Qed.

Lemma layers_are_children : forall (v : gview) fuel cur visited l1 l2 rest,
  layers v fuel cur visited = l1 :: l2 :: rest ->
  forall c, In c l2 -> exists p, In p l1 /\ In c (children v p).
Proof.
  intros v fuel cur visited l1 l2 rest H c Hc.
  destruct fuel as [|f]; [discriminate H|].
  destruct cur as [|c0 cur]; [discriminate H|].
  rewrite layers_S_cons in H. injection H as H1 H2.
  apply layers_head in H2. subst l1 l2.
  apply dedup_In in Hc. destruct Hc as [Hc|[]].
  apply filter_In in Hc. destruct Hc as [Hc _].
  change (In c (flat_map (children v) (c0 :: cur))) in Hc.
  apply in_flat_map in Hc. exact Hc.
Qed.

(* ---------- 4. meaning of [distinct_pos] *)
Lemma distinct_pos_spec : forall ns, distinct_pos ns = true ->
  forall i j a b, nth_error ns i = Some a -> nth_error ns j = Some b -> i <> j ->
    ~ (n_gen a = n_gen b /\ n_xpos a = n_xpos b).
Proof.
  induction ns as [|x r IHr]; intros Hd i j a b Hi Hj Hij [Hg Hx].
  - destruct i; discriminate Hi.
  - simpl in Hd. apply andb_prop in Hd. destruct Hd as [Hhead Htail].
    rewrite forallb_forall in Hhead.
    destruct i as [|i]; destruct j as [|j].
    + apply Hij. reflexivity.
    + simpl in Hi, Hj. injection Hi as Hi. subst a.
      apply nth_error_In in Hj. specialize (Hhead b Hj).
      rewrite Hg, Hx, !Z.eqb_refl in Hhead. discriminate Hhead.
    + simpl in Hi, Hj. injection Hj as Hj. subst b.
      apply nth_error_In in Hi. specialize (Hhead a Hi).
      rewrite Hg, Hx, !Z.eqb_refl in Hhead. discriminate Hhead.
    + simpl in Hi, Hj.
      apply (IHr Htail i j a b Hi Hj); [|split; assumption].
      intro Heq. apply Hij. rewrite Heq. reflexivity.
Qed.

(* ---------- 5. positions are always distinct *)
Lemma gmx_get_set : forall g k v k',
  gmx_get (gmx_set g k v) k' = if Z.eqb k k' then Some v else gmx_get g k'.
Proof.
  induction g as [|[a w] r IHr]; intros k v k'; simpl.
  - reflexivity.
  - destruct (Z.eqb a k) eqn:Hak; simpl.
    + apply Z.eqb_eq in Hak. subst a.
      destruct (Z.eqb k k'); reflexivity.
    + destruct (Z.eqb a k') eqn:Hak'.
      * apply Z.eqb_eq in Hak'. subst a. rewrite Z.eqb_sym, Hak. reflexivity.
      * apply IHr.
Qed.

Lemma distinct_pos_snoc : forall ns x,
  distinct_pos ns = true ->
  (forall y, In y ns -> ~ (n_gen y = n_gen x /\ n_xpos y = n_xpos x)) ->
  distinct_pos (ns ++ [x]) = true.
Proof.
  induction ns as [|a ns IHns]; intros x Hd Hnew.
  - reflexivity.
  - simpl in Hd. apply andb_prop in Hd. destruct Hd as [Hhead Htail].
    simpl. apply andb_true_intro. split.
    + rewrite forallb_app. rewrite Hhead. simpl.
      rewrite andb_true_r.
      destruct (Z.eqb (n_gen a) (n_gen x)) eqn:Hg; [|reflexivity].
      destruct (Z.eqb (n_xpos a) (n_xpos x)) eqn:Hx; [|reflexivity].
      exfalso. apply Z.eqb_eq in Hg. apply Z.eqb_eq in Hx.
      apply (Hnew a); [left; reflexivity | split; assumption].
    + apply IHns; [exact Htail|].
      intros y Hy. apply Hnew. right. exact Hy.
Qed.

(* every placed node is at or left of the recorded right-most column of its row *)
Definition covered (g : list (Z * Z)) (ns : list gnode) : Prop :=
  forall n, In n ns -> exists m, gmx_get g (n_gen n) = Some m /\ n_xpos n <= m.
Definition Inv (g : list (Z * Z)) (ns : list gnode) : Prop :=
  covered g ns /\ distinct_pos ns = true.
(* during the inner loop over one parent's progeny on row [gen]: the next free column [b] is strictly to
   the right of the recorded right-most column of that row *)
Definition InvRow (gen b : Z) (g : list (Z * Z)) (ns : list gnode) : Prop :=
  Inv g ns /\ exists m, gmx_get g gen = Some m /\ m < b.

Lemma InvRow_step : forall gen b g ns id lab,
  InvRow gen b g ns ->
  InvRow gen (b + 1)
         (if Z.gtb b (match gmx_get g gen with Some m => m | None => -1 end) then gmx_set g gen b else g)
         (ns ++ [GNode id gen b lab]).
Proof.
  intros gen b g ns id lab [[Hcov Hd] [m [Hm Hlt]]].
  rewrite Hm.
  assert (Hgt : Z.gtb b m = true) by (rewrite Z.gtb_ltb; apply Z.ltb_lt; exact Hlt).
  rewrite Hgt.
  split; [split|].
  - intros n Hn. rewrite gmx_get_set.
    apply in_app_or in Hn. destruct Hn as [Hn|[Hn|[]]].
    + destruct (Hcov n Hn) as [m' [Hm' Hle]].
      destruct (Z.eqb gen (n_gen n)) eqn:Hg.
      * apply Z.eqb_eq in Hg. rewrite <- Hg in Hm'. rewrite Hm in Hm'. injection Hm' as Hm'. subst m'.
        exists b. split; [reflexivity | lia].
      * exists m'. split; assumption.
    + subst n. simpl. rewrite Z.eqb_refl. exists b. split; [reflexivity | lia].
  - apply distinct_pos_snoc; [exact Hd|].
    intros y Hy [Hg Hx]. simpl in Hg, Hx.
    destruct (Hcov y Hy) as [m' [Hm' Hle]].
    rewrite Hg, Hm in Hm'. injection Hm' as Hm'. subst m'. lia.
  - exists b. rewrite gmx_get_set, Z.eqb_refl. split; [reflexivity | lia].
Qed.

Lemma progeny_loop_cons : forall (v : gview) parent generation xpos prog progs' bf bfs' mode modes' xcounter st,
  progeny_loop v parent generation xpos (prog :: progs') (bf :: bfs') (mode :: modes') xcounter st =
  let elabel := parse_decay_mode_label mode ++ nl ++ bf in
  if negb (l_mem_str prog (seen st)) then
    bind (parse_nuclide_label prog) (fun lab0 =>
      let known := g_find v prog in
      let lab := match known with Some g => lab0 ++ nl ++ g_readable g | None => lab0 end in
      let q' := match known with
                | Some g => if g_stable g then q st else q st ++ [(prog, generation, xpos + xcounter)]
                | None => q st
                end in
      let prog' := if s_eqb prog SFs then parent ++ sf_suffix else prog in
      let cur := match gmx_get (gmx st) generation with Some m => m | None => (-1)%Z end in
      let gmx' := if Z.gtb (xpos + xcounter) cur then gmx_set (gmx st) generation (xpos + xcounter) else gmx st in
      progeny_loop v parent generation xpos progs' bfs' modes' (xcounter + 1)
        (GS q' gmx' (seen st ++ [prog']) (nodes st ++ [GNode prog' generation (xpos + xcounter) lab])
            (edges st ++ [GEdge parent prog' elabel])))
  else
    progeny_loop v parent generation xpos progs' bfs' modes' xcounter
      (GS (q st) (gmx st) (seen st) (nodes st) (edges st ++ [GEdge parent prog elabel])).
Proof. reflexivity. Qed.

Lemma progeny_loop_inv : forall (v : gview) parent generation xpos progs bfs modes xcounter st st',
  progeny_loop v parent generation xpos progs bfs modes xcounter st = OK st' ->
  InvRow generation (xpos + xcounter) (gmx st) (nodes st) ->
  Inv (gmx st') (nodes st').
Proof.
  intros v parent generation xpos.
  induction progs as [|prog progs' IH]; intros bfs modes xcounter st st' H HI.
  - simpl in H. injection H as H. subst st'. destruct HI as [HI _]. exact HI.
  - destruct bfs as [|bf bfs']; [discriminate H|].
    destruct modes as [|mode modes']; [discriminate H|].
    rewrite progeny_loop_cons in H. cbv zeta in H.
    destruct (negb (l_mem_str prog (seen st))).
    + destruct (parse_nuclide_label prog) as [lab0|e]; [|discriminate H].
      cbn [bind] in H.
      apply IH in H; [exact H|].
      cbn [gmx nodes].
      replace (xpos + (xcounter + 1)) with (xpos + xcounter + 1) by lia.
      apply InvRow_step. exact HI.
    + apply IH in H; [exact H|].
      cbn [gmx nodes]. exact HI.
Qed.

Lemma bfs_loop_S : forall (v : gview) f st pname g0 x0 rest,
  q st = (pname, g0, x0) :: rest ->
  bfs_loop v (S f) st =
  let generation := (g0 + 1)%Z in
  let gmx1 := match gmx_get (gmx st) generation with Some _ => gmx st | None => gmx_set (gmx st) generation (-1) end in
  match g_find v pname with
  | None => Raise ValueError
  | Some g =>
      let cur := match gmx_get gmx1 generation with Some m => m | None => (-1)%Z end in
      let xpos := Z.max x0 (cur + 1) in
      bind (progeny_loop v pname generation xpos (g_progeny g) (g_bfrepr g) (g_modes g) 0
                         (GS rest gmx1 (seen st) (nodes st) (edges st)))
           (bfs_loop v f)
  end.
Proof. intros v f st pname g0 x0 rest Hq. cbn [bfs_loop]. rewrite Hq. reflexivity. Qed.

Lemma bfs_loop_nil : forall (v : gview) f st, q st = [] -> bfs_loop v f st = OK st.
Proof. intros v f st Hq. destruct f; cbn [bfs_loop]; rewrite Hq; reflexivity. Qed.

Lemma bfs_loop_inv : forall (v : gview) f st st',
  bfs_loop v f st = OK st' -> Inv (gmx st) (nodes st) -> Inv (gmx st') (nodes st').
Proof.
  intros v. induction f as [|f IHf]; intros st st' H HI.
  - destruct (q st) as [|[[pname g0] x0] rest] eqn:Hq.
    + rewrite (bfs_loop_nil v 0 st Hq) in H. injection H as H. subst st'. exact HI.
    + cbn [bfs_loop] in H. rewrite Hq in H. discriminate H.
  - destruct (q st) as [|[[pname g0] x0] rest] eqn:Hq.
    + rewrite (bfs_loop_nil v (S f) st Hq) in H. injection H as H. subst st'. exact HI.
    + rewrite (bfs_loop_S v f st pname g0 x0 rest Hq) in H. cbv zeta in H.
      destruct (g_find v pname) as [g|]; [|discriminate H].
      match type of H with
      | bind ?m _ = _ => destruct m as [st1|e] eqn:Hp; [|discriminate H]
      end.
      cbn [bind] in H.
      apply (IHf st1 st' H).
      apply progeny_loop_inv in Hp; [exact Hp|].
      cbn [gmx nodes]. clear Hp H.
      destruct HI as [Hcov Hd].
      destruct (gmx_get (gmx st) (g0 + 1)) as [m|] eqn:Hm.
      * cbv iota. rewrite Hm. split; [split; assumption|].
        exists m. split; [exact Hm | lia].
      * cbv iota. rewrite gmx_get_set, Z.eqb_refl. split; [split; [|exact Hd]|].
        -- intros n Hn. destruct (Hcov n Hn) as [m' [Hm' Hle]].
           rewrite gmx_get_set.
           destruct (Z.eqb (g0 + 1) (n_gen n)) eqn:Hg.
           ++ apply Z.eqb_eq in Hg. rewrite <- Hg, Hm in Hm'. discriminate Hm'.
           ++ exists m'. split; assumption.
        -- exists (-1). rewrite gmx_get_set, Z.eqb_refl. split; [reflexivity | lia].
Qed.

Theorem positions_always_distinct : forall (v : gview) root st,
  build v root = OK st -> distinct_pos (nodes st) = true.
Proof.
  intros v root st H. unfold build in H.
  destruct (g_find v root) as [g|]; [|discriminate H].
  destruct (parse_nuclide_label root) as [lab|e]; [|discriminate H].
  cbn [bind] in H.
  apply bfs_loop_inv in H.
  - destruct H as [_ Hd]. exact Hd.
  - cbn [gmx nodes]. split.
    + intros n [Hn|[]]. subst n. simpl. exists 0. split; [reflexivity | lia].
    + reflexivity.
Qed.

Print Assumptions default_all_diagrams_correct.
Print Assumptions graph_ok_meaning.
Print Assumptions layers_are_children.
Print Assumptions distinct_pos_spec.
Print Assumptions positions_always_distinct.
