(* The binary64 instance of the abstract rounding operator of Model/Rounding.v (Flocq), and the real value of a
   primitive float.  Definitions only. *)
From Coq Require Import Reals ZArith.
From Flocq Require Import Core.Core IEEE754.BinarySingleNaN IEEE754.PrimFloat.
From Coq Require Import PrimFloat.

(* round to nearest even in the binary64 format with gradual underflow *)
Definition rnd64 (x : R) : R := round radix2 (FLT_exp (-1074) 53) ZnearestE x.
Definition u64 : R := / 2 * bpow radix2 (-52).         (* 2^-53 *)
Definition eta64 : R := / 2 * bpow radix2 (-1074).     (* 2^-1075 *)

(* the real number a float denotes (0 for infinities and NaN) and whether it denotes one *)
Definition fval (x : float) : R := B2R (Prim2B x).
Definition ffin (x : float) : bool := BinarySingleNaN.is_finite (Prim2B x).
