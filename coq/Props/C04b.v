(* C04 (second part) - the double-precision data agree with the exact data closely enough that their
   contribution to any decay result is below 5e-12 of the initial atoms: for ALL t >= 0 and ALL non-negative
   initial vectors. *)
From Coq Require Import Reals ZArith NArith List Bool Arith.
From RD Require Import Base Model.DecayR Lib.Sparse Lib.CertQ Model.Dataset Model.Default Model.FloatData.
From RD Require Proofs.FloatDataP Proofs.CertDefault.FloatDataCert.
Import ListNotations.
Local Open Scope R_scope.

(* kernel-computed constants of the shipped data: B_data <= 2e-12, K_cond <= 533; float decay constants,
   atomic masses (the rational ones) and the year length within 1e-15 relative of the exact values *)
Theorem default_float_data_certificate :
  chk_float_data Default (bq_of Proofs.CertDefault.FloatDataCert.B_bound) (bq_of Proofs.CertDefault.FloatDataCert.K_bound) = true /\
  chk_lambda_close Default Proofs.CertDefault.FloatDataCert.default_lam_val Proofs.CertDefault.FloatDataCert.c_bound = true /\
  chk_masses_close Default Proofs.CertDefault.FloatDataCert.c_bound = true /\
  chk_year_close Default Proofs.CertDefault.FloatDataCert.c_bound = true.
Proof. exact Proofs.FloatDataP.default_float_data_certificate. Qed.

(* what the matrix part of the certificate means: with ANY common diagonal e in [0,1] (e.g. the exponentials
   for t >= 0) the float matrices give the exact matrices' result up to B * (total initial atoms) *)
Theorem float_matrices_contribution : forall d B K, wf_core d = true -> chk_float_data d B K = true ->
  forall (e n0 : nat -> R) i, (forall k, 0 <= e k <= 1) -> (forall j, 0 <= n0 j) -> (i < nn d)%nat ->
  Rabs (sumn (nn d) (fun k => Cfr d i k * (e k * sumn (nn d) (fun j => Cifr d k j * n0 j)))
        - sumn (nn d) (fun k => Cr d i k * (e k * sumn (nn d) (fun j => Cir d k j * n0 j))))
  <= bqv B * sumn (nn d) n0.
Proof. exact Proofs.FloatDataP.float_matrices_contribution. Qed.

(* a relative perturbation delta of a decay constant moves exp(-lambda t) by at most |delta| / (e (1 - |delta|)), uniformly in t *)
Theorem lambda_perturbation : forall a delta c, 0 <= a -> Rabs delta <= c -> c < 1 ->
  Rabs (exp (- (a * (1 + delta))) - exp (- a)) <= c / (exp 1 * (1 - c)).
Proof. exact Proofs.FloatDataP.lambda_perturbation. Qed.

(* total contribution of the float data (matrices and decay constants), exact arithmetic otherwise *)
Theorem float_data_error : forall d B K c, wf_core d = true -> chk_float_data d B K = true -> 0 <= c < 1 ->
  forall (delta : nat -> R) (n0 : nat -> R) t i, 0 <= t -> (forall k, Rabs (delta k) <= c) -> (forall j, 0 <= n0 j) -> (i < nn d)%nat ->
  Rabs (sumn (nn d) (fun k => Cfr d i k * (exp (- (lam (mur d) k * (1 + delta k)) * t) * sumn (nn d) (fun j => Cifr d k j * n0 j)))
        - Nt (nn d) (Cr d) (Cir d) (mur d) n0 t i)
  <= (bqv B + bqv K * (c / (exp 1 * (1 - c)))) * sumn (nn d) n0.
Proof. exact Proofs.FloatDataP.float_data_error. Qed.

(* for the shipped data the constant is below 5e-12 *)
Theorem default_data_error_below_5e12 :
  bqv (bq_of Proofs.CertDefault.FloatDataCert.B_bound)
  + bqv (bq_of Proofs.CertDefault.FloatDataCert.K_bound) * ((1 / 10 ^ 15) / (exp 1 * (1 - 1 / 10 ^ 15))) <= 5 / 10 ^ 12.
Proof. exact Proofs.FloatDataP.default_data_error_below_5e12. Qed.
