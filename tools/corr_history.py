"""C11 history stream: interleaved operations on several live inventories sharing the data set."""
import json
import random
import corr_units as U
import corr_nuclide as N


def gen_history(rng, names, stable, nsteps, hp_ok=True):
    radio = [n for n, s in zip(names, stable) if not s]
    pool = rng.sample(radio, 5) + rng.sample(names, 2)
    objs = []
    for i in range(rng.randint(2, 3)):
        hp = hp_ok and (i == 1) and rng.random() < 0.5
        ks = rng.sample(pool, rng.randint(1, 3))
        objs.append({"cls": "InventoryHP" if hp else "Inventory",
                     "contents": {k: float(round(10 ** rng.uniform(3, 20), 2)).hex() for k in ks}, "units": "num"})
    steps = []
    heavy_left = 2 if any(o["cls"] == "InventoryHP" for o in objs) else 99
    for _ in range(nsteps):
        oi = rng.randrange(6)
        r = rng.random()
        t = float(10 ** rng.uniform(0, 9)).hex()
        if r < 0.18:
            steps.append([oi, "decay", [t, rng.choice(["s", "h", "y", "d"])]])
        elif r < 0.26:
            steps.append([oi, "cumulative_decays", [t, "s"]])
        elif r < 0.40:
            m = rng.choice(["numbers", "activities", "masses", "moles", "fractions", "half_lives", "progeny", "branching_fractions", "decay_modes"])
            arg = {"activities": "kBq", "masses": "mg", "moles": "mmol", "half_lives": rng.choice(["s", "y", "readable"])}.get(m)
            steps.append([oi, m, [arg] if arg else []])
        elif r < 0.46:
            steps.append([oi, rng.choice(["series", "series_pandas"]), [t, "s", rng.choice(["linear", "log"]), rng.choice(["Bq", "g", "num", "mol_frac"]), 3]])
        elif r < 0.49:
            steps.append([oi, "plot", [t, "s", rng.choice(["Bq", "mol", "mass_frac"]), 3]])
        elif r < 0.53:
            steps.append([oi, "to_csv", [rng.choice(["Bq", "g", "mol", "num"])]])
        elif r < 0.63:
            k = rng.choice(pool)
            bad = rng.random() < 0.3
            cont = {k: float(round(10 ** rng.uniform(0, 12), 1)).hex()}
            if bad:
                cont = rng.choice([{k: float("nan").hex() if False else "nan"}, {"Xx-1": float(1).hex()}, {k: float(-1).hex()}])
                if "nan" in cont.values():
                    cont = {k: float.hex(float("nan"))}
            steps.append([oi, rng.choice(["add", "subtract"]), [cont, rng.choice(["num", "mol", "g", "parsecs" if bad else "num"])]])
        elif r < 0.70:
            steps.append([oi, "remove", [rng.choice(pool + ["Zz-1"])]])
        elif r < 0.76:
            ks = [rng.choice(pool) for _ in range(rng.randint(1, 3))]
            if rng.random() < 0.4:
                ks.append(rng.choice([ks[0], "Qq-5", rng.choice(pool)]))
            steps.append([oi, "remove_list", [ks]])
        elif r < 0.86:
            steps.append([oi, rng.choice(["plus", "minus"]), [rng.randrange(6)]])
        elif r < 0.92:
            steps.append([oi, rng.choice(["mul", "div"]), [float(rng.choice([2.0, 3.0, 0.1, 7.5])).hex()]])
        elif r < 0.96:
            steps.append([oi, "nuclide_queries", [rng.choice(pool)]])
        elif r < 0.97:
            steps.append([oi, "dataset_queries", [rng.choice(radio), rng.choice(pool)]])
        elif r < 0.995:
            # a NON-mutating call that fails (unsupported unit / option): everything must be as before, too - preferably on the
            # high-precision object, which has more state (working precision)
            hps = [i for i, o in enumerate(objs) if o["cls"] == "InventoryHP"]
            tgt = hps[0] if hps and rng.random() < 0.6 else oi
            steps.append([tgt, rng.choice(["plot_bad", "plot_bad", "series_bad", "decay_bad", "to_csv_bad", "activities_bad"]), []])
        else:
            steps.append([oi, "eq", [rng.randrange(6)]])
    probe = {"contents": {"U-238": float(1e20).hex(), "Th-234": float(5e3).hex()}, "t": float(1e6).hex()}
    return {"objects": objs, "steps": steps, "probe": probe}


def history_stream(rng, nhist, nsteps, streams, viol, samples, only_calls=None, tag="histories"):
    names, stable = U.dataset_names()
    hs = [gen_history(rng, names, stable, nsteps) for _ in range(nhist)]
    # a fresh interpreter for the probe reference, and the histories split over a few processes
    ref = U.run_impl("impl_history.py", {"histories": [{"objects": [], "steps": [], "probe": hs[0]["probe"]}]}, timeout=3000)[0]["probe"]
    chunks = [hs[i::4] for i in range(4)]
    import concurrent.futures as cf
    with cf.ThreadPoolExecutor(max_workers=4) as ex:
        outs = list(ex.map(lambda ch: U.run_impl("impl_history.py", {"histories": ch}, timeout=6000) if ch else [], chunks))
    res = [None] * len(hs)
    for k in range(4):
        res[k::4] = outs[k]
    nviol = 0
    meth = {}
    raising = 0
    for hi, (hh, r) in enumerate(zip(hs, res)):
        for m, e in r["results"]:
            meth[m] = meth.get(m, 0) + 1
            raising += e is not None
        vs = list(r["violations"])
        if only_calls is not None:       # another property's view of the same histories: only the named calculations
            vs = [v for v in vs if v.get("call") in only_calls]
        elif r["probe"] != ref:
            vs.append({"what": "the probe calculation after the history differs bit-wise from the same calculation in a fresh interpreter"})
        for v in vs:
            nviol += 1
            if nviol <= 4:
                # shrink: keep the history prefix up to the offending step
                upto = v.get("step", len(hh["steps"]))
                viol.append({"name": f"{tag}-{nviol}", "found_input": True, "key": "history:" + v["what"] + ":" + str(v.get("method")),
                             "payload": {"fails": v["what"], "detail": v, "history": dict(hh, steps=hh["steps"][:upto]),
                                         "entry": "interleaved inventory operations"}})
    streams[tag] = {"cases": len(hs), "steps": sum(r["steps"] for r in res), "steps_raising": raising, "methods": meth,
                            "impl_property_failures": nviol,
                            "what": "interleavings of calculations, read-outs, series/plots/CSV writing, operators and (failing) mutating calls on several live "
                                    "inventories of both classes; every live object and the shared data set are fingerprinted before/after every step; "
                                    "DEFAULTDATA == fresh load; probe calculation bit-identical to a fresh interpreter; after every in-place change (and every 4th step) "
                                    "all read-outs, decay and cumulative_decays of the receiver are bit-identical to those of a new inventory with the same contents"}
    samples.append({"history": hs[0]["steps"][:6]})
