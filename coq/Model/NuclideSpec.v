(* Specification vocabulary for nuclide names (hand-written, small, readable).
   The theorems in Props/C09.v and Props/C10.v relate the GENERATED functions of Gen/UtilsGen.v
   to these definitions. *)
From Coq Require Import ZArith NArith List Bool.
From RD Require Import Base Lib.Py Gen.Tables.
Import ListNotations.

(* the element symbols and state letters, from the generated tables *)
Definition elements : list str := map snd z_dict.
Definition states : list str := [] :: metastable_chars.        (* "" m n p q r x *)

(* ASCII classes *)
Definition a_digit (c : N) : bool := N.leb 48 c && N.leb c 57.
Definition a_upper (c : N) : bool := N.leb 65 c && N.leb c 90.
Definition a_lower (c : N) : bool := N.leb 97 c && N.leb c 122.
Definition a_letter (c : N) : bool := a_upper c || a_lower c.
Definition all_digits (s : str) : bool := forallb a_digit s.
Definition all_letters (s : str) : bool := forallb a_letter s.

(* value of an ASCII digit string *)
Definition dvalue (s : str) : Z := fold_left (fun acc c => (acc * 10 + Z.of_N (c - 48))%Z) s 0%Z.
(* a mass number as the property means it: digits, no leading zero, 1..300 *)
Definition mass_ok (A : str) : Prop :=
  all_digits A = true /\ (match A with c :: _ => negb (N.eqb c 48) | [] => false end) = true
  /\ (1 <= dvalue A <= 300)%Z.

(* ASCII case folding; [same_fold a b] = equal up to ASCII letter case *)
Definition a_fold (c : N) : N := if a_upper c then (c + 32)%N else c.
Definition same_fold (a b : str) : Prop := map a_fold a = map a_fold b.

(* removing whitespace (Python's str.isspace) *)
Definition ws_free (s : str) : str := s_remove_ws s.

Definition hyphen : str := [45%N].
Definition canonical (El A st : str) : str := El ++ hyphen ++ A ++ st.

(* the documented spellings of the nuclide (El, A, st), before arbitrary whitespace is inserted.
   Element-first forms allow any letter case of element and state. *)
Inductive spelling (El A st : str) : str -> Prop :=
| sp_el_hyphen : forall El' st', same_fold El' El -> same_fold st' st -> spelling El A st (El' ++ hyphen ++ A ++ st')
| sp_el        : forall El' st', same_fold El' El -> same_fold st' st -> spelling El A st (El' ++ A ++ st')
| sp_mass      : spelling El A st (A ++ st ++ El)
| sp_mass_hyphen : spelling El A st (A ++ st ++ hyphen ++ El).

(* atomic number of an element symbol *)
Fixpoint z_of (El : str) (l : list (Z * str)) : option Z :=
  match l with [] => None | (z, e) :: r => if s_eqb e El then Some z else z_of El r end.

(* state number: "" -> 0, m -> 1, ... x -> 6 *)
Fixpoint state_num_from (i : Z) (st : str) (l : list str) : option Z :=
  match l with [] => None | x :: r => if s_eqb x st then Some i else state_num_from (i + 1) st r end.
Definition state_num (st : str) : option Z := state_num_from 0 st states.

Definition id_of (z a sn : Z) : Z := (z * 10000000 + a * 10000 + sn)%Z.

(* outcome classes of the error monad *)
Definition is_ok_or_valueerror {A} (r : res A) : Prop :=
  match r with OK _ => True | Raise ValueError => True | Raise NuclideStrError => True | _ => False end.
