#!/usr/bin/env python3
"""Writes MANIFEST.json from the table below (kept in one place so it stays valid)."""
import json, os
VERIF = os.path.normpath(os.path.join(os.path.dirname(os.path.abspath(__file__)), ".."))
CLAIMED = {
 "C04": dict(
   text="Machine-checked proof (Coq 8.16): the exact matrices C, C^-1 and the rate matrix assembled in Coq from the listed half-lives, "
        "branching fractions and progeny satisfy C*C^-1 = I, C^-1*C = I, M*C = C*D (kernel-evaluated BigQ certificate over all 6595 non-zeros, "
        "regenerated from the data files on every run), and a generic theorem (for every data set with such a certificate) turns it into: the closed form "
        "solves the decay ODEs for all real t and all N(0), with the initial condition, and is the unique solution. Structural facts (acyclic/parents first, "
        "branching fractions, modes vs dZ/dA, mu*T=1, readable half-lives, both pickle generations identical) are exhaustive kernel computations.",
   note="Trusted: Coq kernel + vm_compute; stdlib real-number axioms, classic, functional extensionality, Uint63 primitive specs; translators tr_data.py/pickle_stub.py/tr_tables.py; "
        "the digest correspondence that ties the generated modules to the objects the running library holds. The 5e-12 float-vs-exact bound is labelled partial until Proofs/FloatData.v is in.",
   technique="Coq proof: kernel-computed BigQ certificate + generic ODE theorem over R (Coquelicot); translator tie + digest correspondence",
   ref="DESIGN.md section 4 C04"),
}
REASON_PENDING = "check not built yet in this round (machinery under construction; see DESIGN.md section 7 for the order)"
def main():
    props = [json.loads(l) for l in open(os.path.join(VERIF, "properties.jsonl"))]
    checks, na = [], []
    for p in props:
        pid = p["id"]
        if pid in CLAIMED:
            c = CLAIMED[pid]
            checks.append({
                "property_id": pid,
                "quick_cmd": f"./check {pid} --tier quick",
                "thorough_cmd": f"./check {pid} --tier thorough",
                "evidence_file": f"/verif/evidence/{pid}.json",
                "replay_cmd_template": f"./check {pid} --replay {{path}}",
                "engine": "coq-rd",
                "level_claimed": {"category": "proof", "text": c["text"], "design_ref": c["ref"]},
                "level_note": c["note"],
                "technique": c["technique"],
            })
        else:
            na.append({"property_id": pid, "reason": REASON_PENDING})
    m = {
        "version": 1,
        "setup_cmd": "./check --setup",
        "hooks": {"guard": "RADIOACTIVEDECAY_VERIF", "enable": "env RADIOACTIVEDECAY_VERIF=1 (no hook is currently present in /repo; the name is reserved)",
                  "baseline_off_cmd": "cd /repo && /venv/bin/python -m pytest -ra -q -p no:cacheprovider --timeout=900 --continue-on-collection-errors",
                  "source_commits": [], "add_only": True},
        "engines": [{"name": "coq-rd", "path": "/verif/coq", "serves_properties": sorted(CLAIMED),
                     "kind_free_text": "Coq 8.16 development: translators (tools/tr_*.py) regenerate coq/Gen from /repo on every run; hand-written model + proofs; correspondence drivers in tools/"}],
        "checks": checks,
        "not_applicable": na,
        "notes": "All checks: ./check <id> [--tier quick|thorough]; they regenerate coq/Gen from /repo's working tree, rebuild the affected .vo files, then run the correspondence streams.",
    }
    json.dump(m, open(os.path.join(VERIF, "MANIFEST.json"), "w"), indent=1)
main()
