"""Implementation side of the C13 stream (PYTHONPATH=/repo).
stdin JSON: list of cases {"cls", "contents": {name: hex}, "kind": unit-or-fraction, "tunit", "scale": "linear"|"log",
 "tmax": hex, "npoints": int, "explicit": [hex...]|null, "plot": bool, "display": "all"|[names], "order": "dataset"|"alphabetical",
 "yscale", "ymin": hex, "ymax": hex|null, "xmin": hex}"""
import json, sys, math

def hx(x): return float(x).hex()

def readout(inv, kind, uc):
    if kind in uc.activity_units: return inv.activities(kind)
    if kind in uc.moles_units: return inv.moles(kind)
    if kind in uc.mass_units: return inv.masses(kind)
    if kind == "num": return inv.numbers()
    if kind == "activity_frac": return inv.activity_fractions()
    if kind == "mass_frac": return inv.mass_fractions()
    if kind == "mol_frac": return inv.mole_fractions()
    raise KeyError(kind)

def main():
    import numpy as np
    import radioactivedecay as rd
    import radioactivedecay.inventory as invmod
    captured = {}
    def fake_decay_graph(**kw):
        captured.clear(); captured.update(kw)
        return None, None
    invmod.decay_graph = fake_decay_graph
    out = []
    for c in json.load(sys.stdin):
        r = {}
        try:
            cls = rd.InventoryHP if c["cls"] == "InventoryHP" else rd.Inventory
            inv = cls({k: float.fromhex(v) for k, v in c["contents"].items()}, "num")
            uc = inv._get_unit_converter()
            tp = np.array([float.fromhex(x) for x in c["explicit"]]) if c.get("explicit") else float.fromhex(c["tmax"])
            kw = dict(time_units=c["tunit"], time_scale=c["scale"], decay_units=c["kind"], npoints=c["npoints"])
            times, data = inv.decay_time_series(tp, **kw)
            r["times"] = [hx(t) for t in times]
            r["cols"] = list(data)
            r["data"] = {k: [hx(v) for v in vs] for k, vs in data.items()}
            # pointwise reference: separate decays at the returned times
            ref = {}
            for t in times:
                d = readout(inv.decay(t, c["tunit"]), c["kind"], uc)
                for k, v in d.items():
                    ref.setdefault(k, []).append(hx(v))
            r["ref"] = ref
            df = inv.decay_time_series_pandas(tp, **kw)
            r["df_cols"] = [str(x) for x in df.columns]
            r["df_index"] = [hx(x) for x in df.index]
            r["df_index_name"] = df.index.name
            r["df_same"] = all([hx(v) for v in df[k]] == r["data"][k] for k in data)
            if c.get("plot"):
                pk = dict(xunits=c["tunit"], xscale=c["scale"], yscale=c["yscale"], yunits=c["kind"], npoints=c["npoints"],
                          display=c["display"], order=c["order"], xmin=float.fromhex(c["xmin"]), ymin=float.fromhex(c["ymin"]))
                if c.get("ymax"):
                    pk["ymax"] = float.fromhex(c["ymax"])
                inv.plot(float.fromhex(c["tmax"]), **pk)
                r["plot"] = {"time_points": [hx(t) for t in captured["time_points"]], "nuclides": list(captured["nuclides"]),
                             "ydata": [[hx(v) for v in row] for row in captured["ydata"]], "ylabel": captured["ylabel"],
                             "ylimits": [hx(v) for v in captured["ylimits"]], "xunits": captured["xunits"],
                             "display": sorted(captured["display"]), "xscale": captured["xscale"], "yscale": captured["yscale"]}
                pref = []
                for t in captured["time_points"]:
                    d = readout(inv.decay(t, c["tunit"]), c["kind"], uc)
                    pref.append([hx(d[n]) for n in captured["nuclides"]])
                r["plot"]["ref"] = pref
                r["plot"]["all_nuclides"] = list(inv.decay(0).nuclides)
                r["plot"]["dataset_order"] = sorted(inv.decay(0).nuclides, key=lambda n: inv.decay_data.nuclide_dict[n])
        except Exception as e:
            r["err"] = type(e).__name__ + ": " + str(e)[:150]
        out.append(r)
    json.dump(out, sys.stdout)
main()
