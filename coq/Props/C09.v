(* C09 - Every documented nuclide spelling resolves to one canonical nuclide.
   Statements about the GENERATED functions (Gen/UtilsGen.v, regenerated from utils.py / nuclide.py).
   Only statements closed by [exact <lemma>] live here. *)
From Coq Require Import ZArith NArith List Bool.
From RD Require Import Base Lib.Py Gen.Tables Gen.UtilsGen Model.NuclideSpec.
From RD Require Proofs.NuclideParse.
Import ListNotations.

(* whitespace is irrelevant, wherever it is inserted *)
Theorem ws_irrelevant : forall s s', ws_free s = ws_free s' -> parse_nuclide_str s = parse_nuclide_str s'.
Proof. exact Proofs.NuclideParse.ws_irrelevant. Qed.

(* every documented spelling of every (element, mass number 1..300, state) parses to El-A[st] *)
Theorem parse_canonical : forall El A st s w,
  In El elements -> In st states -> mass_ok A -> spelling El A st s -> ws_free w = s ->
  parse_nuclide_str w = OK (canonical El A st).
Proof. exact Proofs.NuclideParse.parse_canonical. Qed.

(* the canonical name is a fixed point *)
Theorem canonical_fixed_point : forall El A st, In El elements -> In st states -> mass_ok A ->
  parse_nuclide_str (canonical El A st) = OK (canonical El A st).
Proof. exact Proofs.NuclideParse.canonical_fixed_point. Qed.

(* ids: build_id / parse_id round trip for every element, A in 1..999 without leading zero, every state *)
Theorem id_roundtrip : forall El z A st sn, z_of El z_dict = Some z -> In st states -> state_num st = Some sn ->
  all_digits A = true -> (match A with c :: _ => negb (N.eqb c 48) | [] => false end) = true ->
  (1 <= dvalue A <= 999)%Z ->
  build_id z (dvalue A) st = OK (id_of z (dvalue A) sn) /\
  parse_id (id_of z (dvalue A) sn) = OK (canonical El A st).
Proof. exact Proofs.NuclideParse.id_roundtrip. Qed.

(* Z, A, state and id reported for a canonical name agree with the name *)
Theorem nuclide_fields_agree : forall El z A st sn, z_of El z_dict = Some z -> In El elements ->
  In st states -> state_num st = Some sn ->
  all_digits A = true -> (match A with c :: _ => negb (N.eqb c 48) | [] => false end) = true ->
  (1 <= dvalue A <= 999)%Z ->
  nuclide_Z (canonical El A st) = OK z /\
  nuclide_A (canonical El A st) = OK (dvalue A) /\
  nuclide_state (canonical El A st) = OK st /\
  nuclide_id (canonical El A st) = OK (id_of z (dvalue A) sn).
Proof. exact Proofs.NuclideParse.nuclide_fields_agree. Qed.

(* non-vacuity: a concrete nuclide meeting every hypothesis *)
Example spelling_example :
  In [88%N; 101%N] elements /\ In [109%N] states /\ mass_ok [49%N; 51%N; 53%N] /\
  spelling [88%N; 101%N] [49%N; 51%N; 53%N] [109%N] [49%N; 51%N; 53%N; 109%N; 88%N; 101%N].
Proof. exact Proofs.NuclideParse.spelling_example. Qed.
