(* The hand-written model of Inventory.decay / cumulative_decays (Model/DecayModel.v: E filled only at
   the indices read off the sparsity pattern of C) equals the closed forms Nt / Dcum of Model/DecayR.v.
   Used by Props/C01.v and Props/C03.v. *)
From Coq Require Import Reals ZArith NArith QArith Qreals List Bool Lia Lra Arith.
From Bignums Require Import BigQ.
From RD Require Import Base Model.DecayR Lib.Sparse Lib.CertQ Model.Dataset Model.DecayModel.
From RD Require Proofs.DatasetCert.
Import ListNotations.
Local Open Scope R_scope.

(* ---------- (a) the work vector is zero away from the keys of the inventory *)
Lemma n0_of_key : forall contents j, n0_of contents j = 0 \/ In j (map fst contents).
Proof.
  induction contents as [|[k v] r IH]; intros j; cbn [n0_of map fst].
  - left. reflexivity.
  - destruct (Nat.eqb_spec k j) as [E|E].
    + right. left. exact E.
    + destruct (IH j) as [H|H]; [left; exact H|right; right; exact H].
Qed.

(* ---------- (b) an entry outside the non-zero pattern of a row is zero *)
Lemma bqv_bq_of_zero : forall x : qlit, qn x = 0%Z -> bqv (bq_of x) = 0.
Proof.
  intros x Hx. rewrite bqv_of, Hx. unfold Q2R. cbn [Qnum]. apply Rmult_0_l.
Qed.

Lemma bget_to_bq_cons : forall k x r j,
  bget (to_bq_row ((k, x) :: r)) j
  = if N.eqb k j then BigQ.add (bq_of x) (bget (to_bq_row r) j) else bget (to_bq_row r) j.
Proof. reflexivity. Qed.

Lemma row_cols_q_cons : forall k x r,
  row_cols_q ((k, x) :: r) = if negb (Z.eqb (qn x) 0) then k :: row_cols_q r else row_cols_q r.
Proof.
  intros k x r. unfold row_cols_q. cbn [filter snd]. destruct (negb (Z.eqb (qn x) 0)); reflexivity.
Qed.

Lemma bget_pattern_zero : forall (r : qrow) j,
  existsb (N.eqb j) (row_cols_q r) = false -> bqv (bget (to_bq_row r) j) = 0.
Proof.
  induction r as [|[k x] r IH]; intros j H.
  - exact bqv_0.
  - rewrite bget_to_bq_cons. rewrite row_cols_q_cons in H.
    destruct (Z.eqb_spec (qn x) 0) as [Ez|Ez]; cbn [negb] in H.
    + destruct (N.eqb k j).
      * rewrite bqv_add, (bqv_bq_of_zero x Ez), (IH j H). lra.
      * exact (IH j H).
    + cbn [existsb] in H. apply orb_false_elim in H. destruct H as [H1 H2].
      rewrite N.eqb_sym in H1. rewrite H1. exact (IH j H2).
Qed.

Lemma mrow_to_bq_mat : forall (m : list qrow) k, mrow bq (to_bq_mat m) k = to_bq_row (nth k m []).
Proof.
  intros m k. unfold mrow, to_bq_mat. change (@nil (N * bq)) with (to_bq_row []).
  apply map_nth.
Qed.

Lemma Cr_pattern_zero : forall d k j,
  existsb (N.eqb (N.of_nat j)) (row_cols_q (nth k (ds_c d) [])) = false -> Cr d k j = 0.
Proof.
  intros d k j H. unfold Cr, ent, Cq. rewrite mrow_to_bq_mat. apply bget_pattern_zero. exact H.
Qed.

Lemma Cir_pattern_zero : forall d k j,
  existsb (N.eqb (N.of_nat j)) (row_cols_q (nth k (ds_ci d) [])) = false -> Cir d k j = 0.
Proof.
  intros d k j H. unfold Cir, ent, Ciq. rewrite mrow_to_bq_mat. apply bget_pattern_zero. exact H.
Qed.

(* ---------- (c) C and C^-1 have the same pattern, row by row *)
Lemma list_eqb_N_eq : forall a b, list_eqb_N a b = true -> a = b.
Proof.
  induction a as [|x a IH]; intros [|y b] H; cbn [list_eqb_N] in H; try discriminate.
  - reflexivity.
  - apply andb_prop in H. destruct H as [H1 H2]. apply N.eqb_eq in H1. subst y.
    f_equal. apply IH. exact H2.
Qed.

Lemma all2_nth : forall (A B : Type) (f : A -> B -> bool) (da : A) (db : B),
  f da db = true -> forall a b, all2 f a b = true -> forall k, f (nth k a da) (nth k b db) = true.
Proof.
  intros A B f da db Hd. induction a as [|x a IH]; intros [|y b] H k; cbn [all2] in H; try discriminate.
  - destruct k; exact Hd.
  - apply andb_prop in H. destruct H as [H1 H2]. destruct k as [|k]; cbn [nth].
    + exact H1.
    + apply IH. exact H2.
Qed.

Lemma same_patterns_row : forall d, chk_same_patterns d = true ->
  forall k, row_cols_q (nth k (ds_c d) []) = row_cols_q (nth k (ds_ci d) []).
Proof.
  intros d H k. unfold chk_same_patterns in H. apply andb_prop in H. destruct H as [H _].
  apply list_eqb_N_eq.
  exact (all2_nth qrow qrow (fun r1 r2 => list_eqb_N (row_cols_q r1) (row_cols_q r2)) [] []
           eq_refl (ds_c d) (ds_ci d) H k).
Qed.

(* ---------- the index set *)
Definition pat (d : dataset) (i : nat) : list N := row_cols_q (nth i (ds_c d) []).

Lemma col_hit_false : forall d contents i, col_hit d contents i = false ->
  forall j, In j (map fst contents) -> existsb (N.eqb (N.of_nat j)) (pat d i) = false.
Proof.
  intros d contents i H j Hj. unfold col_hit in H.
  apply in_map_iff in Hj. destruct Hj as [jv [E Hin]]. subst j.
  destruct (existsb (N.eqb (N.of_nat (fst jv))) (pat d i)) eqn:Ex; [|reflexivity].
  assert (Ht : existsb (fun jv => existsb (N.eqb (N.of_nat (fst jv))) (row_cols_q (nth i (ds_c d) []))) contents = true).
  { apply existsb_exists. exists jv. split; [exact Hin|exact Ex]. }
  rewrite Ht in H. discriminate.
Qed.

Lemma in_idx_spec : forall idxs k, in_idx idxs k = true <-> In k idxs.
Proof.
  intros idxs k. unfold in_idx. rewrite existsb_exists. split.
  - intros [x [Hin E]]. apply Nat.eqb_eq in E. subst x. exact Hin.
  - intro Hin. exists k. split; [exact Hin|apply Nat.eqb_refl].
Qed.

Lemma indices_spec : forall d contents i,
  In i (indices d contents) <-> (i < nn d)%nat /\ col_hit d contents i = true.
Proof.
  intros d contents i. unfold indices. rewrite filter_In, in_seq. split.
  - intros [[_ H1] H2]. split; [lia|exact H2].
  - intros [H1 H2]. split; [lia|exact H2].
Qed.

(* ---------- (d) w vanishes at every k whose row of C misses all the columns of the inventory *)
Lemma w_zero : forall d, chk_same_patterns d = true -> forall contents k,
  (forall j, In j (map fst contents) -> existsb (N.eqb (N.of_nat j)) (pat d k) = false) ->
  w (nn d) (Cir d) (n0_of contents) k = 0.
Proof.
  intros d Hp contents k H. unfold w. apply sumn_zero. intros j _.
  destruct (n0_of_key contents j) as [E|Hin].
  - rewrite E. apply Rmult_0_r.
  - rewrite (Cir_pattern_zero d k j); [apply Rmult_0_l|].
    rewrite <- (same_patterns_row d Hp k). exact (H j Hin).
Qed.

Lemma w_zero_outside : forall d, chk_same_patterns d = true -> forall contents k,
  (k < nn d)%nat -> in_idx (indices d contents) k = false ->
  w (nn d) (Cir d) (n0_of contents) k = 0.
Proof.
  intros d Hp contents k Hk Hout. apply (w_zero d Hp). apply col_hit_false.
  destruct (col_hit d contents k) eqn:Ec; [|reflexivity].
  assert (Hin : in_idx (indices d contents) k = true).
  { apply in_idx_spec. apply indices_spec. split; assumption. }
  rewrite Hin in Hout. discriminate.
Qed.

(* ---------- (e) the index-restricted products are the closed forms *)
Lemma product_Edecay : forall d, chk_same_patterns d = true -> forall contents t i,
  product d (Edecay d (indices d contents) t) (n0_of contents) i
  = Nt (nn d) (Cr d) (Cir d) (mur d) (n0_of contents) t i.
Proof.
  intros d Hp contents t i. unfold product, Nt. apply sumn_ext. intros k Hk.
  fold (w (nn d) (Cir d) (n0_of contents) k). unfold Edecay.
  destruct (in_idx (indices d contents) k) eqn:Ei.
  - reflexivity.
  - rewrite (w_zero_outside d Hp contents k Hk Ei). ring.
Qed.

Lemma product_Ecumul : forall d, chk_same_patterns d = true -> forall contents t i,
  lam (mur d) i * product d (Ecumul d (indices d contents) t) (n0_of contents) i
  = Dcum (nn d) (Cr d) (Cir d) (mur d) (stableb d) (n0_of contents) t i.
Proof.
  intros d Hp contents t i. unfold product, Dcum. f_equal. apply sumn_ext. intros k Hk.
  fold (w (nn d) (Cir d) (n0_of contents) k). unfold Ecumul, Ecum.
  destruct (in_idx (indices d contents) k) eqn:Ei.
  - destruct (stableb d k); reflexivity.
  - rewrite (w_zero_outside d Hp contents k Hk Ei). ring.
Qed.

Lemma decay_model_is_closed_form : forall (d : dataset), wf_core d = true -> chk_same_patterns d = true ->
  forall contents t i v, In (i, v) (decay_model d contents t) ->
    v = Nt (nn d) (Cr d) (Cir d) (mur d) (n0_of contents) t i /\ (i < nn d)%nat.
Proof.
  intros d _ Hp contents t i v Hin. unfold decay_model in Hin.
  apply in_map_iff in Hin. destruct Hin as [i' [E Hi']].
  injection E as E1 E2. subst i'. split.
  - rewrite <- E2. apply product_Edecay. exact Hp.
  - apply indices_spec in Hi'. exact (proj1 Hi').
Qed.

Lemma cumulative_model_is_integral : forall d, wf_core d = true -> chk_same_patterns d = true ->
  forall contents t i v, In (i, v) (cumulative_model d contents t) ->
    v = Dcum (nn d) (Cr d) (Cir d) (mur d) (stableb d) (n0_of contents) t i
    /\ stableb d i = false /\ (i < nn d)%nat.
Proof.
  intros d _ Hp contents t i v Hin. unfold cumulative_model in Hin.
  apply in_map_iff in Hin. destruct Hin as [i' [E Hi']].
  injection E as E1 E2. subst i'. apply filter_In in Hi'. destruct Hi' as [Hi' Hs].
  split; [|split].
  - rewrite <- E2. apply product_Ecumul. exact Hp.
  - apply negb_true_iff. exact Hs.
  - apply indices_spec in Hi'. exact (proj1 Hi').
Qed.

(* ---------- (f) nothing is lost by the restriction, PROVIDED the pattern of C is transitively closed.
   wf_core + chk_same_patterns do not imply this (C_ij = 0 does not exclude sum_k C_ik e_k Ci_kj <> 0).
   Counterexample: 5 nuclides, mu = (2,1,3,4,0), links 0->1,0->2,0->3 with fractions -1/2,-3/2,2
   (wf_core does not constrain the sign of a fraction) and 1->4,2->4,3->4 with fraction 1.  Then
   C = [[1,0,0,0,0],[1,1,0,0,0],[-3,0,1,0,0],[2,0,0,1,0],[0,-1,-1,-1,1]] and
   C^-1 = [[1,0,0,0,0],[-1,1,0,0,0],[3,0,1,0,0],[-2,0,0,1,0],[0,1,1,1,1]] satisfy every check of wf_core
   and have equal patterns with C_40 = Ci_40 = 0, so indices [(0,_)] = {0,1,2,3}; yet
   Nt delta_0 t 4 = exp(-ln2 t) - 3 exp(-3 ln2 t) + 2 exp(-4 ln2 t) <> 0 for t > 0.
   Hence the extra executable check (true on the shipped data, vm_compute 0.5 s).
   To be moved to Model/Dataset.v (section Patterns). *)

Lemma existsb_N_In : forall x l, existsb (N.eqb x) l = true <-> In x l.
Proof.
  intros x l. rewrite existsb_exists. split.
  - intros [y [Hin E]]. apply N.eqb_eq in E. subst y. exact Hin.
  - intro Hin. exists x. split; [exact Hin|apply N.eqb_refl].
Qed.

Lemma pattern_transitive : forall d, chk_pattern_transitive d = true -> forall i k j,
  existsb (N.eqb (N.of_nat k)) (pat d i) = true ->
  existsb (N.eqb (N.of_nat j)) (pat d k) = true ->
  existsb (N.eqb (N.of_nat j)) (pat d i) = true.
Proof.
  intros d H i k j Hik Hkj. unfold chk_pattern_transitive in H. rewrite forallb_forall in H.
  destruct (Nat.lt_ge_cases i (length (ds_c d))) as [Hi|Hi].
  - specialize (H (nth i (ds_c d) []) (nth_In _ _ Hi)). cbv zeta in H.
    rewrite forallb_forall in H. apply existsb_N_In in Hik.
    specialize (H (N.of_nat k) Hik). rewrite Nat2N.id in H.
    rewrite forallb_forall in H. apply existsb_N_In in Hkj. exact (H (N.of_nat j) Hkj).
  - unfold pat in Hik. rewrite nth_overflow in Hik by exact Hi. discriminate.
Qed.

(* same signature as the lemma Props/C01.v asks for, plus the transitivity check *)
Lemma outside_indices_zero_trans : forall d, wf_core d = true -> chk_same_patterns d = true ->
  chk_pattern_transitive d = true ->
  forall contents t i, (i < nn d)%nat ->
    In i (indices d contents) \/ Nt (nn d) (Cr d) (Cir d) (mur d) (n0_of contents) t i = 0.
Proof.
  intros d _ Hp Htr contents t i Hi. destruct (col_hit d contents i) eqn:Ec.
  - left. apply indices_spec. split; assumption.
  - right. unfold Nt. apply sumn_zero. intros k Hk.
    destruct (existsb (N.eqb (N.of_nat k)) (pat d i)) eqn:Eik.
    + rewrite (w_zero d Hp contents k); [ring|].
      intros j Hj. destruct (existsb (N.eqb (N.of_nat j)) (pat d k)) eqn:Ekj; [|reflexivity].
      pose proof (pattern_transitive d Htr i k j Eik Ekj) as Hij.
      rewrite (col_hit_false d contents i Ec j Hj) in Hij. discriminate.
    + rewrite (Cr_pattern_zero d i k Eik). ring.
Qed.

Print Assumptions decay_model_is_closed_form.
Print Assumptions cumulative_model_is_integral.
Print Assumptions outside_indices_zero_trans.
