(* C07 (second part) - consequences of the forward-error theorem for the double-precision class:
   decaying for zero time changes no amount; an amount depends only on the amounts of that nuclide's ancestors, so it is
   the same (to twice the error bound) whatever unrelated nuclides share the inventory and however SciPy orders the sums. *)
From Coq Require Import Reals ZArith NArith List Bool Arith.
From Coq Require Import PrimFloat.
From Flocq Require Import Core.Core.
From RD Require Import Base Lib.CertQ Model.DecayR Model.Dataset Model.Default Model.Rounding64
  Model.FloatDecay Model.FloatData Model.Ancestors.
From RD Require Proofs.CertDefault.FloatDataCert Proofs.FlowFloatP.
Import ListNotations.
Local Open Scope R_scope.

Theorem exact_flow_depends_only_on_ancestors : forall d,
  chk_same_patterns d = true -> chk_pattern_transitive d = true ->
  forall (n0 n0' : nat -> R) t i,
  (forall j, is_ancestor d i j = true -> n0 j = n0' j) ->
  Nt (nn d) (Cr d) (Cir d) (mur d) n0 t i = Nt (nn d) (Cr d) (Cir d) (mur d) n0' t i.
Proof. exact Proofs.FlowFloatP.exact_flow_depends_only_on_ancestors. Qed.

Theorem default_zero_time_decay :
  forall (e n0 : frow) (i : N) (ce mo : list N),
  orders_okb (ds_cf Default) (ds_cif Default) e n0 i ce mo = true ->
  ffin (pf_yhat (ds_cf Default) (ds_cif Default) e n0 i ce mo) = true ->
  let n0f := fun j : nat => fval (fget n0 (N.of_nat j)) in
  let Ef := fun k : nat => fval (fget e (N.of_nat k)) in
  (forall j, 0 <= n0f j) ->
  (N.to_nat i < nn Default)%nat ->
  (forall k, (k < nn Default)%nat -> (exists j, (j < nn Default)%nat /\ Cifr Default k j * n0f j <> 0) ->
             Rabs (Ef k - 1) <= bpow radix2 (-50)) ->
  Rabs (fval (pf_yhat (ds_cf Default) (ds_cif Default) e n0 i ce mo) - n0f (N.to_nat i))
  <= 1 / 10 ^ 11 * anc_atoms Default n0f (N.to_nat i) + bpow radix2 (-1060).
Proof. exact Proofs.FlowFloatP.default_zero_time_decay. Qed.

Theorem default_unrelated_nuclides :
  forall (e n0 e' n0' : frow) (i : N) (ce mo ce' mo' : list N) (t : R),
  orders_okb (ds_cf Default) (ds_cif Default) e n0 i ce mo = true ->
  orders_okb (ds_cf Default) (ds_cif Default) e' n0' i ce' mo' = true ->
  ffin (pf_yhat (ds_cf Default) (ds_cif Default) e n0 i ce mo) = true ->
  ffin (pf_yhat (ds_cf Default) (ds_cif Default) e' n0' i ce' mo') = true ->
  0 <= t ->
  let n0f := fun j : nat => fval (fget n0 (N.of_nat j)) in
  let n0f' := fun j : nat => fval (fget n0' (N.of_nat j)) in
  let lamf := fun k : nat => fval (nth k Proofs.CertDefault.FloatDataCert.default_lam_val 0%float) in
  (forall j, 0 <= n0f j) -> (forall j, 0 <= n0f' j) ->
  (forall j, is_ancestor Default (N.to_nat i) j = true -> n0f j = n0f' j) ->
  (forall k, (k < nn Default)%nat -> (exists j, (j < nn Default)%nat /\ Cifr Default k j * n0f j <> 0) ->
             Rabs (fval (fget e (N.of_nat k)) - exp (- lamf k * t)) <= bpow radix2 (-50)) ->
  (forall k, (k < nn Default)%nat -> (exists j, (j < nn Default)%nat /\ Cifr Default k j * n0f' j <> 0) ->
             Rabs (fval (fget e' (N.of_nat k)) - exp (- lamf k * t)) <= bpow radix2 (-50)) ->
  Rabs (fval (pf_yhat (ds_cf Default) (ds_cif Default) e n0 i ce mo)
        - fval (pf_yhat (ds_cf Default) (ds_cif Default) e' n0' i ce' mo'))
  <= 2 / 10 ^ 11 * anc_atoms Default n0f (N.to_nat i) + 2 * bpow radix2 (-1060).
Proof. exact Proofs.FlowFloatP.default_unrelated_nuclides. Qed.
