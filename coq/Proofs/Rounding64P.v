From Coq Require Import Reals Lra Lia List Bool ZArith NArith Psatz QArith Qreals FinFun.
From Flocq Require Import Core.Core Relative IEEE754.BinarySingleNaN IEEE754.PrimFloat.
From Coq Require Import PrimFloat FloatOps SpecFloat FloatAxioms.
From Bignums Require Import BigQ.
From RD Require Import Base Lib.CertQ Model.DecayR Model.Rounding Model.Rounding64 Model.FloatDecay Model.FloatData.
Import ListNotations.
Local Open Scope R_scope.

(* ---------- rnd64 *)
Lemma rnd64_std_model : std_model rnd64 u64 eta64.
Proof.
  unfold std_model, u64, eta64. split; [|split].
  - apply Rmult_le_pos; [lra | apply bpow_ge_0].
  - apply Rmult_le_pos; [lra | apply bpow_ge_0].
  - intro x.
    destruct (error_N_FLT radix2 (-1074) 53 ltac:(lia) (fun x => negb (Z.even x)) x)
      as (eps & eta & He & Ht & _ & Hr).
    exists eps, eta. split; [exact Hr | split; assumption].
Qed.

Lemma rnd64_0 : rnd64 0 = 0.
Proof. unfold rnd64. apply round_0. apply valid_rnd_N. Qed.

Lemma rnd64_round (x : R) :
  round radix2 (SpecFloat.fexp prec emax) (round_mode mode_NE) x = rnd64 x.
Proof. reflexivity. Qed.

Lemma pf_mul_finite : forall x y : float, ffin (x * y)%float = true ->
  fval (x * y)%float = rnd64 (fval x * fval y) /\ ffin x = true /\ ffin y = true.
Proof.
  intros x y. unfold ffin, fval. rewrite mul_equiv.
  generalize (Bmult_correct prec emax Hprec Hmax mode_NE (Prim2B x) (Prim2B y)).
  destruct (Rlt_bool _ _).
  - intros (H1 & H2 & _) H. rewrite H2 in H. apply andb_prop in H. split; [|exact H].
    rewrite H1. reflexivity.
  - intros H1 H. exfalso. revert H.
    destruct (Bmult mode_NE (Prim2B x) (Prim2B y)); simpl in H1; try discriminate;
      unfold binary_overflow in H1; simpl in H1; discriminate.
Qed.

Lemma pf_add_finite : forall x y : float, ffin (x + y)%float = true ->
  fval (x + y)%float = rnd64 (fval x + fval y) /\ ffin x = true /\ ffin y = true.
Proof.
  intros x y. unfold ffin, fval. rewrite add_equiv. intro H.
  assert (Hf : BinarySingleNaN.is_finite (Prim2B x) = true /\ BinarySingleNaN.is_finite (Prim2B y) = true).
  { revert H. destruct (Prim2B x) as [sx|sx| |sx mx ex Bx]; destruct (Prim2B y) as [sy|sy| |sy my ey By];
      simpl; try (intros; split; congruence); try discriminate.
    destruct (Bool.eqb sx sy); simpl; discriminate. }
  destruct Hf as [Fx Fy]. split; [|split; assumption].
  generalize (Bplus_correct prec emax Hprec Hmax mode_NE (Prim2B x) (Prim2B y) Fx Fy).
  destruct (Rlt_bool _ _).
  - intros (H1 & _). rewrite H1. reflexivity.
  - intros [H1 _]. exfalso. revert H.
    destruct (Bplus mode_NE (Prim2B x) (Prim2B y)); simpl in H1; try discriminate;
      unfold binary_overflow in H1; simpl in H1; discriminate.
Qed.

(* ---------- exact rational value *)
Lemma bqv_of_Q (q : Q) : bqv (BigQ.of_Q q) = Q2R q.
Proof. unfold bqv. apply Qeq_eqR. apply BigQ.spec_of_Q. Qed.

Lemma fval_SF (f : float) : fval f = SF2R radix2 (Prim2SF f).
Proof. unfold fval. rewrite <- SF2R_B2SF. rewrite B2SF_Prim2B. reflexivity. Qed.

Lemma Q2R_inject_Z (z : Z) : Q2R (inject_Z z) = IZR z.
Proof. unfold Q2R, inject_Z. simpl. field. Qed.

Lemma bq_of_float_value : forall f : float, ffinite f = true -> bqv (bq_of_float f) = fval f.
Proof.
  intros f _. rewrite fval_SF. unfold bq_of_float.
  destruct (Prim2SF f) as [s|s| |s m e]; try exact bqv_0.
  unfold SF2R.
  assert (Hm : (if s then Z.neg m else Z.pos m) = cond_Zopp s (Z.pos m)) by (destruct s; reflexivity).
  rewrite Hm. unfold F2R. simpl Fnum. simpl Fexp.
  destruct e as [|p|p]; rewrite bqv_of_Q.
  - rewrite Q2R_inject_Z. simpl. ring.
  - rewrite Q2R_inject_Z. rewrite mult_IZR. reflexivity.
  - unfold Q2R. simpl Qnum. simpl Qden. simpl bpow.
    rewrite Pos2Z.inj_pow_pos. reflexivity.
Qed.

(* ---------- special floats *)
Lemma ffin_SF (x : float) :
  ffin x = match Prim2SF x with S754_finite _ _ _ | S754_zero _ => true | _ => false end.
Proof. unfold ffin. rewrite <- B2SF_Prim2B. destruct (Prim2B x); reflexivity. Qed.

Lemma fval_zero : fval 0%float = 0.
Proof. rewrite fval_SF. reflexivity. Qed.
Lemma ffin_zero : ffin 0%float = true.
Proof. rewrite ffin_SF. reflexivity. Qed.

Lemma fzero_spec (x : float) : fzero x = true -> ffin x = true /\ fval x = 0.
Proof.
  unfold fzero. rewrite FloatAxioms.eqb_spec, ffin_SF, fval_SF.
  change (Prim2SF 0%float) with (S754_zero false).
  destruct (Prim2SF x) as [s|s| |s m e']; simpl; try discriminate; auto.
  - destruct s; discriminate.
  - destruct s; discriminate.
Qed.

Lemma Prim2B_one : Prim2B 1%float = @Bone prec emax Hprec Hmax.
Proof. change 1%float with one. rewrite one_equiv. apply Prim2B_B2Prim. Qed.
Lemma fval_one : fval 1%float = 1.
Proof. unfold fval. rewrite Prim2B_one. apply Bone_correct. Qed.
Lemma ffin_one : ffin 1%float = true.
Proof. unfold ffin. rewrite Prim2B_one. apply is_finite_Bone. Qed.

Lemma unit_range_spec (v : float) :
  PrimFloat.leb 0%float v = true -> PrimFloat.leb v 1%float = true -> 0 <= fval v <= 1.
Proof.
  intros H0 H1.
  destruct (ffin v) eqn:F.
  - rewrite leb_equiv in H0, H1.
    rewrite Bleb_correct in H0 by (try exact F; exact ffin_zero).
    rewrite Bleb_correct in H1 by (try exact F; exact ffin_one).
    fold (fval 0%float) in H0. fold (fval v) in H0, H1. fold (fval 1%float) in H1.
    rewrite fval_zero in H0. rewrite fval_one in H1.
    split.
    + revert H0. case Rle_bool_spec; [auto | discriminate].
    + revert H1. case Rle_bool_spec; [auto | discriminate].
  - exfalso. rewrite ffin_SF in F. rewrite FloatAxioms.leb_spec in H0, H1.
    change (Prim2SF 0%float) with (S754_zero false) in H0.
    destruct (Prim2SF v) as [s|s| |s m e'] eqn:E; try discriminate.
    destruct s.
      * discriminate H0.
      * vm_compute in H1. discriminate H1.
Qed.

(* ---------- lists of N *)
Lemma existsb_eqb_In (x : N) (l : list N) : existsb (N.eqb x) l = true <-> In x l.
Proof.
  rewrite existsb_exists. split.
  - intros (y & Hy & E). apply N.eqb_eq in E. subst. exact Hy.
  - intro Hx. exists x. split; [exact Hx | apply N.eqb_refl].
Qed.
Lemma memN_In (x : N) (l : list N) : memN x l = true <-> In x l.
Proof. apply existsb_eqb_In. Qed.
Lemma nodupb_NoDup (l : list N) : nodupb l = true -> NoDup l.
Proof.
  induction l as [|x r IH]; simpl; intro H.
  - constructor.
  - apply andb_prop in H. destruct H as [H1 H2]. constructor.
    + intro Hin. apply existsb_eqb_In in Hin. rewrite Hin in H1. discriminate.
    + apply IH. exact H2.
Qed.
Lemma stored_In (r : frow) (j : N) : stored r j = true <-> In j (fcols r).
Proof.
  unfold stored, fcols. rewrite existsb_exists. split.
  - intros (kv & Hkv & E). apply N.eqb_eq in E. subst. apply in_map. exact Hkv.
  - intro H. apply in_map_iff in H. destruct H as (kv & E & Hkv). exists kv. split; [exact Hkv|].
    apply N.eqb_eq. exact E.
Qed.
Lemma fget_not_stored (r : frow) (j : N) : stored r j = false -> fget r j = 0%float.
Proof.
  induction r as [|[a v] r IH]; simpl; intro H; [reflexivity|].
  apply orb_false_elim in H. destruct H as [H1 H2]. rewrite H1. apply IH. exact H2.
Qed.
Lemma fget_In (r : frow) (j : N) : fget r j = 0%float \/ In (j, fget r j) r.
Proof.
  induction r as [|[a v] r IH]; simpl; [left; reflexivity|].
  destruct (N.eqb a j) eqn:E.
  - apply N.eqb_eq in E. subst. right. left. reflexivity.
  - destruct IH as [IH|IH]; [left; exact IH | right; right; exact IH].
Qed.
Lemma frow_of_oob (m : list frow) (k : N) : (length m <= N.to_nat k)%nat -> frow_of m k = [].
Proof. intro H. unfold frow_of. apply nth_overflow. exact H. Qed.
Lemma to_nat_NoDup (l : list N) : NoDup l -> NoDup (map N.to_nat l).
Proof. apply FinFun.Injective_map_NoDup. intros a b. apply N2Nat.inj. Qed.
Lemma In_to_nat (k : nat) (l : list N) : In k (map N.to_nat l) <-> In (N.of_nat k) l.
Proof.
  rewrite in_map_iff. split.
  - intros (x & E & Hx). subst. rewrite N2Nat.id. exact Hx.
  - intro H. exists (N.of_nat k). split; [apply Nat2N.id | exact H].
Qed.
Lemma filter_length_le {A} (f : A -> bool) (l : list A) : (length (filter f l) <= length l)%nat.
Proof. induction l as [|x r IH]; simpl; [lia|]. destruct (f x); simpl; lia. Qed.

(* ---------- the accumulation loop *)
Definition fstep (s : float) (ax : float * float) : float := (s + fst ax * snd ax)%float.
Definition rstep (s : R) (ax : R * R) : R := rnd64 (s + rnd64 (fst ax * snd ax)).
Definition fv2 (ax : float * float) : R * R := (fval (fst ax), fval (snd ax)).

Lemma pf_dot_gen (l : list (float * float)) : forall s0 : float,
  ffin (fold_left fstep l s0) = true ->
  ffin s0 = true /\
  (forall ax, In ax l -> ffin (fst ax) = true /\ ffin (snd ax) = true) /\
  fval (fold_left fstep l s0) = fold_left rstep (map fv2 l) (fval s0).
Proof.
  induction l as [|ax l IH]; simpl; intros s0 H.
  - split; [exact H | split; [intros ? [] | reflexivity]].
  - destruct (IH _ H) as (F1 & F2 & F3).
    unfold fstep at 1 in F1. destruct (pf_add_finite _ _ F1) as (V1 & Fs & Fp).
    destruct (pf_mul_finite _ _ Fp) as (V2 & Fa & Fx).
    split; [exact Fs | split].
    + intros bx [E|Hin]; [subst; split; assumption | apply F2; exact Hin].
    + rewrite F3. f_equal. unfold fstep at 1, rstep at 1. rewrite V1, V2. reflexivity.
Qed.

Lemma pf_dot_spec (l : list (float * float)) : ffin (pf_dot l) = true ->
  (forall ax, In ax l -> ffin (fst ax) = true /\ ffin (snd ax) = true) /\
  fval (pf_dot l) = fl_dot rnd64 (map fv2 l).
Proof.
  intro H. destruct (pf_dot_gen l 0%float H) as (_ & F2 & F3). split; [exact F2|].
  unfold pf_dot, fl_dot. fold fstep. rewrite fval_zero in F3. exact F3.
Qed.

(* ---------- the refinement *)
Section Refine.
  Variables (cf cif : list frow) (e n0 : frow) (i : N) (ce mo : list N).
  Hypothesis Hok : orders_okb cf cif e n0 i ce mo = true.

  Let n := length cf.
  Let rowi := frow_of cf i.
  Let Cff := fun a b : nat => fval (fget (frow_of cf (N.of_nat a)) (N.of_nat b)).
  Let Ciff := fun a b : nat => fval (fget (frow_of cif (N.of_nat a)) (N.of_nat b)).
  Let Ef := fun k : nat => fval (fget e (N.of_nat k)).
  Let n0f := fun j : nat => fval (fget n0 (N.of_nat j)).
  Let ks := fun (_ j : nat) => map N.to_nat (pf_ks cif ce (N.of_nat j)).
  Let js := fun _ : nat => map N.to_nat mo.
  Let ii := N.to_nat i.

  Lemma ok_parts :
    (i < N.of_nat n)%N /\ length cif = length cf /\ NoDup (fcols rowi) /\
    (forall kv, In kv e -> PrimFloat.leb 0%float (snd kv) = true /\ PrimFloat.leb (snd kv) 1%float = true) /\
    NoDup ce /\ (forall k, In k ce -> In k (fcols rowi)) /\
    (forall k, In k (fcols rowi) -> In k ce \/ fzero (pf_CE cf e i k) = true) /\
    NoDup mo /\ (forall j, In j mo -> (j < N.of_nat n)%N /\ In j (m_candidates cif ce)) /\
    (forall j, In j (m_candidates cif ce) ->
       In j mo \/ fzero (pf_Mhat cf cif e i ce j) = true \/ fzero (fget n0 j) = true).
  Proof.
    pose proof Hok as H. unfold orders_okb in H. cbv zeta in H.
    apply andb_prop in H; destruct H as [H H13].
    apply andb_prop in H; destruct H as [H H12].
    apply andb_prop in H; destruct H as [H H11].
    apply andb_prop in H; destruct H as [H H10].
    apply andb_prop in H; destruct H as [H H9].
    apply andb_prop in H; destruct H as [H H8].
    apply andb_prop in H; destruct H as [H H7].
    apply andb_prop in H; destruct H as [H H6].
    apply andb_prop in H; destruct H as [H H5].
    apply andb_prop in H; destruct H as [H H4].
    apply andb_prop in H; destruct H as [H H3].
    apply andb_prop in H; destruct H as [H1 H2].
    rewrite forallb_forall in H6, H9, H10, H12, H13.
    repeat split.
    - apply N.ltb_lt. exact H1.
    - apply Nat.eqb_eq. exact H2.
    - apply nodupb_NoDup. exact H3.
    - specialize (H6 _ H). apply andb_prop in H6. destruct H6 as [H6 _].
      apply andb_prop in H6. apply H6.
    - specialize (H6 _ H). apply andb_prop in H6. apply H6.
    - apply nodupb_NoDup. exact H8.
    - intros k Hk. apply memN_In. apply H9. exact Hk.
    - intros k Hk. specialize (H10 _ Hk). apply orb_prop in H10. destruct H10 as [A|A].
      + left. apply memN_In. exact A.
      + right. exact A.
    - apply nodupb_NoDup. exact H11.
    - specialize (H12 _ H). apply andb_prop in H12. apply N.ltb_lt. apply H12.
    - specialize (H12 _ H). apply andb_prop in H12. apply memN_In. apply H12.
    - intros j Hj. specialize (H13 _ Hj). apply orb_prop in H13. destruct H13 as [A|A].
      + apply orb_prop in A. destruct A as [A|A].
        * left. apply memN_In. exact A.
        * right. left. exact A.
      + right. right. exact A.
  Qed.

  Lemma CE_ref (k : N) : ffin (pf_CE cf e i k) = true ->
    fval (pf_CE cf e i k) = CE rnd64 Cff Ef ii (N.to_nat k).
  Proof.
    intro H. unfold CE, Cff, Ef, ii, pf_CE in *. rewrite !N2Nat.id.
    apply (pf_mul_finite _ _ H).
  Qed.

  Lemma Mhat_ref (j : N) : ffin (pf_Mhat cf cif e i ce j) = true ->
    fval (pf_Mhat cf cif e i ce j) = Mhat rnd64 Cff Ciff Ef ks ii (N.to_nat j).
  Proof.
    intro H. unfold pf_Mhat in *. destruct (pf_dot_spec _ H) as [F V]. rewrite V.
    unfold Mhat, ks. rewrite N2Nat.id. rewrite !map_map. f_equal. apply map_ext_in.
    intros k Hk. unfold fv2. simpl. f_equal.
    - apply CE_ref.
      apply (F (pf_CE cf e i k, fget (frow_of cif k) j)).
      apply in_map_iff. exists k. split; [reflexivity | exact Hk].
    - unfold Ciff. rewrite !N2Nat.id. reflexivity.
  Qed.

  Lemma yhat_ref : ffin (pf_yhat cf cif e n0 i ce mo) = true ->
    fval (pf_yhat cf cif e n0 i ce mo) = yhat rnd64 Cff Ciff Ef n0f ks js ii.
  Proof.
    intro H. unfold pf_yhat in *. destruct (pf_dot_spec _ H) as [F V]. rewrite V.
    unfold yhat, js. rewrite !map_map. f_equal. apply map_ext_in.
    intros j Hj. unfold fv2. simpl. f_equal.
    - apply Mhat_ref.
      apply (F (pf_Mhat cf cif e i ce j, fget n0 j)).
      apply in_map_iff. exists j. split; [reflexivity | exact Hj].
    - unfold n0f. rewrite N2Nat.id. reflexivity.
  Qed.

  Lemma ks_in (j k : N) : In k (pf_ks cif ce j) -> In k ce /\ stored (frow_of cif k) j = true.
  Proof. unfold pf_ks. intro H. apply filter_In in H. exact H. Qed.

  Lemma ks_lt (j k : N) : In k (pf_ks cif ce j) -> (N.to_nat k < n)%nat.
  Proof.
    intro H. apply ks_in in H. destruct H as [_ H].
    destruct ok_parts as (_ & L & _).
    destruct (le_lt_dec n (N.to_nat k)) as [A|A]; [|exact A].
    rewrite frow_of_oob in H by (rewrite L; exact A). discriminate H.
  Qed.

  Lemma CE_zero (j k : nat) : ~ In k (ks ii j) -> CE rnd64 Cff Ef ii k * Ciff k j = 0.
  Proof.
    intro Hn. unfold ks in Hn. rewrite In_to_nat in Hn.
    destruct ok_parts as (_ & _ & _ & _ & _ & _ & Hcov & _).
    destruct (stored rowi (N.of_nat k)) eqn:S1.
    - apply stored_In in S1. destruct (Hcov _ S1) as [A|A].
      + destruct (stored (frow_of cif (N.of_nat k)) (N.of_nat j)) eqn:S2.
        * exfalso. apply Hn. unfold pf_ks. apply filter_In. split; assumption.
        * unfold Ciff. rewrite (fget_not_stored _ _ S2). rewrite fval_zero. ring.
      + apply fzero_spec in A. destruct A as [A1 A2].
        rewrite (CE_ref _ A1) in A2. rewrite Nat2N.id in A2. rewrite A2. ring.
    - unfold CE, Cff, ii. rewrite N2Nat.id. fold rowi. rewrite (fget_not_stored _ _ S1).
      rewrite fval_zero. rewrite Rmult_0_l. rewrite rnd64_0. ring.
  Qed.

  Lemma cand_ks (j : N) : ~ In j (m_candidates cif ce) -> pf_ks cif ce j = [].
  Proof.
    intro Hn. unfold pf_ks. 
    destruct (filter (fun k => stored (frow_of cif k) j) ce) as [|k r] eqn:E; [reflexivity|].
    exfalso. assert (Hk : In k (k :: r)) by (left; reflexivity). rewrite <- E in Hk.
    apply filter_In in Hk. destruct Hk as [Hk S]. apply Hn. unfold m_candidates.
    apply in_flat_map. exists k. split; [exact Hk | apply stored_In; exact S].
  Qed.

  Lemma Mhat_zero (j : nat) : ~ In j (js ii) -> Mhat rnd64 Cff Ciff Ef ks ii j * n0f j = 0.
  Proof.
    intro Hn. unfold js in Hn. rewrite In_to_nat in Hn.
    destruct ok_parts as (_ & _ & _ & _ & _ & _ & _ & _ & _ & Hcov).
    destruct (memN (N.of_nat j) (m_candidates cif ce)) eqn:M.
    - apply memN_In in M. destruct (Hcov _ M) as [A|[A|A]].
      + contradiction.
      + apply fzero_spec in A. destruct A as [A1 A2].
        rewrite (Mhat_ref _ A1) in A2. rewrite Nat2N.id in A2. rewrite A2. ring.
      + apply fzero_spec in A. destruct A as [_ A2]. unfold n0f. rewrite A2. ring.
    - assert (Hc : ~ In (N.of_nat j) (m_candidates cif ce)).
      { intro A. apply memN_In in A. rewrite A in M. discriminate. }
      unfold Mhat, ks. rewrite (cand_ks _ Hc). simpl. unfold fl_dot. simpl. ring.
  Qed.

  Lemma orders_ok_ref : orders_ok rnd64 n Cff Ciff Ef n0f ks js ii.
  Proof.
    destruct ok_parts as (_ & _ & _ & _ & Nce & _ & _ & Nmo & Hmo & _).
    unfold orders_ok. split; [|split; [|split]].
    - intros j Hj. split; [|split].
      + unfold ks. apply to_nat_NoDup. unfold pf_ks. apply NoDup_filter. exact Nce.
      + intros k Hk. unfold ks in Hk. apply in_map_iff in Hk. destruct Hk as (k' & E & Hk).
        subst k. apply (ks_lt _ _ Hk).
      + intros k _ Hk. apply CE_zero. exact Hk.
    - unfold js. apply to_nat_NoDup. exact Nmo.
    - intros j Hj. unfold js in Hj. apply in_map_iff in Hj. destruct Hj as (j' & E & Hj).
      subst j. destruct (Hmo _ Hj) as [A _]. unfold n. lia.
    - intros j _ Hj. apply Mhat_zero. exact Hj.
  Qed.

  Lemma Ef_range (k : nat) : 0 <= Ef k <= 1.
  Proof.
    destruct ok_parts as (_ & _ & _ & He & _).
    unfold Ef. destruct (fget_In e (N.of_nat k)) as [A|A].
    - rewrite A, fval_zero. lra.
    - destruct (He _ A) as [B1 B2]. apply unit_range_spec; assumption.
  Qed.

  Lemma ks_length (j : nat) : (length (ks ii j) <= length (frow_of cf i))%nat.
  Proof.
    destruct ok_parts as (_ & _ & _ & _ & Nce & Hce & _).
    unfold ks. rewrite map_length. unfold pf_ks.
    apply Nat.le_trans with (length ce); [apply filter_length_le|].
    fold rowi. replace (length rowi) with (length (fcols rowi)) by (unfold fcols; apply map_length).
    apply NoDup_incl_length; [exact Nce | exact Hce].
  Qed.

  Lemma js_length :
    (length (js ii) <= length (nodup N.eq_dec (flat_map (fun k => fcols (frow_of cif k)) (fcols (frow_of cf i)))))%nat.
  Proof.
    destruct ok_parts as (_ & _ & _ & _ & _ & Hce & _ & Nmo & Hmo & _).
    unfold js. rewrite map_length. apply NoDup_incl_length; [exact Nmo|].
    intros j Hj. apply nodup_In. destruct (Hmo _ Hj) as [_ A]. unfold m_candidates in A.
    apply in_flat_map in A. destruct A as (k & Hk & A). apply in_flat_map. exists k.
    split; [apply Hce; exact Hk | exact A].
  Qed.
End Refine.

Lemma pf_yhat_refines : forall (cf cif : list frow) (e n0 : frow) (i : N) (ce mo : list N),
  orders_okb cf cif e n0 i ce mo = true ->
  all_finite cf = true -> all_finite cif = true ->
  ffin (pf_yhat cf cif e n0 i ce mo) = true ->
  let n := length cf in
  let Cff := fun a b : nat => fval (fget (frow_of cf (N.of_nat a)) (N.of_nat b)) in
  let Ciff := fun a b : nat => fval (fget (frow_of cif (N.of_nat a)) (N.of_nat b)) in
  let Ef := fun k : nat => fval (fget e (N.of_nat k)) in
  let n0f := fun j : nat => fval (fget n0 (N.of_nat j)) in
  let ks := fun (_ j : nat) => map N.to_nat (pf_ks cif ce (N.of_nat j)) in
  let js := fun _ : nat => map N.to_nat mo in
  let ii := N.to_nat i in
  fval (pf_yhat cf cif e n0 i ce mo) = yhat rnd64 Cff Ciff Ef n0f ks js ii /\
  orders_ok rnd64 n Cff Ciff Ef n0f ks js ii /\
  (forall k, (k < n)%nat -> 0 <= Ef k <= 1) /\
  (forall j, (j < n)%nat -> (length (ks ii j) <= length (frow_of cf i))%nat) /\
  (length (js ii) <= length (nodup N.eq_dec (flat_map (fun k => fcols (frow_of cif k)) (fcols (frow_of cf i)))))%nat.
Proof.
  intros cf cif e n0 i ce mo Hok _ _ Hfin n Cff Ciff Ef n0f ks js ii.
  split; [|split; [|split; [|split]]].
  - apply (yhat_ref cf cif e n0 i ce mo Hfin).
  - apply (orders_ok_ref cf cif e n0 i ce mo Hok).
  - intros k _. apply (Ef_range cf cif e n0 i ce mo Hok).
  - intros j _. apply (ks_length cf cif e n0 i ce mo Hok).
  - apply (js_length cf cif e n0 i ce mo Hok).
Qed.

Print Assumptions rnd64_std_model.
Print Assumptions pf_mul_finite.
Print Assumptions pf_add_finite.
Print Assumptions bq_of_float_value.
Print Assumptions pf_yhat_refines.
