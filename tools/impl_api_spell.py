"""C09 API stream (PYTHONPATH=/repo): every entry point that takes a nuclide must resolve every documented
spelling to the canonical nuclide.  stdin JSON: list of {"name": canonical, "spellings": [str|int], "progeny": [canonical...]}"""
import json, sys, os, tempfile

def main():
    import radioactivedecay as rd
    D = rd.DEFAULTDATA
    bad = []
    n = 0
    tmp = tempfile.mkdtemp(prefix="rdverif_sp_")
    req = json.load(sys.stdin)
    other_a, other_b = "H-3", "C-14"
    if isinstance(req, dict):
        if req.get("ds") == "synth":
            from radioactivedecay.decaydata import load_dataset
            D = load_dataset("synth", os.environ["VERIF_SYNTH_DIR"], load_sympy=True)
            other_a, other_b = "Ru-99", "Xe-131"
        req = req["cases"]
    class _RD:      # the same entry points, bound to the data set under test
        Nuclide = staticmethod(lambda x: rd_mod.Nuclide(x, D))
        Inventory = staticmethod(lambda c, u: rd_mod.Inventory(c, u, True, D))
        InventoryHP = staticmethod(lambda c, u: rd_mod.InventoryHP(c, u, True, D))
        read_csv = staticmethod(lambda p: rd_mod.read_csv(p, decay_data=D))
    rd_mod = rd
    rd = _RD
    for c in req:
        name = c["name"]
        ref_hl = D.half_life(name, "s")
        for sp in c["spellings"]:
            n += 1
            def chk(label, f, want):
                try:
                    got = f()
                except Exception as e:
                    bad.append([label, repr(sp), name, "raised " + type(e).__name__]); return
                if got != want:
                    bad.append([label, repr(sp), name, f"gave {got!r}, expected {want!r}"])
            chk("Nuclide", lambda: rd.Nuclide(sp).nuclide, name)
            if "fields" in c:
                chk("Nuclide Z/A/state/id", lambda: [rd.Nuclide(sp).Z, rd.Nuclide(sp).A, rd.Nuclide(sp).state, rd.Nuclide(sp).id], c["fields"])
            chk("Inventory key", lambda: rd.Inventory({sp: 1.0}, "num").nuclides, [name])
            chk("InventoryHP key", lambda: rd.InventoryHP({sp: 1.0}, "num").nuclides, [name])
            def rm():
                inv = rd.Inventory({name: 1.0, other_a if name != other_a else other_b: 2.0}, "num"); inv.remove(sp); return inv.nuclides
            chk("remove", rm, [other_a if name != other_a else other_b])
            def rml():
                inv = rd.Inventory({name: 1.0, other_a if name != other_a else other_b: 2.0}, "num"); inv.remove([sp]); return inv.nuclides
            chk("remove list", rml, [other_a if name != other_a else other_b])
            def add():
                inv = rd.Inventory({name: 1.0}, "num"); inv.add({sp: 2.0}, "num"); return dict(inv.contents)
            chk("add", add, {name: 3.0})
            if isinstance(sp, str):
                chk("half_life", lambda: D.half_life(sp, "s"), ref_hl)
                for pr in c["progeny"]:
                    chk("branching_fraction(parent spelling)", lambda: D.branching_fraction(sp, pr), D.branching_fraction(name, pr))
                    chk("decay_mode(parent spelling)", lambda: D.decay_mode(sp, pr), D.decay_mode(name, pr))
                for par in c.get("parents", []):
                    chk("branching_fraction(progeny spelling)", lambda: D.branching_fraction(par, sp), D.branching_fraction(par, name))
                    chk("decay_mode(progeny spelling)", lambda: D.decay_mode(par, sp), D.decay_mode(par, name))
                p = os.path.join(tmp, "s.csv")
                with open(p, "w", encoding="utf-8") as f:
                    f.write(f"{sp},1.0,num\n")
                chk("read_csv", lambda: rd.read_csv(p).nuclides, [name])
                os.remove(p)
            else:
                p = os.path.join(tmp, "s.csv")
                with open(p, "w", encoding="utf-8") as f:
                    f.write(f"{sp},1.0,num\n")
                chk("read_csv id", lambda: rd.read_csv(p).nuclides, [name])
                os.remove(p)
    os.rmdir(tmp)
    json.dump({"cases": n, "bad": bad}, sys.stdout)
main()
