(* Hand-written model of __eq__ / __ne__ / __hash__ of Nuclide, the inventory classes and DecayData
   (tie: tools/tr_shapes.py records the source of these methods; correspondence: tools/impl_equality.py).
   Value equality [veq] is Python's == on amounts; the theorems assume it is an equivalence on the value
   domain at hand (all binary64 without NaN, or all exact).  Definitions only. *)
From Coq Require Import ZArith NArith List Bool.
From RD Require Import Base Lib.Py Model.Inventory.
Import ListNotations.

Section Eq.
  Context {V : Type} (veq : V -> V -> bool).

  (* Python dict ==: same number of keys, and every key of a is in b with an equal value *)
  Definition dict_eq (a b : @dict V) : bool :=
    Nat.eqb (length a) (length b) &&
    forallb (fun kv => match d_get b (fst kv) with Some w => veq (snd kv) w | None => false end) a.

  (* a data set as far as equality sees it: its name and a list of comparable components
     (year length, half-life table, nuclides, progeny, branching fractions, modes, matrices ...),
     each compared by its own equality; DecayData.__eq__ is the conjunction *)
  Record dsobj := { ds_name : str; ds_fields : list N }.
  Definition ds_eq (x y : dsobj) : bool :=
    s_eqb (ds_name x) (ds_name y) &&
    Nat.eqb (length (ds_fields x)) (length (ds_fields y)) &&
    forallb (fun ab => N.eqb (fst ab) (snd ab)) (combine (ds_fields x) (ds_fields y)).

  Record invobj := { io_contents : @dict V; io_ds : dsobj }.
  (* AbstractInventory.__eq__ :  self.contents == other.contents and self.decay_data == other.decay_data *)
  Definition inv_eq (x y : invobj) : bool := dict_eq (io_contents x) (io_contents y) && ds_eq (io_ds x) (io_ds y).
  (* __ne__ : not self.__eq__(other) *)
  Definition inv_ne (x y : invobj) : bool := negb (inv_eq x y).

  (* comparison with an arbitrary Python object: NotImplemented from both sides makes == False, != True *)
  Inductive pyobj := PInv (i : invobj) | PUnrelated.
  Definition py_eq (x : invobj) (o : pyobj) : bool := match o with PInv y => inv_eq x y | PUnrelated => false end.
  Definition py_ne (x : invobj) (o : pyobj) : bool := match o with PInv y => inv_ne x y | PUnrelated => true end.

  (* Nuclide: canonical name + data set; hash of (name, dataset_name) for any hash function H *)
  Record nucobj := { no_name : str; no_ds : dsobj }.
  Definition nuc_eq (x y : nucobj) : bool := s_eqb (no_name x) (no_name y) && ds_eq (no_ds x) (no_ds y).
  Definition nuc_hash (H : str -> str -> Z) (x : nucobj) : Z := H (no_name x) (ds_name (no_ds x)).
End Eq.
