"""Implementation side of the unit/quantity correspondence (PYTHONPATH=/repo).
stdin: JSON list of cases {"nuc": name, "unit": u, "amount": hex, "kind": "activity|mass|moles|num"}.
stdout: JSON list with numbers / read-outs as float hex (or the exception name)."""
import json, sys

def main():
    import radioactivedecay as rd
    cases = json.load(sys.stdin)
    out = []
    for c in cases:
        x = float.fromhex(c["amount"])
        r = {}
        try:
            cls = rd.InventoryHP if c.get("hp") else rd.Inventory
            inv = cls({c["nuc"]: x}, c["unit"])
            r["num"] = float(inv.numbers()[c["nuc"]]).hex()
            k = c["kind"]
            if k == "activity":
                r["back"] = float(inv.activities(c["unit"])[c["nuc"]]).hex()
                r["base"] = float(inv.activities()[c["nuc"]]).hex()
            elif k == "mass":
                r["back"] = float(inv.masses(c["unit"])[c["nuc"]]).hex()
                r["base"] = float(inv.masses()[c["nuc"]]).hex()
            elif k == "moles":
                r["back"] = float(inv.moles(c["unit"])[c["nuc"]]).hex()
                r["base"] = float(inv.moles()[c["nuc"]]).hex()
            else:
                r["back"] = r["num"]; r["base"] = r["num"]
            # add / subtract through the same unit
            inv2 = cls({c["nuc"]: x}, c["unit"])
            inv2.add({c["nuc"]: x}, c["unit"])
            r["add"] = float(inv2.numbers()[c["nuc"]]).hex()
            inv2.subtract({c["nuc"]: x}, c["unit"])
            r["sub"] = float(inv2.numbers()[c["nuc"]]).hex()
        except Exception as e:
            r = {"err": type(e).__name__}
        out.append(r)
    json.dump(out, sys.stdout)
main()
