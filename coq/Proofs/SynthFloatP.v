(* C01 / C03 forward-error theorems on the SECOND (synthetic) data set: the generic theorems float_decay_error
   (Proofs/FloatDecayP.v) and cum_float_error (Proofs/CumFloatP.v) instantiated with the kernel-computed
   certificates of Proofs/CertSynth/SynthCert.v. *)
From Coq Require Import Reals ZArith NArith QArith Qreals List Bool Lia Lra Arith Psatz.
From Coq Require Import PrimFloat FloatOps SpecFloat FloatAxioms.
From Flocq Require Import Core.Core IEEE754.BinarySingleNaN IEEE754.PrimFloat.
From Bignums Require Import BigQ.
From RD Require Import Base Model.DecayR Lib.Sparse Lib.CertQ Model.Dataset Model.Synth Model.Rounding Model.Rounding64
  Model.FloatDecay Model.FloatCum Model.FloatData Model.RoundCert Model.CumData.
From RD Require Import Proofs.FloatDecayAux.
From RD Require Proofs.Rounding64P Proofs.RoundingP Proofs.FloatDecayLam Proofs.FloatDecayP Proofs.CumFloatP
  Proofs.CertSynth.SynthCert.
Import ListNotations.
Local Open Scope R_scope.

Definition u64_nonneg := FloatDecayP.u64_nonneg.
Definition eta64_nonneg := FloatDecayP.eta64_nonneg.
Definition u64_val := FloatDecayP.u64_val.

(* ---------- the constants of the certificates *)
Lemma bqv_sc_bound : bqv (bq_of CertSynth.SynthCert.sc_bound) = 1 / 10 ^ 15.
Proof.
  rewrite bqv_of. unfold CertSynth.SynthCert.sc_bound. cbn [qn qd]. unfold Q2R. cbn [Qnum Qden]. lra.
Qed.
Lemma bqv_sB_bound : bqv (bq_of CertSynth.SynthCert.sB_bound) = 1 / 10 ^ 15.
Proof.
  rewrite bqv_of. unfold CertSynth.SynthCert.sB_bound. cbn [qn qd]. unfold Q2R. cbn [Qnum Qden]. lra.
Qed.
Lemma bqv_sBc_bound : bqv (bq_of CertSynth.SynthCert.sBc_bound) = 1 / 10 ^ 16.
Proof.
  rewrite bqv_of. unfold CertSynth.SynthCert.sBc_bound. cbn [qn qd]. unfold Q2R. cbn [Qnum Qden]. lra.
Qed.

Lemma INR_40 : INR 40 = 40.
Proof. rewrite INR_IZR_INZ. reflexivity. Qed.

Lemma pow40_le2 : (1 + u64) ^ 40 <= 2.
Proof.
  assert (H : INR 40 * u64 < 1) by (rewrite INR_40, u64_val; lra).
  eapply Rle_trans; [apply (pow1u_le_inv u64 40 u64_nonneg H)|].
  rewrite INR_40, u64_val.
  rewrite <- (Rinv_inv 2). apply Rinv_le_contravar; lra.
Qed.

Lemma etaP_le : eta64 * (1 + u64) ^ 40 <= bpow radix2 (-1074).
Proof.
  unfold eta64. pose proof pow40_le2 as H. pose proof (bpow_ge_0 radix2 (-1074)) as H0.
  assert (H1 : 0 <= (1 + u64) ^ 40) by (apply pow_le; pose proof u64_nonneg; lra).
  nra.
Qed.

Lemma etaP_nonneg : 0 <= eta64 * (1 + u64) ^ 40.
Proof. apply Rmult_le_pos; [apply eta64_nonneg|]. apply pow_le. pose proof u64_nonneg; lra. Qed.

Lemma under_const : eta64 * (1 + u64) ^ 40 * (2 * 40) <= bpow radix2 (-1060).
Proof.
  pose proof etaP_le as H. pose proof etaP_nonneg as H0.
  apply Rle_trans with (bpow radix2 (-1074) * bpow radix2 9).
  - assert (E : bpow radix2 9 = 512) by (simpl; lra). rewrite E.
    pose proof (bpow_ge_0 radix2 (-1074)). nra.
  - rewrite <- bpow_plus. apply bpow_le. lia.
Qed.

Lemma under_coef : eta64 * (1 + u64) ^ 40 * (100 + 2 * 40) <= 1 / 10 ^ 16.
Proof.
  pose proof etaP_le as H. pose proof etaP_nonneg as H0.
  assert (H1 : bpow radix2 (-1074) <= bpow radix2 (-64)) by (apply bpow_le; lia).
  rewrite FloatDecayP.bpow_m64 in H1.
  apply Rle_trans with (/ 18446744073709551616 * (100 + 2 * 40)); [|lra].
  apply Rmult_le_compat_r; lra.
Qed.

Lemma q40_le : u64 / (1 - 40 * u64) <= 112 / 10 ^ 18.
Proof.
  rewrite u64_val.
  apply Rmult_le_reg_r with (1 - 40 * / 9007199254740992); [lra|].
  unfold Rdiv at 1. rewrite Rmult_assoc, Rinv_l by lra. lra.
Qed.

Lemma cc_le : 1 / 10 ^ 15 / (exp 1 * (1 - 1 / 10 ^ 15)) <= 1 / 10 ^ 15.
Proof.
  assert (HE : 2 <= exp 1) by (pose proof (exp_ineq1_le 1); lra).
  set (c := 1 / 10 ^ 15).
  assert (Hc : c = / 1000000000000000) by (unfold c; lra).
  assert (Hc0 : 0 < c < 1) by lra.
  assert (Hm : c / (exp 1 * (1 - c)) <= c / (2 * (1 - c))).
  { unfold Rdiv. apply Rmult_le_compat_l; [lra|].
    apply Rinv_le_contravar; [lra|]. apply Rmult_le_compat_r; lra. }
  assert (Hv : c / (2 * (1 - c)) <= c).
  { rewrite Hc. apply Rmult_le_reg_r with (2 * (1 - / 1000000000000000)); [lra|].
    unfold Rdiv. rewrite Rmult_assoc, Rinv_l by lra. lra. }
  lra.
Qed.

Lemma synth_lengths : length (ds_mu Synth) = nn Synth.
Proof. exact (FloatDecayP.wf_core_lengths Synth CertSynth.SynthCert.synth_wf_core). Qed.

Lemma synth_lam_close : forall k, (k < nn Synth)%nat ->
  Rabs (fval (nth k CertSynth.SynthCert.synth_lam_val 0%float) - lam (mur Synth) k) <= 1 / 10 ^ 15 * lam (mur Synth) k.
Proof.
  intros k Hk. rewrite <- bqv_sc_bound.
  apply (FloatDecayLam.lambda_close_sound Synth _ _ CertSynth.SynthCert.synth_lambda_close).
  rewrite synth_lengths. exact Hk.
Qed.

Theorem synth_float_decay_error :
  forall (e n0 : frow) (i : N) (ce mo : list N) (t : R),
  orders_okb (ds_cf Synth) (ds_cif Synth) e n0 i ce mo = true ->
  ffin (pf_yhat (ds_cf Synth) (ds_cif Synth) e n0 i ce mo) = true ->
  0 <= t ->
  let n0f := fun j : nat => fval (fget n0 (N.of_nat j)) in
  let Ef := fun k : nat => fval (fget e (N.of_nat k)) in
  let lamf := fun k : nat => fval (nth k Proofs.CertSynth.SynthCert.synth_lam_val 0%float) in
  (forall j, 0 <= n0f j) ->
  (forall k, (k < nn Synth)%nat -> (exists j, (j < nn Synth)%nat /\ Cifr Synth k j * n0f j <> 0) ->
             Rabs (Ef k - exp (- lamf k * t)) <= bpow radix2 (-50)) ->
  Rabs (fval (pf_yhat (ds_cf Synth) (ds_cif Synth) e n0 i ce mo)
        - Nt (nn Synth) (Cr Synth) (Cir Synth) (mur Synth) n0f t (N.to_nat i))
  <= 1 / 10 ^ 13 * sumn (nn Synth) n0f + bpow radix2 (-1060).
Proof.
  intros e n0 i ce mo t Hok Hfin Ht n0f Ef lamf Hn0 HE.
  assert (Hc : 0 <= 1 / 10 ^ 15 < 1) by lra.
  assert (Hue : 0 <= bpow radix2 (-50)) by apply bpow_ge_0.
  assert (Hmb : INR 40 * u64 < 1) by (rewrite INR_40, u64_val; lra).
  assert (Hlam : forall k, (k < nn Synth)%nat ->
            Rabs (lamf k - lam (mur Synth) k) <= 1 / 10 ^ 15 * lam (mur Synth) k).
  { intros k Hk. unfold lamf. apply synth_lam_close. exact Hk. }
  pose proof (FloatDecayP.float_decay_error Synth (bq_of CertSynth.SynthCert.sB_bound) (bq_of CertSynth.SynthCert.sK_bound)
                (bq_of CertSynth.SynthCert.sG_bound) (bq_of CertSynth.SynthCert.sH_bound) 40%nat
                (1 / 10 ^ 15) (bpow radix2 (-50))
                CertSynth.SynthCert.synth_wf_core CertSynth.SynthCert.synth_float_matrices CertSynth.SynthCert.synth_round
                Hc Hue Hmb e n0 i ce mo t lamf Hok Hfin Ht Hn0 Hlam HE) as H.
  eapply Rle_trans; [exact H|]. clear H.
  assert (HX : 0 <= sumn (nn Synth) n0f) by (apply RoundingP.sumn_nonneg; intros; apply Hn0).
  set (X := sumn (nn Synth) n0f) in *.
  pose proof cc_le as HD.
  set (cc := 1 / 10 ^ 15 / (exp 1 * (1 - 1 / 10 ^ 15))) in *.
  assert (EK : bqv (bq_of CertSynth.SynthCert.sK_bound) = 10) by apply (FloatDecayP.bqv_qlit1 10).
  assert (EG : bqv (bq_of CertSynth.SynthCert.sG_bound) = 200) by apply (FloatDecayP.bqv_qlit1 200).
  assert (EH : bqv (bq_of CertSynth.SynthCert.sH_bound) = 100) by apply (FloatDecayP.bqv_qlit1 100).
  rewrite INR_40.
  set (P := eta64 * (1 + u64) ^ 40).
  pose proof under_const as U1. pose proof under_coef as U2. fold P in U1, U2.
  pose proof q40_le as Q1. set (qq := u64 / (1 - 40 * u64)) in *.
  rewrite EG, EH, EK, bqv_sB_bound.
  change (sumn (nn Synth) (fun j : nat => fval (fget n0 (N.of_nat j)))) with X.
  replace ((200 * qq + 10 * bpow radix2 (-50) + 1 / 10 ^ 15 + 10 * cc) * X
           + P * ((100 + 2 * 40) * X + 2 * 40))
    with ((200 * qq + 10 * bpow radix2 (-50) + 1 / 10 ^ 15 + 10 * cc
           + P * (100 + 2 * 40)) * X + P * (2 * 40)) by ring.
  rewrite FloatDecayP.bpow_m50.
  apply Rplus_le_compat; [|exact U1].
  apply Rmult_le_compat_r; [exact HX|]. lra.
Qed.

(* ---------- cumulative *)
Lemma fval_Lmax : fval 0x1p40%float = 1099511627776.
Proof.
  rewrite Rounding64P.fval_SF.
  vm_compute Prim2SF. unfold SF2R, F2R. simpl. lra.
Qed.
Lemma ffin_Lmax : ffin 0x1p40%float = true.
Proof. rewrite Rounding64P.ffin_SF. reflexivity. Qed.

Lemma synth_lamf_le : forall k, fval (nth k CertSynth.SynthCert.synth_lam_val 0%float) <= 1099511627776.
Proof.
  intro k. destruct (Nat.lt_ge_cases k (length CertSynth.SynthCert.synth_lam_val)) as [Hk|Hk].
  - pose proof CertSynth.SynthCert.synth_lam_range as H. unfold chk_lam_range in H.
    rewrite forallb_forall in H. specialize (H _ (nth_In _ 0%float Hk)).
    apply andb_prop in H. destruct H as [_ H].
    rewrite <- fval_Lmax. apply CumFloatP.leb_fval; [exact H|exact ffin_Lmax|rewrite fval_Lmax; lra].
  - rewrite nth_overflow by exact Hk. rewrite Rounding64P.fval_zero. lra.
Qed.

(* eta64 (1+u64)^40 2^40 (1+u64) <= 2^-1033 *)
Lemma PL_le : eta64 * (1 + u64) ^ 40 * (1099511627776 * (1 + u64)) <= bpow radix2 (-1033).
Proof.
  pose proof etaP_le as H. pose proof etaP_nonneg as H0.
  pose proof u64_nonneg as Hu. pose proof CumFloatP.u64_small as Hus.
  apply Rle_trans with (bpow radix2 (-1074) * bpow radix2 41).
  - assert (E : bpow radix2 41 = 2199023255552) by (simpl; lra). rewrite E.
    apply Rmult_le_compat; [exact H0|lra|exact H|lra].
  - rewrite <- bpow_plus. apply bpow_le. lia.
Qed.

Lemma PL_nonneg : 0 <= eta64 * (1 + u64) ^ 40 * (1099511627776 * (1 + u64)).
Proof. pose proof etaP_nonneg. pose proof u64_nonneg. apply Rmult_le_pos; [assumption|lra]. Qed.

Lemma under_const_cum :
  eta64 * (1 + u64) ^ 40 * (1099511627776 * (1 + u64)) * (2 * 40) + eta64 <= bpow radix2 (-1000).
Proof.
  pose proof PL_le as H. pose proof PL_nonneg as H0.
  set (PL := eta64 * (1 + u64) ^ 40 * (1099511627776 * (1 + u64))) in *.
  assert (H1 : PL * (2 * 40) <= bpow radix2 (-1024)).
  { apply Rle_trans with (bpow radix2 (-1033) * bpow radix2 9).
    - assert (E : bpow radix2 9 = 512) by (simpl; lra). rewrite E.
      pose proof (bpow_ge_0 radix2 (-1033)). nra.
    - rewrite <- bpow_plus. apply bpow_le. lia. }
  assert (H2 : eta64 <= bpow radix2 (-1024)).
  { unfold eta64. assert (bpow radix2 (-1074) <= bpow radix2 (-1024)) by (apply bpow_le; lia).
    pose proof (bpow_ge_0 radix2 (-1074)). lra. }
  assert (H3 : bpow radix2 (-1000) = bpow radix2 (-1024) * bpow radix2 24) by (rewrite <- bpow_plus; reflexivity).
  assert (E : bpow radix2 24 = 16777216) by (simpl; lra).
  rewrite H3, E. pose proof (bpow_ge_0 radix2 (-1024)). lra.
Qed.

Lemma under_coef_cum :
  eta64 * (1 + u64) ^ 40 * (1099511627776 * (1 + u64)) * (100 + 2 * 40) <= 1 / 10 ^ 16.
Proof.
  pose proof PL_le as H. pose proof PL_nonneg as H0.
  set (PL := eta64 * (1 + u64) ^ 40 * (1099511627776 * (1 + u64))) in *.
  assert (H1 : bpow radix2 (-1033) <= bpow radix2 (-64)) by (apply bpow_le; lia).
  rewrite FloatDecayP.bpow_m64 in H1.
  apply Rle_trans with (/ 18446744073709551616 * (100 + 2 * 40)); [|lra].
  apply Rmult_le_compat_r; lra.
Qed.

Theorem synth_cum_float_error :
  forall (e n0 : frow) (i : N) (ce mo : list N) (t : R),
  let lam_i := nth (N.to_nat i) Proofs.CertSynth.SynthCert.synth_lam_val 0%float in
  orders_okb_cum (ds_cf Synth) (ds_cif Synth) e n0 i ce mo = true ->
  ffin (pf_cum (ds_cf Synth) (ds_cif Synth) e n0 i ce mo lam_i) = true ->
  0 <= t ->
  let n0f := fun j : nat => fval (fget n0 (N.of_nat j)) in
  let Ef := fun k : nat => fval (fget e (N.of_nat k)) in
  let lamf := fun k : nat => fval (nth k Proofs.CertSynth.SynthCert.synth_lam_val 0%float) in
  (forall j, 0 <= n0f j) ->
  stableb Synth (N.to_nat i) = false ->
  (forall k, (k < nn Synth)%nat -> Ef k = 0 \/
      (mur Synth k <> 0 /\ Rabs (Ef k - (1 - exp (- lamf k * t)) / lamf k) <= bpow radix2 (-50) / lamf k)) ->
  (forall k, (k < nn Synth)%nat -> (exists j, (j < nn Synth)%nat /\ Cifr Synth k j * n0f j <> 0) -> mur Synth k <> 0 ->
      Rabs (Ef k - (1 - exp (- lamf k * t)) / lamf k) <= bpow radix2 (-50) / lamf k) ->
  Rabs (fval (pf_cum (ds_cf Synth) (ds_cif Synth) e n0 i ce mo lam_i)
        - Dcum (nn Synth) (Cr Synth) (Cir Synth) (mur Synth) (stableb Synth) n0f t (N.to_nat i))
  <= 1 / 10 ^ 13 * sumn (nn Synth) n0f + bpow radix2 (-1000).
Proof.
  intros e n0 i ce mo t lam_i Hok Hfin Ht n0f Ef lamf Hn0 Hrad HE1 HE2.
  assert (Hc : 0 <= 1 / 10 ^ 15 <= 1 / 10 ^ 8) by lra.
  assert (Hue : 0 <= bpow radix2 (-50) <= 1 / 10 ^ 8) by (rewrite FloatDecayP.bpow_m50; lra).
  assert (Hmb : INR 40 * u64 <= 1 / 10 ^ 8) by (rewrite INR_40, u64_val; lra).
  assert (HL : 0 <= 1099511627776) by lra.
  assert (Hlam : forall k, (k < nn Synth)%nat ->
            Rabs (lamf k - lam (mur Synth) k) <= 1 / 10 ^ 15 * lam (mur Synth) k).
  { intros k Hk. unfold lamf. apply synth_lam_close. exact Hk. }
  assert (HLm : forall k, (k < nn Synth)%nat -> lamf k <= 1099511627776).
  { intros k _. apply synth_lamf_le. }
  pose proof (CumFloatP.cum_float_error Synth (bq_of CertSynth.SynthCert.sB_bound) (bq_of CertSynth.SynthCert.sK_bound)
                (bq_of CertSynth.SynthCert.sG_bound) (bq_of CertSynth.SynthCert.sH_bound) 40%nat
                (bq_of CertSynth.SynthCert.sBc_bound) (bq_of CertSynth.SynthCert.sKc_bound) (bq_of CertSynth.SynthCert.sGc_bound)
                (1 / 10 ^ 15) (bpow radix2 (-50)) 1099511627776
                CertSynth.SynthCert.synth_wf_core CertSynth.SynthCert.synth_float_matrices CertSynth.SynthCert.synth_round
                CertSynth.SynthCert.synth_cum
                Hc Hue Hmb HL e n0 i ce mo lam_i t lamf Hok Hfin Ht Hn0 Hlam HLm (eq_refl (lamf (N.to_nat i))) Hrad HE1 HE2) as H.
  eapply Rle_trans; [exact H|]. clear H.
  assert (HX : 0 <= sumn (nn Synth) n0f) by (apply RoundingP.sumn_nonneg; intros; apply Hn0).
  set (X := sumn (nn Synth) n0f) in *.
  assert (EK : bqv (bq_of CertSynth.SynthCert.sKc_bound) = 2) by apply (FloatDecayP.bqv_qlit1 2).
  assert (EG : bqv (bq_of CertSynth.SynthCert.sGc_bound) = 18) by apply (FloatDecayP.bqv_qlit1 18).
  assert (EH : bqv (bq_of CertSynth.SynthCert.sH_bound) = 100) by apply (FloatDecayP.bqv_qlit1 100).
  rewrite INR_40.
  rewrite EK, EG, EH, bqv_sBc_bound, FloatDecayP.bpow_m50.
  pose proof under_const_cum as U1. pose proof under_coef_cum as U2.
  set (P := eta64 * (1 + u64) ^ 40) in *.
  set (LL := 1099511627776 * (1 + u64)) in *.
  change (sumn (nn Synth) (fun j : nat => fval (fget n0 (N.of_nat j)))) with X.
  rewrite u64_val.
  assert (HXU : P * LL * (100 + 2 * 40) * X <= 1 / 10 ^ 16 * X) by (apply Rmult_le_compat_r; assumption).
  lra.
Qed.

Print Assumptions synth_float_decay_error.
Print Assumptions synth_cum_float_error.
