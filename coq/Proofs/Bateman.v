(* Generic theorems about the decay flow over R (any data set with a certificate). *)
From Coq Require Import Reals Arith Lia Lra.
From Coquelicot Require Import Coquelicot.
From RD Require Import Model.DecayR.
Local Open Scope R_scope.

(* --- finite sums --- *)
Lemma sumn_ext : forall n f g, (forall k, (k < n)%nat -> f k = g k) -> sumn n f = sumn n g.
Proof.
  induction n as [|n IH]; intros f g H; simpl; [reflexivity|].
  rewrite (IH f g), (H n); auto.
Qed.

Lemma sumn_zero : forall n f, (forall k, (k < n)%nat -> f k = 0) -> sumn n f = 0.
Proof.
  induction n as [|n IH]; intros f H; simpl; [reflexivity|].
  rewrite (IH f), (H n); auto; lra.
Qed.

Lemma sumn_plus : forall n f g, sumn n (fun k => f k + g k) = sumn n f + sumn n g.
Proof. induction n as [|n IH]; intros f g; simpl; [lra|]. rewrite IH; lra. Qed.

Lemma sumn_minus : forall n f g, sumn n (fun k => f k - g k) = sumn n f - sumn n g.
Proof. induction n as [|n IH]; intros f g; simpl; [lra|]. rewrite IH; lra. Qed.

Lemma sumn_scal : forall n a f, sumn n (fun k => a * f k) = a * sumn n f.
Proof. induction n as [|n IH]; intros a f; simpl; [lra|]. rewrite IH; lra. Qed.

Lemma sumn_scal_r : forall n a f, sumn n (fun k => f k * a) = sumn n f * a.
Proof. induction n as [|n IH]; intros a f; simpl; [lra|]. rewrite IH; lra. Qed.

Lemma sumn_swap : forall n m f,
  sumn n (fun i => sumn m (fun j => f i j)) = sumn m (fun j => sumn n (fun i => f i j)).
Proof.
  induction n as [|n IH]; intros m f; simpl.
  - symmetry; apply sumn_zero; auto.
  - rewrite IH, <- sumn_plus. reflexivity.
Qed.

Lemma sumn_delta : forall n i f, (i < n)%nat ->
  sumn n (fun k => (if Nat.eqb i k then 1 else 0) * f k) = f i.
Proof.
  induction n as [|n IH]; intros i f Hi; [lia|]. simpl.
  destruct (Nat.eq_dec i n) as [->|Hne].
  - rewrite Nat.eqb_refl. rewrite sumn_zero; [lra|].
    intros k Hk. replace (Nat.eqb n k) with false; [lra|].
    symmetry; apply Nat.eqb_neq; lia.
  - rewrite IH by lia. replace (Nat.eqb i n) with false; [lra|].
    symmetry; apply Nat.eqb_neq; lia.
Qed.

Lemma sumn_delta' : forall n i f, (i < n)%nat ->
  sumn n (fun k => (if Nat.eqb k i then 1 else 0) * f k) = f i.
Proof.
  intros n i f Hi. rewrite <- (sumn_delta n i f Hi) at 1.
  apply sumn_ext; intros k _. rewrite Nat.eqb_sym. reflexivity.
Qed.

Lemma is_derive_sumn : forall n (f : nat -> R -> R) (d : nat -> R) t,
  (forall k, (k < n)%nat -> is_derive (f k) t (d k)) ->
  is_derive (fun s => sumn n (fun k => f k s)) t (sumn n d).
Proof.
  induction n as [|n IH]; intros f d t H; simpl.
  - apply (is_derive_const (V := R_NormedModule) 0 t).
  - apply (is_derive_plus (V := R_NormedModule) (fun s => sumn n (fun k => f k s)) (f n)).
    + apply IH; auto.
    + apply H; auto.
Qed.

Lemma is_RInt_zero : forall a b : R, is_RInt (fun _ : R => 0) a b 0.
Proof.
  intros a b. pose proof (@is_RInt_const R_NormedModule a b 0) as H0.
  assert (H1 : forall z : R, z = scal (b - a) 0 -> is_RInt (fun _ : R => 0) a b z)
    by (intros z ->; exact H0).
  apply H1. unfold scal; simpl; unfold mult; simpl; ring.
Qed.

Lemma is_RInt_sumn : forall n (f : nat -> R -> R) (l : nat -> R) a b,
  (forall k, (k < n)%nat -> is_RInt (f k) a b (l k)) ->
  is_RInt (fun s => sumn n (fun k => f k s)) a b (sumn n l).
Proof.
  induction n as [|n IH]; intros f l a b H; simpl.
  - apply is_RInt_zero.
  - apply (is_RInt_plus (V := R_NormedModule) (fun s => sumn n (fun k => f k s)) (f n)).
    + apply IH; auto.
    + apply H; auto.
Qed.

Lemma ln2_pos : 0 < ln 2.
Proof. pose proof ln_lt_2. lra. Qed.

Lemma is_RInt_exp : forall a t, a <> 0 ->
  is_RInt (fun s => exp (- a * s)) 0 t ((1 - exp (- a * t)) / a).
Proof.
  intros a t Ha.
  pose proof (@is_RInt_derive R_CompleteNormedModule
                (fun s => - exp (- a * s) / a) (fun s => exp (- a * s)) 0 t) as H.
  assert (E : minus (- exp (- a * t) / a) (- exp (- a * 0) / a) = (1 - exp (- a * t)) / a).
  { unfold minus, plus, opp; simpl. rewrite Rmult_0_r, exp_0. field; exact Ha. }
  rewrite <- E. apply H.
  - intros x _. auto_derive; [exact I|]. field; exact Ha.
  - intros x _. apply (ex_derive_continuous (V := R_NormedModule)).
    auto_derive. exact I.
Qed.

Section Bateman.
  Variable n : nat.
  Variables C Ci M : nat -> nat -> R.
  Variable mu : nat -> R.
  Variable bf : nat -> nat -> R.
  Variable stable : nat -> bool.
  Hypothesis HC : cert n C Ci M mu bf stable.

  Notation Nt := (Nt n C Ci mu).
  Notation Dcum := (Dcum n C Ci mu stable).
  Notation lam := (lam mu).
  Notation Lam := (Lam M).
  Notation W := (w n Ci).
  Notation Ec := (Ecum mu stable).

  (* --- algebraic consequences of the certificate --- *)

  Lemma Lam_C : forall i k, (i < n)%nat -> (k < n)%nat ->
    sumn n (fun m => Lam i m * C m k) = - lam k * C i k.
  Proof.
    intros i k Hi Hk. unfold DecayR.Lam, DecayR.lam.
    rewrite (sumn_ext n _ (fun m => ln 2 * (M i m * C m k))) by (intros; ring).
    rewrite sumn_scal, (c_MC _ _ _ _ _ _ _ HC) by assumption. ring.
  Qed.

  (* C (C^-1 v) = v *)
  Lemma C_W : forall v i, (i < n)%nat -> sumn n (fun k => C i k * W v k) = v i.
  Proof.
    intros v i Hi. unfold w.
    rewrite (sumn_ext n _ (fun k => sumn n (fun j => C i k * Ci k j * v j))).
    2:{ intros k _. rewrite <- sumn_scal. apply sumn_ext; intros; ring. }
    rewrite sumn_swap.
    rewrite (sumn_ext n _ (fun j => (if Nat.eqb i j then 1 else 0) * v j)).
    2:{ intros j Hj. rewrite <- (c_CCi _ _ _ _ _ _ _ HC) by assumption.
        rewrite <- sumn_scal_r. reflexivity. }
    apply sumn_delta; assumption.
  Qed.

  (* C^-1 (C g) = g *)
  Lemma W_C : forall g k, (k < n)%nat ->
    W (fun j => sumn n (fun k' => C j k' * g k')) k = g k.
  Proof.
    intros g k Hk. unfold w.
    rewrite (sumn_ext n _ (fun j => sumn n (fun k' => Ci k j * C j k' * g k'))).
    2:{ intros j _. rewrite <- sumn_scal. apply sumn_ext; intros; ring. }
    rewrite sumn_swap.
    rewrite (sumn_ext n _ (fun k' => (if Nat.eqb k k' then 1 else 0) * g k')).
    2:{ intros j Hj. rewrite <- (c_CiC _ _ _ _ _ _ _ HC) by assumption.
        rewrite <- sumn_scal_r. reflexivity. }
    apply sumn_delta; assumption.
  Qed.

  Lemma W_linear : forall a x y k, W (fun j => a * x j + y j) k = a * W x k + W y k.
  Proof.
    intros a x y k. unfold w. rewrite <- sumn_scal, <- sumn_plus.
    apply sumn_ext; intros; ring.
  Qed.

  Lemma lam_stable : forall k, (k < n)%nat -> stable k = true -> lam k = 0.
  Proof.
    intros k Hk Hs. unfold DecayR.lam.
    apply (c_stable _ _ _ _ _ _ _ HC) in Hs; [|assumption]. rewrite Hs; ring.
  Qed.

  Lemma lam_radio : forall k, (k < n)%nat -> stable k = false -> lam k <> 0.
  Proof.
    intros k Hk Hs Hl. unfold DecayR.lam in Hl.
    pose proof ln2_pos as Hp.
    apply Rmult_integral in Hl. destruct Hl as [Hl|Hl]; [lra|].
    apply (c_stable _ _ _ _ _ _ _ HC) in Hl; [|assumption]. congruence.
  Qed.

  (* sum_m Lam i m * (C g) m = sum_k (-lam k) C i k g k *)
  Lemma Lam_Cg : forall g i, (i < n)%nat ->
    sumn n (fun m => Lam i m * sumn n (fun k => C m k * g k))
    = sumn n (fun k => - lam k * C i k * g k).
  Proof.
    intros g i Hi.
    rewrite (sumn_ext n _ (fun m => sumn n (fun k => Lam i m * C m k * g k))).
    2:{ intros m _. rewrite <- sumn_scal. apply sumn_ext; intros; ring. }
    rewrite sumn_swap. apply sumn_ext; intros k Hk.
    rewrite sumn_scal_r, Lam_C by assumption. reflexivity.
  Qed.

  (* 1. the closed form satisfies the decay ODE system dN_i/dt = sum_m Lam_im N_m *)
  Theorem closed_form_solves_ode : forall n0 t i, (i < n)%nat ->
    is_derive (fun s => Nt n0 s i) t (sumn n (fun m => Lam i m * Nt n0 t m)).
  Proof.
    intros n0 t i Hi. unfold DecayR.Nt.
    rewrite (Lam_Cg (fun k => exp (- lam k * t) * W n0 k) i Hi).
    apply (is_derive_sumn n (fun k s => C i k * (exp (- lam k * s) * W n0 k))).
    intros k Hk. auto_derive; [exact I|]. ring.
  Qed.

  (* 2. initial condition *)
  Theorem closed_form_initial : forall n0 i, (i < n)%nat -> Nt n0 0 i = n0 i.
  Proof.
    intros n0 i Hi. unfold DecayR.Nt.
    rewrite <- (C_W n0 i Hi). apply sumn_ext; intros k _.
    rewrite Rmult_0_r, exp_0. ring.
  Qed.

  (* 3. semigroup law *)
  Theorem decay_additive : forall n0 t1 t2 i, (i < n)%nat ->
    Nt (Nt n0 t1) t2 i = Nt n0 (t1 + t2) i.
  Proof.
    intros n0 t1 t2 i Hi. unfold DecayR.Nt at 1 3.
    apply sumn_ext; intros k Hk.
    change (W (Nt n0 t1) k)
      with (W (fun j => sumn n (fun k' => C j k' * (exp (- lam k' * t1) * W n0 k'))) k).
    rewrite (W_C (fun k' => exp (- lam k' * t1) * W n0 k') k Hk).
    replace (- lam k * (t1 + t2)) with (- lam k * t1 + - lam k * t2) by ring.
    rewrite exp_plus. ring.
  Qed.

  (* 4. linearity *)
  Theorem decay_linear : forall a x y t i,
    Nt (fun j => a * x j + y j) t i = a * Nt x t i + Nt y t i.
  Proof.
    intros a x y t i. unfold DecayR.Nt.
    rewrite <- sumn_scal, <- sumn_plus. apply sumn_ext; intros k _.
    rewrite W_linear. ring.
  Qed.

  (* 5. cumulative decays are the integral of the activity lam_i * N_i *)
  Theorem cumdecay_is_integral : forall n0 t i, (i < n)%nat -> stable i = false ->
    is_RInt (fun s => lam i * Nt n0 s i) 0 t (Dcum n0 t i).
  Proof.
    intros n0 t i Hi Hsi. unfold DecayR.Dcum, DecayR.Nt.
    apply (is_RInt_scal (V := R_NormedModule)
             (fun s => sumn n (fun k => C i k * (exp (- lam k * s) * W n0 k)))).
    apply (is_RInt_sumn n (fun k s => C i k * (exp (- lam k * s) * W n0 k))).
    intros k Hk. unfold Ecum. destruct (stable k) eqn:Hsk.
    - assert (Hik : i <> k) by (intros ->; congruence).
      rewrite (c_stable_col _ _ _ _ _ _ _ HC i k Hi Hk Hsk Hik).
      apply (is_RInt_ext (V := R_NormedModule) (fun _ => 0)); [intros x _; symmetry; apply Rmult_0_l|].
      replace (0 * (0 * W n0 k)) with 0 by ring. apply is_RInt_zero.
    - apply (is_RInt_ext (V := R_NormedModule)
               (fun s => scal (C i k * W n0 k) (exp (- lam k * s)))).
      { intros s _. unfold scal; simpl; unfold mult; simpl; ring. }
      replace (C i k * ((1 - exp (- lam k * t)) / lam k * W n0 k))
        with (scal (C i k * W n0 k) ((1 - exp (- lam k * t)) / lam k))
        by (unfold scal; simpl; unfold mult; simpl; ring).
      apply (is_RInt_scal (V := R_NormedModule)).
      apply is_RInt_exp. apply lam_radio; assumption.
  Qed.

  (* 6. cumulative decays of a stable nuclide are zero *)
  Theorem cumdecay_stable_zero : forall n0 t i, (i < n)%nat -> stable i = true -> Dcum n0 t i = 0.
  Proof.
    intros n0 t i Hi Hs. unfold DecayR.Dcum. rewrite (lam_stable i Hi Hs). ring.
  Qed.

  (* 7. atom balance *)
  Theorem atom_balance : forall n0 t i, (i < n)%nat ->
    Nt n0 t i - n0 i = - Dcum n0 t i + sumn n (fun p => bf p i * Dcum n0 t p).
  Proof.
    intros n0 t i Hi.
    (* right-hand side = sum_m Lam i m * I_m *)
    assert (HR : - Dcum n0 t i + sumn n (fun p => bf p i * Dcum n0 t p)
                 = sumn n (fun m => Lam i m * sumn n (fun k => C m k * (Ec t k * W n0 k)))).
    { rewrite (sumn_ext n (fun m => Lam i m * _)
                 (fun m => (if Nat.eqb i m then 1 else 0) * (- Dcum n0 t m) + bf m i * Dcum n0 t m)).
      - rewrite sumn_plus, sumn_delta by assumption. reflexivity.
      - intros m Hm. unfold DecayR.Lam, DecayR.Dcum, DecayR.lam.
        rewrite (c_M _ _ _ _ _ _ _ HC i m Hi Hm).
        destruct (Nat.eqb i m) eqn:E.
        + apply Nat.eqb_eq in E; subst m.
          rewrite (c_bf_diag _ _ _ _ _ _ _ HC i Hi). ring.
        + ring. }
    rewrite HR, Lam_Cg by assumption.
    unfold DecayR.Nt. rewrite <- (C_W n0 i Hi). rewrite <- sumn_minus.
    apply sumn_ext; intros k Hk. unfold Ecum.
    destruct (stable k) eqn:Hsk.
    - rewrite (lam_stable k Hk Hsk). rewrite Ropp_0, Rmult_0_l, exp_0. ring.
    - field. apply lam_radio; assumption.
  Qed.

  (* C^-1 Lam = -diag(lam) C^-1 *)
  Lemma Ci_Lam : forall k m, (k < n)%nat -> (m < n)%nat ->
    sumn n (fun i => Ci k i * Lam i m) = - lam k * Ci k m.
  Proof.
    intros k m Hk Hm.
    (* Lam i m = sum_p (-lam p) C i p Ci p m *)
    assert (HL : forall i, (i < n)%nat ->
               Lam i m = sumn n (fun p => - lam p * C i p * Ci p m)).
    { intros i Hi.
      rewrite (sumn_ext n _ (fun p => sumn n (fun j => Lam i j * C j p) * Ci p m)).
      2:{ intros p Hp. rewrite Lam_C by assumption. reflexivity. }
      rewrite (sumn_ext n _ (fun p => sumn n (fun j => Lam i j * (C j p * Ci p m)))).
      2:{ intros p _. rewrite <- sumn_scal_r. apply sumn_ext; intros; ring. }
      rewrite sumn_swap.
      rewrite (sumn_ext n _ (fun j => (if Nat.eqb j m then 1 else 0) * Lam i j)).
      2:{ intros j Hj. rewrite sumn_scal, (c_CCi _ _ _ _ _ _ _ HC) by assumption. ring. }
      rewrite sumn_delta' by assumption. reflexivity. }
    rewrite (sumn_ext n _ (fun i => sumn n (fun p => Ci k i * C i p * (- lam p * Ci p m)))).
    2:{ intros i Hi. rewrite (HL i Hi), <- sumn_scal. apply sumn_ext; intros; ring. }
    rewrite sumn_swap.
    rewrite (sumn_ext n _ (fun p => (if Nat.eqb k p then 1 else 0) * (- lam p * Ci p m))).
    2:{ intros p Hp. rewrite sumn_scal_r, (c_CiC _ _ _ _ _ _ _ HC) by assumption. reflexivity. }
    apply sumn_delta; assumption.
  Qed.

  (* a function with identically zero derivative takes the same value at 0 and t *)
  Lemma zero_derive_const : forall (f : R -> R) t,
    (forall s, is_derive f s 0) -> f t = f 0.
  Proof.
    intros f t H.
    destruct (Rtotal_order t 0) as [Hlt|[->|Hgt]]; [|reflexivity|].
    - apply (eq_is_derive (V := R_NormedModule) f t 0); [|exact Hlt]. intros s _; apply H.
    - symmetry. apply (eq_is_derive (V := R_NormedModule) f 0 t); [|exact Hgt].
      intros s _; apply H.
  Qed.

  (* 8. uniqueness: any differentiable family solving the same ODE system with the same
        initial condition equals the closed form on t >= 0 (in fact for all t).  *)
  Theorem ode_solution_unique : forall (n0 : nat -> R) (y : nat -> R -> R),
    (forall i, (i < n)%nat -> y i 0 = n0 i) ->
    (forall i t, (i < n)%nat -> is_derive (y i) t (sumn n (fun m => Lam i m * y m t))) ->
    forall i t, (i < n)%nat -> y i t = Nt n0 t i.
  Proof.
    intros n0 y Hy0 Hy.
    pose (z := fun (i : nat) (t : R) => y i t - Nt n0 t i).
    (* z solves the same system *)
    assert (Hz : forall i t, (i < n)%nat ->
               is_derive (z i) t (sumn n (fun m => Lam i m * z m t))).
    { intros i t Hi. unfold z.
      rewrite (sumn_ext n _ (fun m => Lam i m * y m t - Lam i m * Nt n0 t m))
        by (intros; ring).
      rewrite sumn_minus.
      apply (is_derive_minus (V := R_NormedModule) (y i) (fun s => Nt n0 s i)).
      - apply Hy; assumption.
      - apply closed_form_solves_ode; assumption. }
    assert (Hz0 : forall i, (i < n)%nat -> z i 0 = 0).
    { intros i Hi. unfold z. rewrite Hy0, closed_form_initial by assumption. ring. }
    (* coordinates in the eigenbasis *)
    pose (u := fun (k : nat) (t : R) => W (fun j => z j t) k).
    assert (Hu : forall k t, (k < n)%nat -> is_derive (u k) t (- lam k * u k t)).
    { intros k t Hk. unfold u, w.
      assert (E : - lam k * sumn n (fun j => Ci k j * z j t)
                  = sumn n (fun j => Ci k j * sumn n (fun m => Lam j m * z m t))).
      { rewrite (sumn_ext n (fun j => Ci k j * sumn n _)
                   (fun j => sumn n (fun m => Ci k j * Lam j m * z m t))).
        2:{ intros j _. rewrite <- sumn_scal. apply sumn_ext; intros; ring. }
        rewrite sumn_swap, <- sumn_scal. apply sumn_ext; intros m Hm.
        rewrite sumn_scal_r, Ci_Lam by assumption. ring. }
      rewrite E.
      apply (is_derive_sumn n (fun j s => Ci k j * z j s)).
      intros j Hj. apply is_derive_scal. apply Hz; assumption. }
    assert (Hu0 : forall k t, (k < n)%nat -> u k t = 0).
    { intros k t Hk.
      pose (v := fun s => exp (lam k * s) * u k s).
      assert (Hv : forall s, is_derive v s 0).
      { intros s. unfold v.
        assert (He : is_derive (fun s => exp (lam k * s)) s (lam k * exp (lam k * s))).
        { auto_derive; [exact I|]. ring. }
        pose proof (is_derive_mult (K := R_AbsRing) _ _ s _ _ He (Hu k s Hk) Rmult_comm) as Hm.
        replace 0 with (plus (mult (lam k * exp (lam k * s)) (u k s))
                             (mult (exp (lam k * s)) (- lam k * u k s))).
        - exact Hm.
        - unfold plus, mult; simpl. ring. }
      pose proof (zero_derive_const v t Hv) as Hc. unfold v in Hc.
      assert (H0 : u k 0 = 0).
      { unfold u, w. apply sumn_zero; intros j Hj. rewrite Hz0 by assumption. ring. }
      rewrite H0, Rmult_0_r in Hc.
      apply Rmult_integral in Hc. destruct Hc as [Hc|Hc]; [|exact Hc].
      pose proof (exp_pos (lam k * t)). lra. }
    intros i t Hi.
    assert (Hzi : z i t = 0).
    { rewrite <- (C_W (fun j => z j t) i Hi). apply sumn_zero; intros k Hk.
      change (W (fun j => z j t) k) with (u k t). rewrite Hu0 by assumption. ring. }
    unfold z in Hzi. lra.
  Qed.
End Bateman.

Print Assumptions closed_form_solves_ode.
Print Assumptions atom_balance.
Print Assumptions ode_solution_unique.
