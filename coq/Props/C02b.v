(* C02 (second part) - what the finite working precision of the high-precision class can do, for ALL inputs.
   InventoryHP multiplies the exact rational matrices with exponentials evaluated to sig_fig = 320 digits; SymPy then carries
   320-digit floating-point numbers, i.e. every product and sum is rounded to that precision (unbounded exponent range: no
   underflow).  This is the abstract rounded evaluation of Model/Rounding.v with a unit round-off u of about 2^-1063 and
   underflow term 0, for whatever accumulation order SymPy uses.  Result: the value before the final conversion to double is
   within (gamma_m(u) + ue) K_exact x (initial atoms) of the exact solution - an ABSOLUTE bound - so the returned double has
   relative error u64 as long as the amount is not smaller than about 1e-296 of the initial atoms, and loses relative
   accuracy below that (this is known finding F10, here as a theorem). *)
From Coq Require Import Reals ZArith NArith List Bool Arith.
From Flocq Require Import Core.Core.
From RD Require Import Base Lib.CertQ Model.DecayR Model.Dataset Model.Default Model.Rounding Model.Rounding64 Model.ExactCond.
From RD Require Proofs.CertDefault.ExactCondCert Proofs.HpEvalP.
Import ListNotations.
Local Open Scope R_scope.

Theorem hp_eval_error : forall d K, wf_core d = true -> chk_exact_cond d K = true ->
  forall rnd u, std_model rnd u 0 ->
  forall (E n0 : nat -> R) ks js i t ue L L',
  (i < nn d)%nat -> 0 <= t -> 0 <= ue ->
  (forall j, 0 <= n0 j) ->
  (forall k, (k < nn d)%nat -> 0 <= E k <= 1) ->
  (forall k, (k < nn d)%nat -> Rabs (E k - exp (- lam (mur d) k * t)) <= ue) ->
  orders_ok rnd (nn d) (Cr d) (Cir d) E n0 ks js i ->
  (forall j, (j < nn d)%nat -> (length (ks i j) <= L)%nat) -> (length (js i) <= L')%nat ->
  Rabs (yhat rnd (Cr d) (Cir d) E n0 ks js i - Nt (nn d) (Cr d) (Cir d) (mur d) n0 t i)
  <= (gam u (L + L' + 3) + ue) * bqv K * sumn (nn d) n0.
Proof. exact Proofs.HpEvalP.hp_eval_error. Qed.

(* with the final conversion of the result to a double *)
Theorem hp_readout_error : forall d K, wf_core d = true -> chk_exact_cond d K = true ->
  forall rnd u, std_model rnd u 0 ->
  forall (E n0 : nat -> R) ks js i t ue L L',
  (i < nn d)%nat -> 0 <= t -> 0 <= ue ->
  (forall j, 0 <= n0 j) ->
  (forall k, (k < nn d)%nat -> 0 <= E k <= 1) ->
  (forall k, (k < nn d)%nat -> Rabs (E k - exp (- lam (mur d) k * t)) <= ue) ->
  orders_ok rnd (nn d) (Cr d) (Cir d) E n0 ks js i ->
  (forall j, (j < nn d)%nat -> (length (ks i j) <= L)%nat) -> (length (js i) <= L')%nat ->
  Rabs (rnd64 (yhat rnd (Cr d) (Cir d) E n0 ks js i) - Nt (nn d) (Cr d) (Cir d) (mur d) n0 t i)
  <= u64 * Rabs (Nt (nn d) (Cr d) (Cir d) (mur d) n0 t i)
     + (1 + u64) * ((gam u (L + L' + 3) + ue) * bqv K * sumn (nn d) n0) + eta64.
Proof. exact Proofs.HpEvalP.hp_readout_error. Qed.

(* the shipped data set with 320 digits: u <= 2^-1060, exponentials within 2^-1040, any accumulation orders *)
Theorem default_hp_readout_error :
  forall rnd u, std_model rnd u 0 -> u <= bpow radix2 (-1060) ->
  forall (E n0 : nat -> R) ks js i t,
  (i < nn Default)%nat -> 0 <= t ->
  (forall j, 0 <= n0 j) ->
  (forall k, (k < nn Default)%nat -> 0 <= E k <= 1) ->
  (forall k, (k < nn Default)%nat -> Rabs (E k - exp (- lam (mur Default) k * t)) <= bpow radix2 (-1040)) ->
  orders_ok rnd (nn Default) (Cr Default) (Cir Default) E n0 ks js i ->
  (forall j, (j < nn Default)%nat -> (length (ks i j) <= nn Default)%nat) -> (length (js i) <= nn Default)%nat ->
  Rabs (rnd64 (yhat rnd (Cr Default) (Cir Default) E n0 ks js i)
        - Nt (nn Default) (Cr Default) (Cir Default) (mur Default) n0 t i)
  <= u64 * Rabs (Nt (nn Default) (Cr Default) (Cir Default) (mur Default) n0 t i)
     + bpow radix2 (-1030) * sumn (nn Default) n0 + eta64.
Proof. exact Proofs.HpEvalP.default_hp_readout_error. Qed.
