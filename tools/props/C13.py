"""C13 - time series and plotted curves are pointwise decay results."""
import random
import common as C
import corr_series as S

PID = "C13"
PROPS_MODULE = "Props.C13"
THEOREMS = ["series_dispatch_correct", "plot_dispatch_correct", "csv_dispatch_correct", "plot_labels", "tables_same_keys",
            "linspace_endpoints"]
EXTRA_PROPS = {"Props.C13b": ["series_column_values", "series_column_order", "time_series_pointwise", "time_series_example", "series_misaligned_without_it", "plot_curves_pointwise", "plot_curves_defined", "plot_curves_example",
                              "dataset_order_spec", "dataset_order_keyerror", "plot_display_all_spec", "dataset_order_example", "order_literals"],
               "Props.C13c": ["decayed_nuclides_time_independent"]}
REQUIRED = ["Props/C13.v", "Props/C13b.v", "Props/C13c.v", "Model/Series.v", "Model/SeriesAsm.v"]
TRANSLATORS = ["tr_pure", "tr_tables"]
SHAPE_KEYS = ["decay_time_series", "sort_list_according_to_dataset", "AbstractInventory::plot", "InventoryHP::plot", "decay_graph", "Inventory::decay", "InventoryHP::decay"]
PARTIAL = ["the assembly of the series table from separate decays is PROVED pointwise for every list of times and every read-out (Props/C13b.v, model tied by "
           "source text + the `assemble` evaluation inside Coq per case); that data_map really is the separate decays (map(self.decay, ...)), the grids for log scale, "
           "curve selection and limits are decided on the implementation (bit-identical comparison for all 47 read-out kinds x {linear, log}); "
           "the proof also covers the unit dispatch for every string, the y-labels and the linear grid model",
           "numpy.logspace: the exponents are checked bit-exactly against the linear-grid model, the power within 2 ulp (libm pow); matplotlib rendering below Axes.plot is outside the model"]
TRUSTED_BASE = ["Coq 8.16.1 kernel incl. vm_compute", "axioms: none for the dispatch / assembly / curve / order theorems (primitive float items for the grid model); the standard Reals axioms for decayed_nuclides_time_independent (statement over the real-valued decay model)",
                "tr_pure.py dispatch-chain extractor; tr_shapes.py ties", "harness tools/impl_series.py (decay_graph wrapped to record its arguments; drawn lines read back from the matplotlib axes)"]
ASSUMPTIONS = ["numpy.linspace computes i*step+start with the last point set to stop (checked bit-exactly per case)"]


def correspondence(ctx):
    rng = random.Random(ctx["seed"] + 13)
    streams, viol, samples = {}, [], []
    S.series_stream(rng, ctx["tier"] == "thorough", streams, viol, samples)
    return {"streams": streams, "violations": viol, "samples": samples}


def search_broken(ctx):
    return []


def replay(payload):
    import corr_units as U
    c = payload.get("input")
    if not isinstance(c, dict):
        return {"fails": True, "note": "nothing to replay"}
    r = U.run_impl("impl_series.py", [c])[0]
    return {"fails": "err" in r or r.get("data") != r.get("ref"), "observed": {k: r.get(k) for k in ("err", "cols", "times")}}
