"""C11 - calculations are pure and independent of process history."""
import random
import common as C
import corr_history as H

PID = "C11"
PROPS_MODULE = "Props.C11"
THEOREMS = ["pure_sound", "atomic_sound", "all_calculations_pure", "all_mutators_atomic", "setup_returns_fresh", "step_atomic"]
REQUIRED = ["Props/C11.v"]
TRANSLATORS = ["tr_effects", "tr_pure", "tr_data", "tr_tables"]
SHAPE_KEYS = ["inventory.py::", "decaydata.py::DecayMatrices", "decaydata.py::DecayData::__init__", "load_dataset",
              "add_dictionaries", "sort_dictionary_alphabetically"]
PARTIAL = ["bit-for-bit immutability of the Python objects (NumPy arrays, SciPy/SymPy matrices shared by all inventories of a data set) is a "
           "runtime property: the model states purity of the functional state machine and failure atomicity; that the real methods neither write "
           "the shared templates nor their operands is decided by fingerprinting every live object and the data set after every step of random "
           "interleavings, and by the recorded source text of every modelled method (any edit breaks the tie)",
           "the effect summaries (Gen/EffectsGen.v) are extracted from the Python AST by tools/tr_effects.py (trusted translator): branches and loops are flattened, "
           "library calls are taken to return new objects and not to retain or mutate their arguments"]
TRUSTED_BASE = [
    "Coq 8.16.1 kernel",
    "axioms: none for the effect-checker and state-machine theorems",
    "translator tools/tr_effects.py (effect summaries of every method of inventory.py)",
    "tr_shapes.py source-text ties of every method of inventory.py and of the data-set templates",
    "fingerprint harness tools/impl_history.py (array bytes, CSR triplets, srepr of SymPy objects, instance attribute names)",
]
ASSUMPTIONS = ["library calls (NumPy/SciPy/SymPy/pandas/matplotlib) do not mutate their operands except through the observed objects"]


def correspondence(ctx):
    rng = random.Random(ctx["seed"] + 11)
    thorough = ctx["tier"] == "thorough"
    streams, viol, samples = {}, [], []
    H.history_stream(rng, 600 if thorough else 24, 30, streams, viol, samples)
    return {"streams": streams, "violations": viol, "samples": samples}


def search_broken(ctx):
    return []


def replay(payload):
    import corr_units as U
    h = payload.get("history")
    if not h:
        return {"fails": True, "note": "nothing to replay; theorem/correspondence named in the file"}
    r = U.run_impl("impl_history.py", {"histories": [h]})[0]
    return {"fails": bool(r["violations"]), "violations": r["violations"]}
