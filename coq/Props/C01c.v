(* C01 (third part) - the primitive-float model of SciPy's evaluation (Model/FloatDecay.v, tied to the implementation
   bit for bit) IS an instance of the abstract rounded evaluation of Model/Rounding.v with the binary64 rounding
   operator, whenever its result is finite and the observed accumulation orders pass [orders_okb]. *)
From Coq Require Import Reals ZArith NArith List Bool Arith.
From Coq Require Import PrimFloat.
From Bignums Require Import BigQ.
From RD Require Import Base Lib.CertQ Model.DecayR Model.Rounding Model.Rounding64 Model.FloatDecay Model.FloatData.
From RD Require Proofs.Rounding64P.
Import ListNotations.
Local Open Scope R_scope.

(* binary64 round-to-nearest-even satisfies the standard model with u = 2^-53 and underflow term 2^-1075 *)
Theorem rnd64_std_model : std_model rnd64 u64 eta64.
Proof. exact Proofs.Rounding64P.rnd64_std_model. Qed.

(* a finite primitive product / sum is the rounded exact product / sum of the operands' values, and its operands are finite *)
Theorem pf_mul_finite : forall x y : float, ffin (x * y)%float = true ->
  fval (x * y)%float = rnd64 (fval x * fval y) /\ ffin x = true /\ ffin y = true.
Proof. exact Proofs.Rounding64P.pf_mul_finite. Qed.
Theorem pf_add_finite : forall x y : float, ffin (x + y)%float = true ->
  fval (x + y)%float = rnd64 (fval x + fval y) /\ ffin x = true /\ ffin y = true.
Proof. exact Proofs.Rounding64P.pf_add_finite. Qed.

(* the exact rational the certificates use for a stored float is the float's value *)
Theorem bq_of_float_value : forall f : float, ffinite f = true -> bqv (bq_of_float f) = fval f.
Proof. exact Proofs.Rounding64P.bq_of_float_value. Qed.

(* the refinement: float model = rounded-real model at binary64, with the side conditions of the error theorem *)
Theorem pf_yhat_refines : forall (cf cif : list frow) (e n0 : frow) (i : N) (ce mo : list N),
  orders_okb cf cif e n0 i ce mo = true ->
  all_finite cf = true -> all_finite cif = true ->
  ffin (pf_yhat cf cif e n0 i ce mo) = true ->
  let n := length cf in
  let Cff := fun a b : nat => fval (fget (frow_of cf (N.of_nat a)) (N.of_nat b)) in
  let Ciff := fun a b : nat => fval (fget (frow_of cif (N.of_nat a)) (N.of_nat b)) in
  let Ef := fun k : nat => fval (fget e (N.of_nat k)) in
  let n0f := fun j : nat => fval (fget n0 (N.of_nat j)) in
  let ks := fun (_ j : nat) => map N.to_nat (pf_ks cif ce (N.of_nat j)) in
  let js := fun _ : nat => map N.to_nat mo in
  let ii := N.to_nat i in
  fval (pf_yhat cf cif e n0 i ce mo) = yhat rnd64 Cff Ciff Ef n0f ks js ii /\
  orders_ok rnd64 n Cff Ciff Ef n0f ks js ii /\
  (forall k, (k < n)%nat -> 0 <= Ef k <= 1) /\
  (forall j, (j < n)%nat -> (length (ks ii j) <= length (frow_of cf i))%nat) /\
  (length (js ii) <= length (nodup N.eq_dec (flat_map (fun k => fcols (frow_of cif k)) (fcols (frow_of cf i)))))%nat.
Proof. exact Proofs.Rounding64P.pf_yhat_refines. Qed.
