"""Operation-sequence correspondence (C08, also used by C11/C17): the state machine of
coq/Model/Inventory.v (evaluated in Coq: PrimFloat for Inventory, exact BigQ for InventoryHP) vs the
implementation, compared after every step."""
import json
import random
from fractions import Fraction

import common as C
import coqcases as Q
import corr_nuclide as N
import corr_units as U

PRE = ("From Coq Require Import ZArith NArith List PrimFloat.\nImport ListNotations.\n"
       "From Bignums Require Import BigQ.\n"
       "From RD Require Import Base Lib.Py Model.Dataset Model.Default Model.Units Model.UnitsCheck Model.Inventory Model.InvCheck.\n"
       "Definition lam := Eval vm_compute in default_lam Default.\n")

DOC_EXC = {None, "ValueError", "NuclideStrError"}


def spelling(rng, name):
    el, rest = name.split("-")
    a = "".join(c for c in rest if c.isdigit())
    st = rest[len(a):]
    r = rng.random()
    if r < 0.25:
        return {"s": name}
    if r < 0.65:
        return {"s": rng.choice(N.spell_forms(el, int(a), st))}
    if r < 0.85:
        return {"i": N.expected_id(el, int(a), st)}
    return {"n": name}


def gen_amount(rng, hp, allow_bad=True):
    r = rng.random()
    if allow_bad and r < 0.04:
        return {"bad": rng.choice(["nan", "neg", "str", "none", "complex"])}
    if hp:
        if r < 0.5:
            return {"q": [rng.randint(0, 2000), rng.choice([1, 2, 3, 4, 5, 7, 8, 10, 16, 100, 125, 1000])]}
        return {"i": rng.randint(0, 10 ** rng.randint(0, 12))}
    if r < 0.15:
        return {"i": rng.randint(0, 1000)}
    if r < 0.3:
        return {"np": float(10 ** rng.uniform(-20, 25)).hex()}
    return {"f": float(10 ** rng.uniform(-25, 30) if rng.random() < 0.9 else rng.choice([0.0, 1.0, 2.5])).hex()}


def gen_history(rng, names, stable, hp, maxops=12):
    pool = rng.sample(names, rng.randint(2, 6))
    units_f = ["num"] * 3 + U.MASS + U.MOL + U.ACT
    units_q = ["num", "num", "mol", "mmol", "kmol", "g", "kg", "mg"]

    def raw(n):
        ks = rng.sample(pool, min(n, len(pool)))
        dup = rng.random() < 0.12 and ks
        if dup:
            ks.append(ks[0])       # the same nuclide twice (two spellings)
        out, seen = [], set()
        for pos, k in enumerate(ks):
            forced = None
            if dup and k == ks[0]:      # one of the two is the Nuclide object or the canonical string, the other something else
                el, rest = k.split("-"); a_ = "".join(ch for ch in rest if ch.isdigit()); st_ = rest[len(a_):]
                pair = rng.choice([({"n": k}, {"s": k}), ({"s": k}, {"n": k}), ({"n": k}, {"i": N.expected_id(el, int(a_), st_)}),
                                   ({"s": k}, {"s": rng.choice(N.spell_forms(el, int(a_), st_))}), ({"n": k}, {"s": rng.choice(N.spell_forms(el, int(a_), st_))})])
                forced = pair[0] if pos == 0 else pair[1]
            canon = k
            key = forced if forced is not None else spelling(rng, k) if rng.random() < 0.95 else rng.choice([{"o": "float"}, {"o": "none"}, {"s": "Xx-1"}, {"s": "99"}, {"i": 862220010}])
            ident = json.dumps(key, sort_keys=True)      # Python dict keys: equal objects collapse before the library sees them
            if ident in seen:
                continue
            seen.add(ident)
            if set(key) & {"s", "i", "n"} and key.get("s") not in ("Xx-1", "99") and key.get("i") != 862220010:
                key = dict(key, c=canon)          # the nuclide this key denotes (for the predicate only; the library never sees it)
            out.append([key, gen_amount(rng, hp)])
        return out

    def unit(keys):
        if hp:
            return rng.choice(units_q)
        u = rng.choice(units_f)
        return u if rng.random() < 0.97 else rng.choice(["", "bq", "Kg", "sec", "readable"])
    h = {"cls": "InventoryHP" if hp else "Inventory", "raw": raw(rng.randint(1, 4)), "units": unit(None), "ops": []}
    for _ in range(rng.randint(1, maxops)):
        r = rng.random()
        if r < 0.25:
            h["ops"].append([rng.choice(["add", "plus"]), raw(rng.randint(1, 3)), unit(None)])
        elif r < 0.45:
            h["ops"].append([rng.choice(["subtract", "minus"]), raw(rng.randint(1, 2)), unit(None)])
        elif r < 0.6:
            ident = rng.random() < 0.2       # the identity scalar in its different types: the result must still be a new inventory
            h["ops"].append(["mul", rng.choice([{"i": 1}, {"q": [1, 1]}] if hp else [{"i": 1}, {"f": float(1).hex()}, {"np": float(1).hex()}]) if ident
                             else gen_amount(rng, hp, allow_bad=False)])
        elif r < 0.7:
            a = gen_amount(rng, hp, allow_bad=False)
            if a.get("i") == 0 or a.get("q", [1])[0] == 0 or a.get("f") == float(0).hex():
                a = {"i": 3}
            h["ops"].append(["div", a])
        elif r < 0.9:
            k = spelling(rng, rng.choice(pool)) if rng.random() < 0.9 else rng.choice([{"o": "float"}, {"o": "tuple"}, {"s": "Zz-9"}])
            h["ops"].append(["remove", k])
        else:
            h["ops"].append(["remove_list", [spelling(rng, rng.choice(pool)) for _ in range(rng.randint(0, 3))]])
    return h


# ---------------------------------------------------------------- Coq encoding
def c_key(k):
    if "s" in k:
        return f"(VStr {Q.cstr(k['s'])})"
    if "i" in k:
        return f"(VInt ({k['i']})%Z)"
    if "n" in k:
        return f"(VStr {Q.cstr(k['n'])})"
    return "VOther"


def c_amount(a, hp):
    """-> Coq term or None if not representable in the number domain"""
    if hp:
        if "q" in a:
            return f"(Qb ({a['q'][0]})%Z {a['q'][1]}%positive)"
        if "i" in a:
            return f"(Qb ({a['i']})%Z 1%positive)"
        if a.get("bad") == "neg":
            return "(Qb (-1)%Z 1%positive)"
        return None
    if "f" in a:
        return Q.fhex(float.fromhex(a["f"]))
    if "np" in a:
        return Q.fhex(float.fromhex(a["np"]))
    if "i" in a:
        return Q.fhex(float(a["i"]))
    if "bad" in a:
        return {"nan": "nan", "neg": "(-0x1p+0)%float"}.get(a["bad"])
    return None


def c_raw(raw, hp):
    parts = []
    for k, a in raw:
        t = c_amount(a, hp)
        if t is None:
            return None
        parts.append(f"({c_key(k)}, {t})")
    return "[" + "; ".join(parts) + "]"


def c_value(v, tag, hp):
    if hp:
        if tag != "Rational":
            return None
        p, q = v.split("/")
        return f"(Qb ({p})%Z {q}%positive)"
    return Q.fhex(float.fromhex(v))


def c_contents(cont, hp):
    parts = []
    for n, v, tag in cont:
        t = c_value(v, tag, hp)
        if t is None:
            return None
        parts.append(f"({Q.cstr(n)}, {t})")
    return "[" + "; ".join(parts) + "]"


EXC_CODE = {None: 0, "ValueError": 1, "NuclideStrError": 1, "TypeError": 2, "NotImplementedError": 3, "IndexError": 4, "KeyError": 5}


def encode(h, rec):
    """-> Coq term for the history, or None if some value is outside the model's number domain"""
    hp = h["cls"] == "InventoryHP"
    raw = c_raw(h["raw"], hp)
    if raw is None:
        return None
    init = rec["init"]
    if init.get("exc"):
        code = EXC_CODE.get(init["exc"], 9)
        return (f"({'QH' if hp else 'FH'} {raw} {Q.cstr(h['units'])} {code}%N [] [])")
    ic = c_contents(init["contents"], hp)
    if ic is None:
        return None
    steps = []
    for op, ob in zip(h["ops"], rec["steps"]):
        if op[0] in ("add", "plus", "subtract", "minus"):
            r = c_raw(op[1], hp)
            if r is None:
                break
            o = f"({'OAdd' if op[0] in ('add', 'plus') else 'OSubtract'} {r} {Q.cstr(op[2])})"
        elif op[0] in ("mul", "div"):
            t = c_amount(op[1], hp)
            if t is None:
                break
            o = f"({'OMul' if op[0] == 'mul' else 'ODiv'} {t})"
        elif op[0] == "remove":
            o = f"(ORemove {c_key(op[1])})"
        else:
            o = "(ORemoveList [" + "; ".join(c_key(k) for k in op[1]) + "])"
        cc = c_contents(ob["contents"], hp)
        if cc is None or ob["exc"] == "OPERAND-MUTATED":
            break
        steps.append(f"({o}, ({EXC_CODE.get(ob['exc'], 9)}%N, {cc}))")
    return f"({'QH' if hp else 'FH'} {raw} {Q.cstr(h['units'])} 0%N {ic} [" + "; ".join(steps) + "])"


def has_nonmodel_amount(raw, hp):
    return any(c_amount(a, hp) is None for _, a in raw)


def predicate(h, rec):
    """the property's own requirements evaluated on the implementation's observations -> list of reasons"""
    bad = []
    hp = h["cls"] == "InventoryHP"

    def exact_inputs(upto):
        srcs = [h["raw"]] + [op[1] for op in h["ops"][:upto] if op[0] in ("add", "subtract", "plus", "minus")]
        scal = [op[1] for op in h["ops"][:upto] if op[0] in ("mul", "div")]
        return all("q" in a or "i" in a for s in srcs for _, a in s) and all("q" in a or "i" in a for a in scal)
    init = rec["init"]
    if init.get("exc"):
        if init["exc"] not in ("ValueError", "NuclideStrError", "TypeError"):
            bad.append(f"constructor escaped with {init['exc']}")
        if init["exc"] == "TypeError" and not any("o" in k for k, _ in h["raw"]):
            bad.append("constructor raised TypeError for string/int/Nuclide keys")
        return bad
    obs = [init] + rec["steps"]

    def val(a):
        from fractions import Fraction
        if "i" in a: return Fraction(a["i"])
        if "q" in a: return Fraction(int(a["q"][0]), int(a["q"][1]))
        if "f" in a:
            x = float.fromhex(a["f"])
            return Fraction(x) if x == x and abs(x) != float("inf") else None
        return None

    def stored(ob, name):
        from fractions import Fraction
        for c in ob["contents"]:
            if c[0] == name:
                try:
                    return Fraction(c[1]) if "/" in str(c[1]) or str(c[1]).lstrip("-").isdigit() else Fraction(float.fromhex(c[1])) if str(c[1]).startswith(("0x", "-0x")) else Fraction(float(c[1]))
                except Exception:
                    return None
        return Fraction(0)
    # no supplied amount is silently discarded: one nuclide under two spellings in one input is refused, or both amounts count
    srcs = [(0, "constructor", h["raw"], h["units"], +1)] + [(j + 1, op[0], op[1], op[2], -1 if op[0] == "subtract" else +1)
                                                             for j, op in enumerate(h["ops"]) if op[0] in ("add", "subtract")]
    for pos, what, raw_, unit_, sign in srcs:
        if pos >= len(obs) or obs[pos].get("exc") is not None:
            continue
        cn = [k.get("c") for k, _ in raw_]
        if None in cn or len(set(cn)) == len(cn):
            continue
        dupname = next(x for x in cn if cn.count(x) > 1)
        amts = [val(a) for k, a in raw_ if k.get("c") == dupname]
        ok = False
        if unit_ == "num" and None not in amts:
            before = stored(obs[pos - 1], dupname) if pos > 0 else 0
            after = stored(obs[pos], dupname)
            if before is not None and after is not None:
                want = before + sign * sum(amts)
                ok = abs(after - want) <= abs(want) / 10**12
        if not ok:
            bad.append(f"{what}: {dupname} was supplied twice (two spellings) and accepted, but the two amounts are not both accounted for")
    for st in rec.get("alias", []):
        bad.append(f"step {st} {h['ops'][st - 1][0]}: an operand of the operator was changed by later operations on its result (the operator did not return a new inventory)")
    # the nuclides after add / subtract / + / - are the union of both sides (an amount of zero is still an entry); * and / keep them
    for i in range(1, len(obs)):
        op = h["ops"][i - 1]
        if obs[i].get("exc") is not None:
            continue
        prev = [c[0] for c in obs[i - 1]["contents"]]
        now = [c[0] for c in obs[i]["contents"]]
        if op[0] in ("add", "subtract", "plus", "minus"):
            cn = [k.get("c") for k, _ in op[1]]
            if None in cn:
                continue
            if set(now) != set(prev) | set(cn):
                bad.append(f"step {i} {op[0]}: nuclides {now} are not the union of {prev} and {sorted(set(cn))}")
        elif op[0] in ("mul", "div") and now != prev:
            bad.append(f"step {i} {op[0]}: scaling changed the nuclides")
    for i, ob in enumerate(obs):
        where = "constructor" if i == 0 else f"step {i} {h['ops'][i - 1][0]}"
        if ob["cls"] != h["cls"]:
            bad.append(f"{where}: class became {ob['cls']}")
        if not ob["ds_same"]:
            bad.append(f"{where}: bound to another data set")
        keys = [c[0] for c in ob["contents"]]
        if keys != sorted(keys) or len(set(keys)) != len(keys):
            bad.append(f"{where}: nuclides not in alphabetical order")
        if ob["exc"] == "OPERAND-MUTATED":
            bad.append(f"{where}: the right-hand operand was modified")
        elif ob["exc"] not in (None, "ValueError", "NuclideStrError", "TypeError", "NotImplementedError"):
            bad.append(f"{where}: escaped with {ob['exc']}")
        if hp and exact_inputs(i) and h["units"] not in U.ACT:
            inexact = [c for c in ob["contents"] if c[2] in ("Float", "float", "float64", "float32")]
            if inexact:
                bad.append(f"{where}: a high-precision amount is no longer exact ({inexact[0]})")
    return bad


def irrational_mass_names(names):
    """nuclides whose exact (SymPy) atomic mass in the data set is an algebraic irrational produced by nsimplify"""
    import os
    import pickle_stub as ps
    p = os.path.join(C.REPO, "radioactivedecay/icrp107_ame2020_nubase2020/atomic_masses_sympy_1.9.pickle")
    asts = ps.load_vector(p)
    return {names[i] for i, a in enumerate(asts) if ps.as_fraction(a) is None}


def ops_stream(rng, nfloat, nhp, streams, viol, samples, tag="ops"):
    names, stable = U.dataset_names()
    rational_mass_ok = [n for n in names if n not in irrational_mass_names(names)]
    hs = [gen_history(rng, names, stable, False) for _ in range(nfloat)]
    hs += [gen_history(rng, rational_mass_ok, stable, True, maxops=6) for _ in range(nhp)]
    impl = U.run_impl("impl_ops.py", hs, timeout=3000)
    fterms, qterms, fidx, qidx, bad_prop = [], [], [], [], []
    opcount = {}
    for i, (h, rec) in enumerate(zip(hs, impl)):
        for op in h["ops"]:
            opcount[op[0]] = opcount.get(op[0], 0) + 1
        for why in predicate(h, rec):
            bad_prop.append((i, why))
        t = encode(h, rec)
        if t is None:
            continue
        if h["cls"] == "InventoryHP":
            qterms.append(t); qidx.append(i)
        else:
            fterms.append(t); fidx.append(i)
    badf, errf = Q.run_cases(tag + "_f", PRE, "fhist", fterms, "check_fhist Default lam", shard=40)
    badq, errq = Q.run_cases(tag + "_q", PRE, "qhist", qterms, "check_qhist Default", shard=25)
    errs = sum(1 for r in impl if r["init"].get("exc")) + sum(1 for r in impl for s in r["steps"] if s["exc"])
    streams[tag] = {"cases": len(hs), "float_histories_in_coq": len(fterms), "hp_histories_in_coq": len(qterms),
                    "model_disagrees": len(badf) + len(badq), "impl_property_failures": len(bad_prop),
                    "coq_errors": len(errf) + len(errq), "operations": opcount, "steps_raising": errs,
                    "what": "random construct/add/subtract/+/-/*//remove sequences (<=12 ops), every unit kind, all spellings, ids, "
                            "Nuclide objects, invalid keys/amounts/units; contents compared after every step (float bits; exact rationals and their type)"}
    seen = set()
    for i, why in bad_prop:
        key = why.split(":")[-1].strip()[:60]
        if key in seen:
            continue
        seen.add(key)
        if len(seen) > 6:
            break
        viol.append({"name": f"{tag}-{len(viol)}", "found_input": True, "key": f"ops:{hs[i]['cls']}:{key}",
                     "payload": {"fails": why, "history": hs[i], "observed": impl[i], "entry": "Inventory/InventoryHP operations"}})
    for j in badf[:2]:
        viol.append({"name": f"{tag}-model-f{j}", "found_input": False, "key": f"ops-model-f:{j}",
                     "payload": {"broken": "state-machine model (float) and implementation disagree", "history": hs[fidx[j]], "observed": impl[fidx[j]]}})
    for j in badq[:2]:
        viol.append({"name": f"{tag}-model-q{j}", "found_input": False, "key": f"ops-model-q:{j}",
                     "payload": {"broken": "state-machine model (exact) and implementation disagree", "history": hs[qidx[j]], "observed": impl[qidx[j]]}})
    if errf or errq:
        viol.append({"name": f"{tag}-coq", "found_input": False, "key": "ops-coq",
                     "payload": {"broken": "model evaluation failed in Coq", "errors": (errf + errq)[:2]}})
    samples.append({"history": hs[0], "observed": impl[0]})
    return hs, impl
