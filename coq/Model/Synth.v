(* The synthetic data set written by tools/synth_dataset.py (24 nuclides: states m n p q r x, every half-life unit,
   a 365.25-day year, branches not summing to one, spontaneous fission), translated by tools/tr_data.py --module Synth. *)
From RD Require Import Base Model.Dataset.
From RD.Gen.Synth Require Names Meta CF CIF S18 S19 C18 C19 CI18 CI19.

Definition Synth : dataset :=
  DS Names.names Meta.hldata Meta.progeny Meta.bfs Meta.modes Meta.masses_f Meta.year_f Meta.year_dec
     CF.cf_rows CIF.cif_rows S19.mu S19.masses_e S19.year_e C19.c_rows CI19.ci_rows.
