From Coq Require Import List.
From RD Require Import Base Lib.CertQ Model.Dataset Model.Default Model.FloatData Model.Units Model.UnitsCheck.
Definition default_lam_val : list PrimFloat.float := Eval vm_compute in default_lam Default.
Definition B_bound : qlit := QL 2 1000000000000.           (* 2e-12 *)
Definition K_bound : qlit := QL 533 1.
Definition c_bound : qlit := QL 1 1000000000000000.        (* 1e-15 *)
Lemma default_float_matrices : chk_float_data Default (bq_of B_bound) (bq_of K_bound) = true.
Proof. vm_cast_no_check (eq_refl true). Qed.
Lemma default_lambda_close : chk_lambda_close Default default_lam_val c_bound = true.
Proof. vm_cast_no_check (eq_refl true). Qed.
Lemma default_masses_year_close : chk_masses_close Default c_bound = true /\ chk_year_close Default c_bound = true.
Proof. split; vm_cast_no_check (eq_refl true). Qed.
