(* C04: how far the double-precision matrices are from the exact ones, as an exact kernel computation.
   B_data  = max over (i,j) of  sum_k | Cf_ik * Cf^-1_kj  -  C_ik * C^-1_kj |
   K_cond  = max over (i,j) of  sum_k | Cf_ik * Cf^-1_kj |
   with every float converted to its exact rational value.  Definitions only. *)
From Coq Require Import Reals ZArith NArith QArith List Bool.
From Coq Require Import PrimFloat FloatOps SpecFloat.
From Bignums Require Import BigQ.
From RD Require Import Base Model.DecayR Lib.Sparse Lib.CertQ Model.Dataset.
Import ListNotations.

(* exact value of a finite binary64 as a BigQ *)
Definition bq_of_float (f : float) : bq :=
  match Prim2SF f with
  | S754_finite s m e =>
      let mz := if s then Zneg m else Zpos m in
      match e with
      | Z0 => BigQ.of_Q (inject_Z mz)
      | Zpos p => BigQ.of_Q (inject_Z (mz * Z.pow_pos 2 p))
      | Zneg p => BigQ.of_Q (Qmake mz (Pos.pow 2 p))
      end
  | _ => BigQ.zero          (* zeros; infinities / NaN are excluded by [all_finite] *)
  end.
Definition float_finite (f : float) : bool :=
  match Prim2SF f with S754_finite _ _ _ | S754_zero _ => true | _ => false end.
Definition to_bq_frow (r : frow) : row bq := map (fun kx => (fst kx, bq_of_float (snd kx))) r.
Definition to_bq_fmat (m : list frow) : mat bq := map to_bq_frow m.
Definition all_finite (m : list frow) : bool := forallb (forallb (fun kx => float_finite (snd kx))) m.

Definition bq_abs (x : bq) : bq := match BigQ.compare x BigQ.zero with Lt => BigQ.opp x | _ => x end.
Definition bq_max (x y : bq) : bq := match BigQ.compare x y with Lt => y | _ => x end.
Definition bq_leb (x y : bq) : bool := match BigQ.compare x y with Gt => false | _ => true end.

(* unmerged list of (j, |a_ik*ainv_kj - b_ik*binv_kj|) for row i, k over the union of the stored columns of
   the two rows (A and B, and their inverses, are given row-wise) *)
Section RowDiff.
  Variables (Ainv Binv : mat bq).
  Definition merged_cols (r1 r2 : row bq) : list N := nodup N.eq_dec (cols bq r1 ++ cols bq r2).
  Definition term_list (ra rb : row bq) : list (N * bq) :=
    flat_map (fun k =>
      let a := bget ra k in let b := bget rb k in
      let rai := mrow bq Ainv (N.to_nat k) in let rbi := mrow bq Binv (N.to_nat k) in
      map (fun j => (j, bq_abs (BigQ.sub (BigQ.mul a (bget rai j)) (BigQ.mul b (bget rbi j)))))
          (merged_cols rai rbi)) (merged_cols ra rb).
  (* sum per column j, then the maximum *)
  Definition col_sums (l : list (N * bq)) : list bq :=
    map (fun j => bget l j) (nodup N.eq_dec (map fst l)).
  Definition row_max (ra rb : row bq) : bq := fold_left bq_max (col_sums (term_list ra rb)) BigQ.zero.
End RowDiff.

Section WithDataset.
  Variable d : dataset.
  Definition Cfq : mat bq := to_bq_fmat (ds_cf d).
  Definition Cifq : mat bq := to_bq_fmat (ds_cif d).
  Definition zero_mat : mat bq := [].
  Definition B_data : bq :=
    let A := Cfq in let Ai := Cifq in let B := Cq d in let Bi := Ciq d in
    fold_left bq_max (map (fun ab => row_max Ai Bi (fst ab) (snd ab)) (combine A B)) BigQ.zero.
  Definition K_cond : bq :=
    let A := Cfq in let Ai := Cifq in
    fold_left bq_max (map (fun a => row_max Ai zero_mat a []) A) BigQ.zero.
  Definition chk_float_data (bound_B bound_K : bq) : bool :=
    all_finite (ds_cf d) && all_finite (ds_cif d) &&
    mat_in_range bq (nN d) Cfq && mat_in_range bq (nN d) Cifq &&
    bq_leb B_data bound_B && bq_leb K_cond bound_K.

  (* real-valued views of the float matrices *)
  Definition Cfr (i j : nat) : R := bent Cfq i j.
  Definition Cifr (i j : nat) : R := bent Cifq i j.
End WithDataset.

(* ---------- decay constants, masses, year length: float vs exact *)
From Interval Require Import Float.Specific_bigint Float.Specific_ops Interval.Float_full Interval.Interval Float.Basic Real.Xreal.
From RD Require Import Model.DecayI.
Section Close.
  Variable d : dataset.
  Variable lamf : list PrimFloat.float.       (* the float decay constants the library computes at load time *)
  Variable c : qlit.                (* relative tolerance *)
  Definition prec300 := F.PtoP 300.
  (* | lamf_k - mu_k ln2 | <= c * mu_k ln2 , decided on intervals *)
  Definition lam_close_at (k : nat) : bool :=
    let mu := nth k (ds_mu d) (QL 0 1) in
    let exact := I.mul prec300 (iq prec300 mu) (iln2 prec300) in
    within prec300 (ifloat prec300 (nth k lamf PrimFloat.zero)) exact (I.mul prec300 (iq prec300 c) exact).
  Definition chk_lambda_close : bool :=
    Nat.eqb (length lamf) (length (ds_mu d)) && forallb lam_close_at (seq 0 (length lamf)).
  (* rational atomic masses: | Mf - M | <= c * M ; the (few) algebraic-irrational ones are listed separately *)
  Definition mass_close (fm : PrimFloat.float) (m : mexpr) : bool :=
    match m with
    | MRat q => bq_leb (bq_abs (BigQ.sub (bq_of_float fm) (bq_of q))) (BigQ.mul (bq_of c) (bq_of q))
    | _ => true
    end.
  Definition chk_masses_close : bool :=
    Nat.eqb (length (ds_masses_f d)) (length (ds_masses_e d)) &&
    forallb (fun fm => mass_close (fst fm) (snd fm)) (combine (ds_masses_f d) (ds_masses_e d)).
  Definition irrational_masses : nat := length (filter (fun m => match m with MRat _ => false | _ => true end) (ds_masses_e d)).
  Definition chk_year_close : bool :=
    bq_leb (bq_abs (BigQ.sub (bq_of_float (ds_year_f d)) (bq_of (ds_year_e d)))) (BigQ.mul (bq_of c) (bq_of (ds_year_e d))).
End Close.
