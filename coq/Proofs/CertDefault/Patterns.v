From RD Require Import Base Model.Dataset Model.Default.
Lemma default_patterns :
  chk_same_patterns Default = true /\ chk_cif_pattern_subset Default = true /\ chk_pattern_closure Default = true /\
  chk_pattern_transitive Default = true.
Proof. repeat split; vm_cast_no_check (eq_refl true). Qed.
