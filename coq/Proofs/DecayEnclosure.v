(* The interval evaluation of Model/DecayI.v encloses the real closed form of Model/DecayR.v:
   every value listed by NtI_all / DcumI_all contains the exact Nt / Dcum of the data set. *)
From Coq Require Import Reals ZArith NArith QArith Qreals List Bool Lia Lra Arith.
From Bignums Require Import BigQ.
From Interval Require Import Float.Specific_bigint Float.Specific_ops Interval.Float_full Interval.Interval
  Float.Basic Real.Xreal.
From RD Require Import Base Model.DecayR Lib.Sparse Lib.CertQ Model.Dataset Model.DecayI.
Import ListNotations.
Local Open Scope R_scope.

(* ---------- the thin zero interval *)
Lemma izero_convert : I.convert izero = Ibnd (Xreal 0) (Xreal 0).
Proof. reflexivity. Qed.

Lemma izero_correct : contains (I.convert izero) (Xreal 0).
Proof. rewrite izero_convert. simpl. lra. Qed.

Lemma izero_only : forall x, contains (I.convert izero) (Xreal x) -> x = 0.
Proof. intros x H. rewrite izero_convert in H. simpl in H. lra. Qed.

(* ---------- rationals *)
Definition qval (q : qlit) : R := Q2R (qn q # qd q).

Lemma Q2R_make : forall n p, Q2R (n # p) = IZR n / IZR (Zpos p).
Proof. intros n p. reflexivity. Qed.

Lemma qval_zero_num : forall q, qn q = 0%Z -> qval q = 0.
Proof. intros q H. unfold qval. rewrite Q2R_make, H. unfold Rdiv. apply Rmult_0_l. Qed.

Lemma qval_zero_inv : forall q, qval q = 0 -> qn q = 0%Z.
Proof.
  intros q H. unfold qval in H. rewrite Q2R_make in H.
  assert (Hd : IZR (Zpos (qd q)) <> 0) by (apply IZR_neq; discriminate).
  apply eq_IZR_R0. unfold Rdiv in H. apply Rmult_integral in H. destruct H as [H|H]; [exact H|].
  exfalso. exact (Rinv_neq_0_compat _ Hd H).
Qed.

Lemma bqv_of_q : forall q, bqv (bq_of q) = qval q.
Proof. intro q. apply bqv_of. Qed.

Lemma ln2_pos : 0 < ln 2.
Proof. pose proof ln_lt_2. lra. Qed.

(* ---------- real sum over the stored entries of a rational row *)
Fixpoint qsum (r : qrow) (g : N -> R) : R :=
  match r with
  | [] => 0
  | kx :: r' => qval (snd kx) * g (fst kx) + qsum r' g
  end.

Lemma qsum_rsum : forall r f,
  qsum r (fun k => f (N.to_nat k)) = rsum bq bqv (to_bq_row r) f.
Proof.
  induction r as [|[k q] r IH]; intro f; [reflexivity|].
  cbn [qsum to_bq_row map rsum fst snd]. rewrite bqv_of_q. f_equal. apply IH.
Qed.

Lemma to_bq_mat_row : forall m i, mrow bq (to_bq_mat m) i = to_bq_row (nth i m []).
Proof. intros m i. unfold mrow, to_bq_mat. change (@nil (N * bq)) with (to_bq_row []). apply map_nth. Qed.

(* dense sum over a row of an in-range matrix = sum over its stored entries *)
Lemma dense_row_sum : forall n (m : list qrow) i f,
  mat_in_range bq n (to_bq_mat m) = true ->
  sumn (N.to_nat n) (fun k => bent (to_bq_mat m) i k * f k) = qsum (nth i m []) (fun k => f (N.to_nat k)).
Proof.
  intros n m i f H. rewrite qsum_rsum, <- to_bq_mat_row. unfold ent.
  apply (sum_row bq BigQ.add BigQ.zero bqv bqv_add bqv_0).
  apply (row_in_range_spec bq n). apply mat_in_range_row. exact H.
Qed.

(* an entry whose column carries no non-zero stored value is zero *)
Lemma bget_no_nonzero : forall (r : qrow) j, ~ In j (row_cols_q r) -> bqv (bget (to_bq_row r) j) = 0.
Proof.
  induction r as [|[k q] r IH]; intros j Hj.
  - cbn. apply bqv_0.
  - cbn [to_bq_row map fst snd]. change (map (fun kx => (fst kx, bq_of (snd kx))) r) with (to_bq_row r).
    unfold row_cols_q in Hj. cbn [filter snd] in Hj.
    change (get bq BigQ.add BigQ.zero ((k, bq_of q) :: to_bq_row r) j)
      with (if N.eqb k j then BigQ.add (bq_of q) (bget (to_bq_row r) j) else bget (to_bq_row r) j).
    destruct (Z.eqb_spec (qn q) 0) as [Ez|Ez]; cbn [negb] in Hj.
    + assert (IHj := IH j Hj).
      destruct (N.eqb k j); [|exact IHj].
      rewrite bqv_add, IHj, bqv_of_q, (qval_zero_num q Ez). lra.
    + cbn [map fst] in Hj.
      destruct (N.eqb_spec k j) as [E|E]; [exfalso; apply Hj; left; exact E|].
      apply IH. intro Hin. apply Hj. right. exact Hin.
Qed.

(* ---------- list helpers *)
Lemma list_eqb_N_eq : forall a b, list_eqb_N a b = true -> a = b.
Proof.
  induction a as [|x a IH]; intros [|y b] H; simpl in H; try discriminate; [reflexivity|].
  apply andb_prop in H. destruct H as [H1 H2]. apply N.eqb_eq in H1. subst y. f_equal. apply IH. exact H2.
Qed.

Lemma all2_nth : forall (A B : Type) (f : A -> B -> bool) (a : list A) (b : list B) da db,
  all2 f a b = true ->
  length a = length b /\ forall m, (m < length a)%nat -> f (nth m a da) (nth m b db) = true.
Proof.
  intros A B f. induction a as [|x a IH]; intros [|y b] da db H; simpl in H; try discriminate.
  - split; [reflexivity|]. intros m Hm. simpl in Hm. lia.
  - apply andb_prop in H. destruct H as [H1 H2]. destruct (IH b da db H2) as [HL Hn].
    split; [simpl; rewrite HL; reflexivity|].
    intros [|m] Hm; [exact H1|]. simpl. apply Hn. simpl in Hm. lia.
Qed.

Section Enclosure.
  Variable prec : F.precision.

  (* ---------- basic enclosures *)
  Lemma iq_correct : forall q, contains (I.convert (iq prec q)) (Xreal (qval q)).
  Proof.
    intro q. unfold iq, qval. rewrite Q2R_make.
    pose proof (I.div_correct prec _ _ _ _ (I.fromZ_correct prec (qn q)) (I.fromZ_correct prec (Zpos (qd q)))) as H.
    unfold Xdiv, Xbind2, Xdiv' in H. rewrite is_zero_false in H; [exact H|].
    apply IZR_neq. discriminate.
  Qed.

  Lemma clampI_correct : forall x v, contains (I.convert x) v -> contains (I.convert (clampI prec x)) v.
  Proof.
    intros x v H. unfold clampI. destruct (I.subset x (small_box prec)) eqn:E; [|exact H].
    exact (I.subset_correct _ _ _ H E).
  Qed.

  Lemma iadd_correct : forall a b x y, contains (I.convert a) (Xreal x) -> contains (I.convert b) (Xreal y) ->
    contains (I.convert (I.add prec a b)) (Xreal (x + y)).
  Proof. intros a b x y Ha Hb. exact (I.add_correct prec _ _ _ _ Ha Hb). Qed.

  Lemma imul_correct : forall a b x y, contains (I.convert a) (Xreal x) -> contains (I.convert b) (Xreal y) ->
    contains (I.convert (I.mul prec a b)) (Xreal (x * y)).
  Proof. intros a b x y Ha Hb. exact (I.mul_correct prec _ _ _ _ Ha Hb). Qed.

  Lemma isub_correct : forall a b x y, contains (I.convert a) (Xreal x) -> contains (I.convert b) (Xreal y) ->
    contains (I.convert (I.sub prec a b)) (Xreal (x - y)).
  Proof. intros a b x y Ha Hb. exact (I.sub_correct prec _ _ _ _ Ha Hb). Qed.

  Lemma idiv_correct : forall a b x y, y <> 0 ->
    contains (I.convert a) (Xreal x) -> contains (I.convert b) (Xreal y) ->
    contains (I.convert (I.div prec a b)) (Xreal (x / y)).
  Proof.
    intros a b x y Hy Ha Hb. pose proof (I.div_correct prec _ _ _ _ Ha Hb) as H.
    unfold Xdiv, Xbind2, Xdiv' in H. rewrite (is_zero_false _ Hy) in H. exact H.
  Qed.

  Lemma iln2_correct : contains (I.convert (iln2 prec)) (Xreal (ln 2)).
  Proof.
    unfold iln2. pose proof (I.ln_correct prec _ _ (I.fromZ_correct prec 2)) as H.
    unfold Xln, Xbind, Xln' in H. rewrite is_positive_true in H; [exact H|lra].
  Qed.

  (* ---------- association lists *)
  Definition haskey (j : N) (l : list (N * I.type)) : bool := existsb (fun jv => N.eqb (fst jv) j) l.

  Lemma lookupI_nokey : forall j l, haskey j l = false -> lookupI j l = izero.
  Proof.
    intros j. induction l as [|[a v] l IH]; intro H; [reflexivity|].
    unfold haskey in H. cbn [existsb fst] in H. apply orb_false_elim in H. destruct H as [H1 H2].
    cbn [lookupI]. rewrite H1. apply IH. exact H2.
  Qed.

  Lemma lookupI_map_in : forall (f : N -> I.type) ks k, In k ks ->
    lookupI k (map (fun a => (a, f a)) ks) = f k.
  Proof.
    intros f. induction ks as [|a ks IH]; intros k Hin; [contradiction|].
    cbn [map lookupI]. destruct (N.eqb_spec a k) as [E|E]; [subst a; reflexivity|].
    apply IH. destruct Hin as [Hin|Hin]; [contradiction|exact Hin].
  Qed.

  Lemma lookupI_map_notin : forall (f : N -> I.type) ks k, ~ In k ks ->
    lookupI k (map (fun a => (a, f a)) ks) = izero.
  Proof.
    intros f. induction ks as [|a ks IH]; intros k Hin; [reflexivity|].
    cbn [map lookupI]. destruct (N.eqb_spec a k) as [E|E]; [exfalso; apply Hin; left; exact E|].
    apply IH. intro H. apply Hin. right. exact H.
  Qed.

  (* ---------- sparse dot product *)
  Lemma dot_correct_acc : forall (f : N -> I.type) (g : N -> R),
    (forall k, contains (I.convert (f k)) (Xreal (g k))) ->
    forall r acc a, contains (I.convert acc) (Xreal a) ->
    contains (I.convert (fold_left (fun acc kx => I.add prec acc (I.mul prec (iq prec (snd kx)) (f (fst kx)))) r acc))
             (Xreal (a + qsum r g)).
  Proof.
    intros f g Hfg. induction r as [|kx r IH]; intros acc a Hacc.
    - cbn [fold_left qsum]. rewrite Rplus_0_r. exact Hacc.
    - cbn [fold_left qsum].
      replace (a + (qval (snd kx) * g (fst kx) + qsum r g)) with ((a + qval (snd kx) * g (fst kx)) + qsum r g) by ring.
      apply IH. apply iadd_correct; [exact Hacc|]. apply imul_correct; [apply iq_correct|apply Hfg].
  Qed.

  Lemma dot_correct : forall (f : N -> I.type) (g : N -> R) r,
    (forall k, contains (I.convert (f k)) (Xreal (g k))) ->
    contains (I.convert (dot prec r f)) (Xreal (qsum r g)).
  Proof.
    intros f g r Hfg. unfold dot. rewrite <- (Rplus_0_l (qsum r g)).
    apply dot_correct_acc; [exact Hfg|apply izero_correct].
  Qed.

  (* ---------- the data set *)
  Variable d : dataset.
  Variable n0I : list (N * I.type).
  Variable tI : I.type.
  Variable n0 : nat -> R.
  Variable t : R.
  Hypothesis Hwf : wf_core d = true.
  Hypothesis Hpat : chk_same_patterns d = true.
  Hypothesis Hn0 : forall j, contains (I.convert (lookupI j n0I)) (Xreal (n0 (N.to_nat j))).
  Hypothesis Ht : contains (I.convert tI) (Xreal t).

  Notation wR := (w (nn d) (Cir d) n0).

  Lemma C_in_range : mat_in_range bq (nN d) (Cq d) = true.
  Proof.
    unfold wf_core in Hwf. rewrite !andb_true_iff in Hwf.
    destruct Hwf as [[[[[[_ H] _] _] _] _] _].
    unfold chk_CCi, check_prod_id in H. rewrite !andb_true_iff in H. tauto.
  Qed.

  Lemma Ci_in_range : mat_in_range bq (nN d) (Ciq d) = true.
  Proof.
    unfold wf_core in Hwf. rewrite !andb_true_iff in Hwf.
    destruct Hwf as [[[[[[_ H] _] _] _] _] _].
    unfold chk_CCi, check_prod_id in H. rewrite !andb_true_iff in H. tauto.
  Qed.

  Lemma nN_nn : N.to_nat (nN d) = nn d.
  Proof. unfold nN, nn. apply Nat2N.id. Qed.

  Lemma C_row_sum : forall i f,
    sumn (nn d) (fun k => Cr d i k * f k) = qsum (nth i (ds_c d) []) (fun k => f (N.to_nat k)).
  Proof. intros i f. rewrite <- nN_nn. apply (dense_row_sum (nN d) (ds_c d) i f). exact C_in_range. Qed.

  Lemma Ci_row_sum : forall i f,
    sumn (nn d) (fun k => Cir d i k * f k) = qsum (nth i (ds_ci d) []) (fun k => f (N.to_nat k)).
  Proof. intros i f. rewrite <- nN_nn. apply (dense_row_sum (nN d) (ds_ci d) i f). exact Ci_in_range. Qed.

  (* ---------- w = C^-1 n0 *)
  Lemma wI_correct : forall k, contains (I.convert (wI prec d n0I k)) (Xreal (wR (N.to_nat k))).
  Proof.
    intro k. unfold wI, w, nth_row. rewrite Ci_row_sum.
    apply dot_correct. exact Hn0.
  Qed.

  (* ---------- decay constants *)
  Lemma mur_mu_of : forall k, mur d (N.to_nat k) = qval (mu_of d k).
  Proof.
    intro k. unfold mur, mu_at, muq, mu_of.
    destruct (Nat.lt_ge_cases (N.to_nat k) (length (ds_mu d))) as [Hk|Hk].
    - rewrite (nth_indep _ BigQ.zero (bq_of (QL 0 1))) by (rewrite map_length; exact Hk).
      rewrite map_nth. apply bqv_of_q.
    - rewrite !nth_overflow; [|exact Hk|rewrite map_length; exact Hk].
      rewrite bqv_0. symmetry. apply qval_zero_num. reflexivity.
  Qed.

  Lemma is_stable_stableb : forall k, is_stable d k = stableb d (N.to_nat k).
  Proof.
    intro k. unfold is_stable, stableb.
    pose proof (mur_mu_of k) as E. unfold mur in E.
    destruct (bq_is_zero (mu_at d (N.to_nat k))) eqn:Ez.
    - apply bq_is_zero_spec in Ez. rewrite E in Ez. apply qval_zero_inv in Ez.
      rewrite Ez. reflexivity.
    - apply bq_is_zero_false in Ez. rewrite E in Ez.
      destruct (Z.eqb_spec (qn (mu_of d k)) 0) as [Hz|Hz]; [|reflexivity].
      exfalso. apply Ez. apply qval_zero_num. exact Hz.
  Qed.

  Lemma lamI_correct : forall k, contains (I.convert (lamI prec d k)) (Xreal (lam (mur d) (N.to_nat k))).
  Proof.
    intro k. unfold lamI, lam. rewrite Rmult_comm, mur_mu_of.
    apply imul_correct; [apply iq_correct|apply iln2_correct].
  Qed.

  Lemma lam_t_correct : forall k,
    contains (I.convert (lam_t prec d tI k)) (Xreal (lam (mur d) (N.to_nat k) * t)).
  Proof.
    intro k. unfold lam_t. apply imul_correct; [|exact Ht]. exact (lamI_correct k).
  Qed.

  Lemma expI_correct : forall k,
    contains (I.convert (expI prec d tI k)) (Xreal (exp (- lam (mur d) (N.to_nat k) * t))).
  Proof.
    intro k. unfold expI. apply clampI_correct.
    replace (- lam (mur d) (N.to_nat k) * t) with (- (lam (mur d) (N.to_nat k) * t)) by ring.
    pose proof (I.neg_correct _ _ (lam_t_correct k)) as H1.
    exact (I.exp_correct prec _ _ H1).
  Qed.

  (* ---------- outside the closure, w vanishes *)
  Definition hit (r : qrow) : bool :=
    existsb (fun kx => existsb (fun jv => N.eqb (fst jv) (fst kx)) n0I) r.

  Lemma rows_hit_complete : forall rows i0 m, (m < length rows)%nat -> hit (nth m rows []) = true ->
    In (i0 + N.of_nat m)%N (rows_hit n0I i0 rows).
  Proof.
    induction rows as [|r rows IH]; intros i0 m Hm Hh; [simpl in Hm; lia|].
    cbn [rows_hit]. apply in_or_app. destruct m as [|m].
    - left. cbn [nth] in Hh. unfold hit in Hh. rewrite Hh.
      replace (i0 + N.of_nat 0)%N with i0 by lia. left. reflexivity.
    - right. replace (i0 + N.of_nat (S m))%N with (N.succ i0 + N.of_nat m)%N by lia.
      apply IH; [simpl in Hm; lia|exact Hh].
  Qed.

  Lemma hit_false : forall r j, hit r = false -> haskey j n0I = true -> ~ In j (map fst r).
  Proof.
    intros r j Hh Hk Hin. apply in_map_iff in Hin. destruct Hin as [kx [E Hin]].
    assert (Ht' : hit r = true).
    { unfold hit. apply existsb_exists. exists kx. split; [exact Hin|]. rewrite E. exact Hk. }
    congruence.
  Qed.

  Lemma row_cols_q_incl : forall r j, In j (row_cols_q r) -> In j (map fst r).
  Proof.
    intros r j H. unfold row_cols_q in H. apply in_map_iff in H. destruct H as [kx [E H]].
    apply filter_In in H. destruct H as [H _]. apply in_map_iff. exists kx. split; assumption.
  Qed.

  Lemma pattern_rows : length (ds_c d) = length (ds_ci d) /\
    forall m, (m < length (ds_c d))%nat -> row_cols_q (nth m (ds_c d) []) = row_cols_q (nth m (ds_ci d) []).
  Proof.
    unfold chk_same_patterns in Hpat. apply andb_prop in Hpat. destruct Hpat as [H _].
    destruct (all2_nth _ _ _ _ _ [] [] H) as [HL Hn]. split; [exact HL|].
    intros m Hm. apply list_eqb_N_eq. apply Hn. exact Hm.
  Qed.

  Lemma Cir_zero_outside : forall k j, ~ In k (closure d n0I) -> haskey (N.of_nat j) n0I = true ->
    Cir d (N.to_nat k) j = 0.
  Proof.
    intros k j Hk Hj. unfold Cir, ent. rewrite (to_bq_mat_row (ds_ci d)).
    destruct pattern_rows as [HL Hrows].
    destruct (Nat.lt_ge_cases (N.to_nat k) (length (ds_c d))) as [Hlt|Hge].
    - apply bget_no_nonzero. rewrite <- (Hrows _ Hlt). intro Hin. apply row_cols_q_incl in Hin.
      revert Hin. apply hit_false; [|exact Hj].
      destruct (hit (nth (N.to_nat k) (ds_c d) [])) eqn:Eh; [|reflexivity].
      exfalso. apply Hk. unfold closure.
      pose proof (rows_hit_complete (ds_c d) 0%N (N.to_nat k) Hlt Eh) as Hin.
      rewrite N.add_0_l, N2Nat.id in Hin. exact Hin.
    - rewrite nth_overflow by (rewrite <- HL; exact Hge). cbn. apply bqv_0.
  Qed.

  Lemma n0_zero_nokey : forall j, haskey (N.of_nat j) n0I = false -> n0 j = 0.
  Proof.
    intros j H. apply izero_only. rewrite <- (lookupI_nokey _ _ H).
    pose proof (Hn0 (N.of_nat j)) as Hc. rewrite Nat2N.id in Hc. exact Hc.
  Qed.

  Lemma w_zero_outside : forall k, ~ In k (closure d n0I) -> wR (N.to_nat k) = 0.
  Proof.
    intros k Hk. unfold w. apply sumn_zero. intros j _.
    destruct (haskey (N.of_nat j) n0I) eqn:Ej.
    - rewrite (Cir_zero_outside k j Hk Ej). apply Rmult_0_l.
    - rewrite (n0_zero_nokey j Ej). apply Rmult_0_r.
  Qed.

  (* ---------- N(t) *)
  Definition gR (k : nat) : R := exp (- lam (mur d) k * t) * wR k.

  Lemma gvec_correct : forall k,
    contains (I.convert (lookupI k (gvec prec d n0I tI))) (Xreal (gR (N.to_nat k))).
  Proof.
    intro k. unfold gR.
    destruct (in_dec N.eq_dec k (closure d n0I)) as [Hin|Hnin].
    - assert (E : lookupI k (gvec prec d n0I tI) = I.mul prec (expI prec d tI k) (wI prec d n0I k))
        by exact (lookupI_map_in (fun a => I.mul prec (expI prec d tI a) (wI prec d n0I a)) _ _ Hin).
      rewrite E. apply imul_correct; [apply expI_correct|apply wI_correct].
    - assert (E : lookupI k (gvec prec d n0I tI) = izero)
        by exact (lookupI_map_notin (fun a => I.mul prec (expI prec d tI a) (wI prec d n0I a)) _ _ Hnin).
      rewrite E, (w_zero_outside k Hnin), Rmult_0_r. apply izero_correct.
  Qed.

  Theorem NtI_all_correct : forall i e, In (i, e) (NtI_all prec d n0I tI) ->
    contains (I.convert e) (Xreal (Nt (nn d) (Cr d) (Cir d) (mur d) n0 t (N.to_nat i))).
  Proof.
    intros i e Hin. unfold NtI_all in Hin. cbv zeta in Hin.
    apply in_map_iff in Hin. destruct Hin as [i' [E _]]. inversion E. subst i' e. clear E.
    unfold Nt. change (fun k => Cr d (N.to_nat i) k * (exp (- lam (mur d) k * t) * wR k))
      with (fun k => Cr d (N.to_nat i) k * gR k).
    rewrite C_row_sum. unfold nth_row. apply dot_correct. exact gvec_correct.
  Qed.

  (* ---------- cumulative decays *)
  Definition hR (k : nat) : R := Ecum (mur d) (stableb d) t k * wR k.

  Lemma lam_nonzero : forall k, stableb d k = false -> lam (mur d) k <> 0.
  Proof.
    intros k Hs. unfold stableb in Hs. apply bq_is_zero_false in Hs. unfold lam, mur.
    pose proof ln2_pos as Hp. intro E. apply Rmult_integral in E. destruct E as [E|E]; [lra|contradiction].
  Qed.

  Lemma hvec_correct : forall k,
    contains (I.convert (lookupI k (hvec prec d n0I tI))) (Xreal (hR (N.to_nat k))).
  Proof.
    intro k. unfold hR.
    pose (hf := fun a => if is_stable d a then izero
         else I.mul prec (I.div prec (I.sub prec (I.fromZ prec 1) (expI prec d tI a)) (lamI prec d a))
                    (wI prec d n0I a)).
    destruct (in_dec N.eq_dec k (closure d n0I)) as [Hin|Hnin].
    - assert (E : lookupI k (hvec prec d n0I tI) = hf k) by exact (lookupI_map_in hf _ _ Hin).
      rewrite E. unfold hf, Ecum. rewrite is_stable_stableb.
      destruct (stableb d (N.to_nat k)) eqn:Es.
      + rewrite Rmult_0_l. apply izero_correct.
      + apply imul_correct; [|apply wI_correct].
        apply idiv_correct; [exact (lam_nonzero _ Es)| |apply lamI_correct].
        apply isub_correct; [apply (I.fromZ_correct prec 1)|apply expI_correct].
    - assert (E : lookupI k (hvec prec d n0I tI) = izero) by exact (lookupI_map_notin hf _ _ Hnin).
      rewrite E, (w_zero_outside k Hnin), Rmult_0_r. apply izero_correct.
  Qed.

  Theorem DcumI_all_correct : forall i e, In (i, e) (DcumI_all prec d n0I tI) ->
    contains (I.convert e) (Xreal (Dcum (nn d) (Cr d) (Cir d) (mur d) (stableb d) n0 t (N.to_nat i))).
  Proof.
    intros i e Hin. unfold DcumI_all in Hin. cbv zeta in Hin.
    apply in_map_iff in Hin. destruct Hin as [i' [E _]]. inversion E. subst i' e. clear E.
    unfold Dcum. change (fun k => Cr d (N.to_nat i) k * (Ecum (mur d) (stableb d) t k * wR k))
      with (fun k => Cr d (N.to_nat i) k * hR k).
    rewrite C_row_sum. unfold nth_row.
    apply imul_correct; [apply lamI_correct|]. apply dot_correct. exact hvec_correct.
  Qed.
End Enclosure.

Theorem reference_encloses_closed_form : forall prec (d : dataset) (n0I : list (N * I.type)) (tI : I.type)
    (n0 : nat -> R) (t : R),
  wf_core d = true -> chk_same_patterns d = true ->
  (forall j, contains (I.convert (lookupI j n0I)) (Xreal (n0 (N.to_nat j)))) ->
  contains (I.convert tI) (Xreal t) ->
  forall i e, In (i, e) (NtI_all prec d n0I tI) ->
    contains (I.convert e) (Xreal (Nt (nn d) (Cr d) (Cir d) (mur d) n0 t (N.to_nat i))).
Proof.
  intros prec d n0I tI n0 t Hwf Hpat Hn0 Ht i e Hin.
  exact (NtI_all_correct prec d n0I tI n0 t Hwf Hpat Hn0 Ht i e Hin).
Qed.

Theorem reference_encloses_cumulative : forall prec (d : dataset) (n0I : list (N * I.type)) (tI : I.type)
    (n0 : nat -> R) (t : R),
  wf_core d = true -> chk_same_patterns d = true ->
  (forall j, contains (I.convert (lookupI j n0I)) (Xreal (n0 (N.to_nat j)))) ->
  contains (I.convert tI) (Xreal t) ->
  forall i e, In (i, e) (DcumI_all prec d n0I tI) ->
    contains (I.convert e) (Xreal (Dcum (nn d) (Cr d) (Cir d) (mur d) (stableb d) n0 t (N.to_nat i))).
Proof.
  intros prec d n0I tI n0 t Hwf Hpat Hn0 Ht i e Hin.
  exact (DcumI_all_correct prec d n0I tI n0 t Hwf Hpat Hn0 Ht i e Hin).
Qed.

Print Assumptions reference_encloses_closed_form.
Print Assumptions reference_encloses_cumulative.
