(* The hypothesis of Props/C13b.time_series_pointwise from the decay model (Model/DecayModel.v): the nuclides of a decayed
   inventory are read off the sparsity pattern of C for the inventory's own nuclides - they do not depend on the decay time. *)
From Coq Require Import Reals List Bool Arith.
From RD Require Import Base Model.Dataset Model.DecayModel.
Import ListNotations.

Lemma decayed_nuclides_time_independent : forall (d : dataset) (contents : list (nat * R)) (t1 t2 : R),
  map fst (decay_model d contents t1) = map fst (decay_model d contents t2) /\
  NoDup (map fst (decay_model d contents t1)).
Proof.
  intros d contents t1 t2. unfold decay_model. rewrite !map_map. cbn [fst]. rewrite !map_id.
  split; [reflexivity|]. unfold indices. apply NoDup_filter. apply seq_NoDup.
Qed.
