"""Recording unpickler: reads the SymPy pickles of a radioactivedecay dataset WITHOUT SymPy.

Every class from sympy/mpmath is replaced by a recording stub (a dict subclass, because
SymPy >= 1.9 pickles SDM objects, which are dicts); everything else is refused, so a pickle
that tries to import anything else aborts the translation (fail-closed).

The stubs are then converted to a tiny expression AST:
   ('rat', p, q) | ('add', [e..]) | ('mul', [e..]) | ('pow', base_e, exp_e) | ('log', e)
"""
import pickle
import copyreg
import builtins
from fractions import Fraction


class Stub(dict):
    _cls = None

    def __setstate__(self, s):
        self.state = s

    def __hash__(self):
        return id(self)

    def __eq__(self, o):
        return self is o

    def __ne__(self, o):
        return self is not o


def _new(cls, a, k):
    o = dict.__new__(cls)
    dict.__init__(o)
    o.args = a
    o.kw = k
    o.state = None
    return o


_cache = {}


def _mk(mod, name):
    key = mod + "." + name
    if key not in _cache:
        _cache[key] = type(
            name,
            (Stub,),
            {"_cls": key, "__new__": lambda cls, *a, **k: _new(cls, a, k),
             "__init__": lambda self, *a, **k: None},
        )
    return _cache[key]


class TranslationError(Exception):
    pass


class RecordingUnpickler(pickle.Unpickler):
    def find_class(self, mod, name):
        if mod.split(".")[0] in ("sympy", "mpmath"):
            return _mk(mod, name)
        if mod == "builtins" and name in ("dict", "list", "tuple", "int", "str", "object"):
            return getattr(builtins, name)
        if mod == "copyreg" and name == "_reconstructor":
            return copyreg._reconstructor
        raise TranslationError(f"pickle refers to {mod}.{name}: refused")


def load(path):
    with open(path, "rb") as f:
        return RecordingUnpickler(f).load()


def to_ast(o):
    """stub -> AST (fail-closed)."""
    if not isinstance(o, Stub):
        raise TranslationError(f"unexpected pickled object {type(o)}")
    n = type(o).__name__
    if n in ("Rational", "PythonMPQ"):
        p, q = o.args
        if not (isinstance(p, int) and isinstance(q, int) and q > 0):
            raise TranslationError(f"bad rational {o.args}")
        return ("rat", p, q)
    if n == "Integer":
        (p,) = o.args
        if not isinstance(p, int):
            raise TranslationError("bad Integer")
        return ("rat", p, 1)
    if n == "Zero":
        return ("rat", 0, 1)
    if n == "One":
        return ("rat", 1, 1)
    if n == "NegativeOne":
        return ("rat", -1, 1)
    if n == "Half":
        return ("rat", 1, 2)
    if n == "Add":
        return ("add", [to_ast(a) for a in o.args])
    if n == "Mul":
        return ("mul", [to_ast(a) for a in o.args])
    if n == "Pow":
        b, e = o.args
        return ("pow", to_ast(b), to_ast(e))
    if n == "log":
        (a,) = o.args
        return ("log", to_ast(a))
    raise TranslationError(f"unsupported SymPy class {o._cls}")


def as_fraction(ast):
    """AST of rationals only -> Fraction, else None."""
    k = ast[0]
    if k == "rat":
        return Fraction(ast[1], ast[2])
    if k == "add":
        parts = [as_fraction(a) for a in ast[1]]
        return None if any(p is None for p in parts) else sum(parts, Fraction(0))
    if k == "mul":
        parts = [as_fraction(a) for a in ast[1]]
        if any(p is None for p in parts):
            return None
        r = Fraction(1)
        for p in parts:
            r *= p
        return r
    return None


def _matrix_entries(o):
    """MutableDenseMatrix / MutableSparseMatrix stub -> (rows, cols, {(i,j): stub})."""
    n = type(o).__name__
    if n not in ("MutableDenseMatrix", "MutableSparseMatrix"):
        raise TranslationError(f"expected a SymPy matrix, got {getattr(o, '_cls', type(o))}")
    st = o.state
    if not isinstance(st, dict):
        raise TranslationError("matrix without state")
    rows, cols = st["rows"], st["cols"]
    out = {}
    if "_mat" in st:  # SymPy <= 1.8 dense
        flat = st["_mat"]
        if len(flat) != rows * cols:
            raise TranslationError("dense matrix length mismatch")
        for idx, v in enumerate(flat):
            out[(idx // cols, idx % cols)] = v
    elif "_smat" in st:  # SymPy <= 1.8 sparse
        for (i, j), v in st["_smat"].items():
            out[(i, j)] = v
    elif "_rep" in st:  # SymPy >= 1.9 DomainMatrix
        rep = st["_rep"]
        if type(rep).__name__ != "DomainMatrix":
            raise TranslationError("unexpected _rep")
        a0 = rep.args[0] if rep.args else None
        sdm = None
        if isinstance(rep.state, dict) and "rep" in rep.state:
            sdm = rep.state["rep"]
            if tuple(rep.state.get("shape", (rows, cols))) != (rows, cols):
                raise TranslationError("DomainMatrix shape mismatch")
        if sdm is None:
            sdm = a0
        if not isinstance(sdm, dict):
            raise TranslationError("DomainMatrix without SDM dict")
        for i, row in sdm.items():
            for j, v in row.items():
                out[(i, j)] = v
        # the constructor arguments must describe the same matrix as the state
        if isinstance(a0, dict) and a0 is not sdm:
            cnt = sum(len(r) for r in a0.values())
            if cnt != len(out):
                raise TranslationError("DomainMatrix args/state disagree")
            for i, row in a0.items():
                for j, v in row.items():
                    if to_ast(v) != to_ast(out[(i, j)]):
                        raise TranslationError("DomainMatrix args/state disagree")
    else:
        raise TranslationError(f"unknown matrix state keys {sorted(st)}")
    for (i, j) in out:
        if not (0 <= i < rows and 0 <= j < cols):
            raise TranslationError("matrix index out of range")
    return rows, cols, out


def load_vector(path):
    """column vector pickle -> list of AST (missing entries are zero)."""
    rows, cols, ent = _matrix_entries(load(path))
    if cols != 1:
        raise TranslationError("expected a column vector")
    return [to_ast(ent[(i, 0)]) if (i, 0) in ent else ("rat", 0, 1) for i in range(rows)]


def load_sparse(path):
    """square sparse matrix pickle -> (n, list of rows, row = sorted list of (col, Fraction))."""
    rows, cols, ent = _matrix_entries(load(path))
    if rows != cols:
        raise TranslationError("expected a square matrix")
    out = [[] for _ in range(rows)]
    for (i, j), v in ent.items():
        f = as_fraction(to_ast(v))
        if f is None:
            raise TranslationError(f"non-rational matrix entry at {(i, j)}")
        if f != 0:
            out[i].append((j, f))
    for r in out:
        r.sort()
    return rows, out


def load_scalar(path):
    return to_ast(load(path))
