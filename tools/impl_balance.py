"""Implementation side of the atom-balance stream of C03 (PYTHONPATH=/repo): for a lone parent, decay and cumulative decays over
the same time, with the data set's own pairwise branching fractions:  N_i(t) - N_i(0) = -D_i + sum_p bf(p -> i) D_p  for every i.
stdin JSON: {"cases": [{"nuc", "t": hex, "cls"}]}; stdout: per case the largest imbalance relative to the initial atoms."""
import json, sys

def main():
    import radioactivedecay as rd
    D = rd.DEFAULTDATA
    out = []
    for c in json.load(sys.stdin)["cases"]:
        r = {}
        try:
            cls = rd.InventoryHP if c["cls"] == "InventoryHP" else rd.Inventory
            n0 = 1.0e12
            inv = cls({c["nuc"]: n0}, "num")
            t = float.fromhex(c["t"])
            dec = {k: float(v) for k, v in inv.decay(t, "s").numbers().items()}
            cum = {k: float(v) for k, v in inv.cumulative_decays(t, "s").items()}
            worst, who = 0.0, None
            for i, ni in dec.items():
                lhs = ni - (n0 if i == c["nuc"] else 0.0)
                rhs = -cum.get(i, 0.0) + sum(D.branching_fraction(p, i) * dp for p, dp in cum.items() if p != i)
                if abs(lhs - rhs) > worst:
                    worst, who = abs(lhs - rhs), i
            r = {"worst": worst / n0, "who": who, "stable_listed": [k for k in cum if D.half_life(k) == float("inf")]}
        except Exception as e:
            r["err"] = type(e).__name__ + ": " + str(e)[:80]
        out.append(r)
    json.dump(out, sys.stdout)
main()
