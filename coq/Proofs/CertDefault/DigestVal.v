From RD Require Import Base Model.Dataset Model.Default Model.Digest.
Definition default_digest : list BinNums.Z := Eval vm_compute in ds_digest Default.
