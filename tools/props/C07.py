"""C07 - decay is a linear, time-additive flow."""
import random
import common as C
import corr_decay as D
import corr_units as U

PID = "C07"
PROPS_MODULE = "Props.C07"
THEOREMS = ["decay_zero", "decay_additive", "decay_linear", "decay_split"]
EXTRA_PROPS = {"Props.C07b": ["exact_flow_depends_only_on_ancestors", "default_zero_time_decay", "default_unrelated_nuclides"]}
REQUIRED = ["Props/C07.v", "Props/C07b.v", "Model/DecayCheck.v"]
TRANSLATORS = ["tr_data", "tr_tables", "tr_pure"]
SHAPE_KEYS = ["Inventory::decay", "InventoryHP::decay", "AbstractInventory::_setup_decay_calc",
              "AbstractInventory::_perform_decay_calc", "__add__", "__mul__", "load_dataset"]
PARTIAL = ["the float / high-precision error of composed calculations is decided per case (k x the single-call bound around the proved "
           "enclosure of the exact flow), not by a rounding theorem"]
TRUSTED_BASE = [
    "Coq 8.16.1 kernel incl. vm_compute",
    "axioms: standard Reals axioms; Uint63 primitives",
    "translator tr_data.py; tr_shapes.py ties; coq-interval",
]
ASSUMPTIONS = []


def correspondence(ctx):
    rng = random.Random(ctx["seed"] + 7)
    thorough = ctx["tier"] == "thorough"
    streams, viol, samples = {}, [], []
    D.flow_stream(rng, 1500 if thorough else 90, "Inventory", "flow_float", streams, viol, samples)
    D.flow_stream(rng, 60 if thorough else 4, "InventoryHP", "flow_hp", streams, viol, samples)
    return {"streams": streams, "violations": viol, "samples": samples}


def search_broken(ctx):
    return []


def replay(payload):
    return {"fails": True, "note": "re-run ./check C07 with the same VERIF_SEED; the case index is in the payload"}
