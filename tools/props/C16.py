"""C16 - the decay-chain diagram depicts exactly the nuclide's decay subgraph."""
import os
import subprocess
import common as C
import corr_units as U
import math

PID = "C16"
PROPS_MODULE = "Props.C16"
THEOREMS = ["default_all_diagrams_correct", "graph_ok_meaning", "layers_are_children", "positions_always_distinct",
            "distinct_pos_spec"]
EXTRA_PROPS = {"Props.C16s": ["synth_all_diagrams_correct"]}
REQUIRED = ["Proofs/CertSynth/SynthGraphs.v", "Props/C16s.v", "Props/C16.v", "Proofs/CertDefault/Graphs.v", "Proofs/CertDefault/Struct.v"]
TRANSLATORS = ["synth_dataset", "tr_data_synth", "tr_data", "tr_tables"]
SHAPE_KEYS = ["_build_decay_digraph", "_parse_nuclide_label", "_parse_decay_mode_label", "Nuclide::plot", "Nuclide::progeny",
              "Nuclide::branching_fractions", "Nuclide::decay_modes", "DecayData::half_life"]
PARTIAL = ["the breadth-first construction is hand-modelled (Model/Digraph.v): tie = recorded source text + identical output for ALL roots",
           "row = breadth-first depth and node/edge sets are kernel-checked for every root of the shipped data set (exhaustive certificate), "
           "universally proved only for the position-injectivity invariant",
           "synthetic data sets with dense branching are not generated (the universal theorem covers positions; the rest is default-data only)",
           "what networkx/matplotlib draw from the graph is outside the model (texts on the axes are compared on a sample)"]
TRUSTED_BASE = ["Coq 8.16.1 kernel incl. vm_compute", "axioms: none for the graph theorems; primitive float/int items through the data set",
                "translators tr_data.py (names, progeny, modes, repr of branching fractions, readable half-lives), tr_tables.py (label tables)",
                "tr_shapes.py source-text ties; extraction (ExtrOcamlBasic only) of Model/Digraph.v with the data-set view"]
ASSUMPTIONS = ["repr(float) as emitted by CPython is the edge label's number"]
EXTRACT = os.path.join(C.COQ, "Extract")


def build_gdriver():
    with C.Lock("extract_graph"):
        vo = os.path.join(C.COQ, "Proofs", "CertDefault", "Graphs.vo")
        vo2 = os.path.join(C.COQ, "Proofs", "CertSynth", "SynthGraphs.vo")
        drv = os.path.join(EXTRACT, "gdriver")
        if not os.path.exists(vo):
            return False, "Proofs/CertDefault/Graphs.vo missing"
        if os.path.exists(drv) and os.path.exists(vo2) and os.path.getmtime(drv) >= max(os.path.getmtime(vo), os.path.getmtime(vo2), os.path.getmtime(os.path.join(EXTRACT, "gdriver.ml")), os.path.getmtime(os.path.join(EXTRACT, "extract_graph.v"))):
            return True, "up to date"
        rc, out = C.sh("coqc -Q .. RD extract_graph.v", cwd=EXTRACT, timeout=900)
        if rc != 0:
            return False, out[-1500:]
        rc, out = C.sh("ocamlfind ocamlopt -w -a gmodel.mli gmodel.ml gdriver.ml -o gdriver", cwd=EXTRACT, timeout=900)
        return rc == 0, out[-1500:]


def parse(text):
    graphs, cur = {}, None
    for line in text.splitlines():
        if line.startswith("ROOT "):
            cur = {"N": [], "E": [], "raw": []}
            graphs[line[5:]] = cur
        elif cur is not None:
            cur["raw"].append(line)
            if line.startswith("N "):
                p = line.split(" ")
                cur["N"].append((p[1], int(p[2]), int(p[3]), p[4] if len(p) > 4 else ""))
            elif line.startswith("E "):
                p = line.split(" ")
                cur["E"].append((p[1], p[2], p[3] if len(p) > 3 else ""))
    return graphs


def dec(s):
    return "".join(chr(int(x)) for x in s.split(".") if x)


def correspondence(ctx):
    import numpy as np
    thorough = ctx["tier"] == "thorough"
    streams, viol, samples = {}, [], []
    ok, msg = build_gdriver()
    if not ok:
        viol.append({"name": "extract-graph", "found_input": False, "key": "extract-graph",
                     "payload": {"broken": "the diagram model could not be extracted/compiled", "message": msg}})
        return {"streams": streams, "violations": viol}
    def run_ds(ds):
        is_dir = bool(ds) and os.path.isdir(ds)
        model = "" if is_dir else subprocess.run([os.path.join(EXTRACT, "gdriver")] + ([ds] if ds else []), stdout=subprocess.PIPE, text=True).stdout
        p = subprocess.run([C.PY, os.path.join(C.TOOLS, "impl_digraph.py"), "plot", "100" if thorough else "12"],
                           stdout=subprocess.PIPE, stderr=subprocess.PIPE, text=True, env=dict(C.IMPL_ENV, VERIF_DIGRAPH_DS=ds or ""), cwd="/tmp")
        impl = p.stdout
        gm, gi = parse(model), parse(impl)
        d = np.load(os.path.join(ds, "decay_data.npz") if is_dir else os.path.join(C.SCRATCH, "synth", "decay_data.npz") if ds else
                    os.path.join(C.REPO, "radioactivedecay/icrp107_ame2020_nubase2020/decay_data.npz"), allow_pickle=True)
        tag = "diagrams" + ("_random_" + os.path.basename(ds) if is_dir else "_" + ds if ds else "")
        names = [str(x) for x in d["nuclides"]]
        progeny = {n: [str(x) for x in pl] for n, pl in zip(names, d["progeny"])}
        bad_prop, ndis = [], 0
        for root in names:
            key = ".".join(str(ord(c)) for c in root)
            g = gi.get(key)
            if g is None or "ERR" in " ".join(g["raw"][:1]):
                bad_prop.append((root, "the diagram could not be built"))
                continue
            # independent breadth-first search over the data file
            depth = {root: 0}
            frontier = [root]
            while frontier:
                nxt = []
                for x in frontier:
                    for c in progeny.get(x, []):
                        if c != "SF" and c in progeny and c not in depth:
                            depth[c] = depth[x] + 1
                            nxt.append(c)
                frontier = nxt
            nodes = {dec(n): (gen, x) for n, gen, x, _ in g["N"]}
            real = {n for n in nodes if not n.endswith("_SF")}
            if real != set(depth):
                bad_prop.append((root, f"nodes differ from the reachable set: missing {sorted(set(depth) - real)[:3]}, extra {sorted(real - set(depth))[:3]}"))
            for n in real & set(depth):
                if nodes[n][0] != depth[n]:
                    bad_prop.append((root, f"{n} sits on row {nodes[n][0]} but its minimum number of decays from the root is {depth[n]}"))
                    break
            # each node's label names the nuclide's readable half-life, which must denote the half-life the data set lists
            for nid, _, _, lab in g["N"]:
                nm, lab = dec(nid), dec(lab)
                if nm.endswith("_SF") or nm not in progeny:
                    continue
                rd_str = lab.split("\n")[1] if "\n" in lab else ""
                hv, hu = float(d["hldata"][names.index(nm)][0]), str(d["hldata"][names.index(nm)][1])
                secs = math.inf if hv == math.inf else U.half_life_seconds(hv, hu, float(d["year_conv"]))
                if not U.readable_denotes(rd_str, secs, float(d["year_conv"])):
                    bad_prop.append((root, f"node {nm} is labelled {rd_str!r}, which does not denote its half-life of {hv} {hu}"))
                    break
            pos = [(gen, x) for _, gen, x, _ in g["N"]]
            if len(set(pos)) != len(pos) or "BADPOS" in g["raw"]:
                bad_prop.append((root, "two nodes share a position"))
            links = set()
            for x in depth:
                for c, bf, m in zip(progeny[x], d["bfs"][names.index(x)], d["modes"][names.index(x)]):
                    links.add((x, x + "_SF" if c == "SF" else c, repr(float(bf))))
            edges = set()
            for u, v, lab in g["E"]:
                lab = dec(lab)
                if "\n" not in lab:
                    bad_prop.append((root, f"edge label {lab!r} malformed")); break
                edges.add((dec(u), dec(v), lab.split("\n")[1]))
            if edges != links or len(g["E"]) != len(links):
                bad_prop.append((root, f"edges differ from the links of the reachable nuclides: {sorted(links ^ edges)[:2]}"))
            sf_nodes = [n for n in nodes if n.endswith("_SF")]
            if len(sf_nodes) != sum(1 for x in depth for c in progeny[x] if c == "SF"):
                bad_prop.append((root, "number of 'various' nodes differs from the number of fission branches"))
            if not is_dir and gm.get(key, {}).get("raw") != g["raw"]:
                ndis += 1
                if ndis <= 2:
                    viol.append({"name": f"{tag}-graph-model-{ndis}", "found_input": False, "key": f"graph-model:{root}",
                                 "payload": {"broken": "diagram model and implementation produce different graphs", "root": root,
                                             "impl": g["raw"][:6], "model": gm.get(key, {}).get("raw", [])[:6]}})
        plot_bad = []
        for line in p.stderr.splitlines():
            if line.startswith("PLOTCHECK "):
                import json
                plot_bad = json.loads(line[10:])
        for r in plot_bad[:2]:
            bad_prop.append((r, "texts on the drawn axes differ from the node and edge labels"))
        streams[tag] = {"cases": len(names), "exhaustive": True, "model_disagrees": ndis, "impl_property_failures": len(bad_prop),
                               "nodes_total": sum(len(g["N"]) for g in gi.values()), "edges_total": sum(len(g["E"]) for g in gi.values()),
                               "drawn": 100 if thorough else 12,
                               "what": ("synthetic data set (fission branches, states p q r x), all roots: " if ds else "all 1512 roots: ") + " implementation graph == extracted model graph (nodes, attributes, labels, edges, order); independent "
                                       "reachability / breadth-first depth / link / position checks on the implementation's graph; drawn axes texts on a sample"}
        seen = set()
        for root, why in bad_prop:
            k = why.split(":")[0][:40]
            if k in seen:
                continue
            seen.add(k)
            viol.append({"name": f"{tag}-{len(seen)}", "found_input": True, "key": f"diagram:{root}:{k}",
                         "payload": {"fails": why, "input": root, "entry": "Nuclide(root).plot() / nuclide._build_decay_digraph"}})
            if len(seen) >= 4:
                break
        if not ds:
          samples.append({"root": "Mo-99", "nodes": [(dec(n), g_, x) for n, g_, x, _ in gi.get(".".join(str(ord(c)) for c in "Mo-99"), {"N": []})["N"]]})
    run_ds(None)
    run_ds("synth")
    # random data sets (dense branching, mid-chain stable nuclides, fission): the independent predicates on the implementation's graph
    import random, shutil
    rng = random.Random(ctx["seed"] + 16)
    for _ in range(6 if thorough else 2):
        seed = rng.randrange(10**6)
        dd = os.path.join(C.SCRATCH, f"randg_{seed}")
        rc, out = C.sh([C.PY, os.path.join(C.TOOLS, "synth_dataset.py"), dd, str(seed)], timeout=600)
        if rc == 0:
            run_ds(dd)
        shutil.rmtree(dd, ignore_errors=True)
    return {"streams": streams, "violations": viol, "samples": samples}


def search_broken(ctx):
    return []


def replay(payload):
    return {"fails": True, "note": "build the diagram of payload['input'] and apply the predicate named in 'fails' (./check C16 is exhaustive over all roots)"}
