#!/venv/bin/python
"""Validate and run the checks against the seeded mutants in /verif/seeded/<prop>-<k>/.

  run_seeded.py validate <name>...   in a scratch worktree: demo passes on pristine, fails with the patch,
                                      the repository test-suite still passes with the patch
  run_seeded.py check <name>...      apply the patch to /repo, run ./check <prop> (quick), undo, record the result
Results are written to seeded/<name>/meta.json."""
import json, os, subprocess, sys, time, shutil

VERIF = os.path.normpath(os.path.join(os.path.dirname(os.path.abspath(__file__)), ".."))
SEED = os.path.join(VERIF, "seeded")
PY = "/venv/bin/python"


def sh(cmd, cwd=None, env=None, timeout=3600):
    p = subprocess.run(cmd, shell=True, cwd=cwd, env=env, stdout=subprocess.PIPE, stderr=subprocess.STDOUT, text=True, timeout=timeout)
    return p.returncode, "\n".join(l for l in p.stdout.splitlines() if "conda.cli" not in l)


def load_meta(name):
    p = os.path.join(SEED, name, "meta.json")
    return json.load(open(p)) if os.path.exists(p) else {"name": name, "property": name.split("-")[0]}


def save_meta(name, m):
    json.dump(m, open(os.path.join(SEED, name, "meta.json"), "w"), indent=1)


def apply_patch(wt, patch):
    rc, out = sh(f"git apply --whitespace=nowarn {patch}", cwd=wt)
    if rc != 0:
        rc, out = sh(f"git apply -3 --whitespace=nowarn {patch}", cwd=wt)
    if rc != 0:
        rc, out = sh(f"patch -p1 --fuzz=3 < {patch}", cwd=wt)
    return rc == 0, out


def validate(name):
    m = load_meta(name)
    d = os.path.join(SEED, name)
    wt = f"/tmp/seedwt_{name}"
    sh(f"git -C /repo worktree remove --force {wt}")
    rc, out = sh(f"git -C /repo worktree add -q --detach {wt} HEAD")
    try:
        env = dict(os.environ, PYTHONPATH=wt, MPLBACKEND="Agg", PYTHONDONTWRITEBYTECODE="1")
        shutil.copy(os.path.join(d, "demo.py"), os.path.join(wt, "demo_seed.py"))
        rc0, out0 = sh(f"{PY} demo_seed.py", cwd=wt, env=env)
        ok, pout = apply_patch(wt, os.path.join(d, "patch.diff"))
        if not ok:
            m["validated"] = False
            m["validation"] = "patch does not apply to the current /repo HEAD: " + pout[-300:]
            save_meta(name, m)
            return m
        rc1, out1 = sh(f"{PY} demo_seed.py", cwd=wt, env=env)
        rct, outt = sh(f"{PY} -m pytest -q -p no:cacheprovider --timeout=900 "
                       f"--deselect tests/test_inventory.py::TestInventoryHP::test_plot 2>&1 | tail -3", cwd=wt, env=env)
        passed = "passed" in outt and "failed" not in outt and "error" not in outt.lower()
        m["validated"] = (rc0 == 0 and rc1 != 0 and passed)
        m["validation"] = {"demo_on_pristine_exit": rc0, "demo_with_patch_exit": rc1,
                           "demo_with_patch_tail": out1[-400:], "pytest_with_patch": outt.strip().splitlines()[-1] if outt.strip() else "",
                           "pristine_head": sh("git -C /repo rev-parse --short HEAD")[1].strip()}
        m["ran"] = "tools/run_seeded.py validate (scratch worktree under /tmp, removed afterwards)"
    finally:
        sh(f"git -C /repo worktree remove --force {wt}")
    save_meta(name, m)
    return m


def check(name, props=None):
    m = load_meta(name)
    d = os.path.join(SEED, name)
    rc, st = sh("git -C /repo status --porcelain")
    if st.strip():
        raise SystemExit("/repo is not clean: " + st)
    ok, pout = apply_patch("/repo", os.path.join(d, "patch.diff"))
    res = {}
    try:
        if not ok:
            m["check"] = {"error": "patch does not apply: " + pout[-300:]}
        else:
            for pid in (props or [m["property"]]):
                t0 = time.time()
                env = dict(os.environ, VERIF_EVIDENCE_DIR=f"/tmp/seeded_evidence/{name}", VERIF_REPLAY_DIR=f"/tmp/seeded_evidence/{name}/replays")
                rc, out = sh(f"./check {pid} --tier quick", cwd=VERIF, timeout=7200, env=env)
                lines = [l for l in out.splitlines() if l.startswith(("VIOLATION", "KNOWN-FINDING", "["))]
                res[pid] = {"exit": rc, "caught": rc == 1 and any(l.startswith("VIOLATION") for l in lines),
                            "lines": lines[:8], "wall_s": round(time.time() - t0)}
            m.setdefault("check", {}).update(res)
    finally:
        sh("git -C /repo checkout -- . && git -C /repo clean -fdq -- radioactivedecay")
    save_meta(name, m)
    return m


if __name__ == "__main__":
    mode, names = sys.argv[1], sys.argv[2:]
    for n in names:
        if mode == "validate":
            r = validate(n)
            print(n, "validated" if r.get("validated") else "NOT validated", json.dumps(r.get("validation"))[:300])
        else:
            extra = None
            if ":" in n:
                n, extra = n.split(":")
                extra = extra.split(",")
            r = check(n, extra)
            print(n, json.dumps(r.get("check"))[:600])
