"""C13 stream: time series, data frames and plotted curves are pointwise decay results."""
import json
import math
import random
from fractions import Fraction
import corr_units as U
import coqcases as Q

KINDS = U.ACT + U.MASS + U.MOL + ["num", "activity_frac", "mass_frac", "mol_frac"]
LABELS = {"num": "Number of atoms", "activity_frac": "Activity fraction", "mass_frac": "Mass fraction", "mol_frac": "Mole fraction"}


def ylabel(kind):
    if kind in U.ACT: return f"Activity ({kind})"
    if kind in U.MOL: return f"Number of moles ({kind})"
    if kind in U.MASS: return f"Mass ({kind})"
    return LABELS[kind]


PRE = ("From Coq Require Import ZArith NArith List PrimFloat.\nImport ListNotations.\n"
       "From RD Require Import Base Model.Digest Model.Series.\n"
       "Definition feq (a b : float) : bool := Z.eqb (fcode a) (fcode b).\n"
       "Definition chk (c : float * float * nat * list float) : bool := let '(a, b, n, e) := c in\n"
       "  let g := linspace_f a b n in Nat.eqb (length g) (length e) && forallb (fun xy => feq (fst xy) (snd xy)) (combine g e).\n")


PRE_ASM = ("From Coq Require Import ZArith NArith List Bool PrimFloat.\nImport ListNotations.\n"
           "From RD Require Import Base Lib.Py Model.Digest Model.SeriesAsm.\n"
           "Definition feqa (a b : float) : bool := Z.eqb (fcode a) (fcode b).\n"
           "Fixpoint leq {A} (e : A -> A -> bool) (a b : list A) : bool := match a, b with [] , [] => true | x :: a', y :: b' => e x y && leq e a' b' | _, _ => false end.\n"
           "Definition chka (c : list (list (str * float)) * list (str * list float)) : bool := let '(ps, cols) := c in\n"
           "  leq (fun x y => s_eqb (fst x) (fst y) && leq feqa (snd x) (snd y)) (assemble ps) cols.\n")


PRE_PLOT = PRE_ASM + (
           "Definition chkp (c : list (list (str * float)) * list str * list (str * list float)) : bool := let '(ps, disp, cur) := c in\n"
           "  match plot_curves (seq 0 (length ps)) (fun i => nth i ps []) disp with\n"
           "  | Some got => leq (fun x y => s_eqb (fst x) (fst y) && leq feqa (snd x) (snd y)) got cur | None => false end.\n")


PRE_DISP = ("From Coq Require Import ZArith NArith List Bool.\nImport ListNotations.\n"
            "From RD Require Import Base Lib.Py Model.SeriesAsm.\nFrom RD.Gen.Default Require Names.\n"
            "Fixpoint leqs (a b : list str) : bool := match a, b with [] , [] => true | x :: a', y :: b' => s_eqb x y && leqs a' b' | _, _ => false end.\n"
            "Definition chkd (c : str * list str * list str) : bool := let '(order, decayed, shown) := c in\n"
            "  match plot_display_all order decayed Names.names with OK got => leqs got shown | Raise _ => false end.\n")


def plot_term(points, nuclides, ydata):
    ps = "[" + "; ".join("[" + "; ".join(f"({Q.cstr(k)}, {Q.fhex(float.fromhex(v))})" for k, v in p) + "]" for p in points) + "]"
    disp = "[" + "; ".join(Q.cstr(k) for k in nuclides) + "]"
    cs = "[" + "; ".join(f"({Q.cstr(k)}, [" + "; ".join(Q.fhex(float.fromhex(v)) for v in row) + "])" for k, row in zip(nuclides, ydata)) + "]"
    return f"({ps}, {disp}, {cs})"


def asm_term(points, cols, data):
    ps = "[" + "; ".join("[" + "; ".join(f"({Q.cstr(k)}, {Q.fhex(float.fromhex(v))})" for k, v in p) + "]" for p in points) + "]"
    cs = "[" + "; ".join(f"({Q.cstr(k)}, [" + "; ".join(Q.fhex(float.fromhex(v)) for v in data[k]) + "])" for k in cols) + "]"
    return f"({ps}, {cs})"


def series_stream(rng, thorough, streams, viol, samples):
    names, stable = U.dataset_names()
    radio = [n for n, s in zip(names, stable) if not s]
    cases = []
    kinds = list(KINDS)
    for scale in ("linear", "log"):
        for kind in kinds:
            if not thorough and rng.random() < 0.5:
                continue
            chosen = rng.sample(radio, rng.randint(1, 3))
            npnt = rng.choice([2, 3, 5]) if not thorough else rng.randint(2, 50)
            cases.append({"cls": "Inventory", "contents": {c: float(10 ** rng.uniform(3, 20)).hex() for c in chosen}, "kind": kind,
                          "tunit": rng.choice(U.TIME), "scale": scale, "tmax": float(10 ** rng.uniform(0, 6)).hex(), "npoints": npnt,
                          "explicit": ([float(x).hex() for x in sorted(rng.uniform(0, 1e4) for _ in range(rng.randint(1, 4)))] if rng.random() < 0.2 else None),
                          "plot": True, "display": "all" if rng.random() < 0.6 else rng.sample(chosen, len(chosen)), "order": rng.choice(["dataset", "alphabetical"]),
                          "yscale": rng.choice(["linear", "log"]),
                          "ymin": float(0.0 if rng.random() < 0.5 else 10 ** rng.uniform(-6, 12)).hex(),
                          "ymax": (None if rng.random() < 0.6 else float(10 ** rng.uniform(0, 25)).hex()),
                          "xmin": float(0.0 if rng.random() < 0.7 else rng.uniform(0.5, 2.0)).hex()})
    # the same requests on objects that already produced a series / plot and were then changed in place
    for c in cases:
        if rng.random() < 0.35:
            ks = list(c["contents"])
            pre = [[rng.choice(["series", "plot"]), rng.choice([c["kind"], "num", "Bq"])]]
            r = rng.random()
            if r < 0.5:
                pre.append(["add", {rng.choice(ks): float(10 ** rng.uniform(3, 20)).hex()}])
            elif r < 0.7:
                pre.append(["add", {rng.choice(radio): float(10 ** rng.uniform(3, 20)).hex()}])
            elif r < 0.85 and len(ks) > 1:
                pre.append(["remove", ks[0]])
                if c["display"] != "all":
                    c["display"] = [d for d in c["display"] if d != ks[0]] or "all"
            else:
                pre.append(["subtract", {rng.choice(ks): float(1.0).hex()}])
            c["pre"] = pre
    for k in range(12 if thorough else 3):
        c = dict(rng.choice(cases))
        c.pop("pre", None)
        c.update(cls="InventoryHP", npoints=2, contents={rng.choice(radio): float(1e10).hex()}, kind=rng.choice(["Bq", "g", "num", "mass_frac"]), explicit=None, display="all")
        cases.append(c)
    # the high-precision class on long chains at very short times: late progeny many orders of magnitude below the parent
    # (curves must still be the pointwise results at full working precision)
    for k in range(4 if thorough else 1):
        parent = rng.choice(["Th-232", "U-238", "Pu-244", "Cf-252", "Fm-257", "Np-237", "U-235"])
        cases.append({"cls": "InventoryHP", "contents": {parent: float(1e6).hex()}, "kind": rng.choice(["num", "Bq"]), "tunit": rng.choice(["ns", "μs", "s"]),
                      "scale": "linear", "tmax": float(rng.choice([2.0, 5.0, 40.0])).hex(), "npoints": 3, "explicit": None, "plot": True, "display": "all",
                      "order": "dataset", "yscale": "log", "ymin": float(0.0).hex(), "ymax": None, "xmin": float(0.0).hex()})
    impl = U.run_impl("impl_series.py", cases, timeout=6000)
    bad, lin_terms, asm_terms, asm_cases, plot_terms, plot_cases, disp_terms, disp_cases = [], [], [], [], [], [], [], []
    for c, r in zip(cases, impl):
        if "err" in r:
            if "ZeroDivision" in r["err"] or "divide" in r["err"]:
                continue
            if c["kind"].endswith("_frac") and "NaN or Inf" in r["err"]:
                continue      # fractions of an inventory whose total has decayed to zero are undefined (0/0): outside the property
            bad.append((c, "series / plot raised " + r["err"])); continue
        # the Coq model of the assembly loop, evaluated on the separate decays' read-outs, must give the returned columns
        if sum(len(p) for p in r["points"]) <= 400:
            asm_terms.append(asm_term(r["points"], r["cols"], r["data"])); asm_cases.append(c)
        # one column per nuclide of the decayed inventory, one row per time
        if r["cols"] != list(r["ref"]) or any(len(v) != len(r["times"]) for v in r["data"].values()):
            bad.append((c, "columns are not the nuclides of the decayed inventory / rows are not the time points")); continue
        if r["data"] != r["ref"]:
            k = next(k for k in r["ref"] if r["data"][k] != r["ref"][k])
            bad.append((c, f"series value for {k} differs from the separate decay read out in {c['kind']}")); continue
        if not r["df_same"] or r["df_cols"] != r["cols"] or r["df_index"] != r["times"] or r["df_index_name"] != f"Time ({c['tunit']})":
            bad.append((c, "data frame differs from the list/dict series")); continue
        times = [float.fromhex(x) for x in r["times"]]
        if c.get("explicit"):
            if r["times"] != c["explicit"]:
                bad.append((c, "user-supplied times were not used verbatim"))
        else:
            tmax = float.fromhex(c["tmax"])
            if len(times) != c["npoints"]:
                bad.append((c, f"{len(times)} time points for npoints={c['npoints']}"))
            elif c["scale"] == "linear":
                lin_terms.append(f"({Q.fhex(0.0)}, {Q.fhex(tmax)}, {c['npoints']}%nat, [" + "; ".join(Q.fhex(t) for t in times) + "])")
            else:
                # numpy.logspace = 10 ** linspace(log10(0.1), log10(tmax)): the exponents follow the linear-grid model
                # (i*step + start in binary64, last = stop), the power is libm's (2 ulp allowed)
                lo, hi = math.log10(0.1), math.log10(tmax)
                n = c["npoints"]
                step = (hi - lo) / (n - 1)
                for i, t in enumerate(times):
                    y = hi if i == n - 1 else i * step + lo
                    want = 10.0 ** y
                    if abs(t - want) > 2 * math.ulp(want):
                        bad.append((c, f"log grid point {i} is {t!r}, expected 10**{y!r} = {want!r}")); break
        if "plot" in r:
            p = r["plot"]
            if sum(len(q) for q in p["points"]) <= 400 and len(p["ydata"]) == len(p["nuclides"]):
                plot_terms.append(plot_term(p["points"], p["nuclides"], p["ydata"])); plot_cases.append(c)
            if c["display"] == "all":
                disp_terms.append(f"({Q.cstr(c['order'])}, [" + "; ".join(Q.cstr(n) for n in p["all_nuclides"]) + "], [" + "; ".join(Q.cstr(n) for n in p["nuclides"]) + "])")
                disp_cases.append(c)
            if p["ylabel"] != ylabel(c["kind"]) or p["xunits"] != c["tunit"]:
                bad.append((c, f"plot labels {p['ylabel']!r} / {p['xunits']!r} do not name the requested unit"))
            want_n = p["dataset_order"] if c["order"] == "dataset" else p["all_nuclides"]
            if c["display"] == "all" and p["nuclides"] != want_n:
                bad.append((c, "plotted nuclides / order differ from the decayed inventory in the requested order"))
            if c["display"] != "all" and p["nuclides"] != list(c["display"]):
                bad.append((c, "plotted nuclides are not the requested ones in the requested order"))
            if [list(x) for x in zip(*p["ydata"])] != p["ref"]:
                bad.append((c, f"plotted curve values differ from separate decays read out in {c['kind']}"))
            # what is actually drawn: one line per displayed nuclide, carrying exactly the time points and the values above
            shown = [n for n in p["nuclides"] if n in p["display"]]
            if [ln[0] for ln in p["lines"]] != shown:
                bad.append((c, f"drawn curves {[ln[0] for ln in p['lines']]} are not the displayed nuclides {shown}"))
            else:
                col = {n: j for j, n in enumerate(p["nuclides"])}
                for lab, xs, ysl in p["lines"]:
                    if xs != p["time_points"] or ysl != [row[col[lab]] for row in p["ref"]]:
                        bad.append((c, f"drawn curve values of {lab} differ from separate decays read out in {c['kind']}")); break
            ax = p["axes"]
            if ax["ylabel"] != ylabel(c["kind"]) or ax["xlabel"] != f"Time ({c['tunit']})" or ax["xscale"] != c["scale"] or ax["yscale"] != c["yscale"]:
                bad.append((c, f"axes labels / scales {ax} do not name the request"))
            ys = [float.fromhex(v) for row in p["ydata"] for v in row]
            lim = [float.fromhex(v) for v in p["ylimits"]]
            if ys and all(math.isfinite(y) for y in ys):
                ymin = float.fromhex(c["ymin"])
                exp_hi = float.fromhex(c["ymax"]) if c.get("ymax") else 1.05 * max(ys)
                exp_lo = 0.95 * min(ys) if (c["yscale"] == "log" and ymin == 0.0) else ymin
                if lim[1] != exp_hi or lim[0] != exp_lo:
                    bad.append((c, f"y-limits {lim} do not span the data (expected [{exp_lo!r}, {exp_hi!r}])"))
            xmin = float.fromhex(c["xmin"])
            tp = [float.fromhex(x) for x in p["time_points"]]
            if c["scale"] == "linear" and (tp[0] != xmin or tp[-1] != float.fromhex(c["tmax"])):
                bad.append((c, "plot time grid does not run from xmin to xmax"))
    badl, errs = Q.run_cases("linspace", PRE, "float * float * nat * list float", lin_terms, "chk", shard=100)
    bada, errsa = Q.run_cases("assemble", PRE_ASM, "list (list (str * float)) * list (str * list float)", asm_terms, "chka", shard=40)
    badp, errsp = Q.run_cases("plotcurves", PRE_PLOT, "list (list (str * float)) * list str * list (str * list float)", plot_terms, "chkp", shard=40)
    badd, errsd = Q.run_cases("plotdisplay", PRE_DISP, "str * list str * list str", disp_terms, "chkd", shard=40)
    errs = errs + errsa + errsp + errsd
    kinds_seen = sorted({c["kind"] for c in cases})
    streams["series"] = {"cases": len(cases), "kinds": len(kinds_seen), "linear_grids_bitexact_in_coq": len(lin_terms), "grid_model_disagrees": len(badl),
                         "impl_property_failures": len(bad), "assembly_model_in_coq": len(asm_terms), "assembly_model_disagrees": len(bada), "plot_curves_model_in_coq": len(plot_terms), "plot_curves_model_disagrees": len(badp), "plot_display_model_in_coq": len(disp_terms), "plot_display_model_disagrees": len(badd), "coq_errors": len(errs), "hp": sum(1 for c in cases if c["cls"] == "InventoryHP"),
                         "what": "decay_time_series / _pandas / plot (captured decay_graph arguments) for the 47 read-out kinds x {linear, log}: values bit-identical "
                                 "to separate decays at each time, columns = decayed inventory, grid (linear bit-exact vs the PrimFloat model of linspace; log: exponents on that grid, power within 2 ulp), "
                                 "explicit times verbatim, labels, curve order, y-limits; the lines actually drawn on the axes (labels, x, y bit-identical); "
                                 "the columns also equal the Coq model of the defaultdict assembly loop (Model/SeriesAsm.v, theorems Props/C13b.v) evaluated on the separate decays' read-outs, and the curves handed to decay_graph equal the model plot_curves; "
                                 "a third of the requests on objects that already produced a series/plot and were then changed in place"}
    seen = set()
    for c, why in bad:
        k = why.split(" for ")[0][:50]
        if k in seen:
            continue
        seen.add(k)
        viol.append({"name": f"series-{len(seen)}", "found_input": True, "key": "series:" + k,
                     "payload": {"fails": why, "input": c, "entry": "decay_time_series / decay_time_series_pandas / plot"}})
        if len(seen) >= 5:
            break
    for i in badl[:2]:
        viol.append({"name": f"linspace-model-{i}", "found_input": False, "key": f"linspace-model:{i}",
                     "payload": {"broken": "PrimFloat model of the linear time grid and the implementation disagree", "case": lin_terms[i][:300]}})
    for i in bada[:2]:
        if not any(asm_cases[i] is c for c, _ in bad):
            viol.append({"name": f"assemble-model-{i}", "found_input": True, "key": f"assemble-model:{asm_cases[i]['kind']}",
                         "payload": {"fails": "the columns returned by decay_time_series differ from the proved assembly (Model/SeriesAsm.v assemble) of the separate decays' read-outs",
                                     "input": asm_cases[i], "entry": "decay_time_series"}})
    for i in badd[:2]:
        if not any(disp_cases[i] is c for c, _ in bad):
            viol.append({"name": f"plot-display-model-{i}", "found_input": True, "key": f"plot-display-model:{disp_cases[i]['order']}",
                         "payload": {"fails": "the nuclides / order handed to decay_graph for display='all' differ from the proved model (Model/SeriesAsm.v plot_display_all)",
                                     "input": disp_cases[i], "entry": "plot"}})
    for i in badp[:2]:
        if not any(plot_cases[i] is c for c, _ in bad):
            viol.append({"name": f"plot-curves-model-{i}", "found_input": True, "key": f"plot-curves-model:{plot_cases[i]['kind']}",
                         "payload": {"fails": "the curves handed to decay_graph differ from the proved model (Model/SeriesAsm.v plot_curves) of the separate decays' read-outs",
                                     "input": plot_cases[i], "entry": "plot"}})
    if errs:
        viol.append({"name": "series-coq", "found_input": False, "key": "series-coq", "payload": {"broken": "Coq evaluation failed", "errors": errs[:2]}})
    samples.append({"case": {k: v for k, v in cases[0].items() if k != "contents"}, "times": impl[0].get("times")})
