"""C15 - decay-data queries report the dataset faithfully and agree with each other."""
import random
import common as C
import corr_units as U

PID = "C15"
PROPS_MODULE = "Props.C15"
THEOREMS = ["default_reporting_data_consistent", "readable_same_duration", "half_life_shortcut_sound",
            "half_life_converted", "lookup_hit", "lookup_miss", "branching_fraction_hit", "branching_fraction_miss"]
REQUIRED = ["Props/C15.v", "Model/Queries.v"]
TRANSLATORS = ["synth_dataset", "tr_data_synth", "tr_pure", "tr_tables", "tr_data"]
SHAPE_KEYS = ["DecayData::half_life", "DecayData::branching_fraction", "DecayData::decay_mode", "DecayData::__init__",
              "Nuclide::half_life", "Nuclide::progeny", "Nuclide::branching_fractions", "Nuclide::decay_modes",
              "Nuclide::atomic_mass", "AbstractInventory::half_lives", "AbstractInventory::progeny",
              "AbstractInventory::branching_fractions", "AbstractInventory::decay_modes"]
PARTIAL = ["half_life/branching_fraction/decay_mode are hand-modelled (Model/Queries.v, suffix _handmodel in DESIGN): tie = recorded "
           "source text (tr_shapes) + exhaustive correspondence over all nuclides, units and in-chain pairs"]
TRUSTED_BASE = [
    "Coq 8.16.1 kernel incl. vm_compute",
    "axioms: standard Reals axioms; Uint63/PrimFloat primitives for the data certificate",
    "translators tr_data.py, tr_tables.py, tr_pure.py; tr_shapes.py source-text ties",
    "PrimFloat as the model of IEEE binary64",
]
ASSUMPTIONS = []


def correspondence(ctx):
    rng = random.Random(ctx["seed"] + 15)
    streams, viol, samples = {}, [], []
    U.queries_stream(rng, ctx["tier"] == "thorough", streams, viol, samples)
    U.queries_stream(rng, True, streams, viol, samples, ds="synth")
    return {"streams": streams, "violations": viol, "samples": samples}


def search_broken(ctx):
    return []


def replay(payload):
    name = payload.get("input")
    if not isinstance(name, str):
        return {"fails": True, "note": "nothing to replay; theorem/correspondence named in the file"}
    r = U.run_impl("impl_queries.py", {"units": U.TIME, "nuclides": [name], "pairs": True})[0]
    return {"fails": True, "impl": r, "note": "re-evaluate the predicate named in 'fails' on this output"}
