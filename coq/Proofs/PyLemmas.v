(* Reusable lemmas about the Python-runtime model Lib/Py.v, the generated Unicode range tables
   (restricted to ASCII) and the spec vocabulary Model/NuclideSpec.v.
   Nothing here mentions Gen/UtilsGen.v.  All finite facts are proved by computation over
   [nrange 128] and lifted with [forallb_forall]. *)
From Coq Require Import ZArith NArith List Bool Lia.
From RD Require Import Base Lib.Py Gen.Tables Model.NuclideSpec.
Import ListNotations.

(* ------------------------------------------------------------------ finite quantification *)
Definition nrange (n : nat) : list N := map N.of_nat (seq 0 n).

Lemma nrange_in : forall n c, (N.to_nat c < n)%nat -> In c (nrange n).
Proof.
  intros n c Hc. unfold nrange. rewrite <- (N2Nat.id c). apply in_map. apply in_seq. lia.
Qed.

Lemma forall_lt128 (P : N -> bool) :
  forallb P (nrange 128) = true -> forall c, (c < 128)%N -> P c = true.
Proof.
  intros H c Hc. rewrite forallb_forall in H. apply H. apply nrange_in. lia.
Qed.

(* ------------------------------------------------------------------ generic list facts *)
Lemma filter_all_false {A} (f : A -> bool) l : (forall x, In x l -> f x = false) -> filter f l = [].
Proof.
  induction l as [|a l IH]; intros H; cbn; [reflexivity|].
  rewrite (H a (or_introl eq_refl)). apply IH. intros x Hx. apply H. right. exact Hx.
Qed.

Lemma filter_all_true {A} (f : A -> bool) l : (forall x, In x l -> f x = true) -> filter f l = l.
Proof.
  induction l as [|a l IH]; intros H; cbn; [reflexivity|].
  rewrite (H a (or_introl eq_refl)). f_equal. apply IH. intros x Hx. apply H. right. exact Hx.
Qed.

Lemma filter_idem {A} (f : A -> bool) l : filter f (filter f l) = filter f l.
Proof.
  apply filter_all_true. intros x Hx. apply filter_In in Hx. tauto.
Qed.

Lemma forallb_In {A} (f : A -> bool) l x : forallb f l = true -> In x l -> f x = true.
Proof. intros H. rewrite forallb_forall in H. apply H. Qed.

Lemma existsb_all_false {A} (f : A -> bool) l : (forall x, In x l -> f x = false) -> existsb f l = false.
Proof.
  induction l as [|a l IH]; intros H; cbn; [reflexivity|].
  rewrite (H a (or_introl eq_refl)). cbn. apply IH. intros x Hx. apply H. right. exact Hx.
Qed.

(* ------------------------------------------------------------------ s_eqb *)
Lemma s_eqb_eq : forall a b, s_eqb a b = true <-> a = b.
Proof.
  induction a as [|x a IH]; destruct b as [|y b]; cbn; split; intro H; try easy.
  - apply andb_true_iff in H. destruct H as [H1 H2]. apply N.eqb_eq in H1. apply IH in H2. congruence.
  - inversion H; subst. rewrite N.eqb_refl. cbn. apply IH. reflexivity.
Qed.

Lemma s_eqb_refl : forall a, s_eqb a a = true.
Proof. intros a. apply s_eqb_eq. reflexivity. Qed.

Lemma s_eqb_nil_r : forall a, s_eqb a [] = match a with [] => true | _ => false end.
Proof. destruct a; reflexivity. Qed.

(* ------------------------------------------------------------------ ASCII classes *)
Lemma a_digit_lt128 c : a_digit c = true -> (c < 128)%N.
Proof. unfold a_digit. rewrite andb_true_iff, !N.leb_le. lia. Qed.

Lemma a_letter_lt128 c : a_letter c = true -> (c < 128)%N.
Proof. unfold a_letter, a_upper, a_lower. rewrite orb_true_iff, !andb_true_iff, !N.leb_le. lia. Qed.

(* the generated Unicode predicates, restricted to ASCII, are the simple ASCII definitions *)
Definition ascii_space (c : N) : bool := (N.leb 9 c && N.leb c 13) || (N.leb 28 c && N.leb c 32).
Definition a_capfirst (c : N) : N := if a_lower c then (c - 32)%N else c.

Definition ascii_table_ok (c : N) : bool :=
  Bool.eqb (c_isspace c) (ascii_space c)
  && Bool.eqb (c_isdigit c) (a_digit c)
  && Bool.eqb (c_isdecimal c) (a_digit c)
  && Bool.eqb (c_isalnum c) (a_digit c || a_letter c)
  && Bool.eqb (c_is_ascii c) true
  && s_eqb (c_lower c) [a_fold c]
  && s_eqb (c_capfirst c) [a_capfirst c]
  && (match c_decimal_value c with
      | Some d => a_digit c && N.eqb d (c - 48)
      | None => negb (a_digit c)
      end).

Lemma ascii_table : forall c, (c < 128)%N -> ascii_table_ok c = true.
Proof. apply forall_lt128. vm_compute. reflexivity. Qed.

Section AsciiFacts.
  Variable c : N.
  Hypothesis Hc : (c < 128)%N.

  Let T := ascii_table c Hc.

  Ltac split_table H :=
    unfold ascii_table_ok in H;
    repeat match type of H with
           | (_ && _) = true => let H' := fresh "Hconj" in apply andb_true_iff in H; destruct H as [H H']
           end.

  Lemma ascii_isspace : c_isspace c = ascii_space c.
  Proof. pose proof T as H. split_table H. apply eqb_prop. assumption. Qed.
  Lemma ascii_isdigit : c_isdigit c = a_digit c.
  Proof. pose proof T as H. split_table H. apply eqb_prop. assumption. Qed.
  Lemma ascii_isdecimal : c_isdecimal c = a_digit c.
  Proof. pose proof T as H. split_table H. apply eqb_prop. assumption. Qed.
  Lemma ascii_isalnum : c_isalnum c = a_digit c || a_letter c.
  Proof. pose proof T as H. split_table H. apply eqb_prop. assumption. Qed.
  Lemma ascii_is_ascii : c_is_ascii c = true.
  Proof. unfold c_is_ascii. apply N.ltb_lt. exact Hc. Qed.
  Lemma ascii_lower : c_lower c = [a_fold c].
  Proof. pose proof T as H. split_table H. apply s_eqb_eq. assumption. Qed.
  Lemma ascii_capfirst : c_capfirst c = [a_capfirst c].
  Proof. pose proof T as H. split_table H. apply s_eqb_eq. assumption. Qed.
  Lemma ascii_decimal_value : c_decimal_value c = if a_digit c then Some (c - 48)%N else None.
  Proof. pose proof T as H. split_table H. clear H. rename Hconj into H.
         destruct (c_decimal_value c) as [d|].
         - apply andb_true_iff in H. destruct H as [H1 H2]. rewrite H1. apply N.eqb_eq in H2. congruence.
         - apply negb_true_iff in H. rewrite H. reflexivity. Qed.
End AsciiFacts.

Lemma a_digit_not_letter c : a_digit c = true -> a_letter c = false.
Proof.
  unfold a_digit, a_letter, a_upper, a_lower. rewrite andb_true_iff, !N.leb_le. intros H.
  apply orb_false_iff. split; apply andb_false_iff; rewrite !N.leb_gt; lia.
Qed.

Lemma a_letter_not_digit c : a_letter c = true -> a_digit c = false.
Proof.
  intros H. destruct (a_digit c) eqn:E; [|reflexivity]. apply a_digit_not_letter in E. congruence.
Qed.

Lemma ascii_space_false c : a_digit c || a_letter c || N.eqb c 45 = true -> ascii_space c = false.
Proof.
  unfold ascii_space, a_digit, a_letter, a_upper, a_lower.
  rewrite !orb_true_iff, !andb_true_iff, !N.leb_le, N.eqb_eq. intros H.
  apply orb_false_iff. split; apply andb_false_iff; rewrite !N.leb_gt; lia.
Qed.

(* facts for ASCII digits *)
Lemma digit_isspace c : a_digit c = true -> c_isspace c = false.
Proof. intros H. rewrite ascii_isspace by (apply a_digit_lt128; exact H).
       apply ascii_space_false. rewrite H. reflexivity. Qed.
Lemma digit_isdigit c : a_digit c = true -> c_isdigit c = true.
Proof. intros H. rewrite ascii_isdigit by (apply a_digit_lt128; exact H). exact H. Qed.
Lemma digit_isalnum c : a_digit c = true -> c_isalnum c = true.
Proof. intros H. rewrite ascii_isalnum by (apply a_digit_lt128; exact H). rewrite H. reflexivity. Qed.
Lemma digit_is_ascii c : a_digit c = true -> c_is_ascii c = true.
Proof. intros H. apply ascii_is_ascii. apply a_digit_lt128. exact H. Qed.
Lemma digit_decimal_value c : a_digit c = true -> c_decimal_value c = Some (c - 48)%N.
Proof. intros H. rewrite ascii_decimal_value by (apply a_digit_lt128; exact H). rewrite H. reflexivity. Qed.
Lemma digit_int_special c : a_digit c = true -> c_int_special c = false.
Proof.
  intros H. unfold c_int_special. rewrite (digit_isspace c H). cbn.
  unfold a_digit in H. rewrite andb_true_iff, !N.leb_le in H.
  rewrite !orb_false_iff. repeat split; apply N.eqb_neq; lia.
Qed.
Lemma digit_not_hyphen c : a_digit c = true -> c <> 45%N.
Proof. unfold a_digit. rewrite andb_true_iff, !N.leb_le. lia. Qed.

(* facts for ASCII letters *)
Lemma letter_isspace c : a_letter c = true -> c_isspace c = false.
Proof. intros H. rewrite ascii_isspace by (apply a_letter_lt128; exact H).
       apply ascii_space_false. rewrite H. rewrite orb_true_r. reflexivity. Qed.
Lemma letter_isdigit c : a_letter c = true -> c_isdigit c = false.
Proof. intros H. rewrite ascii_isdigit by (apply a_letter_lt128; exact H). apply a_letter_not_digit. exact H. Qed.
Lemma letter_isalnum c : a_letter c = true -> c_isalnum c = true.
Proof. intros H. rewrite ascii_isalnum by (apply a_letter_lt128; exact H). rewrite H. apply orb_true_r. Qed.
Lemma letter_is_ascii c : a_letter c = true -> c_is_ascii c = true.
Proof. intros H. apply ascii_is_ascii. apply a_letter_lt128. exact H. Qed.
Lemma letter_not_hyphen c : a_letter c = true -> c <> 45%N.
Proof. unfold a_letter, a_upper, a_lower. rewrite orb_true_iff, !andb_true_iff, !N.leb_le. lia. Qed.
Lemma letter_not_digit_char c d : a_letter c = true -> a_digit d = true -> c <> d.
Proof. intros Hc Hd E. subst. apply a_letter_not_digit in Hc. congruence. Qed.

(* hyphen *)
Lemma hyphen_isspace : c_isspace 45 = false.
Proof. vm_compute. reflexivity. Qed.

(* ------------------------------------------------------------------ whitespace removal *)
Lemma remove_ws_idem s : s_remove_ws (s_remove_ws s) = s_remove_ws s.
Proof. apply filter_idem. Qed.

Lemma remove_ws_id s : (forall c, In c s -> c_isspace c = false) -> s_remove_ws s = s.
Proof. intros H. apply filter_all_true. intros c Hc. rewrite (H c Hc). reflexivity. Qed.

Lemma remove_ws_app a b : s_remove_ws (a ++ b) = s_remove_ws a ++ s_remove_ws b.
Proof. apply filter_app. Qed.

Lemma remove_ws_In s c : In c (s_remove_ws s) -> In c s /\ c_isspace c = false.
Proof. intros H. apply filter_In in H. destruct H as [H1 H2]. apply negb_true_iff in H2. tauto. Qed.

(* ------------------------------------------------------------------ s_prefix / replace / split *)
Lemma s_prefix_app : forall a q, s_prefix a (a ++ q) = Some q.
Proof. induction a as [|x a IH]; intros q; cbn; [reflexivity|]. rewrite N.eqb_refl. apply IH. Qed.

Lemma s_prefix_head_neq : forall d a c r, c <> d -> s_prefix (d :: a) (c :: r) = None.
Proof. intros d a c r H. cbn. destruct (N.eqb_spec d c); [congruence|reflexivity]. Qed.

Lemma s_prefix_some : forall a s r, s_prefix a s = Some r -> s = a ++ r.
Proof.
  induction a as [|x a IH]; intros s r H; cbn in H.
  - inversion H. reflexivity.
  - destruct s as [|y s]; [discriminate|]. destruct (N.eqb_spec x y); [|discriminate].
    subst. cbn. f_equal. apply IH. exact H.
Qed.

(* s.replace(d ++ a, new, 1) *)
Lemma replace_first_absent : forall d a new s, (forall c, In c s -> c <> d) ->
  s_replace_first (d :: a) new s = s.
Proof.
  intros d a new. induction s as [|c s IH]; intros H; [reflexivity|].
  cbn [s_replace_first]. rewrite s_prefix_head_neq by (apply H; left; reflexivity).
  f_equal. apply IH. intros x Hx. apply H. right. exact Hx.
Qed.

Lemma replace_first_unfold old new s :
  s_replace_first old new s =
  match s_prefix old s with
  | Some rest => new ++ rest
  | None => match s with [] => [] | c :: r => c :: s_replace_first old new r end
  end.
Proof. destruct s; reflexivity. Qed.

Lemma replace_first_once : forall d a new p r, (forall c, In c p -> c <> d) ->
  s_replace_first (d :: a) new (p ++ (d :: a) ++ r) = p ++ new ++ r.
Proof.
  intros d a new. induction p as [|c p IH]; intros r H.
  - cbn [app]. rewrite replace_first_unfold.
    change (d :: a ++ r) with ((d :: a) ++ r). rewrite s_prefix_app. reflexivity.
  - rewrite <- !app_comm_cons. rewrite replace_first_unfold.
    rewrite s_prefix_head_neq by (apply H; left; reflexivity).
    f_equal. apply IH. intros x Hx. apply H. right. exact Hx.
Qed.

(* s.split(d ++ a) *)
Lemma split_fuel_absent : forall d a s f cur, (forall c, In c s -> c <> d) ->
  s_split_on_fuel f (d :: a) cur s = [rev cur ++ s].
Proof.
  intros d a. induction s as [|c s IH]; intros f cur H; destruct f as [|f]; cbn [s_split_on_fuel];
    try reflexivity.
  - rewrite app_nil_r. reflexivity.
  - rewrite s_prefix_head_neq by (apply H; left; reflexivity).
    rewrite IH by (intros x Hx; apply H; right; exact Hx).
    cbn [rev]. rewrite <- app_assoc. reflexivity.
Qed.

Lemma split_fuel_once : forall d a p q f cur,
  (forall c, In c p -> c <> d) -> (forall c, In c q -> c <> d) -> (length p < f)%nat ->
  s_split_on_fuel f (d :: a) cur (p ++ (d :: a) ++ q) = [rev cur ++ p; q].
Proof.
  intros d a. induction p as [|c p IH]; intros q f cur Hp Hq Hf.
  - destruct f as [|f]; [inversion Hf|]. cbn [app s_split_on_fuel].
    change (d :: a ++ q) with ((d :: a) ++ q). rewrite s_prefix_app. rewrite split_fuel_absent by exact Hq. rewrite app_nil_r. reflexivity.
  - destruct f as [|f]; [inversion Hf|]. rewrite <- app_comm_cons. cbn [s_split_on_fuel].
    rewrite s_prefix_head_neq by (apply Hp; left; reflexivity).
    rewrite IH; [| intros x Hx; apply Hp; right; exact Hx | exact Hq | cbn in Hf; lia].
    cbn [rev]. rewrite <- app_assoc. reflexivity.
Qed.

Lemma split_on_once : forall d a p q,
  (forall c, In c p -> c <> d) -> (forall c, In c q -> c <> d) ->
  s_split_on (d :: a) (p ++ (d :: a) ++ q) = OK [p; q].
Proof.
  intros d a p q Hp Hq. unfold s_split_on. f_equal.
  rewrite split_fuel_once; [reflexivity | exact Hp | exact Hq |]. rewrite app_length. lia.
Qed.

(* ------------------------------------------------------------------ list indexing *)
Lemma l_get_0 {A} (x : A) r : l_get (x :: r) 0 = OK x.
Proof.
  unfold l_get. cbn [length]. rewrite Nat2Z.inj_succ.
  replace (0 <? 0)%Z with false by reflexivity. cbn [orb].
  destruct (Z.leb_spec (Z.succ (Z.of_nat (length r))) 0); [lia|]. reflexivity.
Qed.

Lemma l_get_1 {A} (x y : A) r : l_get (x :: y :: r) 1 = OK y.
Proof.
  unfold l_get. cbn [length]. rewrite !Nat2Z.inj_succ.
  replace (1 <? 0)%Z with false by reflexivity. cbn [orb].
  destruct (Z.leb_spec (Z.succ (Z.succ (Z.of_nat (length r)))) 1); [lia|]. reflexivity.
Qed.

Lemma len_nonempty_eqb0 {A} (l : list A) : l <> [] -> Z.eqb (Z.of_nat (length l)) 0 = false.
Proof. destruct l; [congruence|]. intros _. cbn [length]. apply Z.eqb_neq. lia. Qed.

(* ------------------------------------------------------------------ character classes of strings *)
Lemma all_letters_In p c : all_letters p = true -> In c p -> a_letter c = true.
Proof. apply forallb_In. Qed.
Lemma all_digits_In p c : all_digits p = true -> In c p -> a_digit c = true.
Proof. apply forallb_In. Qed.

Lemma filter_digits_letters p : all_letters p = true -> s_filter_digits p = [].
Proof. intros H. apply filter_all_false. intros c Hc. apply letter_isdigit. exact (all_letters_In p c H Hc). Qed.
Lemma filter_digits_digits a : all_digits a = true -> s_filter_digits a = a.
Proof. intros H. apply filter_all_true. intros c Hc. apply digit_isdigit. exact (all_digits_In a c H Hc). Qed.

Lemma filter_digits_pAq p a q : all_letters p = true -> all_digits a = true -> all_letters q = true ->
  s_filter_digits (p ++ a ++ q) = a.
Proof.
  intros Hp Ha Hq. unfold s_filter_digits. rewrite !filter_app.
  fold (s_filter_digits p) (s_filter_digits a) (s_filter_digits q).
  rewrite (filter_digits_letters p Hp), (filter_digits_letters q Hq), (filter_digits_digits a Ha).
  rewrite app_nil_r. reflexivity.
Qed.

Lemma isalnum_pAq p a q : all_letters p = true -> all_digits a = true -> all_letters q = true -> a <> [] ->
  s_isalnum (p ++ a ++ q) = true.
Proof.
  intros Hp Ha Hq Hne. unfold s_isalnum.
  destruct (p ++ a ++ q) eqn:E.
  - apply app_eq_nil in E. destruct E as [_ E]. apply app_eq_nil in E. tauto.
  - rewrite <- E. apply forallb_forall. intros c Hc. rewrite !in_app_iff in Hc.
    destruct Hc as [Hc|[Hc|Hc]].
    + apply letter_isalnum. exact (all_letters_In p c Hp Hc).
    + apply digit_isalnum. exact (all_digits_In a c Ha Hc).
    + apply letter_isalnum. exact (all_letters_In q c Hq Hc).
Qed.

Lemma isascii_pAq p a q : all_letters p = true -> all_digits a = true -> all_letters q = true ->
  s_isascii (p ++ a ++ q) = true.
Proof.
  intros Hp Ha Hq. unfold s_isascii. apply forallb_forall. intros c Hc. rewrite !in_app_iff in Hc.
  destruct Hc as [Hc|[Hc|Hc]].
  - apply letter_is_ascii. exact (all_letters_In p c Hp Hc).
  - apply digit_is_ascii. exact (all_digits_In a c Ha Hc).
  - apply letter_is_ascii. exact (all_letters_In q c Hq Hc).
Qed.

(* ------------------------------------------------------------------ int(str) *)
Definition dstep (acc : Z) (c : N) : Z := (acc * 10 + Z.of_N (c - 48))%Z.

Lemma dvalue_fold s : dvalue s = fold_left dstep s 0%Z.
Proof. reflexivity. Qed.

Lemma digits_value_fold : forall s acc, all_digits s = true ->
  s_digits_value acc s = Some (fold_left dstep s acc).
Proof.
  induction s as [|c s IH]; intros acc H; [reflexivity|].
  cbn in H. apply andb_true_iff in H. destruct H as [Hc Hs].
  cbn [s_digits_value fold_left]. rewrite (digit_decimal_value c Hc). apply IH. exact Hs.
Qed.

Lemma fold_dstep_ge : forall s acc, (0 <= acc)%Z -> (acc <= fold_left dstep s acc)%Z.
Proof.
  induction s as [|c s IH]; intros acc H; cbn [fold_left]; [lia|].
  assert (acc <= dstep acc c)%Z by (unfold dstep; lia).
  specialize (IH (dstep acc c)). lia.
Qed.

(* a digit string without leading zero whose value is at most 999 has at most three digits *)
Lemma digits_len3 A : all_digits A = true ->
  (match A with c :: _ => negb (N.eqb c 48) | [] => false end) = true ->
  (dvalue A <= 999)%Z -> (1 <= length A <= 3)%nat.
Proof.
  intros Hd Hz Hv.
  destruct A as [|a [|b [|c [|d r]]]]; cbn [length]; try lia; try discriminate.
  exfalso. rewrite dvalue_fold in Hv. cbn [fold_left] in Hv.
  cbn in Hd. rewrite !andb_true_iff in Hd. destruct Hd as (Ha & Hb & Hc & Hd & _).
  apply negb_true_iff, N.eqb_neq in Hz.
  unfold a_digit in Ha, Hb, Hc, Hd. rewrite andb_true_iff, !N.leb_le in Ha, Hb, Hc, Hd.
  pose proof (fold_dstep_ge r (dstep (dstep (dstep (dstep 0 a) b) c) d)) as G.
  unfold dstep in G, Hv. lia.
Qed.

Lemma s_int_digits A : all_digits A = true -> A <> [] -> (length A <= 4300)%nat ->
  s_int A = OK (dvalue A).
Proof.
  intros Hd Hne Hlen. unfold s_int. destruct A as [|a A']; [congruence|].
  rewrite existsb_all_false by (intros c Hc; apply digit_int_special; exact (all_digits_In _ c Hd Hc)).
  rewrite digits_value_fold by exact Hd.
  replace (Nat.ltb 4300 (length (a :: A'))) with false by (symmetry; apply Nat.ltb_ge; exact Hlen).
  reflexivity.
Qed.

(* ------------------------------------------------------------------ s.strip(chars) *)
Lemma lstrip_all_in : forall chars a b, (forall c, In c a -> c_in c chars = true) ->
  (match b with [] => true | c :: _ => negb (c_in c chars) end) = true ->
  s_lstrip chars (a ++ b) = b.
Proof.
  intros chars. induction a as [|x a IH]; intros b Ha Hb.
  - cbn [app]. destruct b as [|c b]; [reflexivity|]. cbn [s_lstrip].
    apply negb_true_iff in Hb. rewrite Hb. reflexivity.
  - cbn [app s_lstrip]. rewrite (Ha x (or_introl eq_refl)). apply IH; [|exact Hb].
    intros c Hc. apply Ha. right. exact Hc.
Qed.

Lemma lstrip_head_out : forall chars c r, c_in c chars = false -> s_lstrip chars (c :: r) = c :: r.
Proof. intros chars c r H. cbn [s_lstrip]. rewrite H. reflexivity. Qed.

(* ------------------------------------------------------------------ ASCII case folding *)
Lemma a_fold_cases c' c : a_fold c' = a_fold c -> c' = c \/ c' = (c + 32)%N \/ c' = (c - 32)%N.
Proof.
  unfold a_fold, a_upper.
  destruct (N.leb_spec 65 c'), (N.leb_spec c' 90), (N.leb_spec 65 c), (N.leb_spec c 90); cbn; lia.
Qed.

Fixpoint fold_variants (b : str) : list str :=
  match b with
  | [] => [[]]
  | c :: r => flat_map (fun v => [c :: v; (c + 32)%N :: v; (c - 32)%N :: v]) (fold_variants r)
  end.

(* every string equal to [b] up to ASCII case is among these (finitely many) variants *)
Definition case_variants (b : str) : list str :=
  filter (fun v => s_eqb (map a_fold v) (map a_fold b)) (fold_variants b).

Lemma same_fold_variants : forall b a, same_fold a b -> In a (fold_variants b).
Proof.
  unfold same_fold. induction b as [|c b IH]; intros a H.
  - destruct a; [left; reflexivity|discriminate].
  - destruct a as [|c' a]; [discriminate|]. cbn [map] in H. inversion H as [[H1 H2]].
    cbn [fold_variants]. apply in_flat_map. exists a. split; [apply IH; exact H2|].
    destruct (a_fold_cases c' c H1) as [E|[E|E]]; subst; cbn; tauto.
Qed.

Lemma same_fold_case_variants : forall a b, same_fold a b -> In a (case_variants b).
Proof.
  intros a b H. unfold case_variants. apply filter_In. split.
  - apply same_fold_variants. exact H.
  - apply s_eqb_eq. exact H.
Qed.

(* ------------------------------------------------------------------ token strings have no whitespace *)
Definition tokc (c : N) : bool := a_digit c || a_letter c || N.eqb c 45.
Definition all_tok (s : str) : bool := forallb tokc s.

Lemma tokc_isspace c : tokc c = true -> c_isspace c = false.
Proof.
  intros H. assert (Hc : (c < 128)%N).
  { unfold tokc in H. rewrite !orb_true_iff in H. destruct H as [[H|H]|H].
    - apply a_digit_lt128; exact H.
    - apply a_letter_lt128; exact H.
    - apply N.eqb_eq in H. lia. }
  rewrite ascii_isspace by exact Hc. apply ascii_space_false. exact H.
Qed.

Lemma all_tok_app a b : all_tok (a ++ b) = all_tok a && all_tok b.
Proof. apply forallb_app. Qed.
Lemma all_tok_letters p : all_letters p = true -> all_tok p = true.
Proof.
  intros H. apply forallb_forall. intros c Hc. unfold tokc.
  rewrite (all_letters_In p c H Hc). rewrite orb_true_r. reflexivity.
Qed.
Lemma all_tok_digits p : all_digits p = true -> all_tok p = true.
Proof.
  intros H. apply forallb_forall. intros c Hc. unfold tokc.
  rewrite (all_digits_In p c H Hc). reflexivity.
Qed.
Lemma all_tok_hyphen : all_tok hyphen = true.
Proof. reflexivity. Qed.

Lemma remove_ws_tok s : all_tok s = true -> s_remove_ws s = s.
Proof. intros H. apply remove_ws_id. intros c Hc. apply tokc_isspace. exact (forallb_In _ _ _ H Hc). Qed.

(* ------------------------------------------------------------------ digit strings of length 1..3 *)
Definition drange : list N := map N.of_nat (seq 48 10).     (* '0'..'9' *)
Definition nzrange : list N := map N.of_nat (seq 49 9).     (* '1'..'9' *)
Definition digit_strings : list str :=
  map (fun a => [a]) nzrange
  ++ flat_map (fun a => map (fun b => [a; b]) drange) nzrange
  ++ flat_map (fun a => flat_map (fun b => map (fun c => [a; b; c]) drange) drange) nzrange.

Lemma in_drange c : a_digit c = true -> In c drange.
Proof.
  unfold a_digit. rewrite andb_true_iff, !N.leb_le. intros H. unfold drange.
  rewrite <- (N2Nat.id c). apply in_map. apply in_seq. lia.
Qed.
Lemma in_nzrange c : a_digit c = true -> negb (N.eqb c 48) = true -> In c nzrange.
Proof.
  unfold a_digit. rewrite andb_true_iff, !N.leb_le, negb_true_iff, N.eqb_neq. intros H Hz. unfold nzrange.
  rewrite <- (N2Nat.id c). apply in_map. apply in_seq. lia.
Qed.

Lemma in_digit_strings A : all_digits A = true ->
  (match A with c :: _ => negb (N.eqb c 48) | [] => false end) = true ->
  (dvalue A <= 999)%Z -> In A digit_strings.
Proof.
  intros Hd Hz Hv. pose proof (digits_len3 A Hd Hz Hv) as Hl.
  destruct A as [|a [|b [|c [|d r]]]]; cbn [length] in Hl; try lia; clear Hl Hv;
    cbn in Hd; rewrite ?andb_true_iff in Hd; unfold digit_strings; rewrite !in_app_iff.
  - destruct Hd as [Ha _].
    left. apply (in_map (fun a0 => [a0])). apply in_nzrange; assumption.
  - destruct Hd as (Ha & Hb & _).
    right; left. apply in_flat_map. exists a. split; [apply in_nzrange; assumption|].
    apply (in_map (fun b0 => [a; b0])). apply in_drange; assumption.
  - destruct Hd as (Ha & Hb & Hc & _).
    right; right. apply in_flat_map. exists a. split; [apply in_nzrange; assumption|].
    apply in_flat_map. exists b. split; [apply in_drange; assumption|].
    apply (in_map (fun c0 => [a; b; c0])). apply in_drange; assumption.
Qed.

(* ------------------------------------------------------------------ s.strip(chars) on digits ++ state *)
Lemma strip_keep_prefix chars A st : A <> [] ->
  (forall c, In c A -> c_in c chars = false) -> (forall c, In c st -> c_in c chars = true) ->
  s_strip chars (A ++ st) = A.
Proof.
  intros Hne HA Hst. unfold s_strip.
  assert (E1 : s_lstrip chars (A ++ st) = A ++ st).
  { destruct A as [|a A']; [congruence|]. rewrite <- app_comm_cons. apply lstrip_head_out.
    apply HA. left. reflexivity. }
  rewrite E1, rev_app_distr.
  rewrite lstrip_all_in.
  - apply rev_involutive.
  - intros c Hc. apply Hst. apply in_rev. exact Hc.
  - destruct (rev A) as [|c r] eqn:E; [reflexivity|]. apply negb_true_iff. apply HA.
    apply in_rev. rewrite E. left. reflexivity.
Qed.

Lemma strip_keep_suffix chars A st :
  (forall c, In c A -> c_in c chars = true) -> (forall c, In c st -> c_in c chars = false) ->
  s_strip chars (A ++ st) = st.
Proof.
  intros HA Hst. unfold s_strip.
  assert (Hhead : forall l : str, (forall c, In c l -> c_in c chars = false) ->
                  (match l with [] => true | c :: _ => negb (c_in c chars) end) = true).
  { intros l Hl. destruct l as [|c r]; [reflexivity|]. apply negb_true_iff. apply Hl. left. reflexivity. }
  rewrite lstrip_all_in; [| exact HA | apply Hhead; exact Hst].
  change (rev st) with ([] ++ rev st) at 1. rewrite (lstrip_all_in chars [] (rev st)).
  - apply rev_involutive.
  - intros c [].
  - apply Hhead. intros c Hc. apply Hst. apply in_rev. exact Hc.
Qed.

Lemma digits_notin chars : forallb (fun c => negb (c_in c chars)) drange = true ->
  forall A, all_digits A = true -> forall c, In c A -> c_in c chars = false.
Proof.
  intros H A HA c Hc. apply negb_true_iff.
  apply (forallb_In _ _ _ H). apply in_drange. exact (all_digits_In A c HA Hc).
Qed.

Lemma digits_in chars : forallb (fun c => c_in c chars) drange = true ->
  forall A, all_digits A = true -> forall c, In c A -> c_in c chars = true.
Proof.
  intros H A HA c Hc. apply (forallb_In _ _ _ H). apply in_drange. exact (all_digits_In A c HA Hc).
Qed.

(* ------------------------------------------------------------------ int(a / b) *)
Lemma int_truediv_exact a b q r :
  (a = q * b + r)%Z -> (0 <= r < b)%Z -> (b <= 10000)%Z -> (0 <= q)%Z -> (a < 9007199254740992)%Z ->
  int_truediv a b = OK q.
Proof.
  intros Ha Hr Hb Hq Hlt. unfold int_truediv.
  assert (0 <= a)%Z by nia.
  replace (b =? 0)%Z with false by (symmetry; apply Z.eqb_neq; lia).
  replace (Z.abs a <? 9007199254740992)%Z with true by (symmetry; apply Z.ltb_lt; lia).
  replace (0 <? b)%Z with true by (symmetry; apply Z.ltb_lt; lia).
  replace (b <=? 10000)%Z with true by (symmetry; apply Z.leb_le; lia).
  cbn [andb]. f_equal. rewrite Z.quot_div_nonneg by lia. symmetry.
  apply (Z.div_unique a b q r); lia.
Qed.

(* ------------------------------------------------------------------ str(int(A)) = A *)
Lemma s_of_int_dvalue : forall A, In A digit_strings -> s_of_int (dvalue A) = A.
Proof.
  intros A HA. apply s_eqb_eq. revert A HA. apply forallb_forall. vm_compute. reflexivity.
Qed.

Lemma digit_strings_range : forall A, In A digit_strings -> (1 <= dvalue A <= 999)%Z.
Proof.
  intros A HA.
  assert (H : ((1 <=? dvalue A) && (dvalue A <=? 999))%Z = true).
  { revert A HA. apply forallb_forall. vm_compute. reflexivity. }
  apply andb_true_iff in H. rewrite !Z.leb_le in H. exact H.
Qed.

(* ------------------------------------------------------------------ nested finite quantification *)
Lemma forallb2_In {A B} (la : list A) (fb : A -> list B) (P : A -> B -> bool) :
  forallb (fun a => forallb (fun b => P a b) (fb a)) la = true ->
  forall a b, In a la -> In b (fb a) -> P a b = true.
Proof.
  intros H a b Ha Hb. pose proof (forallb_In _ _ _ H Ha) as H1. cbv beta in H1.
  exact (forallb_In _ _ _ H1 Hb).
Qed.

Lemma forallb4_In {A B C D} (la : list A) (fb : A -> list B) (lc : list C) (fd : C -> list D)
      (P : A -> B -> C -> D -> bool) :
  forallb (fun a => forallb (fun b => forallb (fun c => forallb (fun d => P a b c d) (fd c)) lc) (fb a)) la = true ->
  forall a b c d, In a la -> In b (fb a) -> In c lc -> In d (fd c) -> P a b c d = true.
Proof.
  intros H a b c d Ha Hb Hc Hd.
  pose proof (forallb2_In la fb (fun a b => forallb (fun c => forallb (fun d => P a b c d) (fd c)) lc) H a b Ha Hb) as H1.
  cbv beta in H1.
  exact (forallb2_In lc fd (fun c d => P a b c d) H1 c d Hc Hd).
Qed.
