(* Proofs of the decay-data query properties stated in Props/C15.v.
   The generated definitions (Gen/ConvGen.v) are only unfolded, never referred to by their
   bound-variable names; facts about the shipped data come from the structural certificate
   Proofs/CertDefault/Struct.v (no recomputation here). *)
From Coq Require Import String.
From Coq Require Import ZArith NArith List Bool QArith Reals Qreals Lra Lia.
From RD Require Import Base Lib.Py Lib.Num Gen.Tables Gen.ConvGen Gen.UtilsGen Model.UnitSpec Model.UnitsR
  Model.Dataset Model.Default Model.Queries.
From RD Require Import Proofs.Units.
From RD Require Proofs.CertDefault.Struct.
Import ListNotations.
Local Open Scope R_scope.

(* ------------------------------------------------------------------ the data-set certificate *)
Lemma wf_struct_parts : forall d t y z, wf_struct d t y z = true ->
  chk_aligned d = true /\ chk_bfs d = true /\ chk_progeny_known d = true /\
  chk_readable d t y = true /\ chk_stable_consistent d = true.
Proof.
  intros d t y z H. unfold wf_struct in H.
  repeat (apply andb_prop in H; let H' := fresh "H" in destruct H as [H H']).
  repeat split; assumption.
Qed.

Lemma default_reporting_data_consistent :
  chk_aligned Default = true /\ chk_bfs Default = true /\ chk_progeny_known Default = true /\
  chk_readable Default time_units_q year_units = true /\ chk_stable_consistent Default = true.
Proof. exact (wf_struct_parts _ _ _ _ Proofs.CertDefault.Struct.default_struct). Qed.

Lemma chk_readable_forall : forall d t y, chk_readable d t y = true ->
  forall h, In h (ds_hl d) -> readable_ok d t y h = true.
Proof.
  intros d t y H h Hin. unfold chk_readable in H. rewrite forallb_forall in H. exact (H h Hin).
Qed.

Lemma readable_same_duration : forall h, In h (ds_hl Default) ->
  readable_ok Default time_units_q year_units h = true.
Proof.
  apply chk_readable_forall.
  exact (proj1 (proj2 (proj2 (proj2 default_reporting_data_consistent)))).
Qed.

(* ------------------------------------------------------------------ time conversion *)
Lemma tconv_eval : forall t yu year x u v,
  time_unit_conv R_ops (tR t) yu x u v year =
  match q_assoc u (tQ t) with
  | None => Raise ValueError
  | Some q =>
    match q_assoc v (tQ t) with
    | None => Raise ValueError
    | Some s =>
      OK (if l_mem_str u yu
          then (if l_mem_str v yu then x * (Q2R q * year) / (Q2R s * year) else x * (Q2R q * year) / Q2R s)
          else (if l_mem_str v yu then x * Q2R q / (Q2R s * year) else x * Q2R q / Q2R s))
    end
  end.
Proof.
  intros t yu year x u v. unfold time_unit_conv. rewrite !mem_tR, !get_tR.
  destruct (q_assoc u (tQ t)) as [q|]; [|reflexivity].
  destruct (q_assoc v (tQ t)) as [s|]; [|reflexivity].
  cbn [negb bind].
  destruct (l_mem_str u yu); destruct (l_mem_str v yu); reflexivity.
Qed.

Lemma nz_T : nzb (tQ time_units_q) = true. Proof. vm_compute. reflexivity. Qed.

Lemma half_life_converted : forall year h u1 u2 f1 f2, year <> 0 ->
  q_assoc u1 spec_time = Some f1 -> q_assoc u2 spec_time = Some f2 ->
  exists x, time_unit_conv R_ops TR year_units h u1 u2 year = OK x /\
    x * (Q2R f2 * (if l_mem_str u2 spec_year_units then year else 1))
    = h * (Q2R f1 * (if l_mem_str u1 spec_year_units then year else 1)).
Proof.
  intros year h u1 u2 f1 f2 Hy H1 H2.
  destruct (spec_entry _ _ _ _ time_same H1) as [q1 [Hq1 E1]].
  destruct (spec_entry _ _ _ _ time_same H2) as [q2 [Hq2 E2]].
  pose proof (nz_entry _ _ _ nz_T Hq2) as N2.
  unfold TR. rewrite tconv_eval, Hq1, Hq2, !year_same. eexists. split; [reflexivity|].
  rewrite <- E1, <- E2.
  destruct (l_mem_str u1 spec_year_units); destruct (l_mem_str u2 spec_year_units); field;
    repeat split; assumption.
Qed.

Lemma half_life_shortcut_sound : forall year h u f, q_assoc u spec_time = Some f ->
  exists x, time_unit_conv R_ops TR year_units h u u year = OK x /\ (year <> 0 -> x = h).
Proof.
  intros year h u f Hf.
  destruct (spec_entry _ _ _ _ time_same Hf) as [q [Hq E]].
  pose proof (nz_entry _ _ _ nz_T Hq) as Nq.
  unfold TR. rewrite tconv_eval, Hq. eexists. split; [reflexivity|]. intros Hy.
  destruct (l_mem_str u year_units); field; repeat split; assumption.
Qed.

(* ------------------------------------------------------------------ pairwise look-ups *)
Lemma str_eqb_s_eqb : forall a b, str_eqb a b = s_eqb a b.
Proof.
  induction a as [|x a IH]; destruct b as [|y b]; cbn [str_eqb s_eqb]; try reflexivity;
    rewrite IH; reflexivity.
Qed.

Lemma s_eqb_neq : forall a b, a <> b -> s_eqb a b = false.
Proof.
  intros a b Hn. destruct (s_eqb a b) eqn:E; [|reflexivity].
  apply s_eqb_eq in E. contradiction.
Qed.

Lemma mem_str_in : forall s l, In s l -> mem_str s l = true.
Proof.
  intros s l Hin. unfold mem_str. apply existsb_exists. exists s. split; [exact Hin|].
  rewrite str_eqb_s_eqb. apply s_eqb_refl.
Qed.

Lemma find_pos_hit : forall (pl : list str) i k g, nodup_str pl = true -> nth_error pl k = Some g ->
  find_pos g pl i = Some (i + k)%nat.
Proof.
  induction pl as [|y r IH]; intros i k g Hnd Hk.
  - destruct k; discriminate.
  - cbn [nodup_str] in Hnd. apply andb_prop in Hnd. destruct Hnd as [Hy Hr].
    cbn [find_pos]. destruct k as [|k].
    + cbn [nth_error] in Hk. inversion Hk. rewrite s_eqb_refl. f_equal. lia.
    + cbn [nth_error] in Hk.
      assert (Hne : y <> g).
      { intros He. subst y. rewrite (mem_str_in g r (nth_error_In _ _ Hk)) in Hy. discriminate. }
      rewrite (s_eqb_neq _ _ Hne). rewrite (IH (S i) k g Hr Hk). f_equal. lia.
Qed.

Lemma lookup_hit : forall (pl : list str) k g, nodup_str pl = true -> nth_error pl k = Some g ->
  find_pos g pl 0 = Some k.
Proof. intros pl k g Hnd Hk. exact (find_pos_hit pl 0 k g Hnd Hk). Qed.

Lemma find_pos_miss : forall (pl : list str) i g, l_mem_str g pl = false -> find_pos g pl i = None.
Proof.
  induction pl as [|y r IH]; intros i g H; [reflexivity|].
  unfold l_mem_str in H. cbn [existsb] in H. apply orb_false_elim in H. destruct H as [Hy Hr].
  cbn [find_pos].
  assert (Hne : y <> g) by (intros He; subst y; rewrite s_eqb_refl in Hy; discriminate).
  rewrite (s_eqb_neq _ _ Hne). apply IH. exact Hr.
Qed.

Lemma lookup_miss : forall (pl : list str) g, l_mem_str g pl = false -> find_pos g pl 0 = None.
Proof. intros pl g H. exact (find_pos_miss pl 0 g H). Qed.

Lemma branching_fraction_hit : forall (T : Type) names dsname progeny (bfs : list (list T)) zero p g pn gn pl bl k b,
  parse_nuclide p names dsname = OK pn -> parse_nuclide g names dsname = OK gn ->
  by_name names progeny pn = OK pl -> by_name names bfs pn = OK bl ->
  nodup_str pl = true -> nth_error pl k = Some gn -> nth_error bl k = Some b ->
  branching_fraction names dsname progeny bfs zero p g = OK b.
Proof.
  intros T names dsname progeny bfs zero p g pn gn pl bl k b Hp Hg Hpl Hbl Hnd Hk Hb.
  unfold branching_fraction. rewrite Hp. cbn [bind]. rewrite Hg. cbn [bind].
  rewrite Hpl. cbn [bind]. rewrite Hbl. cbn [bind].
  rewrite (lookup_hit pl k gn Hnd Hk), Hb. reflexivity.
Qed.

Lemma branching_fraction_miss : forall (T : Type) names dsname progeny (bfs : list (list T)) zero p g pn gn pl bl,
  parse_nuclide p names dsname = OK pn -> parse_nuclide g names dsname = OK gn ->
  by_name names progeny pn = OK pl -> by_name names bfs pn = OK bl ->
  l_mem_str gn pl = false ->
  branching_fraction names dsname progeny bfs zero p g = OK zero.
Proof.
  intros T names dsname progeny bfs zero p g pn gn pl bl Hp Hg Hpl Hbl Hm.
  unfold branching_fraction. rewrite Hp. cbn [bind]. rewrite Hg. cbn [bind].
  rewrite Hpl. cbn [bind]. rewrite Hbl. cbn [bind].
  rewrite (lookup_miss pl gn Hm). reflexivity.
Qed.

Print Assumptions default_reporting_data_consistent.
Print Assumptions readable_same_duration.
Print Assumptions half_life_shortcut_sound.
Print Assumptions half_life_converted.
Print Assumptions lookup_hit.
Print Assumptions lookup_miss.
Print Assumptions branching_fraction_hit.
Print Assumptions branching_fraction_miss.
