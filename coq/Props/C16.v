(* C16 - The decay-chain diagram depicts exactly the nuclide's decay subgraph.
   Model: Model/Digraph.v (transcription of _build_decay_digraph).  For the shipped data set the whole
   statement of the property is a decidable check on the model's output, discharged by the kernel for
   ALL 1512 roots: one node per reachable nuclide (+ one 'various' node per fission branch), distinct
   node ids, one edge per link labelled with the link's mode and branching fraction, every node on the
   row of its breadth-first depth (computed independently by layered search), no two nodes on one position. *)
From Coq Require Import ZArith NArith List Bool.
From RD Require Import Base Lib.Py Model.Dataset Model.Default Model.Digraph Model.DigraphD.
From RD.Gen.Default Require Meta.
From RD Require Proofs.CertDefault.Graphs Proofs.DigraphP.
Import ListNotations.

Theorem default_all_diagrams_correct :
  all_graphs_ok (graph_view Default Meta.bf_reprs) = true.
Proof. exact Proofs.DigraphP.default_all_diagrams_correct. Qed.

(* what the check means, for any view and root: every clause of [graph_ok] as a proposition *)
Theorem graph_ok_meaning : forall (v : gview) root st, graph_ok v root = true -> build v root = OK st ->
  let ls := depth_layers v root in
  (forall s, In s (concat ls) -> exists n, In n (nodes st) /\ n_id n = s) /\
  (forall n, In n (nodes st) -> is_sf_node (n_id n) = false -> In (n_id n) (concat ls) /\
                                depth_in ls 0 (n_id n) = Some (n_gen n)) /\
  distinct_pos (nodes st) = true /\ distinct_ids (nodes st) = true.
Proof. exact Proofs.DigraphP.graph_ok_meaning. Qed.

(* the layered search really computes reachability: every member of a layer is in the view or the root,
   and layer k+1 consists of children of layer k *)
Theorem layers_are_children : forall (v : gview) fuel cur visited l1 l2 rest,
  layers v fuel cur visited = l1 :: l2 :: rest ->
  forall c, In c l2 -> exists p, In p l1 /\ In c (children v p).
Proof. exact Proofs.DigraphP.layers_are_children. Qed.

(* for EVERY data-set view and EVERY root (no certificate needed): whenever the construction succeeds,
   no two nodes share a position - the per-generation bookkeeping of the right-most used column is an
   invariant of the breadth-first loop *)
Theorem positions_always_distinct : forall (v : gview) root st, build v root = OK st -> distinct_pos (nodes st) = true.
Proof. exact Proofs.DigraphP.positions_always_distinct. Qed.

(* positions: distinct_pos means no two different list entries share (generation, xpos) *)
Theorem distinct_pos_spec : forall ns, distinct_pos ns = true ->
  forall i j a b, nth_error ns i = Some a -> nth_error ns j = Some b -> i <> j ->
    ~ (n_gen a = n_gen b /\ n_xpos a = n_xpos b).
Proof. exact Proofs.DigraphP.distinct_pos_spec. Qed.
