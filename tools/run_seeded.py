#!/venv/bin/python
"""Validate and run the checks against the seeded mutants in /verif/seeded/<prop>-<k>/.

  run_seeded.py validate <name>...   in a scratch worktree: demo passes on pristine, fails with the patch,
                                      the repository test-suite still passes with the patch
  run_seeded.py check <name>...      apply the patch to /repo, run ./check <prop> (quick), undo, record the result
Results are written to seeded/<name>/meta.json."""
import json, os, subprocess, sys, time, shutil

VERIF = os.path.normpath(os.path.join(os.path.dirname(os.path.abspath(__file__)), ".."))
SEED = os.path.join(VERIF, "seeded")
PY = "/venv/bin/python"


def sh(cmd, cwd=None, env=None, timeout=3600):
    p = subprocess.run(cmd, shell=True, cwd=cwd, env=env, stdout=subprocess.PIPE, stderr=subprocess.STDOUT, text=True, timeout=timeout)
    return p.returncode, "\n".join(l for l in p.stdout.splitlines() if "conda.cli" not in l)


def load_meta(name):
    p = os.path.join(SEED, name, "meta.json")
    return json.load(open(p)) if os.path.exists(p) else {"name": name, "property": name.split("-")[0]}


def save_meta(name, m):
    json.dump(m, open(os.path.join(SEED, name, "meta.json"), "w"), indent=1)


def apply_patch(wt, patch):
    rc, out = sh(f"git apply --whitespace=nowarn {patch}", cwd=wt)
    if rc != 0:
        rc, out = sh(f"git apply -3 --whitespace=nowarn {patch}", cwd=wt)
    if rc != 0:
        rc, out = sh(f"patch -p1 --fuzz=3 < {patch}", cwd=wt)
    return rc == 0, out


def validate(name):
    m = load_meta(name)
    d = os.path.join(SEED, name)
    wt = f"/tmp/seedwt_{name}"
    sh(f"git -C /repo worktree remove --force {wt}")
    rc, out = sh(f"git -C /repo worktree add -q --detach {wt} HEAD")
    try:
        env = dict(os.environ, PYTHONPATH=wt, MPLBACKEND="Agg", PYTHONDONTWRITEBYTECODE="1")
        shutil.copy(os.path.join(d, "demo.py"), os.path.join(wt, "demo_seed.py"))
        rc0, out0 = sh(f"{PY} demo_seed.py", cwd=wt, env=env)
        ok, pout = apply_patch(wt, os.path.join(d, "patch.diff"))
        if not ok:
            m["validated"] = False
            m["validation"] = "patch does not apply to the current /repo HEAD: " + pout[-300:]
            save_meta(name, m)
            return m
        rc1, out1 = sh(f"{PY} demo_seed.py", cwd=wt, env=env)
        rct, outt = sh(f"{PY} -m pytest -q -p no:cacheprovider --timeout=900 "
                       f"--deselect tests/test_inventory.py::TestInventoryHP::test_plot 2>&1 | tail -3", cwd=wt, env=env)
        passed = "passed" in outt and "failed" not in outt and "error" not in outt.lower()
        m["validated"] = (rc0 == 0 and rc1 != 0 and passed)
        m["validation"] = {"demo_on_pristine_exit": rc0, "demo_with_patch_exit": rc1,
                           "demo_with_patch_tail": out1[-400:], "pytest_with_patch": outt.strip().splitlines()[-1] if outt.strip() else "",
                           "pristine_head": sh("git -C /repo rev-parse --short HEAD")[1].strip()}
        m["ran"] = "tools/run_seeded.py validate (scratch worktree under /tmp, removed afterwards)"
    finally:
        sh(f"git -C /repo worktree remove --force {wt}")
    save_meta(name, m)
    return m


def check(name, props=None):
    """run the quick check(s) against the mutant in an ISOLATED copy: /tmp/seedrun_<name>/{verif,repo}
    (a copy of /verif incl. its build output and a scratch worktree of /repo with the patch applied),
    so that /repo and /verif stay untouched and several mutants can be examined in parallel."""
    m = load_meta(name)
    d = os.path.join(SEED, name)
    base = f"/tmp/seedrun_{name}"
    sh(f"git -C /repo worktree remove --force {base}/repo")
    sh(f"rm -rf {base}")
    os.makedirs(base)
    res = {}
    try:
        sh(f"rsync -a --exclude .git --exclude replays {VERIF}/ {base}/verif/")
        rc, out = sh(f"git -C /repo worktree add -q --detach {base}/repo HEAD")
        ok, pout = apply_patch(f"{base}/repo", os.path.join(d, "patch.diff"))
        if not ok:
            m["check"] = {"error": "patch does not apply: " + pout[-300:]}
        else:
            for pid in (props or [m["property"]]):
                t0 = time.time()
                env = dict(os.environ, RD_REPO=f"{base}/repo")
                rc, out = sh(f"./check {pid} --tier quick", cwd=f"{base}/verif", timeout=7200, env=env)
                lines = [l for l in out.splitlines() if l.startswith(("VIOLATION", "KNOWN-FINDING", "["))]
                rep = None
                for l in lines:
                    if l.startswith("VIOLATION"):
                        path = l.split("replay=")[1].split()[0]
                        try:
                            rp = json.load(open(path))
                            rep = {k: rp[k] for k in ("fails", "broken", "input", "functions", "failing_components") if k in rp}
                        except Exception:
                            pass
                        break
                res[pid] = {"exit": rc, "caught": rc == 1 and any(l.startswith("VIOLATION") for l in lines),
                            "lines": [l[:300] for l in lines[:6]], "first_replay": rep, "wall_s": round(time.time() - t0)}
            m.setdefault("check", {}).update(res)
            m["check_how"] = "tools/run_seeded.py check: isolated copy of /verif + scratch worktree of /repo with the patch (RD_REPO), removed afterwards"
    finally:
        sh(f"git -C /repo worktree remove --force {base}/repo")
        sh(f"rm -rf {base}")
    save_meta(name, m)
    return m


if __name__ == "__main__":
    mode, names = sys.argv[1], sys.argv[2:]
    for n in names:
        if mode == "validate":
            r = validate(n)
            print(n, "validated" if r.get("validated") else "NOT validated", json.dumps(r.get("validation"))[:300])
        else:
            extra = None
            if ":" in n:
                n, extra = n.split(":")
                extra = extra.split(",")
            r = check(n, extra)
            print(n, json.dumps(r.get("check"))[:600])
