#!/venv/bin/python
"""tr_shapes: source-text ties for the HAND-MODELLED functions.

For every function whose model is written by hand (coq/Model/*.v) the AST of the current source
(docstrings removed, ast.unparse normal form) must equal the recorded text in tools/shapes.json.
A mismatch means the hand-written model may no longer describe the code: the tie is broken, the
check reports it and searches for a failing input with the correspondence streams.
`tr_shapes.py --record` rewrites shapes.json from the current tree (done by hand when a model is
written or updated, never at check time)."""
import ast
import json
import os
import sys

REPO = os.environ.get("RD_REPO", "/repo")
HERE = os.path.dirname(os.path.abspath(__file__))
SHAPES = os.path.join(HERE, "shapes.json")

# (file, class or None, function) -> which model depends on it
TARGETS = [
    ("radioactivedecay/decaydata.py", "DecayData", "half_life", "Model/Queries.v half_life"),
    ("radioactivedecay/decaydata.py", "DecayData", "branching_fraction", "Model/Queries.v branching_fraction"),
    ("radioactivedecay/decaydata.py", "DecayData", "decay_mode", "Model/Queries.v decay_mode"),
    ("radioactivedecay/decaydata.py", None, "load_dataset", "Model/Units.v decay_const_f; Model/Default.v file selection"),
    ("radioactivedecay/decaydata.py", "DecayData", "__init__", "Model: nuclide_dict = position in nuclides"),
    ("radioactivedecay/nuclide.py", "Nuclide", "half_life", "Model/Queries.v (delegation)"),
    ("radioactivedecay/nuclide.py", "Nuclide", "progeny", "Model/Queries.v (delegation)"),
    ("radioactivedecay/nuclide.py", "Nuclide", "branching_fractions", "Model/Queries.v (delegation)"),
    ("radioactivedecay/nuclide.py", "Nuclide", "decay_modes", "Model/Queries.v (delegation)"),
    ("radioactivedecay/nuclide.py", "Nuclide", "atomic_mass", "Model/Queries.v (delegation)"),
    ("radioactivedecay/inventory.py", "Inventory", "decay", "Model/DecayModel.v decay_model (float class)"),
    ("radioactivedecay/inventory.py", "Inventory", "cumulative_decays", "Model/DecayModel.v cumulative_model (float class)"),
    ("radioactivedecay/inventory.py", "InventoryHP", "decay", "Model/DecayModel.v decay_model (high-precision class; sig_fig)"),
    ("radioactivedecay/inventory.py", "InventoryHP", "cumulative_decays", "Model/DecayModel.v cumulative_model (high-precision class)"),
    ("radioactivedecay/inventory.py", "InventoryHP", "numbers", "float() read-out of the high-precision contents"),
    ("radioactivedecay/inventory.py", "AbstractInventory", "_setup_decay_calc", "Model/DecayModel.v n0_of / indices"),
    ("radioactivedecay/inventory.py", "AbstractInventory", "_perform_decay_calc", "Model/DecayModel.v product"),
    ("radioactivedecay/inventory.py", "AbstractInventory", "_convert_decay_time", "generated convert_decay_time (also translated)"),
    ("radioactivedecay/decaydata.py", "DecayMatricesScipy", "_setup_matrix_e", "zero template for matrix_e"),
    ("radioactivedecay/decaydata.py", "DecayMatricesScipy", "_setup_vector_n0", "zero template for vector_n0"),
    ("radioactivedecay/decaydata.py", "DecayMatricesSympy", "_setup_matrix_e", "zero template for matrix_e"),
    ("radioactivedecay/decaydata.py", "DecayMatricesSympy", "_setup_vector_n0", "zero template for vector_n0"),
    ("radioactivedecay/decaydata.py", "DecayMatrices", "__init__", "templates created once per data set"),
    ("radioactivedecay/fileio.py", None, "_parse_row", "Model/Csv.v parse_row"),
    ("radioactivedecay/fileio.py", None, "read_csv", "Model/Csv.v read_rows"),
    ("radioactivedecay/fileio.py", None, "_read_csv_file", "csv reader seam"),
    ("radioactivedecay/inventory.py", None, "_write_csv_file", "csv writer seam"),
    ("radioactivedecay/inventory.py", "AbstractInventory", "to_csv", "Model/Csv.v to_rows (dispatch chain generated)"),
    ("radioactivedecay/inventory.py", "AbstractInventory", "decay_time_series_pandas", "Model/Series.v (dispatch chain generated; grid hand-modelled)"),
    ("radioactivedecay/inventory.py", "AbstractInventory", "decay_time_series", "delegation to the data-frame variant"),
    ("radioactivedecay/inventory.py", "AbstractInventory", "plot", "Model/Series.v (dispatch chain generated; grid, selection, limits hand-modelled)"),
    ("radioactivedecay/inventory.py", "InventoryHP", "plot", "delegation with npoints=51"),
    ("radioactivedecay/plots.py", None, "decay_graph", "hand-off to matplotlib"),
    ("radioactivedecay/nuclide.py", None, "_build_decay_digraph", "Model/Digraph.v build"),
    ("radioactivedecay/nuclide.py", "Nuclide", "plot", "hand-off of the graph to networkx"),
    ("radioactivedecay/plots.py", None, "_parse_nuclide_label", "Model/Digraph.v parse_nuclide_label"),
    ("radioactivedecay/plots.py", None, "_parse_decay_mode_label", "Model/Digraph.v parse_decay_mode_label"),
    ("radioactivedecay/inventory.py", "AbstractInventory", "__eq__", "Model/Equality.v inv_eq"),
    ("radioactivedecay/inventory.py", "AbstractInventory", "__ne__", "Model/Equality.v inv_ne"),
    ("radioactivedecay/nuclide.py", "Nuclide", "__eq__", "Model/Equality.v nuc_eq"),
    ("radioactivedecay/nuclide.py", "Nuclide", "__ne__", "Model/Equality.v"),
    ("radioactivedecay/nuclide.py", "Nuclide", "__hash__", "Model/Equality.v nuc_hash"),
    ("radioactivedecay/decaydata.py", "DecayData", "__eq__", "Model/Equality.v ds_eq"),
    ("radioactivedecay/decaydata.py", "DecayData", "__ne__", "Model/Equality.v ds_eq"),
    ("radioactivedecay/decaydata.py", "DecayMatrices", "__ne__", "Model/Equality.v ds_eq"),
    ("radioactivedecay/decaydata.py", "DecayMatricesScipy", "__eq__", "Model/Equality.v ds_eq"),
    ("radioactivedecay/decaydata.py", "DecayMatricesSympy", "__eq__", "Model/Equality.v ds_eq"),
    ("radioactivedecay/decaydata.py", None, "_csr_matrix_equal", "Model/Equality.v ds_eq"),
    ("radioactivedecay/inventory.py", "AbstractInventory", "__init__", "Model/Inventory.v construct"),
    ("radioactivedecay/inventory.py", "AbstractInventory", "_parse_nuclides", "Model/Inventory.v parse_keys"),
    ("radioactivedecay/inventory.py", "AbstractInventory", "_check_values", "Model/Inventory.v check_values"),
    ("radioactivedecay/inventory.py", "AbstractInventory", "add", "Model/Inventory.v m_add"),
    ("radioactivedecay/inventory.py", "AbstractInventory", "subtract", "Model/Inventory.v m_subtract"),
    ("radioactivedecay/inventory.py", "AbstractInventory", "__add__", "Model/Inventory.v op_add"),
    ("radioactivedecay/inventory.py", "AbstractInventory", "__sub__", "Model/Inventory.v op_sub"),
    ("radioactivedecay/inventory.py", "AbstractInventory", "__mul__", "Model/Inventory.v op_mul"),
    ("radioactivedecay/inventory.py", "AbstractInventory", "__rmul__", "Model/Inventory.v op_mul"),
    ("radioactivedecay/inventory.py", "AbstractInventory", "__truediv__", "Model/Inventory.v op_div"),
    ("radioactivedecay/inventory.py", "AbstractInventory", "remove", "Model/Inventory.v m_remove (dispatch root)"),
    ("radioactivedecay/inventory.py", "AbstractInventory", "_", "Model/Inventory.v m_remove / m_remove_list (registered variants)"),
    ("radioactivedecay/inventory.py", "InventoryHP", "__init__", "Model/Inventory.v construct (normalise = nsimplify)"),
    ("radioactivedecay/utils.py", None, "add_dictionaries", "Model/Inventory.v add_dictionaries"),
    ("radioactivedecay/utils.py", None, "sort_dictionary_alphabetically", "Model/Inventory.v d_sort"),
    ("radioactivedecay/utils.py", None, "sort_list_according_to_dataset", "Model/SeriesAsm.v sort_list_according_to_dataset"),
    ("radioactivedecay/inventory.py", "AbstractInventory", "half_lives", "Model/Queries.v (delegation)"),
    ("radioactivedecay/inventory.py", "AbstractInventory", "progeny", "Model/Queries.v (delegation)"),
    ("radioactivedecay/inventory.py", "AbstractInventory", "branching_fractions", "Model/Queries.v (delegation)"),
    ("radioactivedecay/inventory.py", "AbstractInventory", "decay_modes", "Model/Queries.v (delegation)"),
]


def strip_doc(node):
    for n in ast.walk(node):
        if isinstance(n, (ast.FunctionDef, ast.ClassDef, ast.Module)) and n.body:
            b0 = n.body[0]
            if isinstance(b0, ast.Expr) and isinstance(b0.value, ast.Constant) and isinstance(b0.value.value, str):
                n.body = n.body[1:] or [ast.Pass()]
    return node


def find(tree, cls, name):
    body = tree.body
    if cls:
        for st in body:
            if isinstance(st, ast.ClassDef) and st.name == cls:
                body = st.body
                break
        else:
            return None
    hits = [st for st in body if isinstance(st, ast.FunctionDef) and st.name == name]
    return hits


CLASSES = [("radioactivedecay/inventory.py", "AbstractInventory"), ("radioactivedecay/inventory.py", "Inventory"),
           ("radioactivedecay/inventory.py", "InventoryHP"), ("radioactivedecay/decaydata.py", "DecayData"),
           ("radioactivedecay/decaydata.py", "DecayMatricesScipy"), ("radioactivedecay/decaydata.py", "DecayMatricesSympy"),
           ("radioactivedecay/nuclide.py", "Nuclide"), ("radioactivedecay/converters.py", "UnitConverterFloat"),
           ("radioactivedecay/converters.py", "UnitConverterSympy"), ("radioactivedecay/converters.py", "QuantityConverterFloat"),
           ("radioactivedecay/converters.py", "QuantityConverterSympy")]


def members(tree, cls):
    """names defined in a class body and its base classes: an ADDED override changes behaviour without touching any recorded function"""
    for st in tree.body:
        if isinstance(st, ast.ClassDef) and st.name == cls:
            names = []
            for b in st.body:
                if isinstance(b, (ast.FunctionDef, ast.AsyncFunctionDef)):
                    names.append(b.name + "()" + "".join("@" + ast.unparse(d) for d in b.decorator_list))
                elif isinstance(b, ast.Assign):
                    names += [ast.unparse(t) for t in b.targets]
                elif isinstance(b, ast.AnnAssign):
                    names.append(ast.unparse(b.target))
            return "bases=" + ",".join(ast.unparse(x) for x in st.bases) + " | " + " ".join(sorted(names))
    return None


def current():
    out = {}
    trees = {}
    for f, cls in CLASSES:
        if f not in trees:
            trees[f] = ast.parse(open(os.path.join(REPO, f), encoding="utf-8").read())
        out[f"{f}::{cls}::<members>"] = members(trees[f], cls)
    for f, cls, name, _ in TARGETS:
        if f not in trees:
            trees[f] = ast.parse(open(os.path.join(REPO, f), encoding="utf-8").read())
        hits = find(trees[f], cls, name)
        key = f"{f}::{cls or ''}::{name}"
        if not hits:
            out[key] = None
        else:
            out[key] = "\n----\n".join(ast.unparse(strip_doc(h)) for h in hits)
    return out


def main():
    cur = current()
    if "--record" in sys.argv:
        json.dump(cur, open(SHAPES, "w"), indent=1, sort_keys=True)
        print(f"recorded {len(cur)} shapes")
        return 0
    rec = json.load(open(SHAPES)) if os.path.exists(SHAPES) else {}
    bad = []
    for (f, cls, name, model) in TARGETS:
        key = f"{f}::{cls or ''}::{name}"
        if key not in rec:
            bad.append(f"{key}: no recorded shape")
        elif rec[key] != cur[key]:
            bad.append(f"{key} changed (hand model: {model})")
    for f, cls in CLASSES:
        key = f"{f}::{cls}::<members>"
        if key not in rec:
            bad.append(f"{key}: no recorded member list")
        elif rec[key] != cur[key]:
            was, now = set((rec[key] or "").split()), set((cur[key] or "").split())
            bad.append(f"{key} changed (added: {sorted(now - was)[:6]}, removed: {sorted(was - now)[:6]})")
    print("SHAPES " + json.dumps({"checked": len(TARGETS) + len(CLASSES), "changed": bad}))
    return 0


if __name__ == "__main__":
    sys.exit(main())
