"""C14 - activity, mass and mole fractions are true shares of the total."""
import random
import common as C
import corr_units as U

PID = "C14"
PROPS_MODULE = "Props.C14"
THEOREMS = ["activity_fraction_is_share", "mass_fraction_is_share", "mole_fraction_is_share", "shares_in_unit_interval",
            "shares_sum_to_one", "shares_scale_invariant", "readouts_scale"]
REQUIRED = ["Props/C14.v", "Model/UnitsCheck.v"]
TRANSLATORS = ["tr_pure", "tr_tables", "tr_data"]
SHAPE_KEYS = ["load_dataset"]
PARTIAL = ["float rounding of the fractions is decided bit-exactly per case, not by a gamma_n theorem",
           "agreement of the two classes is sampled (InventoryHP costs ~1 s per call)"]
TRUSTED_BASE = [
    "Coq 8.16.1 kernel incl. vm_compute",
    "axioms: standard Reals axioms",
    "translators tools/tr_pure.py + pytr.py, tr_tables.py, tr_data.py",
    "PrimFloat as the model of IEEE binary64; coq/Lib/Num.v pf_sum as the model of CPython>=3.12 built-in sum() (Neumaier for exact floats, plain for numpy.float64)",
]
ASSUMPTIONS = ["CPython sum() as in Python 3.12 (compensated for exact floats)"]


def correspondence(ctx):
    rng = random.Random(ctx["seed"] + 14)
    streams, viol, samples = {}, [], []
    U.fractions_stream(rng, ctx["tier"] == "thorough", streams, viol, samples)
    # fractions of inventories WITH a history (earlier read-outs, in-place changes) = fractions of a new inventory with the same
    # contents (which the stream above ties to the model bit for bit)
    import corr_history as H
    H.history_stream(rng, 40 if ctx["tier"] == "thorough" else 8, 24, streams, viol, samples,
                     only_calls={"activity_fractions", "mass_fractions", "mole_fractions"}, tag="fractions_after_history")
    # every nuclide once: the float class's shares against the shares from the exact (high-precision) masses and decay constants
    import json, os
    rc, out = C.sh([C.PY, os.path.join(C.TOOLS, "impl_fracsweep.py")], env=C.IMPL_ENV, timeout=1800, cwd="/tmp")
    line = [l for l in out.splitlines() if l.startswith("{")]
    if rc != 0 or not line:
        viol.append({"name": "fracsweep-crash", "found_input": False, "key": "fracsweep-crash", "payload": {"broken": "sweep driver failed", "output": out[-1500:]}})
    else:
        sw = json.loads(line[-1])
        streams["fractions_all_nuclides"] = {"cases": sw["n"], "impl_property_failures": len(sw["bad"]),
                                             "what": "for every nuclide: Inventory({X: 1e20, K-40: 1e20}, 'num') mass / mole / activity fractions vs the shares from the exact "
                                                     "(high-precision) atomic masses and decay constants, relative 1e-11 (both classes' data agree nuclide by nuclide)"}
        for n, k, got, want in sw["bad"][:3]:
            viol.append({"name": f"fracsweep-{n}-{k}", "found_input": True, "key": f"fracsweep:{n}:{k}",
                         "payload": {"fails": f"{k} fraction of {n} in Inventory({{'{n}': 1e20, 'K-40': 1e20}}, 'num') is {got}, the share from the exact data is {want}",
                                     "input": {"contents": {n: 1e20, "K-40": 1e20}, "unit": "num", "kind": k}, "entry": f"Inventory.{k}_fractions"}})
    return {"streams": streams, "violations": viol, "samples": samples}


def search_broken(ctx):
    return []


def replay(payload):
    c = payload.get("input")
    if not isinstance(c, dict) or "contents" not in c:
        return {"fails": True, "note": "nothing to replay; theorem/correspondence named in the file"}
    streams, viol, samples = {}, [], []
    r = U.run_impl("impl_fractions.py", [c])[0]
    return {"fails": True, "impl": r, "note": "re-evaluate the predicate named in 'fails' on this output"}
