(* Instantiation of Lib/Sparse.v with Bignums.BigQ (non-normalising add/mul; equality by
   cross-multiplication) and the value map into R. *)
From Coq Require Import Reals ZArith NArith QArith Qreals List Lra.
From Bignums Require Import BigQ.
From RD Require Import Base Model.DecayR Lib.Sparse.
Local Open Scope R_scope.

Definition bq := bigQ.
Definition bq_of (q : qlit) : bq := BigQ.of_Q (Qmake (qn q) (qd q)).
Definition bqv (x : bq) : R := Q2R (BigQ.to_Q x).

Lemma bqv_add x y : bqv (BigQ.add x y) = bqv x + bqv y.
Proof. unfold bqv. rewrite <- Q2R_plus. apply Qeq_eqR. apply BigQ.spec_add. Qed.
Lemma bqv_mul x y : bqv (BigQ.mul x y) = bqv x * bqv y.
Proof. unfold bqv. rewrite <- Q2R_mult. apply Qeq_eqR. apply BigQ.spec_mul. Qed.
Lemma bqv_opp x : bqv (BigQ.opp x) = - bqv x.
Proof. unfold bqv. rewrite <- Q2R_opp. apply Qeq_eqR. apply BigQ.spec_opp. Qed.
Lemma bqv_0 : bqv BigQ.zero = 0.
Proof. unfold bqv. rewrite (Qeq_eqR _ _ BigQ.spec_0). apply RMicromega.Q2R_0. Qed.
Lemma bqv_1 : bqv BigQ.one = 1.
Proof. unfold bqv. rewrite (Qeq_eqR _ _ BigQ.spec_1). apply RMicromega.Q2R_1. Qed.
Lemma bqv_eqb x y : BigQ.eq_bool x y = true -> bqv x = bqv y.
Proof.
  intro H. unfold bqv. apply Qeq_eqR. rewrite BigQ.spec_eq_bool in H.
  apply Qeq_bool_eq. exact H.
Qed.
Lemma bqv_of q : bqv (bq_of q) = Q2R (Qmake (qn q) (qd q)).
Proof. unfold bqv, bq_of. apply Qeq_eqR. apply BigQ.spec_of_Q. Qed.

Definition bq_is_zero (x : bq) : bool := BigQ.eq_bool x BigQ.zero.
Lemma bq_is_zero_spec x : bq_is_zero x = true -> bqv x = 0.
Proof. intro H. rewrite (bqv_eqb _ _ H). apply bqv_0. Qed.
Lemma bq_is_zero_false x : bq_is_zero x = false -> bqv x <> 0.
Proof.
  unfold bq_is_zero. rewrite BigQ.spec_eq_bool. intros H E.
  assert (Hq : (BigQ.to_Q x == BigQ.to_Q BigQ.zero)%Q).
  { apply eqR_Qeq. fold (bqv x). fold (bqv BigQ.zero). rewrite bqv_0. exact E. }
  apply Qeq_eq_bool in Hq. congruence.
Qed.

(* sign test used for mu >= 0 *)
Definition bq_nonneg (x : bq) : bool :=
  match BigQ.compare BigQ.zero x with Gt => false | _ => true end.
Lemma bq_nonneg_spec x : bq_nonneg x = true -> 0 <= bqv x.
Proof.
  unfold bq_nonneg. rewrite BigQ.spec_compare. intro H.
  rewrite <- bqv_0. unfold bqv. apply Qle_Rle.
  destruct (Qcompare_spec (BigQ.to_Q BigQ.zero) (BigQ.to_Q x)) as [E|E|E].
  - rewrite E. apply Qle_refl.
  - apply Qlt_le_weak. exact E.
  - discriminate.
Qed.

Notation bget := (get bq BigQ.add BigQ.zero).
Notation bent := (ent bq BigQ.add BigQ.zero bqv).
Notation bcheck_prod_id := (check_prod_id bq BigQ.add BigQ.mul BigQ.zero BigQ.one BigQ.eq_bool).
Notation bcheck_diag := (check_diag bq BigQ.add BigQ.mul BigQ.opp BigQ.zero BigQ.eq_bool).

Definition bcheck_prod_id_sound :=
  check_prod_id_sound bq BigQ.add BigQ.mul BigQ.zero BigQ.one BigQ.eq_bool bqv
    bqv_add bqv_mul bqv_0 bqv_1 bqv_eqb.
Definition bcheck_diag_sound :=
  check_diag_sound bq BigQ.add BigQ.mul BigQ.opp BigQ.zero BigQ.eq_bool bqv
    bqv_add bqv_mul bqv_opp bqv_0 bqv_eqb.
