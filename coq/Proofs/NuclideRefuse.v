(* C10 - proofs that the GENERATED nuclide parsers (Gen/UtilsGen.v) refuse invalid input with the
   documented exception and that whatever they accept is literally present in the input.

   Robustness: Gen/UtilsGen.v is regenerated on every run and its gensym suffixes change.  No proof
   below mentions a generated variable name: the generated functions are unfolded and walked by case
   analysis on their *conditions*, and by rewriting with characterising lemmas about Lib/Py.v. *)
From Coq Require Import ZArith NArith List Bool Lia.
From RD Require Import Base Lib.Py Gen.Unicode Gen.Tables Gen.UtilsGen Model.NuclideSpec.
Import ListNotations.

(* ------------------------------------------------------------------------------------------ *)
(* 1. Finite facts about the Unicode tables on ASCII, by computation over 0..127               *)
(* ------------------------------------------------------------------------------------------ *)

Definition ascii_range : list N := map N.of_nat (seq 0 128).

Lemma ascii_range_in : forall c : N, (c < 128)%N -> In c ascii_range.
Proof.
  intros c Hc. unfold ascii_range. rewrite <- (N2Nat.id c).
  apply in_map. apply in_seq. lia.
Qed.

Lemma ascii_forall : forall P : N -> bool,
  forallb P ascii_range = true -> forall c, (c < 128)%N -> P c = true.
Proof.
  intros P HP c Hc. rewrite forallb_forall in HP. apply HP. apply ascii_range_in. exact Hc.
Qed.

Lemma c_is_ascii_lt : forall c, c_is_ascii c = true -> (c < 128)%N.
Proof. intros c H. unfold c_is_ascii in H. apply N.ltb_lt in H. exact H. Qed.

Lemma a_digit_lt : forall c, a_digit c = true -> (c < 128)%N.
Proof.
  intros c H. unfold a_digit in H. apply andb_true_iff in H as [_ H]. apply N.leb_le in H. lia.
Qed.

Lemma a_letter_lt : forall c, a_letter c = true -> (c < 128)%N.
Proof.
  intros c H. unfold a_letter, a_upper, a_lower in H.
  apply orb_true_iff in H as [H|H]; apply andb_true_iff in H as [_ H]; apply N.leb_le in H; lia.
Qed.

(* an ASCII character that str.isdigit accepts is 0..9 *)
Lemma ascii_isdigit_a_digit : forall c, c_is_ascii c = true -> c_isdigit c = true -> a_digit c = true.
Proof.
  intros c Ha Hd.
  assert (T : forallb (fun c => implb (c_isdigit c) (a_digit c)) ascii_range = true) by (vm_compute; reflexivity).
  pose proof (ascii_forall _ T c (c_is_ascii_lt c Ha)) as H. cbv beta in H.
  rewrite Hd in H. exact H.
Qed.

Lemma a_digit_props : forall c, a_digit c = true ->
  c_isdigit c = true /\ c_int_special c = false /\ c_decimal_value c = Some (c - 48)%N.
Proof.
  intros c Hd.
  assert (T : forallb (fun c => implb (a_digit c)
             (c_isdigit c && negb (c_int_special c) &&
              match c_decimal_value c with Some d => N.eqb d (c - 48) | None => false end)) ascii_range = true)
    by (vm_compute; reflexivity).
  pose proof (ascii_forall _ T c (a_digit_lt c Hd)) as H. cbv beta in H.
  rewrite Hd in H. cbn [implb] in H.
  apply andb_true_iff in H as [H H3]. apply andb_true_iff in H as [H1 H2].
  split; [exact H1|]. split.
  - apply negb_true_iff in H2. exact H2.
  - destruct (c_decimal_value c) as [d|]; [|discriminate]. apply N.eqb_eq in H3. subst d. reflexivity.
Qed.

(* an ASCII alphanumeric character that is not a digit is an ASCII letter *)
Lemma ascii_alnum_nondigit_letter : forall c,
  c_is_ascii c = true -> c_isalnum c = true -> c_isdigit c = false -> a_letter c = true.
Proof.
  intros c Ha Hal Hd.
  assert (T : forallb (fun c => implb (c_isalnum c) (c_isdigit c || a_letter c)) ascii_range = true)
    by (vm_compute; reflexivity).
  pose proof (ascii_forall _ T c (c_is_ascii_lt c Ha)) as H. cbv beta in H.
  rewrite Hal, Hd in H. exact H.
Qed.

Lemma s_eqb_eq : forall a b : str, s_eqb a b = true -> a = b.
Proof.
  induction a as [|x a IH]; intros [|y b] Hab; cbn in Hab; try discriminate; [reflexivity|].
  apply andb_true_iff in Hab as [Hxy Hab]. apply N.eqb_eq in Hxy. subst y. f_equal. apply IH. exact Hab.
Qed.

(* str.lower and the first-character map of str.capitalize are ASCII case maps on ASCII letters *)
Lemma a_letter_fold : forall c, a_letter c = true ->
  map a_fold (c_lower c) = [a_fold c] /\ map a_fold (c_capfirst c) = [a_fold c].
Proof.
  intros c Hl.
  assert (T : forallb (fun c => implb (a_letter c)
             (s_eqb (map a_fold (c_lower c)) [a_fold c] && s_eqb (map a_fold (c_capfirst c)) [a_fold c]))
             ascii_range = true) by (vm_compute; reflexivity).
  pose proof (ascii_forall _ T c (a_letter_lt c Hl)) as H. cbv beta in H.
  rewrite Hl in H. cbn [implb] in H. apply andb_true_iff in H as [H1 H2].
  clear T. split; apply s_eqb_eq; assumption.
Qed.

(* ------------------------------------------------------------------------------------------ *)
(* 2. Lemmas about the Lib/Py.v functions                                                       *)
(* ------------------------------------------------------------------------------------------ *)

Lemma s_eqb_nil_true : forall a : str, s_eqb a [] = true -> a = [].
Proof. intros a H. apply s_eqb_eq. exact H. Qed.

Lemma s_eqb_nil_false : forall a : str, s_eqb a [] = false -> a <> [].
Proof. intros a H E. subst a. cbn in H. discriminate. Qed.

Lemma l_mem_str_in : forall x l, l_mem_str x l = true -> In x l.
Proof.
  intros x l H. unfold l_mem_str in H. apply existsb_exists in H as (y & Hy & Hxy).
  apply s_eqb_eq in Hxy. subst y. exact Hy.
Qed.

Lemma d_mem_sz_in : forall d e, d_mem_sz d e = true -> In e (map snd d).
Proof.
  intros d e H. unfold d_mem_sz in H. apply existsb_exists in H as (kv & Hkv & He).
  apply s_eqb_eq in He. subst e. apply in_map. exact Hkv.
Qed.

Lemma d_mem_zs_in : forall d k, d_mem_zs d k = true -> In k (map fst d).
Proof.
  intros d k H. unfold d_mem_zs in H. apply existsb_exists in H as (kv & Hkv & He).
  apply Z.eqb_eq in He. subst k. apply in_map. exact Hkv.
Qed.

Lemma d_mem_zs_get : forall d k, d_mem_zs d k = true -> exists v, d_get_zs d k = OK v.
Proof.
  induction d as [|[a v] d IH]; intros k H; cbn in H; [discriminate|].
  cbn [d_get_zs]. destruct (Z.eqb a k) eqn:E.
  - exists v. reflexivity.
  - cbn [orb] in H. apply IH. exact H.
Qed.

Lemma d_get_zs_in : forall d k v, d_get_zs d k = OK v -> In (k, v) d.
Proof.
  induction d as [|[a w] d IH]; intros k v H; cbn [d_get_zs] in H; [discriminate|].
  destruct (Z.eqb a k) eqn:E.
  - apply Z.eqb_eq in E. subst a. injection H as ->. left. reflexivity.
  - right. apply IH. exact H.
Qed.

(* --- indexing *)
Lemma length2 : forall (A : Type) (l : list A), Z.of_nat (length l) = 2%Z -> exists a b, l = [a; b].
Proof.
  intros A l H. destruct l as [|a [|b [|c l]]]; cbn [length] in H; try lia.
  exists a, b. reflexivity.
Qed.

Lemma l_get_pair_0 : forall (A : Type) (a b : A), l_get [a; b] 0%Z = OK a.
Proof. reflexivity. Qed.

Lemma l_get_pair_1 : forall (A : Type) (a b : A), l_get [a; b] 1%Z = OK b.
Proof. reflexivity. Qed.

Lemma s_get_cons_0 : forall c r, s_get (c :: r) 0%Z = OK [c].
Proof.
  intros c r. unfold s_get, l_get. cbn [Z.ltb Z.compare orb].
  replace (Z.leb (Z.of_nat (length (c :: r))) 0) with false.
  - reflexivity.
  - symmetry. apply Z.leb_gt. cbn [length]. lia.
Qed.

Lemma l_slice_from_cons_1 : forall (A : Type) (c : A) r, l_slice_from (c :: r) 1%Z = r.
Proof.
  intros A c r. unfold l_slice_from. cbn [Z.ltb Z.compare].
  rewrite Z.min_l by (cbn [length]; lia). reflexivity.
Qed.

(* --- int(a / b) *)
Lemma int_truediv_quot : forall a b,
  (Z.abs a < 9007199254740992)%Z -> (0 < b <= 10000)%Z -> int_truediv a b = OK (Z.quot a b).
Proof.
  intros a b Ha Hb. unfold int_truediv.
  replace (Z.eqb b 0) with false by (symmetry; apply Z.eqb_neq; lia).
  replace (Z.ltb (Z.abs a) 9007199254740992) with true by (symmetry; apply Z.ltb_lt; lia).
  replace (Z.ltb 0 b) with true by (symmetry; apply Z.ltb_lt; lia).
  replace (Z.leb b 10000) with true by (symmetry; apply Z.leb_le; lia).
  reflexivity.
Qed.

(* --- filters *)
Lemma filter_id : forall (A : Type) (f : A -> bool) l, forallb f l = true -> filter f l = l.
Proof.
  induction l as [|x l IH]; intros H; cbn in *; [reflexivity|].
  apply andb_true_iff in H as [Hx Hl]. rewrite Hx. f_equal. apply IH. exact Hl.
Qed.

(* the digits of an ASCII string are ASCII digits *)
Lemma filter_digits_all_digits : forall u, s_isascii u = true -> all_digits (s_filter_digits u) = true.
Proof.
  unfold s_isascii, all_digits, s_filter_digits.
  induction u as [|c u IH]; intros H; cbn [filter forallb] in *; [reflexivity|].
  apply andb_true_iff in H as [Hc Hu].
  destruct (c_isdigit c) eqn:Hd.
  - cbn [forallb]. rewrite (ascii_isdigit_a_digit c Hc Hd). cbn [andb]. apply IH. exact Hu.
  - apply IH. exact Hu.
Qed.

Lemma all_digits_filter_id : forall A, all_digits A = true -> s_filter_digits A = A.
Proof.
  intros A H. apply filter_id. unfold all_digits in H.
  rewrite forallb_forall in *. intros c Hc. apply a_digit_props. apply H. exact Hc.
Qed.

Lemma nondigit_alnum_letters : forall x,
  forallb c_isalnum x = true -> s_isascii x = true -> s_filter_digits x = [] -> all_letters x = true.
Proof.
  unfold s_isascii, s_filter_digits, all_letters.
  induction x as [|c x IH]; intros Hal Has Hf; cbn [filter forallb] in *; [reflexivity|].
  apply andb_true_iff in Hal as [Hal1 Hal2]. apply andb_true_iff in Has as [Has1 Has2].
  destruct (c_isdigit c) eqn:Hd; [discriminate|].
  rewrite (ascii_alnum_nondigit_letter c Has1 Hal1 Hd). cbn [andb]. apply IH; assumption.
Qed.

(* --- int(str) on ASCII digit strings *)
Lemma s_digits_value_dvalue : forall A acc, all_digits A = true ->
  s_digits_value acc A = Some (fold_left (fun acc c => (acc * 10 + Z.of_N (c - 48))%Z) A acc).
Proof.
  unfold all_digits.
  induction A as [|c A IH]; intros acc H; cbn [s_digits_value fold_left forallb] in *; [reflexivity|].
  apply andb_true_iff in H as [Hc HA].
  destruct (a_digit_props c Hc) as (_ & _ & Hv). rewrite Hv. apply IH. exact HA.
Qed.

Lemma all_digits_not_special : forall A, all_digits A = true -> existsb c_int_special A = false.
Proof.
  unfold all_digits.
  induction A as [|c A IH]; intros H; cbn [existsb forallb] in *; [reflexivity|].
  apply andb_true_iff in H as [Hc HA].
  destruct (a_digit_props c Hc) as (_ & Hs & _). rewrite Hs. cbn [orb]. apply IH. exact HA.
Qed.

Lemma s_int_digits : forall A, A <> [] -> all_digits A = true ->
  s_int A = if Nat.ltb 4300 (length A) then Raise ValueError else OK (dvalue A).
Proof.
  intros A Hne Hd. unfold s_int. destruct A as [|c A]; [contradiction|].
  rewrite (all_digits_not_special _ Hd). rewrite (s_digits_value_dvalue _ 0%Z Hd). reflexivity.
Qed.

(* --- str.split(sep) *)
Lemma s_prefix_some : forall p s r, s_prefix p s = Some r -> s = p ++ r.
Proof.
  induction p as [|x p IH]; intros s r H; cbn [s_prefix] in H.
  - injection H as ->. reflexivity.
  - destruct s as [|y s]; [discriminate|]. destruct (N.eqb x y) eqn:E; [|discriminate].
    apply N.eqb_eq in E. subst y. cbn [app]. f_equal. apply IH. exact H.
Qed.

Lemma s_split_on_fuel_nonnil : forall fuel sep cur s, s_split_on_fuel fuel sep cur s <> [].
Proof.
  induction fuel as [|f IH]; intros sep cur s; cbn [s_split_on_fuel]; [discriminate|].
  destruct s as [|c r]; [discriminate|]. destruct (s_prefix sep (c :: r)); [discriminate|]. apply IH.
Qed.

Lemma s_split_on_fuel_one : forall fuel sep cur s q,
  s_split_on_fuel fuel sep cur s = [q] -> q = rev cur ++ s.
Proof.
  induction fuel as [|f IH]; intros sep cur s q H; cbn [s_split_on_fuel] in H.
  - injection H as <-. reflexivity.
  - destruct s as [|c r].
    + injection H as <-. rewrite app_nil_r. reflexivity.
    + destruct (s_prefix sep (c :: r)) as [rest|] eqn:E.
      * injection H as _ H. exfalso. exact (s_split_on_fuel_nonnil _ _ _ _ H).
      * apply IH in H. subst q. cbn [rev]. rewrite <- app_assoc. reflexivity.
Qed.

Lemma s_split_on_fuel_two : forall fuel sep cur s p q,
  s_split_on_fuel fuel sep cur s = [p; q] -> rev cur ++ s = p ++ sep ++ q.
Proof.
  induction fuel as [|f IH]; intros sep cur s p q H; cbn [s_split_on_fuel] in H.
  - discriminate.
  - destruct s as [|c r]; [discriminate|].
    destruct (s_prefix sep (c :: r)) as [rest|] eqn:E.
    + injection H as Hp H. apply s_split_on_fuel_one in H. cbn [rev app] in H. subst p q.
      apply s_prefix_some in E. rewrite E. reflexivity.
    + apply IH in H. cbn [rev] in H. rewrite <- app_assoc in H. exact H.
Qed.

Lemma OK_inj : forall (A : Type) (a b : A), OK a = OK b -> a = b.
Proof. intros A a b H. injection H as H. exact H. Qed.

Lemma s_split_on_two : forall sep s p q, s_split_on sep s = OK [p; q] -> s = p ++ sep ++ q.
Proof.
  intros sep s p q H. unfold s_split_on in H. destruct sep as [|c sep]; [discriminate|].
  apply OK_inj in H. apply s_split_on_fuel_two in H. exact H.
Qed.

Lemma s_split_on_ok : forall sep s, sep <> [] -> exists l, s_split_on sep s = OK l.
Proof.
  intros sep s H. unfold s_split_on. destruct sep; [contradiction|]. eexists. reflexivity.
Qed.

(* --- case folding *)
Lemma s_lower_fold : forall x, all_letters x = true -> map a_fold (s_lower x) = map a_fold x.
Proof.
  unfold all_letters, s_lower.
  induction x as [|c x IH]; intros H; cbn [flat_map map forallb] in *; [reflexivity|].
  apply andb_true_iff in H as [Hc Hx]. rewrite map_app.
  destruct (a_letter_fold c Hc) as [E _]. rewrite E. cbn [app]. f_equal. apply IH. exact Hx.
Qed.

Lemma s_capitalize_fold : forall x, all_letters x = true -> map a_fold (s_capitalize x) = map a_fold x.
Proof.
  intros x H. unfold s_capitalize. destruct x as [|c x]; [reflexivity|].
  unfold all_letters in H. cbn [forallb] in H. apply andb_true_iff in H as [Hc Hx].
  rewrite map_app. destruct (a_letter_fold c Hc) as [_ E]. rewrite E. cbn [app map]. f_equal.
  apply s_lower_fold. exact Hx.
Qed.

(* ------------------------------------------------------------------------------------------ *)
(* 3. The generated helper process_metastable_element_str                                       *)
(* ------------------------------------------------------------------------------------------ *)

(* on a non-empty string it never raises, and it only cuts the string in two *)
Lemma process_metastable_split : forall q, q <> [] ->
  exists mc el, process_metastable_element_str q = OK (mc, el) /\ q = mc ++ el.
Proof.
  intros q Hq. destruct q as [|c r]; [contradiction|].
  unfold process_metastable_element_str.
  rewrite s_get_cons_0, l_slice_from_cons_1. cbv [bind].
  destruct (Z.gtb (Z.of_nat (length (c :: r))) 2).
  - exists [c], r. split; reflexivity.
  - destruct (l_mem_str [c] metastable_chars && d_mem_sz z_dict r).
    + exists [c], r. split; reflexivity.
    + exists [], (c :: r). split; reflexivity.
Qed.

(* ------------------------------------------------------------------------------------------ *)
(* 4. parse_nuclide_str: one walk through the generated code                                    *)
(* ------------------------------------------------------------------------------------------ *)

(* what the walk establishes about the outcome, [u] being the input with whitespace and the first
   hyphen removed *)
Definition pns_post (u : str) (m : res str) : Prop :=
  match m with
  | OK r =>
      exists p A q El st,
        u = p ++ A ++ q /\
        A <> [] /\ all_digits A = true /\ (dvalue A <= 300)%Z /\ all_letters p = true /\ all_letters q = true /\
        In El elements /\ In st states /\ r = canonical El A st /\
        ( (p <> [] /\ same_fold p El /\ same_fold q st)
          \/ (p = [] /\ exists q1 q2, q = q1 ++ q2 /\ same_fold q1 st /\ same_fold q2 El) )
  | Raise ValueError => True
  | Raise NuclideStrError => True
  | Raise _ => False
  end.

(* the tail shared by both branches: element symbol and state letter checks *)
Lemma state_in_states : forall st, s_eqb st [] || l_mem_str st metastable_chars = true -> In st states.
Proof.
  intros st H. apply orb_true_iff in H as [H|H].
  - apply s_eqb_nil_true in H. subst st. left. reflexivity.
  - right. apply l_mem_str_in. exact H.
Qed.

(* the two components around the digit string are digit-free, hence ASCII letters *)
Lemma split_letters : forall u p A q,
  u = p ++ A ++ q -> forallb c_isalnum u = true -> s_isascii u = true ->
  s_filter_digits u = A -> all_digits A = true ->
  all_letters p = true /\ all_letters q = true.
Proof.
  intros u p A q Hu Hal Has Hf HAd. subst u.
  unfold s_isascii in Has. rewrite !forallb_app in Hal, Has.
  apply andb_true_iff in Hal as [Halp Hal]. apply andb_true_iff in Hal as [_ Halq].
  apply andb_true_iff in Has as [Hasp Has]. apply andb_true_iff in Has as [_ Hasq].
  unfold s_filter_digits in Hf. rewrite !filter_app in Hf.
  fold (s_filter_digits A) in Hf. rewrite (all_digits_filter_id A HAd) in Hf.
  assert (Hlen : length (filter c_isdigit p) = 0%nat /\ length (filter c_isdigit q) = 0%nat).
  { apply (f_equal (@length N)) in Hf. rewrite !app_length in Hf. lia. }
  destruct Hlen as [Hp Hq]. apply length_zero_iff_nil in Hp, Hq.
  split; apply nondigit_alnum_letters; assumption.
Qed.

Lemma pns_walk : forall s, pns_post (s_replace_first hyphen [] (ws_free s)) (parse_nuclide_str s).
Proof.
  intros s. unfold parse_nuclide_str. cbv zeta.
  set (u := s_replace_first _ _ (s_remove_ws s)).
  change (s_replace_first hyphen [] (ws_free s)) with u.
  destruct (s_isalnum u && s_isascii u) eqn:Hcls; cbn [negb]; [|exact I].
  apply andb_true_iff in Hcls as [Halnum Hascii].
  assert (Halnum' : forallb c_isalnum u = true).
  { unfold s_isalnum in Halnum. destruct u; [discriminate|exact Halnum]. }
  set (A := s_filter_digits u).
  assert (HAd : all_digits A = true) by (apply filter_digits_all_digits; exact Hascii).
  destruct (Z.eqb (Z.of_nat (length A)) 0) eqn:HlenA; cbv [bind]; [exact I|].
  assert (HAne : A <> []).
  { intros E. rewrite E in HlenA. cbn in HlenA. discriminate. }
  rewrite (s_int_digits A HAne HAd).
  destruct (Nat.ltb 4300 (length A)); [exact I|].
  destruct (Z.gtb (dvalue A) 300) eqn:Hgt; [exact I|].
  assert (Hle : (dvalue A <= 300)%Z).
  { rewrite Z.gtb_ltb in Hgt. apply Z.ltb_ge in Hgt. exact Hgt. }
  destruct (s_split_on_ok A u HAne) as (comps & Hsplit). rewrite Hsplit.
  destruct (Z.eqb (Z.of_nat (length comps)) 2) eqn:Hlen2; cbn [negb]; [|exact I].
  apply Z.eqb_eq in Hlen2. apply length2 in Hlen2 as (p & q & ->).
  rewrite !l_get_pair_0, !l_get_pair_1.
  apply s_split_on_two in Hsplit.
  destruct (split_letters u p A q Hsplit Halnum' Hascii eq_refl HAd) as [Hlp Hlq].
  destruct (s_eqb p _) eqn:Hp.
  - (* mass number first *)
    apply s_eqb_nil_true in Hp.
    destruct (s_eqb q _) eqn:Hq; [exact I|].
    apply s_eqb_nil_false in Hq.
    destruct (process_metastable_split q Hq) as (mc & el & Hpm & Hqs). rewrite Hpm.
    destruct (d_mem_sz z_dict (s_capitalize el)) eqn:Hel; cbn [negb]; [|exact I].
    destruct (Z.gtb (Z.of_nat (length mc)) 1); [exact I|].
    destruct (s_eqb (s_lower mc) _ || l_mem_str (s_lower mc) metastable_chars) eqn:Hst; cbn [negb]; [|exact I].
    assert (Hl : all_letters mc = true /\ all_letters el = true).
    { unfold all_letters in *. rewrite Hqs, forallb_app in Hlq. apply andb_true_iff in Hlq. exact Hlq. }
    destruct Hl as [Hlmc Hlel].
    exists p, A, q, (s_capitalize el), (s_lower mc).
    repeat split; try assumption.
    + apply d_mem_sz_in. exact Hel.
    + apply state_in_states. exact Hst.
    + right. split; [exact Hp|]. exists mc, el. split; [exact Hqs|]. split.
      * unfold same_fold. symmetry. apply s_lower_fold. exact Hlmc.
      * unfold same_fold. symmetry. apply s_capitalize_fold. exact Hlel.
  - (* element first *)
    apply s_eqb_nil_false in Hp.
    destruct (d_mem_sz z_dict (s_capitalize p)) eqn:Hel; cbn [negb]; [|exact I].
    destruct (Z.gtb (Z.of_nat (length q)) 1); [exact I|].
    destruct (s_eqb (s_lower q) _ || l_mem_str (s_lower q) metastable_chars) eqn:Hst; cbn [negb]; [|exact I].
    exists p, A, q, (s_capitalize p), (s_lower q).
    repeat split; try assumption.
    + apply d_mem_sz_in. exact Hel.
    + apply state_in_states. exact Hst.
    + left. split; [exact Hp|]. split.
      * unfold same_fold. symmetry. apply s_capitalize_fold. exact Hlp.
      * unfold same_fold. symmetry. apply s_lower_fold. exact Hlq.
Qed.

Lemma parse_str_total : forall s : str, is_ok_or_valueerror (parse_nuclide_str s).
Proof.
  intros s. pose proof (pns_walk s) as H. unfold pns_post in H. unfold is_ok_or_valueerror.
  destruct (parse_nuclide_str s) as [r|e]; [exact I|]. destruct e; try exact I; exact H.
Qed.

Lemma accepted_is_literal : forall s r, parse_nuclide_str s = OK r ->
  exists p A q El st,
    s_replace_first hyphen [] (ws_free s) = p ++ A ++ q /\
    A <> [] /\ all_digits A = true /\ (dvalue A <= 300)%Z /\ all_letters p = true /\ all_letters q = true /\
    In El elements /\ In st states /\ r = canonical El A st /\
    ( (p <> [] /\ same_fold p El /\ same_fold q st)                      (* element first *)
      \/ (p = [] /\ exists q1 q2, q = q1 ++ q2 /\ same_fold q1 st /\ same_fold q2 El) ).   (* mass first *)
Proof.
  intros s r H. pose proof (pns_walk s) as W. rewrite H in W. exact W.
Qed.

(* ------------------------------------------------------------------------------------------ *)
(* 5. parse_id                                                                                  *)
(* ------------------------------------------------------------------------------------------ *)

Lemma metastable_len : Z.of_nat (length metastable_chars) = 6%Z.
Proof. reflexivity. Qed.

(* the i-th state letter (1-based) has state number i *)
Lemma metastable_get : forall i, (1 <= i <= 6)%Z ->
  exists st, l_get metastable_chars (i - 1)%Z = OK st /\ state_num st = Some i.
Proof.
  intros i Hi.
  assert (C : (i = 1 \/ i = 2 \/ i = 3 \/ i = 4 \/ i = 5 \/ i = 6)%Z) by lia.
  destruct C as [->|[->|[->|[->|[->| ->]]]]]; eexists; split; vm_compute; reflexivity.
Qed.

(* every atomic number in Z_DICT is positive *)
Lemma z_dict_keys_pos : forall k, d_mem_zs z_dict k = true -> (0 < k)%Z.
Proof.
  intros k H. apply d_mem_zs_in in H.
  assert (T : forallb (fun k => Z.ltb 0 k) (map fst z_dict) = true) by (vm_compute; reflexivity).
  rewrite forallb_forall in T. apply Z.ltb_lt. apply T. exact H.
Qed.

(* element symbols are unique: looking an entry's symbol up gives back its atomic number *)
Lemma z_dict_get_z_of : forall k El, d_get_zs z_dict k = OK El -> z_of El z_dict = Some k.
Proof.
  intros k El H. apply d_get_zs_in in H.
  assert (T : forallb (fun kv => match z_of (snd kv) z_dict with Some k' => Z.eqb k' (fst kv) | None => false end)
                      z_dict = true) by (vm_compute; reflexivity).
  rewrite forallb_forall in T. specialize (T _ H). cbn [fst snd] in T.
  destruct (z_of El z_dict) as [k'|]; [|discriminate]. apply Z.eqb_eq in T. subst k'. reflexivity.
Qed.

(* arithmetic of the id decomposition; lia is taught Z.quot for this section only *)
Section QuotArith.
Ltac Zify.zify_post_hook ::= Z.to_euclidean_division_equations.

Lemma quot_abs_10000 : forall z, (Z.abs z <= 10000000000)%Z -> (Z.abs (Z.quot z 10000) <= 1000000)%Z.
Proof. intros z H. lia. Qed.

Lemma quot_nonpos_10000 : forall z, (z <= 0)%Z -> (Z.quot z 10000 <= 0)%Z.
Proof. intros z H. lia. Qed.

Lemma quot_nonpos_1000 : forall z, (z <= 0)%Z -> (Z.quot z 1000 <= 0)%Z.
Proof. intros z H. lia. Qed.

Lemma quot_rem_nonneg_10000 : forall z, (0 <= z)%Z ->
  (0 <= Z.quot z 10000)%Z /\ (0 <= z - Z.quot z 10000 * 10000 < 10000)%Z.
Proof. intros z H. lia. Qed.

Lemma quot_rem_nonneg_1000 : forall z, (0 <= z)%Z ->
  (0 <= Z.quot z 1000)%Z /\ (0 <= z - Z.quot z 1000 * 1000 < 1000)%Z.
Proof. intros z H. lia. Qed.
End QuotArith.

Definition pid_post (z : Z) (m : res str) : Prop :=
  match m with
  | OK r =>
      exists zz a sn El st, z = id_of zz a sn /\ (0 <= a < 1000)%Z /\ (0 <= sn <= 6)%Z /\
        z_of El z_dict = Some zz /\ state_num st = Some sn /\ r = El ++ hyphen ++ s_of_int a ++ st
  | Raise ValueError => True
  | Raise _ => False
  end.

Lemma pid_walk : forall z, (Z.abs z <= 10000000000)%Z -> pid_post z (parse_id z).
Proof.
  intros z Hz. unfold parse_id.
  rewrite (int_truediv_quot z 10000) by lia. cbv [bind].
  rewrite metastable_len.
  pose proof (quot_abs_10000 z Hz) as Hq.
  set (q := Z.quot z 10000) in *.
  set (sd := (z - q * 10000)%Z).
  rewrite (int_truediv_quot q 1000) by lia.
  set (zz := Z.quot q 1000).
  unfold build_nuclide_string.
  destruct (Z.gtb sd 6) eqn:Hsd6; [exact I|].
  rewrite Z.gtb_ltb in Hsd6. apply Z.ltb_ge in Hsd6.
  (* the atomic number must be in Z_DICT, hence positive, hence z >= 0 *)
  assert (Hpos : d_mem_zs z_dict zz = true -> (0 <= z)%Z /\ (0 <= sd)%Z /\ (0 <= q - zz * 1000 < 1000)%Z).
  { intros Hm. apply z_dict_keys_pos in Hm.
    assert (Hq0 : (0 < q)%Z).
    { destruct (Z.lt_trichotomy 0 q) as [G|G]; [exact G|].
      assert (G' : (q <= 0)%Z) by lia. apply quot_nonpos_1000 in G'. fold zz in G'. lia. }
    assert (Hz0 : (0 <= z)%Z).
    { destruct (Z.le_gt_cases 0 z) as [G|G]; [exact G|].
      assert (G' : (z <= 0)%Z) by lia. apply quot_nonpos_10000 in G'. fold q in G'. lia. }
    destruct (quot_rem_nonneg_10000 z Hz0) as [_ Hr]. fold q in Hr. fold sd in Hr.
    destruct (quot_rem_nonneg_1000 q ltac:(lia)) as [_ Hr']. fold zz in Hr'.
    lia. }
  destruct (Z.gtb sd 0) eqn:Hsd0.
  - rewrite Z.gtb_ltb in Hsd0. apply Z.ltb_lt in Hsd0.
    destruct (metastable_get sd ltac:(lia)) as (st & Hget & Hnum). rewrite Hget.
    destruct (d_mem_zs z_dict zz) eqn:Hm; cbn [negb]; [|exact I].
    destruct (d_mem_zs_get _ _ Hm) as (El & HEl). rewrite HEl.
    destruct (Hpos eq_refl) as (Hz0 & Hs0 & Ha).
    exists zz, (q - zz * 1000)%Z, sd, El, st.
    split; [unfold id_of; subst sd; ring|].
    split; [exact Ha|]. split; [lia|]. split; [apply z_dict_get_z_of; exact HEl|].
    split; [exact Hnum|]. reflexivity.
  - rewrite Z.gtb_ltb in Hsd0. apply Z.ltb_ge in Hsd0.
    destruct (d_mem_zs z_dict zz) eqn:Hm; cbn [negb]; [|exact I].
    destruct (d_mem_zs_get _ _ Hm) as (El & HEl). rewrite HEl.
    destruct (Hpos eq_refl) as (Hz0 & Hs0 & Ha).
    assert (Hsd : sd = 0%Z) by lia.
    exists zz, (q - zz * 1000)%Z, sd, El, [].
    split; [unfold id_of; subst sd; ring|].
    split; [exact Ha|]. split; [lia|]. split; [apply z_dict_get_z_of; exact HEl|].
    split; [rewrite Hsd; reflexivity|]. reflexivity.
Qed.

Lemma parse_id_total : forall z : Z, (Z.abs z <= 10000000000)%Z -> is_ok_or_valueerror (parse_id z).
Proof.
  intros z Hz. pose proof (pid_walk z Hz) as H. unfold pid_post in H. unfold is_ok_or_valueerror.
  destruct (parse_id z) as [r|e]; [exact I|]. destruct e; try exact I; exact H.
Qed.

Lemma accepted_id_is_literal : forall z r, (Z.abs z <= 10000000000)%Z -> parse_id z = OK r ->
  exists zz a sn El st, z = id_of zz a sn /\ (0 <= a < 1000)%Z /\ (0 <= sn <= 6)%Z /\
    z_of El z_dict = Some zz /\ state_num st = Some sn /\ r = El ++ hyphen ++ s_of_int a ++ st.
Proof.
  intros z r Hz H. pose proof (pid_walk z Hz) as W. rewrite H in W. exact W.
Qed.

(* ------------------------------------------------------------------------------------------ *)
(* 6. parse_nuclide                                                                             *)
(* ------------------------------------------------------------------------------------------ *)

Lemma negb_if : forall (A : Type) (b : bool) (x y : A), (if negb b then x else y) = (if b then y else x).
Proof. intros A [] x y; reflexivity. Qed.

Lemma parse_nuclide_other : forall names dsname, parse_nuclide VOther names dsname = Raise TypeError.
Proof. intros names dsname. reflexivity. Qed.

Lemma parse_nuclide_str_case : forall s names dsname,
  parse_nuclide (VStr s) names dsname =
  bind (parse_nuclide_str s) (fun r => if l_mem_str r names then OK r else Raise ValueError).
Proof.
  intros s names dsname. unfold parse_nuclide. cbv zeta.
  destruct (parse_nuclide_str s) as [r|e]; cbv [bind]; [|reflexivity].
  apply negb_if.
Qed.

Lemma parse_nuclide_int_case : forall z names dsname,
  parse_nuclide (VInt z) names dsname =
  bind (parse_id z) (fun n => bind (parse_nuclide_str n)
       (fun r => if l_mem_str r names then OK r else Raise ValueError)).
Proof.
  intros z names dsname. unfold parse_nuclide. cbv zeta.
  destruct (parse_id z) as [n|e]; cbv [bind]; [|reflexivity].
  destruct (parse_nuclide_str n) as [r|e]; [|reflexivity].
  apply negb_if.
Qed.

Lemma parse_nuclide_member : forall v names dsname r,
  parse_nuclide v names dsname = OK r -> l_mem_str r names = true.
Proof.
  intros v names dsname r H. destruct v as [z|s|].
  - rewrite parse_nuclide_int_case in H.
    destruct (parse_id z) as [n|e]; cbv [bind] in H; [|discriminate].
    destruct (parse_nuclide_str n) as [r'|e]; [|discriminate].
    destruct (l_mem_str r' names) eqn:Hm; [|discriminate].
    apply OK_inj in H. subst r'. exact Hm.
  - rewrite parse_nuclide_str_case in H.
    destruct (parse_nuclide_str s) as [r'|e]; cbv [bind] in H; [|discriminate].
    destruct (l_mem_str r' names) eqn:Hm; [|discriminate].
    apply OK_inj in H. subst r'. exact Hm.
  - rewrite parse_nuclide_other in H. discriminate.
Qed.

Lemma parse_nuclide_total : forall v names dsname,
  (forall z, v = VInt z -> (Z.abs z <= 10000000000)%Z) ->
  match parse_nuclide v names dsname with
  | OK _ | Raise ValueError | Raise NuclideStrError | Raise TypeError => True
  | _ => False
  end.
Proof.
  intros v names dsname Hv. destruct v as [z|s|].
  - rewrite parse_nuclide_int_case.
    pose proof (parse_id_total z (Hv z eq_refl)) as Hid. unfold is_ok_or_valueerror in Hid.
    destruct (parse_id z) as [n|e]; cbv [bind].
    + pose proof (parse_str_total n) as Hs. unfold is_ok_or_valueerror in Hs.
      destruct (parse_nuclide_str n) as [r|e].
      * destruct (l_mem_str r names); exact I.
      * destruct e; try exact I; exact Hs.
    + destruct e; try exact I; exact Hid.
  - rewrite parse_nuclide_str_case.
    pose proof (parse_str_total s) as Hs. unfold is_ok_or_valueerror in Hs.
    destruct (parse_nuclide_str s) as [r|e]; cbv [bind].
    + destruct (l_mem_str r names); exact I.
    + destruct e; try exact I; exact Hs.
  - rewrite parse_nuclide_other. exact I.
Qed.

Print Assumptions parse_str_total.
Print Assumptions parse_id_total.
Print Assumptions accepted_is_literal.
Print Assumptions accepted_id_is_literal.
Print Assumptions parse_nuclide_other.
Print Assumptions parse_nuclide_str_case.
Print Assumptions parse_nuclide_int_case.
Print Assumptions parse_nuclide_member.
Print Assumptions parse_nuclide_total.
