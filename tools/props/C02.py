"""C02 - high-precision decay is exact to double rounding, at every time."""
import random
import common as C
import corr_decay as D
import corr_units as U

PID = "C02"
PROPS_MODULE = "Props.C02"
THEOREMS = ["hp_closed_form_solves_ode", "hp_closed_form_initial", "hp_solution_unique", "hp_generations_identical",
            "hp_reference_encloses_closed_form"]
EXTRA_PROPS = {"Props.C02b": ["hp_eval_error", "hp_readout_error", "default_hp_readout_error"]}
REQUIRED = ["Props/C02b.v", "Proofs/CertDefault/ExactCondCert.v", "Props/C02.v", "Model/DecayCheck.v"]
TRANSLATORS = ["tr_data", "synth_dataset", "tr_data_synth", "tr_tables", "tr_pure"]
SHAPE_KEYS = ["InventoryHP::decay", "InventoryHP::__init__", "InventoryHP::numbers", "AbstractInventory::_setup_decay_calc",
              "AbstractInventory::_perform_decay_calc", "AbstractInventory::_convert_decay_time", "load_dataset", "DecayMatricesSympy"]
PARTIAL = ["Props/C02b.v proves the precision of the high-precision class for ALL inputs on a MODEL of SymPy's evaluation (every product and sum rounded to "
           "the working precision, any accumulation order, no underflow; u <= 2^-1060 for 320 digits): |double result - exact| <= 2^-53 |exact| + 2^-1030 x (initial atoms) "
           "+ 2^-1075; SymPy/mpmath are not modelled bit for bit - the tie of that model to the code is the per-case comparison with the proved enclosure "
           "(relative 1e-13 above the guard 1e-315 x ancestors' atoms)",
           "the property as written is FALSE below that guard (known finding F10: fixed 320 digits cannot give relative accuracy for results near 1e-300)"]
TRUSTED_BASE = [
    "Coq 8.16.1 kernel incl. vm_compute",
    "axioms: standard Reals axioms; Uint63/PrimFloat primitives",
    "translator tr_data.py; tr_shapes.py ties for InventoryHP.decay/__init__ (sig_fig = 320 is part of the recorded text)",
    "coq-interval interval arithmetic; oracle: SymPy nsimplify of the inputs is observed (exact rationals handed to the model)",
]
ASSUMPTIONS = ["SymPy Rational arithmetic exact; evalf(320)/exp accurate to the working precision"]
KNOWN_INPUTS = [
    {"cls": "InventoryHP", "contents": {"Es-256": float(1e30).hex()}, "unit": "num", "t": float(1e-12).hex(), "tunit": "s"},
    {"cls": "InventoryHP", "contents": {"Fm-257": float(1e30).hex()}, "unit": "num", "t": float(1e-13).hex(), "tunit": "s"},
]


def correspondence(ctx):
    rng = random.Random(ctx["seed"] + 2)
    thorough = ctx["tier"] == "thorough"
    names, stable = U.dataset_names()
    deep = ["Es-256", "Fm-257", "Es-254m", "Cf-252", "U-238", "Pu-244"]
    radio = [n for n, s in zip(names, stable) if not s]
    only = deep + rng.sample(radio, 300 if thorough else 18)
    cases = D.gen_cases(rng, names, stable, 0, 120 if thorough else 8, "InventoryHP", only=only, cum_every=4)
    streams, viol, samples = {}, [], []
    D.decay_stream(rng, cases, "check_hp_decay Default", "decay_hp", streams, viol, samples,
                   "InventoryHP.decay / cumulative_decays: closure set, every amount within relative 1e-13 (+ guard 1e-315 x ancestors' atoms, "
                   "+ below-smallest-normal slack) of the proved enclosure of the exact solution for the nsimplify'd inputs; deep chains always included",
                   shard=2, py_pred=D.parent_tail_pred())
    # the recorded known-finding inputs, checked against the property AS WRITTEN (no guard)
    s2, v2, smp = {}, [], []
    D.decay_stream(rng, [dict(c) for c in KNOWN_INPUTS], "check_hp_decay_unguarded Default", "decay_hp_unguarded", s2, v2, smp,
                   "the two recorded known-finding inputs against the unguarded property", shard=1)
    streams.update(s2)
    for v, c in zip([x for x in v2 if x["found_input"]], KNOWN_INPUTS):
        pass
    for v in v2:
        inp = v["payload"].get("input", {})
        if v["found_input"] and "contents" in inp:
            v["key"] = "hp-unguarded:" + ",".join(sorted(inp["contents"])) + ":" + inp["t"]
        viol.append(v)
    sn, ss = D.names_of("synth")
    scases = D.gen_cases(rng, sn, ss, 8, 3, "InventoryHP", ds="synth", cum_every=1)
    D.decay_stream(rng, scases, "check_hp_decay Synth", "decay_hp_synth", streams, viol, samples,
                   "the same check on the synthetic data set (states p q r x, 365.25-day year, SF, branches not summing to one)",
                   shard=2, ds="synth", pre=D.PRE.replace("Model.Default", "Model.Default Model.Synth"))
    import corr_randds as RD
    RD.random_dataset_stream(rng, 10 if ctx["tier"] == "thorough" else 2, streams, viol, samples, cum=False, hp=3)
    return {"streams": streams, "violations": viol, "samples": samples}


def search_broken(ctx):
    # the obligations of this property rest on the data certificate: turn its witnesses into requests
    return D.data_witness_probe(PID, ("InventoryHP",))


def replay(payload):
    c = payload.get("input")
    if not isinstance(c, dict) or "contents" not in c:
        return None          # not a single decay case: the generic replay of ./check re-runs the recorded seed
    if False:
        c = dict(c, cum=True)
    return D.replay_case(c, payload.get("checker"))
