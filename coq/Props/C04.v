(* C04 - Shipped decay datasets are exactly self-consistent.
   This file contains only statements closed by [exact <lemma>] and their assumptions. *)
From Coq Require Import Reals.
From Coquelicot Require Import Coquelicot.
From RD Require Import Base Model.DecayR Model.Dataset Model.Default Gen.Tables.
From RD Require Proofs.Bateman Proofs.DatasetCert Proofs.DefaultWf Proofs.CertDefault.Struct Proofs.CertDefault.Gens.
Local Open Scope R_scope.

Notation NtD := (Nt (nn Default) (Cr Default) (Cir Default) (mur Default)).
Notation LamD := (Lam (Mr Default)).

(* the exact matrices are mutual inverses, diagonalise the rate matrix built from the listed
   half-lives / branching fractions / progeny, stable columns are trivial, links are in range *)
Theorem default_wf_core : wf_core Default = true.
Proof. exact Proofs.DefaultWf.default_wf_core. Qed.

(* for EVERY data set the executable certificate implies the real-number facts *)
Theorem wf_core_is_certificate : forall d : dataset, wf_core d = true ->
  cert (nn d) (Cr d) (Cir d) (Mr d) (mur d) (bfr d) (stableb d).
Proof. exact Proofs.DatasetCert.wf_core_cert. Qed.

(* acyclic / parents first, bfs in (0,1], decreasing, sum <= 1.001, modes match dZ/dA,
   mu_i * T_i = 1 from the listed half-lives, readable strings, names *)
Theorem default_wf_struct : wf_struct Default time_units_q year_units z_dict = true.
Proof. exact Proofs.CertDefault.Struct.default_struct. Qed.

(* both pickle generations hold identical data *)
Theorem generations_identical : Default18 = Default.
Proof. exact Proofs.CertDefault.Gens.generations_identical. Qed.

(* hence the closed form the library evaluates IS the solution of the decay ODEs of the listed data,
   for all real t and all initial vectors *)
Theorem default_closed_form_is_solution : forall n0 t i, (i < nn Default)%nat ->
  is_derive (fun s => NtD n0 s i) t (sumn (nn Default) (fun m => LamD i m * NtD n0 t m)).
Proof. exact (Proofs.Bateman.closed_form_solves_ode _ _ _ _ _ _ _ Proofs.DefaultWf.default_cert). Qed.

Theorem default_closed_form_initial : forall n0 i, (i < nn Default)%nat -> NtD n0 0 i = n0 i.
Proof. exact (Proofs.Bateman.closed_form_initial _ _ _ _ _ _ _ Proofs.DefaultWf.default_cert). Qed.

Theorem default_solution_unique : forall (n0 : nat -> R) (y : nat -> R -> R),
  (forall i, (i < nn Default)%nat -> y i 0 = n0 i) ->
  (forall i t, (i < nn Default)%nat -> is_derive (y i) t (sumn (nn Default) (fun m => LamD i m * y m t))) ->
  forall i t, (i < nn Default)%nat -> y i t = NtD n0 t i.
Proof. exact (Proofs.Bateman.ode_solution_unique _ _ _ _ _ _ _ Proofs.DefaultWf.default_cert). Qed.
