From RD Require Import Base Model.Dataset Model.Default.
Lemma default_CCi : chk_CCi Default = true.
Proof. vm_cast_no_check (eq_refl true). Qed.
