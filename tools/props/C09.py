"""C09 - every documented nuclide spelling resolves to one canonical nuclide."""
import random
import time
import common as C
import corr_nuclide as N

PID = "C09"
PROPS_MODULE = "Props.C09"
THEOREMS = ["ws_irrelevant", "parse_canonical", "canonical_fixed_point", "id_roundtrip",
            "nuclide_fields_agree", "spelling_example"]
REQUIRED = ["Props/C09.v"]
TRANSLATORS = ["synth_dataset", "tr_data_synth", "tr_pure", "tr_tables", "tr_unicode"]
PARTIAL = []
TRUSTED_BASE = [
    "Coq 8.16.1 kernel incl. vm_compute",
    "axioms: none expected (closed under the global context)",
    "translator tools/tr_pure.py + tools/pytr.py (Python ast -> Gallina over coq/Lib/Py.v), tr_tables.py, tr_unicode.py",
    "coq/Lib/Py.v as the model of CPython str/int/list semantics (validated by the 'pylib' stream)",
    "extraction: ExtrOcamlBasic only; OCaml 4.13.1; coq/Extract/driver.ml",
]
ASSUMPTIONS = ["CPython str methods behave as modelled in coq/Lib/Py.v on the exercised arguments",
               "int(a/b) equals truncated integer division for |a| < 2^53, 0 < b <= 10^4"]


def lib_requests(rng, n):
    """requests for the library-function stream"""
    pool = N.ALPHABET + list("abcXYZ  ") + ["Ǆ", "ŉ", "ǰ", "ς", "İ"]
    def rs(maxlen=6):
        return "".join(rng.choice(pool) for _ in range(rng.randint(0, maxlen)))
    reqs = []
    for _ in range(n):
        fn = rng.choice(["remove_ws", "split_ws", "replace_first", "replace_all", "split_on", "isalnum",
                         "isnumeric", "isdigit", "isascii", "lower", "capitalize", "strip", "int", "filter_digits"])
        s = rs()
        if fn in ("replace_first", "replace_all"):
            old = rs(2) or "-"
            reqs.append(f"L {fn} {N.enc(s)} | {N.enc(old)} | {N.enc(rs(2))}")
        elif fn == "split_on":
            sep = rs(2)
            if sep == "":
                sep = "-"
            reqs.append(f"L {fn} {N.enc(s)} | {N.enc(sep)}")
        elif fn == "strip":
            reqs.append(f"L {fn} {N.enc(s)} | {N.enc(rs(3))}")
        elif fn == "int":
            s = "".join(rng.choice("0123456789٣²") for _ in range(rng.randint(0, 5)))
            reqs.append(f"L {fn} {N.enc(s)}")
        else:
            reqs.append(f"L {fn} {N.enc(s)}")
    return reqs


def lib_stream(rng, n, viol, streams):
    reqs = lib_requests(rng, n)
    mo, io = N.run_both(reqs, shards=4)
    dis = [(r, a, b) for r, a, b in zip(reqs, mo, io)
           if a != b and "Unmodelled" not in a
           and not (r.startswith(("L lower", "L capitalize")) and "931" in r.split())]   # context-dependent final sigma (documented abstraction)
    streams["pylib"] = {"cases": len(reqs), "disagreements": len(dis),
                        "unmodelled": sum("Unmodelled" in a for a in mo)}
    for r, a, b in dis[:3]:
        viol.append({"name": "pylib", "found_input": False, "key": "pylib:" + r,
                     "payload": {"broken": "coq/Lib/Py.v disagrees with CPython (model of the runtime is wrong)",
                                 "request": r, "model": a, "impl": b}})


def correspondence(ctx):
    rng = random.Random(ctx["seed"])
    thorough = ctx["tier"] == "thorough"
    streams, viol, samples, notes = {}, [], [], []
    ok, msg = N.build_driver()
    if not ok:
        viol.append({"name": "extract", "found_input": False, "key": "extract",
                     "payload": {"broken": "the generated model could not be extracted/compiled", "message": msg}})
        return {"streams": streams, "violations": viol}
    lib_stream(rng, 20000 if thorough else 4000, viol, streams)

    # --- exhaustive spellings (the quantifier of the property)
    items = list(N.exhaustive_spellings())
    if not thorough:
        # quick: every (element, state, form) at 40 of the 300 mass numbers incl. boundaries
        keepA = set([1, 2, 9, 10, 11, 99, 100, 101, 199, 200, 299, 300] + rng.sample(range(1, 301), 28))
        items = [(s, c) for (s, c) in items if int("".join(ch for ch in c.split("-")[1] if ch.isdigit())) in keepA]
    items += N.random_variants(rng, 300000 if thorough else 40000)
    reqs = ["P " + N.enc(s) for s, _ in items]
    mo, io = N.run_both(reqs)
    n_model_dis = n_impl_bad = 0
    for (s, canon), a, b in zip(items, mo, io):
        want = "OK " + N.enc(canon)
        if b != want:
            n_impl_bad += 1
            if n_impl_bad <= 3:
                viol.append({"name": f"spelling-{n_impl_bad}", "found_input": True, "key": "spelling:" + s,
                             "payload": {"fails": "documented spelling does not resolve to its canonical name",
                                         "input": s, "expected": canon, "impl": b, "model": a,
                                         "entry": "radioactivedecay.utils.parse_nuclide_str"}})
        elif a != b:
            n_model_dis += 1
            if n_model_dis <= 2:
                viol.append({"name": f"spelling-model-{n_model_dis}", "found_input": False, "key": "model:" + s,
                             "payload": {"broken": "generated model and implementation disagree (property holds on the implementation)",
                                         "input": s, "impl": b, "model": a}})
    streams["spellings"] = {"cases": len(items), "impl_wrong": n_impl_bad, "model_disagrees": n_model_dis,
                            "exhaustive": thorough,
                            "what": "118 elements x A x 7 states x 7 forms + random case/whitespace variants; three-way"}
    samples += [{"input": items[i][0], "expected": items[i][1], "impl": io[i]} for i in (0, len(items) // 2, len(items) - 1)]

    # --- fields and ids
    step = 1 if thorough else 7
    trip = [(el, a, st) for el in N.ELEMENTS for a in range(1, 301) for st in N.STATES][::step]
    reqs = ["F " + N.enc(f"{el}-{a}{st}") for el, a, st in trip] + [f"I {N.expected_id(el, a, st)}" for el, a, st in trip]
    mo, io = N.run_both(reqs)
    nb = nd = 0
    for k, (el, a, st) in enumerate(trip):
        want = f"OK {N.ELEMENTS.index(el) + 1} ; OK {a} ; OK {N.enc(st)} ; OK {N.expected_id(el, a, st)}".replace("OK  ;", "OK ;")
        got = io[k].replace("OK  ;", "OK ;")
        if got.split() != want.split():
            nb += 1
            if nb <= 3:
                viol.append({"name": f"fields-{nb}", "found_input": True, "key": f"fields:{el}-{a}{st}",
                             "payload": {"fails": "Z/A/state/id disagree with the canonical name", "input": f"{el}-{a}{st}",
                                         "expected": want, "impl": io[k], "model": mo[k], "entry": "Nuclide.Z/.A/.state/.id"}})
        elif mo[k].split() != io[k].split():
            nd += 1
        k2 = k + len(trip)
        want2 = "OK " + N.enc(f"{el}-{a}{st}")
        if io[k2] != want2:
            nb += 1
            if nb <= 3:
                viol.append({"name": f"id-{nb}", "found_input": True, "key": f"id:{N.expected_id(el, a, st)}",
                             "payload": {"fails": "canonical id does not round-trip", "input": N.expected_id(el, a, st),
                                         "expected": f"{el}-{a}{st}", "impl": io[k2], "model": mo[k2], "entry": "utils.parse_id"}})
        elif mo[k2] != io[k2]:
            nd += 1
    if nd:
        viol.append({"name": "fields-model", "found_input": False, "key": "fields-model",
                     "payload": {"broken": f"generated model and implementation disagree on {nd} field/id cases"}})
    streams["fields_and_ids"] = {"cases": len(reqs), "impl_wrong": nb, "model_disagrees": nd, "exhaustive": thorough}

    # --- every entry point that takes a nuclide, with data-set nuclides in every spelling
    import numpy as np, os
    import corr_units as U
    d = np.load(os.path.join(C.REPO, "radioactivedecay/icrp107_ame2020_nubase2020/decay_data.npz"), allow_pickle=True)
    names = [str(x) for x in d["nuclides"]]
    prog = {n: [str(x) for x in pl if str(x) != "SF"] for n, pl in zip(names, d["progeny"])}
    parents = {}
    for n, pl in prog.items():
        for c in pl:
            parents.setdefault(c, []).append(n)
    pick = rng.sample(names, 400 if thorough else 40)
    cases = []
    for n in pick:
        el, rest = n.split("-")
        a = "".join(ch for ch in rest if ch.isdigit())
        st = rest[len(a):]
        sps = N.spell_forms(el, int(a), st) + [N.expected_id(el, int(a), st)]
        cases.append({"name": n, "spellings": sps, "progeny": prog[n][:2], "parents": parents.get(n, [])[:2]})
    res = U.run_impl("impl_api_spell.py", cases, timeout=3000)
    streams["api_spellings"] = {"cases": res["cases"], "impl_wrong": len(res["bad"]),
                                "what": "Nuclide, Inventory/InventoryHP keys, add, remove, remove(list), half_life, branching_fraction, decay_mode "
                                        "(parent and progeny argument), read_csv x 7 spellings + id of data-set nuclides"}
    seen = set()
    for label, sp, name, why in res["bad"]:
        if label in seen:
            continue
        seen.add(label)
        viol.append({"name": f"api-{len(seen)}", "found_input": True, "key": f"api:{label}:{sp}",
                     "payload": {"fails": f"{label} with the spelling {sp} of {name} {why}", "input": sp, "canonical": name, "entry": label}})
        if len(seen) >= 4:
            break
    # --- the same entry points bound to the synthetic data set, whose members include the states p, q, r, x
    import corr_decay as DD
    d2 = np.load(DD.npz_path("synth"), allow_pickle=True)
    names2 = [str(x) for x in d2["nuclides"]]
    prog2 = {n: [str(x) for x in pl if str(x) != "SF"] for n, pl in zip(names2, d2["progeny"])}
    par2 = {}
    for n, pl in prog2.items():
        for c in pl:
            par2.setdefault(c, []).append(n)
    cases2 = []
    for n in names2:
        el, rest = n.split("-")
        a = "".join(ch for ch in rest if ch.isdigit())
        st = rest[len(a):]
        ident = N.expected_id(el, int(a), st)
        c2 = {"name": n, "spellings": N.spell_forms(el, int(a), st) + [ident], "progeny": prog2[n][:2], "parents": par2.get(n, [])[:2],
              "fields": [ident // 10**7, int(a), st, ident]}
        cases2.append(c2)
    res2 = U.run_impl("impl_api_spell.py", {"ds": "synth", "cases": cases2}, timeout=3000)
    streams["api_spellings_synth"] = {"cases": res2["cases"], "impl_wrong": len(res2["bad"]),
                                      "what": "the same entry points bound to the synthetic data set (members in the states m n p q r x): every spelling and id "
                                              "resolves to the canonical member; Z, A, state, id equal the values written in the name (id computed independently)"}
    seen2 = set()
    for label, sp, name, why in res2["bad"]:
        if label in seen2:
            continue
        seen2.add(label)
        viol.append({"name": f"api-synth-{len(seen2)}", "found_input": True, "key": f"api-synth:{label}:{sp}",
                     "payload": {"fails": f"{label} with the spelling {sp} of {name} (synthetic data set) {why}", "input": sp, "canonical": name, "entry": label}})
        if len(seen2) >= 4:
            break
    return {"streams": streams, "violations": viol, "samples": samples, "notes": notes}


def search_broken(ctx):
    return []      # the exhaustive correspondence above is the failing-input search


def replay(payload):
    reqs = []
    if "input" in payload and isinstance(payload["input"], str) and payload.get("entry", "").startswith("radio"):
        reqs = ["P " + N.enc(payload["input"])]
    elif isinstance(payload.get("input"), int):
        reqs = [f"I {payload['input']}"]
    elif "input" in payload:
        reqs = ["F " + N.enc(payload["input"])]
    if not reqs:
        return {"fails": True, "note": "nothing to replay; theorem/correspondence named in the file"}
    N.build_driver()
    mo, io = N.run_both(reqs, shards=1)
    exp = payload.get("expected")
    fails = (io[0] != "OK " + N.enc(exp)) if reqs[0].startswith(("P", "I")) and exp else (io[0].split() != str(exp).split())
    return {"fails": fails, "impl": io[0], "model": mo[0], "expected": exp}
