"""C01 bit-level stream: the implementation's decayed amounts vs the primitive-float model of SciPy's evaluation
(coq/Model/FloatDecay.v), bit for bit, with the row orders of the intermediate products observed from the running SciPy;
the model's side conditions (orders_okb) are the hypotheses of the error theorem (Props/C01c.v)."""
import json
import common as C
import coqcases as Q
import corr_units as U
import corr_decay as D

PRE = ("From Coq Require Import ZArith NArith List PrimFloat.\nImport ListNotations.\n"
       "From Interval Require Import Float.Specific_bigint Float.Specific_ops Interval.Float_full Interval.Interval Float.Basic Real.Xreal.\n"
       "From RD Require Import Base Model.Dataset Model.Default Model.Digest Model.FloatDecay Model.DecayI Proofs.CertDefault.FloatDataCert.\n"
       "Definition cfD := Eval vm_compute in ds_cf Default.\nDefinition cifD := Eval vm_compute in ds_cif Default.\n"
       "Definition feq (a b : float) : bool := Z.eqb (fcode a) (fcode b).\n"
       "Definition prec80 := F.PtoP 80.\n"
       "(* hypothesis of default_float_decay_error: every stored exponential within 2^-50 of exp(-lambda_k t), lambda_k the float decay constant *)\n"
       "Definition e_acc (secs : float) (kv : N * float) : bool :=\n"
       "  let lamk := nth (N.to_nat (fst kv)) default_lam_val 0%float in\n"
       "  within prec80 (ifloat prec80 (snd kv)) (clampI prec80 (I.exp prec80 (I.neg (I.mul prec80 (ifloat prec80 lamk) (ifloat prec80 secs))))) (idyadic prec80 1 (-50)).\n"
       "(* ... and every k that meets a non-zero initial amount through C^-1 has a stored exponential *)\n"
       "Fixpoint rows_ok (j : N) (e : frow) (k : N) (rows : list frow) : bool :=\n"
       "  match rows with [] => true | r :: rest => (negb (stored r j) || memN k (fcols e)) && rows_ok j e (N.succ k) rest end.\n"
       "Definition relevant_in_e (e n0 : frow) : bool := forallb (fun jv => fzero (snd jv) || rows_ok (fst jv) e 0%N cifD) n0.\n"
       "Definition nonneg (n0 : frow) : bool := forallb (fun jv => PrimFloat.leb 0%float (snd jv)) n0.\n"
       "Definition chk (c : float * frow * frow * list (N * list N * list N * float)) : bool := let '(secs, e, n0, rows) := c in\n"
       "  forallb (e_acc secs) e && relevant_in_e e n0 && nonneg n0 && PrimFloat.leb 0%float secs &&\n"
       "  forallb (fun r => let '(i, ce, mo, v) := r in\n"
       "     orders_okb cfD cifD e n0 i ce mo && ffinite v && feq (pf_yhat cfD cifD e n0 i ce mo) v) rows.\n")


PRE_CUM = PRE.replace("Model.FloatDecay", "Model.FloatDecay Model.FloatCum") + (
    "(* hypothesis of the cumulative theorem: each stored E'_k within 2^-50 / lambda_k of (1 - exp(-lambda_k t)) / lambda_k *)\n"
    "Definition e_acc_cum (secs : float) (kv : N * float) : bool :=\n"
    "  let lamk := ifloat prec80 (nth (N.to_nat (fst kv)) default_lam_val 0%float) in\n"
    "  let x := clampI prec80 (I.exp prec80 (I.neg (I.mul prec80 lamk (ifloat prec80 secs)))) in\n"
    "  within prec80 (ifloat prec80 (snd kv)) (I.div prec80 (I.sub prec80 (I.fromZ prec80 1) x) lamk) (I.div prec80 (idyadic prec80 1 (-50)) lamk).\n"
    "(* every radioactive k that meets a non-zero initial amount through C^-1 has a stored E'_k *)\n"
    "Fixpoint rows_ok_cum (j : N) (e : frow) (k : N) (rows : list frow) : bool :=\n"
    "  match rows with [] => true | r :: rest => (negb (stored r j) || memN k (fcols e) || fzero (nth (N.to_nat k) default_lam_val 0%float)) && rows_ok_cum j e (N.succ k) rest end.\n"
    "Definition relevant_in_e_cum (e n0 : frow) : bool := forallb (fun jv => fzero (snd jv) || rows_ok_cum (fst jv) e 0%N cifD) n0.\n"
    "Definition radio_only (e : frow) : bool := forallb (fun kv => negb (fzero (nth (N.to_nat (fst kv)) default_lam_val 0%float))) e.\n"
    "Definition chk_cum (c : float * frow * frow * list (N * list N * list N * float * float)) : bool := let '(secs, e, n0, rows) := c in\n"
    "  forallb (e_acc_cum secs) e && radio_only e && relevant_in_e_cum e n0 && nonneg n0 && PrimFloat.leb 0%float secs &&\n"
    "  forallb (fun r => let '(i, ce, mo, lami, v) := r in\n"
    "     orders_okb_cum cfD cifD e n0 i ce mo && ffinite v &&\n"
    "     feq lami (nth (N.to_nat i) default_lam_val 0%float) && feq (pf_cum cfD cifD e n0 i ce mo lami) v) rows.\n")


def nlist(l):
    return "[" + "; ".join(f"{x}%N" for x in l) + "]"


def frow(l):
    return "[" + "; ".join(f"({k}%N, {Q.fhex(float.fromhex(v))})" for k, v in l) + "]"


def floateval_stream(rng, ncases, streams, viol, samples, which=("decay",), ds=None):
    names, stable = D.names_of(ds)
    cases = [c for c in D.gen_cases(rng, names, stable, ncases, max(2, ncases // 3), "Inventory", ds=ds) if "pre" not in c and c["unit"] == "num"]
    sfx = "_" + ds if ds else ""
    def loc(pre):      # the same checker text, bound to the data set under test
        if not ds:
            return pre
        return (pre.replace("Model.Default", "Model.Default Model.Synth").replace("Proofs.CertDefault.FloatDataCert", "Proofs.CertSynth.SynthCert")
                .replace("ds_cf Default", "ds_cf Synth").replace("ds_cif Default", "ds_cif Synth").replace("default_lam_val", "synth_lam_val"))
    for c in cases:
        c["cum"] = "cum" in which
    impl = U.run_impl("impl_floateval.py", cases, timeout=3000)
    terms, tmap, bad_prop = [], [], []
    cterms, cmap, ncrows = [], [], 0
    nrows = 0
    for kk, (c, r) in enumerate(zip(cases, impl)):
        if "err" in r:
            bad_prop.append((c, "raised " + r["err"]))
            continue
        rows = "[" + "; ".join(f"({i}%N, {nlist(ce)}, {nlist(mo)}, {Q.fhex(float.fromhex(v))})" for i, ce, mo, v in r["rows"]) + "]"
        nrows += len(r["rows"])
        terms.append(f"({Q.fhex(float.fromhex(r['secs']))}, {frow(r['e'])}, {frow(r['n0'])}, {rows})")
        tmap.append(kk)
        if r.get("rows_cum"):
            crows = "[" + "; ".join(f"({i}%N, {nlist(ce)}, {nlist(mo)}, {Q.fhex(float.fromhex(li))}, {Q.fhex(float.fromhex(v))})"
                                    for i, ce, mo, li, v in r["rows_cum"]) + "]"
            ncrows += len(r["rows_cum"])
            cterms.append(f"({Q.fhex(float.fromhex(r['secs']))}, {frow(r['e_cum'])}, {frow(r['n0'])}, {crows})")
            cmap.append(kk)
    cbad, cerrs = ([], []) if not cterms else Q.run_cases("floatcum" + sfx, loc(PRE_CUM), "float * frow * frow * list (N * list N * list N * float * float)", cterms, "chk_cum",
                              shard=12, timeout=1500)
    if "cum" in which:
      streams["cumulative_bitlevel" + sfx] = {"cases": len(cterms), "entries": ncrows, "model_disagrees": len(cbad), "coq_errors": len(cerrs),
                                      "what": "Inventory.cumulative_decays vs the primitive-float model (same product chain with the diagonal "
                                              "(1-exp(-lambda t))/lambda observed, then one multiplication by the float decay constant): bit-identical; "
                                              "side conditions and accuracy of the stored diagonal checked per case"}
    for i in cbad[:3]:
        kk = cmap[i]
        viol.append({"name": f"cum-bitlevel-model-{i}", "found_input": False, "key": f"cum-bitlevel-model:{i}",
                     "payload": {"broken": "primitive-float model of cumulative_decays and the implementation disagree (or a side condition fails)",
                                 "input": cases[kk], "observed_rows": impl[kk]["rows_cum"][:3]}})
    if cerrs:
        viol.append({"name": "cum-bitlevel-coq", "found_input": False, "key": "cum-bitlevel-coq", "payload": {"broken": "Coq evaluation failed", "errors": cerrs[:2]}})
    if "decay" not in which:
        return
    bad, errs = Q.run_cases("floateval" + sfx, loc(PRE), "float * frow * frow * list (N * list N * list N * float)", terms, "chk", shard=12, timeout=1500)
    streams["decay_bitlevel" + sfx] = {"cases": len(cases), "entries": nrows, "model_disagrees": len(bad), "impl_property_failures": len(bad_prop),
                                 "coq_errors": len(errs),
                                 "what": "Inventory.decay vs the primitive-float model of ((C@E)@C^-1)@N0 with SciPy's accumulation orders observed: "
                                         "every returned amount bit-identical and finite; every hypothesis of default_float_decay_error (Props/C01d.v) is checked "
                                         "on the case: orders_okb, amounts >= 0, t >= 0, each stored exponential within 2^-50 of exp(-lambda t) (interval arithmetic), "
                                         "every relevant index has one - so the 1e-11 forward-error THEOREM applies to each of these results"}
    for i in bad[:3]:
        kk = tmap[i]
        viol.append({"name": f"bitlevel-model-{i}", "found_input": False, "key": f"bitlevel-model:{i}",
                     "payload": {"broken": "primitive-float model of the sparse evaluation and the implementation disagree (or the observed orders "
                                           "violate the theorem's side conditions)", "input": cases[kk], "observed_rows": impl[kk]["rows"][:3]}})
    for c, why in bad_prop[:2]:
        viol.append({"name": f"bitlevel-{len(viol)}", "found_input": True, "key": "bitlevel:" + why[:40], "payload": {"fails": why, "input": c}})
    if errs:
        viol.append({"name": "bitlevel-coq", "found_input": False, "key": "bitlevel-coq", "payload": {"broken": "Coq evaluation failed", "errors": errs[:2]}})
    samples.append({"bitlevel_case": cases[0], "rows": len(impl[0].get("rows", []))})
