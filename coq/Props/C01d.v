(* C01 (fourth part) - the forward-error bound of the double-precision decay, as a theorem for ALL inputs:
   whatever the inventory (non-negative finite amounts), the decay time t >= 0 and SciPy's accumulation orders
   (any orders passing orders_okb), a finite result of the bit-level model differs from the exact solution N_i(t) of
   the decay equations by at most
      (rounding of the ~130 operations per term) + (accuracy of the stored exponentials) + (stored data vs exact data)
   times the initial atoms; for the shipped data set: at most 1e-11 x the initial atoms (+ 2^-1060 for underflow). *)
From Coq Require Import Reals ZArith NArith List Bool Arith.
From Coq Require Import PrimFloat.
From Flocq Require Import Core.Core.
From RD Require Import Base Lib.CertQ Model.DecayR Model.Dataset Model.Default Model.Rounding Model.Rounding64
  Model.FloatDecay Model.FloatData Model.RoundCert.
From RD Require Proofs.CertDefault.FloatDataCert Proofs.CertDefault.RoundCert Proofs.FloatDecayP.
Import ListNotations.
Local Open Scope R_scope.

Theorem default_round_certificate :
  chk_round Default (bq_of Proofs.CertDefault.RoundCert.G_bound) (bq_of Proofs.CertDefault.RoundCert.H_bound)
            Proofs.CertDefault.RoundCert.m_bound = true.
Proof. exact Proofs.CertDefault.RoundCert.default_round. Qed.

(* what the interval check of the float decay constants means over the reals *)
Theorem lambda_close_sound : forall d lamf c, chk_lambda_close d lamf c = true ->
  forall k, (k < length (ds_mu d))%nat ->
  Rabs (fval (nth k lamf 0%float) - lam (mur d) k) <= bqv (bq_of c) * lam (mur d) k.
Proof. exact Proofs.FloatDecayP.lambda_close_sound. Qed.

(* any certified data set *)
Theorem float_decay_error : forall d B K Gb Hb mb c ue,
  wf_core d = true -> chk_float_data d B K = true -> chk_round d Gb Hb mb = true ->
  0 <= c < 1 -> 0 <= ue -> INR mb * u64 < 1 ->
  forall (e n0 : frow) (i : N) (ce mo : list N) (t : R) (lamf : nat -> R),
  orders_okb (ds_cf d) (ds_cif d) e n0 i ce mo = true ->
  ffin (pf_yhat (ds_cf d) (ds_cif d) e n0 i ce mo) = true ->
  0 <= t ->
  let n0f := fun j : nat => fval (fget n0 (N.of_nat j)) in
  let Ef := fun k : nat => fval (fget e (N.of_nat k)) in
  (forall j, 0 <= n0f j) ->
  (forall k, (k < nn d)%nat -> Rabs (lamf k - lam (mur d) k) <= c * lam (mur d) k) ->
  (forall k, (k < nn d)%nat -> (exists j, (j < nn d)%nat /\ Cifr d k j * n0f j <> 0) ->
             Rabs (Ef k - exp (- lamf k * t)) <= ue) ->
  Rabs (fval (pf_yhat (ds_cf d) (ds_cif d) e n0 i ce mo) - Nt (nn d) (Cr d) (Cir d) (mur d) n0f t (N.to_nat i))
  <= (bqv Gb * (u64 / (1 - INR mb * u64)) + bqv K * ue + bqv B + bqv K * (c / (exp 1 * (1 - c)))) * sumn (nn d) n0f
     + eta64 * (1 + u64) ^ mb * ((bqv Hb + 2 * INR mb) * sumn (nn d) n0f + 2 * INR mb).
Proof. exact Proofs.FloatDecayP.float_decay_error. Qed.

(* the shipped data set: 1e-11 of the initial atoms, provided each stored exponential is within 2^-50 of exp(-lambda t) *)
Theorem default_float_decay_error :
  forall (e n0 : frow) (i : N) (ce mo : list N) (t : R),
  orders_okb (ds_cf Default) (ds_cif Default) e n0 i ce mo = true ->
  ffin (pf_yhat (ds_cf Default) (ds_cif Default) e n0 i ce mo) = true ->
  0 <= t ->
  let n0f := fun j : nat => fval (fget n0 (N.of_nat j)) in
  let Ef := fun k : nat => fval (fget e (N.of_nat k)) in
  let lamf := fun k : nat => fval (nth k Proofs.CertDefault.FloatDataCert.default_lam_val 0%float) in
  (forall j, 0 <= n0f j) ->
  (forall k, (k < nn Default)%nat -> (exists j, (j < nn Default)%nat /\ Cifr Default k j * n0f j <> 0) ->
             Rabs (Ef k - exp (- lamf k * t)) <= bpow radix2 (-50)) ->
  Rabs (fval (pf_yhat (ds_cf Default) (ds_cif Default) e n0 i ce mo)
        - Nt (nn Default) (Cr Default) (Cir Default) (mur Default) n0f t (N.to_nat i))
  <= 1 / 10 ^ 11 * sumn (nn Default) n0f + bpow radix2 (-1060).
Proof. exact Proofs.FloatDecayP.default_float_decay_error. Qed.
