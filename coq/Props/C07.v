(* C07 - Decay is a linear, time-additive flow.  For every certified data set, over the reals. *)
From Coq Require Import Reals ZArith NArith List Bool Arith.
From RD Require Import Base Model.DecayR Lib.Sparse Lib.CertQ Model.Dataset.
From RD Require Proofs.Bateman Proofs.DatasetCert Proofs.Flow.
Import ListNotations.
Local Open Scope R_scope.

Section AnyCertifiedDataset.
  Variable d : dataset.
  Hypothesis Hwf : wf_core d = true.
  Notation NtD := (Nt (nn d) (Cr d) (Cir d) (mur d)).

  Theorem decay_zero : forall n0 i, (i < nn d)%nat -> NtD n0 0 i = n0 i.
  Proof. exact (Proofs.Bateman.closed_form_initial _ _ _ _ _ _ _ (Proofs.DatasetCert.wf_core_cert d Hwf)). Qed.

  Theorem decay_additive : forall n0 t1 t2 i, (i < nn d)%nat -> NtD (NtD n0 t1) t2 i = NtD n0 (t1 + t2) i.
  Proof. exact (Proofs.Bateman.decay_additive _ _ _ _ _ _ _ (Proofs.DatasetCert.wf_core_cert d Hwf)). Qed.

  Theorem decay_linear : forall a x y t i, NtD (fun j => a * x j + y j) t i = a * NtD x t i + NtD y t i.
  Proof. exact (Proofs.Flow.decay_linear d). Qed.

  (* any splitting t = t1 + ... + tk gives the same inventory as one decay *)
  Theorem decay_split : forall ts n0 i, (i < nn d)%nat ->
    fold_left (fun v t => NtD v t) ts n0 i = NtD n0 (fold_left Rplus ts 0) i.
  Proof. exact (Proofs.Flow.decay_split d Hwf). Qed.
End AnyCertifiedDataset.
