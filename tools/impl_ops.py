"""Implementation side of the operation-sequence correspondence (C08/C11/C17) (PYTHONPATH=/repo).
stdin JSON: list of histories
  {"cls": "Inventory"|"InventoryHP", "raw": [[key, amount]], "units": u, "ops": [op...]}
  key    : {"s": str} | {"i": int} | {"n": str (build a Nuclide from it)} | {"o": "float"|"none"|"tuple"}
  amount : {"f": hex} | {"q": [p, q]} | {"i": int} | {"np": hex} | {"bad": "nan"|"neg"|"str"|"none"|"complex"|"inf"}
  op     : ["add", raw, units] | ["subtract", raw, units] | ["plus", raw, units] | ["minus", raw, units]
           | ["mul", amount] | ["div", amount] | ["remove", key] | ["remove_list", [key]]
stdout JSON: per history: {"init": obs, "steps": [obs]}, obs = {"exc": name|None, "cls": name, "ds_same": bool,
           "contents": [[name, valuerepr, typetag]]}"""
import json, sys, math

def main():
    import numpy as np
    import sympy
    import radioactivedecay as rd
    from sympy import Rational, Integer

    def key(k):
        if "s" in k: return k["s"]
        if "i" in k: return k["i"]
        if "n" in k: return rd.Nuclide(k["n"])
        return {"float": 1.5, "none": None, "tuple": ("H-3",)}[k["o"]]

    def amount(a, hp):
        if "f" in a: return float.fromhex(a["f"])
        if "np" in a: return np.float64(float.fromhex(a["np"]))
        if "i" in a: return a["i"]
        if "q" in a: return Rational(a["q"][0], a["q"][1]) if hp else a["q"][0] / a["q"][1]
        return {"nan": float("nan"), "neg": -1.0, "str": "1", "none": None, "complex": 1 + 0j, "inf": float("inf")}[a["bad"]]

    def obs(inv, exc, cls0, ds0):
        cont = []
        for n, v in inv.contents.items():
            if isinstance(v, sympy.Basic):
                if v.is_Rational:
                    cont.append([n, f"{int(v.p)}/{int(v.q)}", "Rational"])
                else:
                    cont.append([n, str(v)[:60], type(v).__name__])
            else:
                cont.append([n, float(v).hex(), "float" if type(v) is float else type(v).__name__])
        return {"exc": exc, "cls": type(inv).__name__, "ds_same": inv.decay_data is ds0, "contents": cont}

    out = []
    for h in json.load(sys.stdin):
        hp = h["cls"] == "InventoryHP"
        cls = rd.InventoryHP if hp else rd.Inventory
        rec = {"steps": []}
        try:
            inv = cls({key(k): amount(a, hp) for k, a in h["raw"]}, h["units"])
        except Exception as e:
            rec["init"] = {"exc": type(e).__name__, "msg": str(e)[:80]}
            out.append(rec)
            continue
        ds0 = inv.decay_data
        rec["init"] = obs(inv, None, cls, ds0)
        held = []      # (step, operand object, its observation right after the operator returned): operands must not change later
        for stepno, op in enumerate(h["ops"]):
            exc = None
            left = inv
            try:
                if op[0] in ("add", "subtract"):
                    getattr(inv, op[0])({key(k): amount(a, hp) for k, a in op[1]}, op[2])
                elif op[0] in ("plus", "minus"):
                    other = cls({key(k): amount(a, hp) for k, a in op[1]}, op[2])
                    before = obs(other, None, cls, ds0)
                    inv = inv + other if op[0] == "plus" else inv - other
                    if obs(other, None, cls, ds0) != before:
                        exc = "OPERAND-MUTATED"
                    held.append((stepno + 1, other, obs(other, None, cls, ds0)))
                    held.append((stepno + 1, left, obs(left, None, cls, ds0)))
                elif op[0] == "mul":
                    inv = inv * amount(op[1], hp)
                    held.append((stepno + 1, left, obs(left, None, cls, ds0)))
                elif op[0] == "div":
                    inv = inv / amount(op[1], hp)
                    held.append((stepno + 1, left, obs(left, None, cls, ds0)))
                elif op[0] == "remove":
                    inv.remove(key(op[1]))
                elif op[0] == "remove_list":
                    inv.remove([key(k) for k in op[1]])
            except Exception as e:
                exc = type(e).__name__
            rec["steps"].append(obs(inv, exc, cls, ds0))
        # an operator returns a NEW inventory: whatever is done to the result later must leave the operands as they were
        rec["alias"] = sorted({st for st, o, snap in held if obs(o, None, cls, ds0) != snap})
        out.append(rec)
    json.dump(out, sys.stdout)
main()
