(* Model of Nuclide.plot's graph construction: a fuelled transcription of nuclide._build_decay_digraph
   (breadth-first queue of (name, generation, xpos), per-generation right-most used column, seen set) and
   of the two label functions of plots.py.  Tie: tools/tr_shapes.py records the source of these functions;
   correspondence: all roots of the data set, implementation vs the extracted model.  Definitions only. *)
From Coq Require Import ZArith NArith List Bool.
From RD Require Import Base Lib.Py Gen.Tables.
Import ListNotations.
Local Open Scope Z_scope.

(* the float-free view of a data set that the diagram needs *)
Record gnuc := GN { g_name : str; g_readable : str; g_stable : bool;
                    g_progeny : list str; g_bfrepr : list str; g_modes : list str }.
Definition gview := list gnuc.

Definition SFs : str := [83; 70]%N.
Definition various : str := [118; 97; 114; 105; 111; 117; 115]%N.
Definition nl : str := [10%N].
Definition sf_suffix : str := [95; 83; 70]%N.    (* "_SF" *)
Definition hyph : N := 45%N.

Fixpoint g_find (v : gview) (s : str) : option gnuc :=
  match v with [] => None | x :: r => if s_eqb (g_name x) s then Some x else g_find r s end.

(* plots._parse_nuclide_label *)
Definition char_conv (c : N) : res str := d_get_ss nuclide_conversion [c].
Fixpoint conv_all (s : str) : res str :=
  match s with [] => OK [] | c :: r => bind (char_conv c) (fun a => bind (conv_all r) (fun b => OK (a ++ b))) end.
Definition parse_nuclide_label (nuclide : str) : res str :=
  if s_eqb nuclide SFs then OK various
  else bind (s_split_on [hyph] nuclide) (fun parts =>
         match parts with
         | [element; isotope] => bind (conv_all isotope) (fun iso => OK (iso ++ element))
         | _ => Raise ValueError                (* "too many / not enough values to unpack" *)
         end).
(* plots._parse_decay_mode_label: successive replace over the table, in its order *)
Definition parse_decay_mode_label (mode : str) : str :=
  fold_left (fun m kv => s_replace_all (fst kv) (snd kv) m) mode_conversion mode.

Record gnode := GNode { n_id : str; n_gen : Z; n_xpos : Z; n_label : str }.
Record gedge := GEdge { e_from : str; e_to : str; e_label : str }.
Record gstate := GS { q : list (str * Z * Z);           (* queue: name, generation, xpos *)
                      gmx : list (Z * Z);                (* generation -> right-most used xpos *)
                      seen : list str; nodes : list gnode; edges : list gedge }.

Fixpoint gmx_get (g : list (Z * Z)) (k : Z) : option Z :=
  match g with [] => None | (a, v) :: r => if Z.eqb a k then Some v else gmx_get r k end.
Fixpoint gmx_set (g : list (Z * Z)) (k v : Z) : list (Z * Z) :=
  match g with [] => [(k, v)] | (a, w) :: r => if Z.eqb a k then (a, v) :: r else (a, w) :: gmx_set r k v end.

Section WithView.
  Variable v : gview.

  (* the body of the for loop over the progeny of one parent *)
  Fixpoint progeny_loop (parent : str) (generation xpos : Z) (progs bfs modes : list str) (xcounter : Z)
                        (st : gstate) : res gstate :=
    match progs, bfs, modes with
    | prog :: progs', bf :: bfs', mode :: modes' =>
        let elabel := parse_decay_mode_label mode ++ nl ++ bf in
        if negb (l_mem_str prog (seen st)) then
          bind (parse_nuclide_label prog) (fun lab0 =>
            let known := g_find v prog in
            let lab := match known with Some g => lab0 ++ nl ++ g_readable g | None => lab0 end in
            let q' := match known with
                      | Some g => if g_stable g then q st else q st ++ [(prog, generation, xpos + xcounter)]
                      | None => q st
                      end in
            let prog' := if s_eqb prog SFs then parent ++ sf_suffix else prog in
            let cur := match gmx_get (gmx st) generation with Some m => m | None => (-1)%Z end in
            let gmx' := if Z.gtb (xpos + xcounter) cur then gmx_set (gmx st) generation (xpos + xcounter) else gmx st in
            progeny_loop parent generation xpos progs' bfs' modes' (xcounter + 1)
              (GS q' gmx' (seen st ++ [prog']) (nodes st ++ [GNode prog' generation (xpos + xcounter) lab])
                  (edges st ++ [GEdge parent prog' elabel])))
        else
          progeny_loop parent generation xpos progs' bfs' modes' xcounter
            (GS (q st) (gmx st) (seen st) (nodes st) (edges st ++ [GEdge parent prog elabel]))
    | [], _, _ => OK st
    | _, _, _ => Raise IndexError          (* bfs / modes shorter than progeny *)
    end.

  Fixpoint bfs_loop (fuel : nat) (st : gstate) : res gstate :=
    match q st with
    | [] => OK st
    | (pname, g0, x0) :: rest =>
        match fuel with
        | O => Raise Unmodelled             (* out of fuel: excluded by the theorems *)
        | S f =>
            let generation := (g0 + 1)%Z in
            let gmx1 := match gmx_get (gmx st) generation with Some _ => gmx st | None => gmx_set (gmx st) generation (-1) end in
            match g_find v pname with
            | None => Raise ValueError      (* Nuclide(parent_name) refuses a name outside the data set *)
            | Some g =>
                let cur := match gmx_get gmx1 generation with Some m => m | None => (-1)%Z end in
                let xpos := Z.max x0 (cur + 1) in
                bind (progeny_loop pname generation xpos (g_progeny g) (g_bfrepr g) (g_modes g) 0
                                   (GS rest gmx1 (seen st) (nodes st) (edges st)))
                     (bfs_loop f)
            end
        end
    end.

  Definition build (root : str) : res gstate :=
    match g_find v root with
    | None => Raise ValueError
    | Some g =>
        bind (parse_nuclide_label root) (fun lab =>
          bfs_loop (S (length v))
                   (GS [(root, 0%Z, 0%Z)] [(0%Z, 0%Z)] [root] [GNode root 0 0 (lab ++ nl ++ g_readable g)] []))
    end.

  (* ---------- specification side: reachability, links and breadth-first depth, computed independently *)
  Definition children (s : str) : list str :=
    match g_find v s with Some g => filter (fun p => negb (s_eqb p SFs)) (g_progeny g) | None => [] end.
  Definition in_view (s : str) : bool := match g_find v s with Some _ => true | None => false end.
  (* layers of a breadth-first search: layer k+1 = children of layer k not seen before *)
  Fixpoint dedup (l : list str) (acc : list str) : list str :=
    match l with [] => acc | x :: r => if l_mem_str x acc then dedup r acc else dedup r (acc ++ [x]) end.
  Fixpoint layers (fuel : nat) (cur visited : list str) : list (list str) :=
    match fuel with
    | O => []
    | S f => match cur with
             | [] => []
             | _ => let nxt := dedup (filter (fun c => in_view c && negb (l_mem_str c visited)) (flat_map children cur)) [] in
                    cur :: layers f nxt (visited ++ nxt)
             end
    end.
  Definition depth_layers (root : str) : list (list str) := layers (S (length v)) [root] [root].
  Fixpoint depth_in (ls : list (list str)) (k : Z) (s : str) : option Z :=
    match ls with [] => None | l :: r => if l_mem_str s l then Some k else depth_in r (k + 1) s end.

  Fixpoint distinct_pos (ns : list gnode) : bool :=
    match ns with
    | [] => true
    | x :: r => forallb (fun y => negb (Z.eqb (n_gen x) (n_gen y) && Z.eqb (n_xpos x) (n_xpos y))) r && distinct_pos r
    end.
  Fixpoint distinct_ids (ns : list gnode) : bool :=
    match ns with [] => true | x :: r => negb (existsb (fun y => s_eqb (n_id x) (n_id y)) r) && distinct_ids r end.

  Definition is_sf_node (s : str) : bool :=
    let n := length s in Nat.leb 3 n && s_eqb (skipn (Nat.sub n 3) s) sf_suffix.

  (* everything the property says about the diagram of [root], as one decidable check *)
  Definition graph_ok (root : str) : bool :=
    match build root with
    | Raise _ => false
    | OK st =>
        let ls := depth_layers root in
        let reach := concat ls in
        let real_nodes := filter (fun n => negb (is_sf_node (n_id n))) (nodes st) in
        (* one node per reachable nuclide, and nothing else but one 'various' node per fission branch *)
        forallb (fun s => existsb (fun n => s_eqb (n_id n) s) real_nodes) reach
        && forallb (fun n => l_mem_str (n_id n) reach) real_nodes
        && distinct_ids (nodes st)
        (* rows are breadth-first depths *)
        && forallb (fun n => match depth_in ls 0 (n_id n) with Some k => Z.eqb k (n_gen n) | None => false end) real_nodes
        (* one edge per link, labelled with that link's mode and branching fraction *)
        && forallb (fun s =>
             match g_find v s with
             | None => false
             | Some g =>
                 (fix links (ps bs ms : list str) : bool :=
                    match ps, bs, ms with
                    | p :: ps', b :: bs', m :: ms' =>
                        let tgt := if s_eqb p SFs then s ++ sf_suffix else p in
                        existsb (fun e => s_eqb (e_from e) s && s_eqb (e_to e) tgt
                                          && s_eqb (e_label e) (parse_decay_mode_label m ++ nl ++ b)) (edges st)
                        && links ps' bs' ms'
                    | [], [], [] => true
                    | _, _, _ => false
                    end) (g_progeny g) (g_bfrepr g) (g_modes g)
             end) (filter (fun s => match g_find v s with Some g => negb (g_stable g) | None => false end) reach)
        && Nat.eqb (length (edges st))
                   (fold_right (fun s acc => match g_find v s with
                                             | Some g => if g_stable g then acc else (length (g_progeny g) + acc)%nat
                                             | None => acc end) O reach)
        (* fission nodes sit one row below their parent and are labelled 'various' *)
        && forallb (fun n => if is_sf_node (n_id n) then s_eqb (n_label n) various else true) (nodes st)
        (* no two nodes share a position *)
        && distinct_pos (nodes st)
    end.
End WithView.
