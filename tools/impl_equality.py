"""Implementation side of the C17 stream (PYTHONPATH=/repo): pools of nuclides, inventories and data sets,
compared pairwise and in triples, before and after calculations.  All predicates of the property are
evaluated here; the output lists the violations with the objects' specifications."""
import json, sys, copy, itertools, random
from fractions import Fraction

def main():
    import numpy as np, sympy
    import radioactivedecay as rd
    from radioactivedecay import decaydata
    req = json.load(sys.stdin)
    rng = random.Random(req["seed"])
    D = rd.DEFAULTDATA
    fresh = decaydata.load_dataset("icrp107_ame2020_nubase2020", load_sympy=True)
    renamed = copy.deepcopy(fresh); renamed.dataset_name = "renamed_copy"
    nosympy = decaydata.load_dataset("icrp107_ame2020_nubase2020", load_sympy=False)
    altered = copy.deepcopy(fresh); altered.bfs = copy.deepcopy(altered.bfs); altered.bfs[0] = [0.5, 0.5]
    altered2 = copy.deepcopy(fresh); altered2.scipy_data.decay_consts = altered2.scipy_data.decay_consts.copy(); altered2.scipy_data.decay_consts[3] *= 1.0000001
    datasets = [("default", D, 0), ("fresh", fresh, 0), ("renamed", renamed, 1), ("nosympy", nosympy, 2), ("altered_bfs", altered, 3),
                ("altered_lambda", altered2, 4)]
    viol = []
    counts = {"pairs": 0, "triples": 0}

    def chk_pair(a, b, la, lb, expect=None, hashable=False):
        counts["pairs"] += 1
        try:
            e1, e2, n1, n2 = (a == b), (b == a), (a != b), (b != a)
        except Exception as ex:
            viol.append({"what": f"comparison raised {type(ex).__name__}", "a": la, "b": lb}); return None
        if type(e1) is not bool and not isinstance(e1, (np.bool_,)):
            viol.append({"what": f"== returned {type(e1).__name__}", "a": la, "b": lb})
        if bool(e1) != bool(e2):
            viol.append({"what": "== is not symmetric", "a": la, "b": lb})
        if bool(n1) == bool(e1) or bool(n2) == bool(e2):
            viol.append({"what": "!= is not the negation of ==", "a": la, "b": lb})
        if expect is not None and bool(e1) != expect:
            viol.append({"what": f"== gives {bool(e1)} but the specifications {'denote the same thing' if expect else 'differ'}", "a": la, "b": lb})
        if hashable and bool(e1) and hash(a) != hash(b):
            viol.append({"what": "equal objects have different hashes", "a": la, "b": lb})
        return bool(e1)

    # ---- data sets
    for (la, a, ca), (lb, b, cb) in itertools.product(datasets, repeat=2):
        chk_pair(a, b, "dataset:" + la, "dataset:" + lb, expect=(ca == cb))
    for l, a, _ in datasets:
        for other in (None, 5, "x", [1], D.scipy_data):
            try:
                if (a == other) is not False or (a != other) is not True:
                    viol.append({"what": "comparison with an unrelated type is not False/True", "a": "dataset:" + l, "b": repr(type(other))})
            except Exception as ex:
                viol.append({"what": f"comparison with an unrelated type raised {type(ex).__name__}", "a": "dataset:" + l})
    # matrices
    for (la, a, ca), (lb, b, cb) in itertools.product(datasets[:2] + datasets[4:], repeat=2):
        chk_pair(a.scipy_data, b.scipy_data, "scipy:" + la, "scipy:" + lb, expect=(ca == cb or {ca, cb} <= {0, 3}))
    chk_pair(D.sympy_data, fresh.sympy_data, "sympy:default", "sympy:fresh", expect=True)

    # ---- nuclides
    names = req["names"]
    nucs = []
    for name in names:
        for sp in req["spellings"][name]:
            for dl, d, dc in datasets[:3]:
                nucs.append((f"Nuclide({sp!r},{dl})", rd.Nuclide(sp, d), (name, dc)))
    for (la, a, sa), (lb, b, sb) in itertools.combinations_with_replacement(nucs, 2):
        chk_pair(a, b, la, lb, expect=(sa == sb), hashable=True)
    # nuclides that were already hashed (dictionary keys, set members) before their data set object was given another name,
    # against nuclides created afterwards on the same data set object: whenever == holds the hashes must agree
    mutable = copy.deepcopy(fresh)
    early = [(f"Nuclide({sp!r},mutable) [hashed before rename]", rd.Nuclide(sp, mutable)) for name in names[:3] for sp in req["spellings"][name]]
    lookup = {n: l for l, n in early}
    _ = set(n for _, n in early)
    mutable.dataset_name = "renamed_later"
    late = [(f"Nuclide({sp!r},mutable) [created after rename]", rd.Nuclide(sp, mutable)) for name in names[:3] for sp in req["spellings"][name]]
    for (la, a), (lb, b) in itertools.product(early + late, repeat=2):
        chk_pair(a, b, la, lb, expect=(a.nuclide == b.nuclide), hashable=True)
    # (no dictionary look-up here: a dict stores the hash a key had when it was inserted, so renaming the data set of a key that is
    #  already in a dict legitimately loses it - that is Python's contract for mutable keys, not this property)
    s = set(n for _, n, _ in nucs)
    if len(s) != len(set(sp for _, _, sp in nucs)):
        viol.append({"what": f"a set of nuclides has {len(s)} members for {len(set(sp for _, _, sp in nucs))} distinct specifications"})
    for l, a, _ in nucs[:3]:
        for other in (None, 5, "H-3", a.nuclide):
            try:
                if (a == other) is not False or (a != other) is not True:
                    viol.append({"what": "Nuclide compared with an unrelated type is not False/True", "a": l, "b": repr(other)})
            except Exception as ex:
                viol.append({"what": f"Nuclide comparison with an unrelated type raised {type(ex).__name__}", "a": l})

    # ---- inventories
    invs = []
    def amount_variants(x):
        out = [("float", float(x)), ("symfloat", sympy.Float(float(x)))]
        if float(x) == int(x):
            out += [("int", int(x)), ("np", np.float64(x)), ("rat", sympy.Integer(int(x)))]
        else:
            out += [("np", np.float64(x))]
        return out
    for spec in req["inventories"]:
        canon = tuple(sorted((k, Fraction(v)) for k, v in spec["contents"].items()))
        for cname, cls in (("Inventory", rd.Inventory), ("InventoryHP", rd.InventoryHP)):
            for vi in range(3):
                cont = {}
                tags = []
                for k, v in spec["contents"].items():
                    sp = rng.choice(req["spellings"][k])
                    tag, val = rng.choice(amount_variants(v))
                    if cname == "InventoryHP" and tag == "np":
                        tag, val = "float", float(v)
                    if cname == "Inventory" and tag == "symfloat":      # the double-precision class keeps amounts as supplied (known findings F9)
                        tag, val = "float", float(v)
                    cont[sp] = val; tags.append(tag)
                for dl, d, dc in (datasets[:2] if vi else datasets[:3]):
                    try:
                        inv = cls(cont, "num", True, d)
                    except Exception as ex:
                        viol.append({"what": f"constructor raised {type(ex).__name__}", "a": f"{cname}({cont})"}); continue
                    invs.append((f"{cname}({cont!r},{dl})", inv, (cname, canon, dc), tuple(tags)))
    # exact amounts that differ by less than a double can resolve: the high-precision class must tell them apart,
    # and must identify equal values written differently
    NA = 602214076000000000000000
    fine = [("NA", sympy.Integer(NA)), ("NA+1", sympy.Integer(NA + 1)), ("NA again", sympy.Rational(2 * NA, 2)),
            ("1/3", sympy.Rational(1, 3)), ("1/3+1e-40", sympy.Rational(1, 3) + sympy.Rational(1, 10**40)), ("2/6", sympy.Rational(2, 6))]
    k_f = names[0]
    hp_fine = [(lab, rd.InventoryHP({k_f: v}, "num"), v) for lab, v in fine]
    for (la, a, va), (lb, b, vb) in itertools.product(hp_fine, repeat=2):
        chk_pair(a, b, f"InventoryHP({{{k_f!r}: {la}}})", f"InventoryHP({{{k_f!r}: {lb}}})", expect=(va == vb))
        sa, sb = a * sympy.Rational(1, 2), b * sympy.Rational(1, 2)
        chk_pair(sa, sb, f"InventoryHP({{{k_f!r}: {la}}})/2", f"InventoryHP({{{k_f!r}: {lb}}})/2", expect=(va == vb))

    def compare_all(stage):
        for (la, a, sa, ta), (lb, b, sb, tb) in itertools.combinations_with_replacement(invs, 2):
            same_cls = sa[0] == sb[0]
            exp = None
            mixed = sa[0] == "Inventory" and same_cls and (("rat" in ta) != ("rat" in tb) or (("rat" in ta) and set(ta) != {"rat"})
                                                           or (("rat" in tb) and set(tb) != {"rat"}))
            if same_cls and not mixed:
                exp = (sa == sb)
            elif sa[1] != sb[1] or sa[2] != sb[2]:
                exp = False
            r = chk_pair(a, b, f"[{stage}] " + la, f"[{stage}] " + lb, expect=exp)
            if mixed and sa == sb and r is False:
                viol.append({"what": "equal-valued float and SymPy amounts compare unequal in the double-precision class",
                             "a": la, "b": lb, "amount_types": [ta, tb]})
    compare_all("fresh")
    # transitivity over triples (sampled)
    idxs = list(range(len(invs)))
    for _ in range(req["triples"]):
        i, j, k = (rng.choice(idxs) for _ in range(3))
        a, b, c = invs[i][1], invs[j][1], invs[k][1]
        counts["triples"] += 1
        if (a == b) and (b == c) and not (a == c):
            homo = len({invs[i][2][0], invs[j][2][0], invs[k][2][0]}) == 1 and \
                len(set(invs[i][3]) | set(invs[j][3]) | set(invs[k][3])) == 1
            viol.append({"what": "== is not transitive" + (" (homogeneous types)" if homo else " (mixed numeric types / classes)"),
                         "a": invs[i][0], "b": invs[j][0], "c": invs[k][0]})
    # calculations on every object, then everything must compare as before
    for l, inv, s_, t_ in invs[::3]:
        try:
            inv.decay(1000.0, "s"); inv.cumulative_decays(10.0, "d"); inv.activities("kBq"); inv.mass_fractions()
            inv.decay_time_series(100.0, "s", "linear", "num", npoints=2)
        except Exception:
            pass
    compare_all("after calculations")
    for l, a, _, _ in invs[:4]:
        for other in (None, 5, "x", {"H-3": 1.0}, a.contents):
            try:
                if (a == other) is not False or (a != other) is not True:
                    viol.append({"what": "inventory compared with an unrelated type is not False/True", "a": l, "b": repr(type(other))})
            except Exception as ex:
                viol.append({"what": f"inventory comparison with an unrelated type raised {type(ex).__name__}", "a": l})
    chk_pair(D, decaydata.load_dataset("icrp107_ame2020_nubase2020", load_sympy=True), "dataset:default(after)", "dataset:fresh2", expect=True)
    json.dump({"violations": viol, "counts": counts, "objects": {"nuclides": len(nucs), "inventories": len(invs), "datasets": len(datasets)}}, sys.stdout)
main()
