"""Implementation side of the C14 fraction stream (PYTHONPATH=/repo).
stdin JSON: list of cases {"contents": {name: hex}, "unit": u, "decay": hex|null, "scale": hex, "hp": bool}"""
import json, sys

def hx(x): return float(x).hex()

def fr(inv):
    out = {}
    for k, f in (("activity", inv.activity_fractions), ("mass", inv.mass_fractions), ("mole", inv.mole_fractions)):
        try:
            out[k] = {n: hx(v) for n, v in f().items()}
        except Exception as e:
            out[k] = "ERR " + type(e).__name__
    return out

def main():
    import radioactivedecay as rd
    cases = json.load(sys.stdin)
    res = []
    for c in cases:
        cont = {k: float.fromhex(v) for k, v in c["contents"].items()}
        r = {}
        try:
            inv = rd.Inventory(cont, c["unit"])
            if c.get("decay"):
                inv = inv.decay(float.fromhex(c["decay"]), "s")
            r["numbers"] = {n: hx(v) for n, v in inv.numbers().items()}
            r["pyfloat"] = {n: (type(v) is float) for n, v in inv.numbers().items()}
            r["fr"] = fr(inv)
            r["readouts"] = {"activity": {n: hx(v) for n, v in inv.activities().items()},
                             "mass": {n: hx(v) for n, v in inv.masses().items()}}
            s = float.fromhex(c["scale"])
            r["fr_scaled"] = fr(inv * s)
            if c.get("hp"):
                r["fr_hp"] = {"activity": "ERR constructor", "mass": "ERR constructor", "mole": "ERR constructor"}
                h = rd.InventoryHP(cont, c["unit"])
                if c.get("decay"):
                    h = h.decay(float.fromhex(c["decay"]), "s")
                r["fr_hp"] = fr(h)
        except Exception as e:
            r["err"] = type(e).__name__ + ": " + str(e)[:100]
        res.append(r)
    json.dump(res, sys.stdout)
main()
