(* prints, for every root of the view (or the roots whose index is given on stdin), the model's graph *)
open Gmodel
let rec int_of_pos = function XH -> 1 | XO p -> 2 * int_of_pos p | XI p -> 2 * int_of_pos p + 1
let int_of_n = function N0 -> 0 | Npos p -> int_of_pos p
let int_of_z = function Z0 -> 0 | Zpos p -> int_of_pos p | Zneg p -> - (int_of_pos p)
let s l = String.concat "." (List.map (fun c -> string_of_int (int_of_n c)) l)
let view = if Array.length Sys.argv > 1 && Sys.argv.(1) = "synth" then synth_gv else default_gv
let () =
  List.iter (fun g ->
    let root = g.g_name in
    (match build view root with
     | OK st ->
       Printf.printf "ROOT %s\n" (s root);
       List.iter (fun n -> Printf.printf "N %s %d %d %s\n" (s n.n_id) (int_of_z n.n_gen) (int_of_z n.n_xpos) (s n.n_label)) st.nodes;
       List.iter (fun e -> Printf.printf "E %s %s %s\n" (s e.e_from) (s e.e_to) (s e.e_label)) st.edges
     | Raise _ -> Printf.printf "ROOT %s\nERR\n" (s root))) view
