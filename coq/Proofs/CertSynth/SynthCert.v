(* The synthetic data set satisfies every executable certificate the shipped one does (kernel computations). *)
From Coq Require Import List.
From RD Require Import Base Lib.CertQ Model.Dataset Model.Synth Gen.Tables Model.FloatData Model.RoundCert Model.Units Model.UnitsCheck.
Lemma synth_wf_core : wf_core Synth = true.
Proof. vm_cast_no_check (eq_refl true). Qed.
Lemma synth_struct : wf_struct Synth time_units_q year_units z_dict = true.
Proof. vm_cast_no_check (eq_refl true). Qed.
Lemma synth_patterns :
  chk_same_patterns Synth = true /\ chk_cif_pattern_subset Synth = true /\ chk_pattern_closure Synth = true /\
  chk_pattern_transitive Synth = true.
Proof. repeat split; vm_cast_no_check (eq_refl true). Qed.
Definition synth_lam_val : list PrimFloat.float := Eval vm_compute in default_lam Synth.
Definition sB_bound : qlit := QL 1 1000000000000000.     (* 1e-15 *)
Definition sK_bound : qlit := QL 10 1.
Definition sc_bound : qlit := QL 1 1000000000000000.
Lemma synth_float_matrices : chk_float_data Synth (bq_of sB_bound) (bq_of sK_bound) = true.
Proof. vm_cast_no_check (eq_refl true). Qed.
Lemma synth_lambda_close : chk_lambda_close Synth synth_lam_val sc_bound = true.
Proof. vm_cast_no_check (eq_refl true). Qed.
Lemma synth_masses_year_close : chk_masses_close Synth sc_bound = true /\ chk_year_close Synth sc_bound = true.
Proof. split; vm_cast_no_check (eq_refl true). Qed.
Definition sG_bound : qlit := QL 200 1.
Definition sH_bound : qlit := QL 100 1.
Lemma synth_round : chk_round Synth (bq_of sG_bound) (bq_of sH_bound) 40 = true.
Proof. vm_cast_no_check (eq_refl true). Qed.
From RD Require Import Model.CumData.
Definition sBc_bound : qlit := QL 1 10000000000000000.    (* 1e-16 *)
Definition sKc_bound : qlit := QL 2 1.
Definition sGc_bound : qlit := QL 18 1.
Lemma synth_cum : chk_cum Synth (bq_of sBc_bound) (bq_of sKc_bound) (bq_of sGc_bound) = true.
Proof. vm_cast_no_check (eq_refl true). Qed.
Lemma synth_lam_range : chk_lam_range synth_lam_val 0x1p40%float = true.
Proof. vm_cast_no_check (eq_refl true). Qed.
