"""Implementation side of the nuclide-string correspondence (run with PYTHONPATH=/repo).
Reads the same request lines as coq/Extract/driver.ml and prints results in the same format."""
import sys

def cps(words):
    return "".join(chr(int(w)) for w in words if w != "")

def fmt_s(s):
    return "OK " + " ".join(str(ord(c)) for c in s)

def groups(words):
    out, cur = [], []
    for w in words:
        if w == "|":
            out.append(cur); cur = []
        else:
            cur.append(w)
    out.append(cur)
    return [cps(g) for g in out]

def main():
    import radioactivedecay as rd
    from radioactivedecay import utils
    from radioactivedecay.nuclide import Nuclide
    class Fake:
        pass
    out = []
    for line in sys.stdin:
        ws = line.rstrip("\n").split(" ")
        k = ws[0]
        try:
            if k == "P":
                r = fmt_s(utils.parse_nuclide_str(cps(ws[1:])))
            elif k == "I":
                r = fmt_s(utils.parse_id(int(ws[1])))
            elif k == "F":
                f = Fake(); f.nuclide = cps(ws[1:]); f.__class__ = type("FakeN", (), {
                    "Z": Nuclide.Z, "A": Nuclide.A, "state": Nuclide.state, "id": Nuclide.id})
                parts = []
                for attr, isstr in (("Z", 0), ("A", 0), ("state", 1), ("id", 0)):
                    try:
                        v = getattr(f, attr)
                        parts.append(fmt_s(v) if isstr else f"OK {int(v)}")
                    except Exception as e:
                        parts.append("ERR " + type(e).__name__)
                r = " ; ".join(parts)
            elif k == "L":
                fn = ws[1]; a = groups(ws[2:])
                if fn == "remove_ws": r = fmt_s("".join(a[0].split()))
                elif fn == "split_ws": r = "OK " + " | ".join(" ".join(str(ord(c)) for c in p) for p in a[0].split())
                elif fn == "replace_first": r = fmt_s(a[0].replace(a[1], a[2], 1))
                elif fn == "replace_all": r = fmt_s(a[0].replace(a[1], a[2]))
                elif fn == "split_on": r = "OK " + " | ".join(" ".join(str(ord(c)) for c in p) for p in a[0].split(a[1]))
                elif fn in ("isalnum", "isnumeric", "isdigit", "isascii"): r = "OK " + str(getattr(a[0], fn)())
                elif fn == "lower": r = fmt_s(a[0].lower())
                elif fn == "capitalize": r = fmt_s(a[0].capitalize())
                elif fn == "strip": r = fmt_s(a[0].strip(a[1]))
                elif fn == "int": r = f"OK {int(a[0])}"
                elif fn == "filter_digits": r = fmt_s("".join([n for n in a[0] if n.isdigit()]))
                else: r = "ERR unknown-function"
            else:
                r = "ERR bad-request"
        except Exception as e:
            r = "ERR " + type(e).__name__
        out.append(r)
    sys.stdout.write("\n".join(out) + "\n")

main()
