(* C13 - the hypothesis of Props/C13b.time_series_pointwise ("every time point reports the same duplicate-free nuclide
   list") holds for the decay model of both classes (Model/DecayModel.v, the model C01/C02 are proved about): the nuclides of
   the decayed inventory are fixed by the inventory's own nuclides and the data set, not by the decay time. *)
From Coq Require Import Reals List.
From RD Require Import Base Model.Dataset Model.DecayModel.
From RD Require Proofs.SeriesDecayP.

Theorem decayed_nuclides_time_independent : forall (d : dataset) (contents : list (nat * R)) (t1 t2 : R),
  map fst (decay_model d contents t1) = map fst (decay_model d contents t2) /\
  NoDup (map fst (decay_model d contents t1)).
Proof. exact Proofs.SeriesDecayP.decayed_nuclides_time_independent. Qed.
