From Coq Require Import List.
From RD Require Import Base Lib.CertQ Model.Dataset Model.Default Model.FloatData Model.RoundCert.
Definition G_bound : qlit := QL 19354 1.        (* G_round(Default) = 19353.99... ; times 2^-53 = 2.149e-12 *)
Definition H_bound : qlit := QL 402222 1.
Definition m_bound : nat := 131.
Lemma default_round : chk_round Default (bq_of G_bound) (bq_of H_bound) m_bound = true.
Proof. vm_cast_no_check (eq_refl true). Qed.
