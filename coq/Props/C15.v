(* C15 - Decay-data queries report the dataset faithfully and agree with each other.
   Statements about the query model (Model/Queries.v, tied to the source by tools/tr_shapes.py and by
   the exhaustive correspondence), the generated time conversion and the data-set certificate. *)
From Coq Require Import ZArith NArith List Bool QArith Reals Qreals.
From RD Require Import Base Lib.Py Lib.Num Gen.Tables Gen.ConvGen Gen.UtilsGen Model.UnitSpec Model.UnitsR
  Model.Dataset Model.Default Model.Queries.
From RD Require Proofs.QueriesP Proofs.CertDefault.Struct.
Import ListNotations.
Local Open Scope R_scope.

(* exhaustive certificate over the shipped data: lists aligned, branching fractions decreasing,
   readable half-lives denote the stored duration to printed precision, stable <-> inf <-> no progeny *)
Theorem default_reporting_data_consistent :
  chk_aligned Default = true /\ chk_bfs Default = true /\ chk_progeny_known Default = true /\
  chk_readable Default time_units_q year_units = true /\ chk_stable_consistent Default = true.
Proof. exact Proofs.QueriesP.default_reporting_data_consistent. Qed.

(* meaning of the readable check: every half-life record passes [readable_ok] *)
Theorem readable_same_duration : forall h, In h (ds_hl Default) ->
  readable_ok Default time_units_q year_units h = true.
Proof. exact Proofs.QueriesP.readable_same_duration. Qed.

(* the storage-unit shortcut returns what the conversion would: converting from u to u is the identity *)
Theorem half_life_shortcut_sound : forall year h u f, q_assoc u spec_time = Some f ->
  exists x, time_unit_conv R_ops TR year_units h u u year = OK x /\ (year <> 0 -> x = h).
Proof. exact Proofs.QueriesP.half_life_shortcut_sound. Qed.

(* conversion by the exact ratio of the units *)
Theorem half_life_converted : forall year h u1 u2 f1 f2, year <> 0 ->
  q_assoc u1 spec_time = Some f1 -> q_assoc u2 spec_time = Some f2 ->
  exists x, time_unit_conv R_ops TR year_units h u1 u2 year = OK x /\
    x * (Q2R f2 * (if l_mem_str u2 spec_year_units then year else 1))
    = h * (Q2R f1 * (if l_mem_str u1 spec_year_units then year else 1)).
Proof. exact Proofs.QueriesP.half_life_converted. Qed.

(* pairwise look-ups: the value listed at the position of the progeny; zero / empty otherwise *)
Theorem lookup_hit : forall (pl : list str) k g, nodup_str pl = true -> nth_error pl k = Some g ->
  find_pos g pl 0 = Some k.
Proof. exact Proofs.QueriesP.lookup_hit. Qed.

Theorem lookup_miss : forall (pl : list str) g, l_mem_str g pl = false -> find_pos g pl 0 = None.
Proof. exact Proofs.QueriesP.lookup_miss. Qed.

Theorem branching_fraction_hit : forall (T : Type) names dsname progeny (bfs : list (list T)) zero p g pn gn pl bl k b,
  parse_nuclide p names dsname = OK pn -> parse_nuclide g names dsname = OK gn ->
  by_name names progeny pn = OK pl -> by_name names bfs pn = OK bl ->
  nodup_str pl = true -> nth_error pl k = Some gn -> nth_error bl k = Some b ->
  branching_fraction names dsname progeny bfs zero p g = OK b.
Proof. exact Proofs.QueriesP.branching_fraction_hit. Qed.

Theorem branching_fraction_miss : forall (T : Type) names dsname progeny (bfs : list (list T)) zero p g pn gn pl bl,
  parse_nuclide p names dsname = OK pn -> parse_nuclide g names dsname = OK gn ->
  by_name names progeny pn = OK pl -> by_name names bfs pn = OK bl ->
  l_mem_str gn pl = false ->
  branching_fraction names dsname progeny bfs zero p g = OK zero.
Proof. exact Proofs.QueriesP.branching_fraction_miss. Qed.
