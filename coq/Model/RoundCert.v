(* The constant that scales the rounding error of the double-precision evaluation for a data set, row by row:
   G_round = max_i ( m_i * max_j sum_k |Cf_ik| |Cf^-1_kj| ),   m_i = (stored length of row i of C)
                                                                   + (number of columns reachable from row i through C^-1) + 3,
   the number of rounded operations that can touch one term of entry i.  Exact kernel computation.  Definitions only.
   (The matrices are parameters of the workers so that the virtual machine converts them once.) *)
From Coq Require Import ZArith NArith QArith List Bool.
From Bignums Require Import BigQ.
From RD Require Import Base Lib.Sparse Lib.CertQ Model.Dataset Model.FloatData Model.FloatDecay.
Import ListNotations.

Section Workers.
  Variable Ai : mat bq.
  Definition mpat_len_of (a : row bq) : nat :=
    length (nodup N.eq_dec (flat_map (fun k => cols bq (mrow bq Ai (N.to_nat k))) (cols bq a))).
  Definition ops_per_term_of (a : row bq) : nat := (length a + mpat_len_of a + 3)%nat.
  Definition round_weight_of (a : row bq) : bq :=
    BigQ.mul (BigQ.of_Q (inject_Z (Z.of_nat (ops_per_term_of a)))) (row_max Ai zero_mat a []).
  Definition G_round_of (A : mat bq) : bq := fold_left bq_max (map round_weight_of A) BigQ.zero.
  Definition max_ops_of (A : mat bq) : nat := fold_left Nat.max (map ops_per_term_of A) O.
End Workers.

Section WithDataset.
  Variable d : dataset.
  Definition G_round : bq := let Ai := Cifq d in let A := Cfq d in G_round_of Ai A.
  Definition max_ops : nat := let Ai := Cifq d in let A := Cfq d in max_ops_of Ai A.
  (* sum_{k} |Cf^-1_kj| <= sum over ALL stored entries is far too crude; the row sums of |C^-1| transposed are not at hand,
     so the underflow term uses   H = (number of rows) * max_k max_j |Cf^-1_kj|  >= every column sum *)
  Definition H_col : bq :=
    let Ai := Cifq d in
    BigQ.mul (BigQ.of_Q (inject_Z (Z.of_nat (length Ai))))
             (fold_left bq_max (map (fun r => fold_left (fun acc kx => bq_max acc (bq_abs (snd kx))) r BigQ.zero) Ai) BigQ.zero).
  Definition chk_round (Gb Hb : bq) (mb : nat) : bool :=
    rows_nodup (ds_cf d) && rows_nodup (ds_cif d) &&
    bq_leb G_round Gb && bq_leb H_col Hb && Nat.leb max_ops mb.
End WithDataset.
