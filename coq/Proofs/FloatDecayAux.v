(* C01 (fourth part): auxiliary lemmas for the forward-error theorem of the double-precision decay -
   gamma_m <= m u / (1 - m u), stored floats vs their exact rationals, soundness of the constants of Model/RoundCert.v. *)
From Coq Require Import Reals ZArith NArith QArith Qreals List Bool Lia Lra Arith Psatz.
From Coq Require Import PrimFloat FloatOps SpecFloat.
From Flocq Require Import Core.Core IEEE754.BinarySingleNaN IEEE754.PrimFloat.
From Bignums Require Import BigQ.
From RD Require Import Base Model.DecayR Lib.Sparse Lib.CertQ Model.Dataset Model.Rounding Model.Rounding64
  Model.FloatDecay Model.FloatData Model.RoundCert.
From RD Require Proofs.DatasetCert Proofs.FloatDataP Proofs.Rounding64P Proofs.RoundingP.
Import ListNotations.
Local Open Scope R_scope.

(* ---------- (1+u)^m and gamma_m *)
Lemma pow1u_inv : forall u m, 0 <= u -> (1 + u) ^ m * (1 - INR m * u) <= 1.
Proof.
  intros u m Hu. induction m as [|m IH].
  - simpl. lra.
  - rewrite S_INR. simpl pow.
    assert (Hp : 0 <= (1 + u) ^ m) by (apply pow_le; lra).
    assert (Hm : 0 <= INR m) by apply pos_INR.
    apply Rle_trans with ((1 + u) ^ m * (1 - INR m * u)); [|exact IH].
    replace ((1 + u) * (1 + u) ^ m * (1 - (INR m + 1) * u))
      with ((1 + u) ^ m * ((1 + u) * (1 - (INR m + 1) * u))) by ring.
    apply Rmult_le_compat_l; [exact Hp|]. nra.
Qed.

Lemma pow1u_le_inv : forall u m, 0 <= u -> INR m * u < 1 -> (1 + u) ^ m <= / (1 - INR m * u).
Proof.
  intros u m Hu Hm. pose proof (pow1u_inv u m Hu) as H.
  apply Rmult_le_reg_r with (1 - INR m * u); [lra|]. rewrite Rinv_l by lra. exact H.
Qed.

Lemma gam_le : forall u m, 0 <= u -> INR m * u < 1 -> gam u m <= INR m * u / (1 - INR m * u).
Proof.
  intros u m Hu Hm. unfold gam. pose proof (pow1u_le_inv u m Hu Hm) as H.
  replace (INR m * u / (1 - INR m * u)) with (/ (1 - INR m * u) - 1) by (field; lra). lra.
Qed.

Lemma gam_le_mb : forall u m mb, 0 <= u -> (m <= mb)%nat -> INR mb * u < 1 ->
  gam u m <= INR m * (u / (1 - INR mb * u)).
Proof.
  intros u m mb Hu Hle Hmb.
  assert (H1 : INR m <= INR mb) by (apply le_INR; exact Hle).
  assert (H0 : 0 <= INR m) by apply pos_INR.
  assert (Hm : INR m * u < 1) by nra.
  eapply Rle_trans; [apply gam_le; assumption|].
  unfold Rdiv. rewrite Rmult_assoc. apply Rmult_le_compat_l; [exact H0|].
  apply Rmult_le_compat_l; [exact Hu|]. apply Rinv_le_contravar; nra.
Qed.

(* ---------- sums *)
Lemma sumn_const : forall n a, sumn n (fun _ => a) = INR n * a.
Proof. induction n as [|n IH]; intro a; [simpl; lra|]. rewrite S_INR. simpl. rewrite IH. lra. Qed.

Lemma sumn_abs_zero : forall n f, sumn n (fun j => Rabs (f j)) = 0 -> forall j, (j < n)%nat -> f j = 0.
Proof.
  induction n as [|n IH]; intros f H j Hj; [lia|]. simpl in H.
  assert (H1 : 0 <= sumn n (fun j => Rabs (f j))) by (apply RoundingP.sumn_nonneg; intros; apply Rabs_pos).
  pose proof (Rabs_pos (f n)) as H2.
  destruct (Nat.eq_dec j n) as [->|Hne].
  - destruct (Req_dec (f n) 0) as [E|E]; [exact E|]. apply Rabs_pos_lt in E. lra.
  - apply IH; [lra|lia].
Qed.

Lemma sumn_abs_nonzero : forall n f, sumn n (fun j => Rabs (f j)) <> 0 -> exists j, (j < n)%nat /\ f j <> 0.
Proof.
  induction n as [|n IH]; intros f H; [exfalso; apply H; reflexivity|]. simpl in H.
  destruct (Req_dec (f n) 0) as [E|E].
  - rewrite E, Rabs_R0, Rplus_0_r in H. destruct (IH f H) as [j [Hj Hf]]. exists j. split; [lia|exact Hf].
  - exists n. split; [lia|exact E].
Qed.

(* sum_j (sum_k a_k e_k b_kj) x_j  =  sum_k a_k (e_k sum_j b_kj x_j) *)
Lemma Yexact_swap : forall n (Cf Cif : nat -> nat -> R) (E n0 : nat -> R) i,
  Yexact n Cf Cif E n0 i = sumn n (fun k => Cf i k * (E k * sumn n (fun j => Cif k j * n0 j))).
Proof.
  intros n Cf Cif E n0 i. unfold Yexact.
  rewrite (sumn_ext n _ (fun j => sumn n (fun k => Cf i k * E k * Cif k j * n0 j))).
  2:{ intros j _. rewrite Rmult_comm, <- sumn_scal. apply sumn_ext. intros; ring. }
  rewrite sumn_swap. apply sumn_ext. intros k _.
  rewrite <- !sumn_scal. apply sumn_ext. intros; ring.
Qed.

(* ---------- a stored float and its exact rational *)
Lemma bq_of_float_val : forall f : float, bqv (bq_of_float f) = fval f.
Proof.
  intro f. rewrite Rounding64P.fval_SF. unfold bq_of_float.
  destruct (Prim2SF f) as [s|s| |s m e]; try exact bqv_0.
  unfold SF2R.
  assert (Hm : (if s then Z.neg m else Z.pos m) = cond_Zopp s (Z.pos m)) by (destruct s; reflexivity).
  rewrite Hm. unfold F2R. simpl Fnum. simpl Fexp.
  destruct e as [|p|p]; rewrite Rounding64P.bqv_of_Q.
  - rewrite Rounding64P.Q2R_inject_Z. simpl. ring.
  - rewrite Rounding64P.Q2R_inject_Z. rewrite mult_IZR. reflexivity.
  - unfold Q2R. simpl Qnum. simpl Qden. simpl bpow.
    rewrite Pos2Z.inj_pow_pos. reflexivity.
Qed.

Lemma cols_to_bq_frow : forall r, cols bq (to_bq_frow r) = fcols r.
Proof. intro r. unfold cols, to_bq_frow, fcols. rewrite map_map. reflexivity. Qed.

Lemma length_to_bq_frow : forall r, length (to_bq_frow r) = length r.
Proof. intro r. apply map_length. Qed.

Lemma fget_notin : forall r j, ~ In j (fcols r) -> fget r j = 0%float.
Proof.
  induction r as [|[a v] r IH]; intros j Hj; [reflexivity|]. cbn [fget].
  destruct (N.eqb_spec a j) as [E|E]; [exfalso; apply Hj; left; exact E|].
  apply IH. intro H. apply Hj. right. exact H.
Qed.

Lemma bget_fget : forall r j, NoDup (fcols r) -> bqv (bget (to_bq_frow r) j) = fval (fget r j).
Proof.
  induction r as [|[a v] r IH]; intros j Hnd.
  - cbn. rewrite bqv_0. symmetry. apply Rounding64P.fval_zero.
  - cbn [fcols map fst] in Hnd. apply NoDup_cons_iff in Hnd. destruct Hnd as [Hna Hnd].
    cbn [to_bq_frow map fst snd]. change (map (fun kx => (fst kx, bq_of_float (snd kx))) r) with (to_bq_frow r).
    rewrite DatasetCert.bget_cons. cbn [fget].
    destruct (N.eqb_spec a j) as [E|E].
    + subst a. rewrite bqv_add, DatasetCert.bget_notin by (rewrite cols_to_bq_frow; exact Hna).
      rewrite bqv_0, bq_of_float_val. lra.
    + apply IH. exact Hnd.
Qed.

Lemma mrow_to_bq_fmat : forall m a, mrow bq (to_bq_fmat m) a = to_bq_frow (nth a m []).
Proof. intros m a. unfold mrow, to_bq_fmat. change (@nil (N * bq)) with (to_bq_frow []). apply map_nth. Qed.

Lemma rows_nodup_nth : forall m a, rows_nodup m = true -> NoDup (fcols (nth a m [])).
Proof.
  intros m a H. unfold rows_nodup in H. rewrite forallb_forall in H.
  destruct (Nat.lt_ge_cases a (length m)) as [Ha|Ha].
  - apply Rounding64P.nodupb_NoDup. apply H. apply nth_In. exact Ha.
  - rewrite nth_overflow by exact Ha. constructor.
Qed.

Lemma frow_of_nat : forall m a, frow_of m (N.of_nat a) = nth a m [].
Proof. intros m a. unfold frow_of. rewrite Nat2N.id. reflexivity. Qed.

Lemma bent_fget : forall m a b, rows_nodup m = true ->
  fval (fget (frow_of m (N.of_nat a)) (N.of_nat b)) = bent (to_bq_fmat m) a b.
Proof.
  intros m a b H. unfold ent. rewrite mrow_to_bq_fmat, frow_of_nat. symmetry.
  apply bget_fget. apply rows_nodup_nth. exact H.
Qed.

(* ---------- maxima *)
Lemma fold_natmax_ge_acc : forall l acc, (acc <= fold_left Nat.max l acc)%nat.
Proof.
  induction l as [|a l IH]; intro acc; cbn [fold_left]; [lia|].
  eapply Nat.le_trans; [|apply IH]. lia.
Qed.
Lemma fold_natmax_ge_in : forall l acc x, In x l -> (x <= fold_left Nat.max l acc)%nat.
Proof.
  induction l as [|a l IH]; intros acc x Hin; [contradiction|]. cbn [fold_left].
  destruct Hin as [E|Hin].
  - subst a. eapply Nat.le_trans; [|apply fold_natmax_ge_acc]. lia.
  - apply IH. exact Hin.
Qed.

Lemma bqv_of_nat : forall m, bqv (BigQ.of_Q (inject_Z (Z.of_nat m))) = INR m.
Proof. intro m. rewrite Rounding64P.bqv_of_Q, Rounding64P.Q2R_inject_Z. symmetry. apply INR_IZR_INZ. Qed.

(* largest |entry| of a row *)
Definition absmax_row (r : row bq) (acc : bq) : bq := fold_left (fun acc kx => bq_max acc (bq_abs (snd kx))) r acc.

Lemma absmax_ge_acc : forall r acc, bqv acc <= bqv (absmax_row r acc).
Proof.
  induction r as [|kx r IH]; intro acc; unfold absmax_row; cbn [fold_left]; [lra|].
  eapply Rle_trans; [apply (FloatDataP.bqv_max_l acc (bq_abs (snd kx)))|apply IH].
Qed.
Lemma absmax_ge_in : forall r acc j x, In (j, x) r -> Rabs (bqv x) <= bqv (absmax_row r acc).
Proof.
  induction r as [|kx r IH]; intros acc j x Hin; [contradiction|]. unfold absmax_row. cbn [fold_left].
  destruct Hin as [E|Hin].
  - subst kx. cbn [snd]. rewrite <- FloatDataP.bqv_abs.
    eapply Rle_trans; [apply (FloatDataP.bqv_max_r acc (bq_abs x))|apply absmax_ge_acc].
  - apply (IH _ j x Hin).
Qed.

Lemma bget_nodup_cases : forall (r : row bq) j, NoDup (cols bq r) ->
  bqv (bget r j) = 0 \/ exists x, In (j, x) r /\ bqv (bget r j) = bqv x.
Proof.
  induction r as [|[a x] r IH]; intros j Hnd.
  - left. rewrite DatasetCert.bget_nil. apply bqv_0.
  - cbn [cols map fst] in Hnd. apply NoDup_cons_iff in Hnd. destruct Hnd as [Hna Hnd].
    rewrite DatasetCert.bget_cons.
    destruct (N.eqb_spec a j) as [E|E].
    + subst a. right. exists x. split; [left; reflexivity|].
      rewrite bqv_add, DatasetCert.bget_notin by exact Hna. rewrite bqv_0. lra.
    + destruct (IH j Hnd) as [H|[y [Hin Hy]]]; [left; exact H|].
      right. exists y. split; [right; exact Hin|exact Hy].
Qed.

Lemma bget_le_absmax : forall (r : row bq) j, NoDup (cols bq r) -> Rabs (bqv (bget r j)) <= bqv (absmax_row r BigQ.zero).
Proof.
  intros r j Hnd. destruct (bget_nodup_cases r j Hnd) as [H|[x [Hin Hx]]].
  - rewrite H, Rabs_R0. rewrite <- bqv_0 at 1. apply absmax_ge_acc.
  - rewrite Hx. apply (absmax_ge_in r _ j x Hin).
Qed.

(* ---------- the data-set constants *)
Section Consts.
  Variable d : dataset.
  Hypothesis HCf : mat_in_range bq (nN d) (Cfq d) = true.
  Hypothesis HCif : mat_in_range bq (nN d) (Cifq d) = true.

  Lemma len_Cfq : length (Cfq d) = nn d.
  Proof. rewrite (mat_in_range_len bq _ _ HCf). apply DatasetCert.nN_nn. Qed.
  Lemma len_Cifq : length (Cifq d) = nn d.
  Proof. rewrite (mat_in_range_len bq _ _ HCif). apply DatasetCert.nN_nn. Qed.
  Lemma len_cf : length (ds_cf d) = nn d.
  Proof. rewrite <- len_Cfq. unfold Cfq, to_bq_fmat. symmetry. apply map_length. Qed.
  Lemma len_cif : length (ds_cif d) = nn d.
  Proof. rewrite <- len_Cifq. unfold Cifq, to_bq_fmat. symmetry. apply map_length. Qed.

  Lemma row_max_sound : forall i j,
    sumn (nn d) (fun k => Rabs (Cfr d i k * Cifr d k j)) <= bqv (row_max (Cifq d) zero_mat (mrow bq (Cfq d) i) []).
  Proof.
    intros i j. unfold Cfr, Cifr, ent.
    apply Rle_trans with (bqv (bget (term_list (Cifq d) zero_mat (mrow bq (Cfq d) i) []) (N.of_nat j))).
    - rewrite (FloatDataP.term_list_sound (Cifq d) zero_mat (mrow bq (Cfq d) i) [] (nn d) (N.of_nat j)).
      + right. apply sumn_ext. intros k Hk. unfold zero_mat.
        rewrite FloatDataP.mrow_nil, !DatasetCert.bget_nil, bqv_0. f_equal. ring.
      + intros k Hk. rewrite <- (DatasetCert.nN_nn d). apply (FloatDataP.row_cols_range _ _ _ _ HCf Hk).
      + intros k [].
    - apply FloatDataP.row_max_ge.
  Qed.

  Definition ops_row (i : nat) : nat := ops_per_term_of (Cifq d) (mrow bq (Cfq d) i).

  Lemma G_round_sound : forall i j, (i < nn d)%nat ->
    INR (ops_row i) * sumn (nn d) (fun k => Rabs (Cfr d i k * Cifr d k j)) <= bqv (G_round d).
  Proof.
    intros i j Hi.
    apply Rle_trans with (bqv (round_weight_of (Cifq d) (mrow bq (Cfq d) i))).
    - unfold round_weight_of. rewrite bqv_mul, bqv_of_nat. fold (ops_row i).
      apply Rmult_le_compat_l; [apply pos_INR|apply row_max_sound].
    - unfold G_round, G_round_of. cbv zeta. apply FloatDataP.fold_max_ge_in. apply in_map.
      unfold mrow. apply nth_In. rewrite len_Cfq. exact Hi.
  Qed.

  Lemma max_ops_sound : forall i, (i < nn d)%nat -> (ops_row i <= max_ops d)%nat.
  Proof.
    intros i Hi. unfold max_ops, max_ops_of. cbv zeta. apply fold_natmax_ge_in.
    unfold ops_row. apply in_map. unfold mrow. apply nth_In. rewrite len_Cfq. exact Hi.
  Qed.

  (* the count of rounded operations of the float model is the certificate's count *)
  Lemma ops_row_eq : forall i : N,
    ops_row (N.to_nat i)
    = (length (frow_of (ds_cf d) i)
       + length (nodup N.eq_dec (flat_map (fun k => fcols (frow_of (ds_cif d) k)) (fcols (frow_of (ds_cf d) i)))) + 3)%nat.
  Proof.
    intro i. unfold ops_row, ops_per_term_of, mpat_len_of, Cfq, Cifq.
    rewrite mrow_to_bq_fmat. fold (frow_of (ds_cf d) i).
    rewrite length_to_bq_frow, cols_to_bq_frow. do 2 f_equal.
    f_equal. f_equal. apply flat_map_ext. intro k. rewrite mrow_to_bq_fmat, cols_to_bq_frow. reflexivity.
  Qed.

  Hypothesis Hnd : rows_nodup (ds_cif d) = true.

  Lemma H_col_sound : forall j, sumn (nn d) (fun k => Rabs (Cifr d k j)) <= bqv (H_col d).
  Proof.
    intro j. unfold H_col. cbv zeta. rewrite bqv_mul, bqv_of_nat, len_Cifq.
    set (M := fold_left bq_max (map (fun r => fold_left (fun acc kx => bq_max acc (bq_abs (snd kx))) r BigQ.zero) (Cifq d)) BigQ.zero).
    rewrite <- sumn_const. apply FloatDataP.sumn_le. intros k Hk.
    unfold Cifr, ent.
    eapply Rle_trans; [apply bget_le_absmax|].
    - unfold Cifq. rewrite mrow_to_bq_fmat, cols_to_bq_frow. apply rows_nodup_nth. exact Hnd.
    - unfold M. apply FloatDataP.fold_max_ge_in.
      apply (in_map (fun r => absmax_row r BigQ.zero)). unfold mrow. apply nth_In. rewrite len_Cifq. exact Hk.
  Qed.
End Consts.

Lemma chk_round_parts : forall d Gb Hb mb, chk_round d Gb Hb mb = true ->
  rows_nodup (ds_cf d) = true /\ rows_nodup (ds_cif d) = true /\
  bqv (G_round d) <= bqv Gb /\ bqv (H_col d) <= bqv Hb /\ (max_ops d <= mb)%nat.
Proof.
  intros d Gb Hb mb H. unfold chk_round in H.
  apply andb_prop in H. destruct H as [H H5].
  apply andb_prop in H. destruct H as [H H4].
  apply andb_prop in H. destruct H as [H H3].
  apply andb_prop in H. destruct H as [H1 H2].
  repeat split; try assumption.
  - apply FloatDataP.bq_leb_spec. exact H3.
  - apply FloatDataP.bq_leb_spec. exact H4.
  - apply Nat.leb_le. exact H5.
Qed.
