#!/usr/bin/env python3
"""Print the prompt handed to a mutation-writing sub-agent for property <id> (property text only)."""
import json, sys
pid = sys.argv[1]
wt = sys.argv[2]
for l in open('/verif/properties.jsonl'):
    p = json.loads(l)
    if p['id'] == pid:
        break
else:
    sys.exit('no such property')
print(f"""You are given a scratch git worktree of the Python library `radioactivedecay` at {wt} (a checkout of the repository; work ONLY inside this directory; never touch /repo or /verif; do not read anything under /verif).

Property {p['id']} — {p['title']}
Statement: {p['statement']}
Quantified over: {p['quantifier']['text']}
Code the property is anchored in: {', '.join(p['anchors']['files'])}

Your job: produce TWO independent, realistic source changes (each a separate patch against the pristine worktree, touching only files under {wt}/radioactivedecay/ — code or data files) each of which BREAKS this property while the package still imports and the ENTIRE existing test suite still passes. They should look like plausible maintenance mistakes or "optimisations" (an off-by-one, a wrong branch, a stale cache, a swapped argument, a special case that is wrong, a changed constant or data entry), and they should need something specific to manifest — an unusual input, a particular unit/nuclide/state, a multi-step sequence of operations, or two cooperating sites that each look fine alone — NOT something that ordinary use would expose at once. The two changes must be of different kinds and in different places. Avoid the specific examples that a reader of the test-suite would think of first; be inventive but realistic.

For each change k in {{1,2}}:
 1. make the edit in the worktree; save it with `git -C {wt} diff > {wt}/mut{{k}}.diff` (use `git diff --binary` if a binary data file is changed; the diff must apply to the pristine checkout with `git apply`);
 2. write a small standalone demonstration {wt}/demo{{k}}.py that exits 0 on the pristine code and exits non-zero (assertion failure with a short message) with the change applied. Run it as `cd {wt} && PYTHONPATH={wt} MPLBACKEND=Agg /venv/bin/python demo{{k}}.py`. The demonstration must check the property itself (against an independent expectation: arithmetic you do by hand / with fractions / documented constants), not merely compare to frozen outputs of the pristine code;
 3. confirm the full test suite still passes WITH the change: `cd {wt} && PYTHONPATH={wt} MPLBACKEND=Agg /venv/bin/python -m pytest -q -p no:cacheprovider --timeout=900 -x -n 0 2>&1 | tail -5` (if `-n` is not recognised drop it; the suite takes 2-3 minutes; the single test tests/test_inventory.py::TestInventoryHP::test_plot fails on the pristine tree too and is to be ignored; everything else must pass);
 4. restore the worktree (`git -C {wt} checkout -- .`) before starting the next change, keeping the mut*.diff and demo*.py files (they are untracked).
Never use `git stash` (the stash is shared between worktrees); to test on pristine code save your diff to a file, `git checkout -- .`, and re-apply with `git apply`. Run pytest without -x. Use only /venv/bin/python (it has numpy, scipy, sympy, pandas, matplotlib, networkx, pytest). There is no network. Importing the package takes ~10 s. Leave the worktree restored at the end (only the untracked mut1.diff, mut2.diff, demo1.py, demo2.py remain).

Report, for each change: the file/lines changed, one sentence on why it breaks the property, what is needed for it to manifest, and the outputs of the demo on pristine and changed code and of the test suite run.""")
