(* Certificate for Proofs/FloatDecayAnc.v: every column STORED in a row of the float matrices C, C^-1 (explicit
   zeros included) belongs to the non-zero pattern of the same row of the exact matrices C, C^-1. *)
From Coq Require Import NArith List Bool.
From RD Require Import Base Model.Dataset Model.Default Model.FloatDecay.

Definition chk_stored_cf (d : dataset) : bool :=
  all2 (fun r1 r2 => forallb (fun k => existsb (N.eqb k) (row_cols_q r1)) (fcols r2)) (ds_c d) (ds_cf d).
Definition chk_stored_cif (d : dataset) : bool :=
  all2 (fun r1 r2 => forallb (fun k => existsb (N.eqb k) (row_cols_q r1)) (fcols r2)) (ds_ci d) (ds_cif d).

Lemma default_stored_patterns : chk_stored_cf Default = true /\ chk_stored_cif Default = true.
Proof. split; vm_cast_no_check (eq_refl true). Qed.
