(* C03 (second part), layers (w) and (c):
   (w) the rounded-evaluation error theorem with a diagonal bounded by beta_k instead of 1 (by rescaling
       Proofs/RoundingP.decay_eval_error);
   (c) the primitive-float model of cumulative_decays (Model/FloatCum.v) refines the abstract rounded evaluation
       followed by one rounded product (the Refine section of Proofs/Rounding64P.v re-run for orders_okb_cum). *)
From Coq Require Import Reals Lra Lia List Bool ZArith NArith Psatz FinFun.
From Flocq Require Import Core.Core Relative IEEE754.BinarySingleNaN IEEE754.PrimFloat.
From Coq Require Import PrimFloat FloatOps SpecFloat FloatAxioms.
From RD Require Import Base Model.DecayR Model.Rounding Model.Rounding64 Model.FloatDecay Model.FloatCum.
From RD Require Import Proofs.RoundingP Proofs.Rounding64P.
Import ListNotations.
Local Open Scope R_scope.

(* ====================================================================== (w) *)
Section Weighted.
  Variable rnd : R -> R.
  Variable n : nat.
  Variables Cf Cif : nat -> nat -> R.
  Variable E : nat -> R.
  Variable n0 : nat -> R.
  Variable ks : nat -> nat -> list nat.
  Variable js : nat -> list nat.
  Variable beta : nat -> R.
  Hypothesis HE : forall k, (k < n)%nat -> 0 <= E k <= beta k.

  (* rescaled data: the weight moves from the diagonal into the left matrix (inside the range only) *)
  Definition Cfw (a k : nat) : R := if Nat.ltb k n then Cf a k * beta k else Cf a k.
  Definition Ew (k : nat) : R :=
    if Nat.ltb k n then (if Req_EM_T (beta k) 0 then 0 else E k / beta k) else E k.

  Lemma w_prod : forall a k, Cfw a k * Ew k = Cf a k * E k.
  Proof.
    intros a k. unfold Cfw, Ew. destruct (Nat.ltb_spec k n) as [Hk|Hk]; [|reflexivity].
    destruct (Req_EM_T (beta k) 0) as [Hb|Hb].
    - pose proof (HE k Hk) as H. assert (E k = 0) by lra. rewrite H0. ring.
    - field. exact Hb.
  Qed.

  Lemma w_CE : forall a k, CE rnd Cfw Ew a k = CE rnd Cf E a k.
  Proof. intros a k. unfold CE. rewrite w_prod. reflexivity. Qed.

  Lemma w_Mhat : forall a j, Mhat rnd Cfw Cif Ew ks a j = Mhat rnd Cf Cif E ks a j.
  Proof.
    intros a j. unfold Mhat. f_equal. apply map_ext. intro k. rewrite w_CE. reflexivity.
  Qed.

  Lemma w_yhat : forall a, yhat rnd Cfw Cif Ew n0 ks js a = yhat rnd Cf Cif E n0 ks js a.
  Proof.
    intro a. unfold yhat. f_equal. apply map_ext. intro j. rewrite w_Mhat. reflexivity.
  Qed.

  Lemma w_Yexact : forall a, Yexact n Cfw Cif Ew n0 a = Yexact n Cf Cif E n0 a.
  Proof.
    intro a. unfold Yexact. apply sumn_ext. intros j _. f_equal.
    apply sumn_ext. intros k _. rewrite w_prod. reflexivity.
  Qed.

  Lemma w_orders_ok : forall a, orders_ok rnd n Cf Cif E n0 ks js a -> orders_ok rnd n Cfw Cif Ew n0 ks js a.
  Proof.
    intros a (H1 & H2 & H3 & H4). split; [|split; [|split]].
    - intros j Hj. destruct (H1 j Hj) as (A & B & C). split; [exact A | split; [exact B|]].
      intros k Hk Hn. rewrite w_CE. apply C; assumption.
    - exact H2.
    - exact H3.
    - intros j Hj Hn. rewrite w_Mhat. apply H4; assumption.
  Qed.

  Lemma beta_nonneg : forall k, (k < n)%nat -> 0 <= beta k.
  Proof. intros k Hk. pose proof (HE k Hk). lra. Qed.

  Lemma w_E_range : forall k, (k < n)%nat -> 0 <= Ew k <= 1.
  Proof.
    intros k Hk. unfold Ew. destruct (Nat.ltb_spec k n) as [_|A]; [|lia].
    destruct (Req_EM_T (beta k) 0) as [Hb|Hb]; [lra|].
    pose proof (HE k Hk) as H. assert (Hp : 0 < beta k) by lra.
    split.
    - apply Rmult_le_pos; [lra|]. left. apply Rinv_0_lt_compat. exact Hp.
    - apply Rmult_le_reg_r with (beta k); [exact Hp|]. unfold Rdiv.
      rewrite Rmult_assoc, Rinv_l by exact Hb. lra.
  Qed.

  Lemma w_Sabs : forall a j,
    Sabs n Cfw Cif a j = sumn n (fun k => Rabs (Cf a k) * beta k * Rabs (Cif k j)).
  Proof.
    intros a j. unfold Sabs. apply sumn_ext. intros k Hk. f_equal.
    unfold Cfw. destruct (Nat.ltb_spec k n) as [_|A]; [|lia].
    rewrite Rabs_mult. f_equal. apply Rabs_right. apply Rle_ge. apply beta_nonneg. exact Hk.
  Qed.
End Weighted.

Theorem decay_eval_error_w : forall rnd u eta, std_model rnd u eta ->
  forall n Cf Cif E n0 ks js i L L' (beta : nat -> R),
  (forall k, (k < n)%nat -> 0 <= E k <= beta k) ->
  orders_ok rnd n Cf Cif E n0 ks js i ->
  (forall j, (j < n)%nat -> (length (ks i j) <= L)%nat) -> (length (js i) <= L')%nat ->
  Rabs (yhat rnd Cf Cif E n0 ks js i - Yexact n Cf Cif E n0 i)
  <= gam u (L + L' + 3) * sumn n (fun j => sumn n (fun k => Rabs (Cf i k) * beta k * Rabs (Cif k j)) * Rabs (n0 j))
     + eta * (1 + u) ^ (L + L' + 3) *
       (sumn n (fun j => (sumn n (fun k => Rabs (Cif k j)) + 2 * INR L) * Rabs (n0 j)) + 2 * INR L').
Proof.
  intros rnd u eta Hstd n Cf Cif E n0 ks js i L L' beta HE Hok HL HL'.
  pose proof (decay_eval_error rnd u eta Hstd n (Cfw n Cf beta) Cif (Ew n E beta) n0 ks js i L L'
                (w_E_range n E beta HE)
                (w_orders_ok rnd n Cf Cif E n0 ks js beta HE i Hok) HL HL') as H.
  rewrite (w_yhat rnd n Cf Cif E n0 ks js beta HE) in H.
  rewrite (w_Yexact n Cf Cif E n0 beta HE) in H.
  rewrite (sumn_ext n (fun j => Sabs n (Cfw n Cf beta) Cif i j * Rabs (n0 j))
             (fun j => sumn n (fun k => Rabs (Cf i k) * beta k * Rabs (Cif k j)) * Rabs (n0 j))) in H.
  - exact H.
  - intros j _. rewrite (w_Sabs n Cf Cif E beta HE). reflexivity.
Qed.

(* ====================================================================== (c) *)
Lemma nonneg_finite_spec (v : float) :
  PrimFloat.leb 0%float v = true -> ffinite v = true -> 0 <= fval v.
Proof.
  intros H0 F. unfold ffinite in F. rewrite <- ffin_SF in F.
  rewrite leb_equiv in H0.
  rewrite Bleb_correct in H0 by (try exact F; exact ffin_zero).
  fold (fval 0%float) in H0. fold (fval v) in H0. rewrite fval_zero in H0.
  revert H0. case Rle_bool_spec; [auto | discriminate].
Qed.

Section RefineCum.
  Variables (cf cif : list frow) (e n0 : frow) (i : N) (ce mo : list N).
  Hypothesis Hok : orders_okb_cum cf cif e n0 i ce mo = true.

  Let n := length cf.
  Let rowi := frow_of cf i.
  Let Cff := fun a b : nat => fval (fget (frow_of cf (N.of_nat a)) (N.of_nat b)).
  Let Ciff := fun a b : nat => fval (fget (frow_of cif (N.of_nat a)) (N.of_nat b)).
  Let Ef := fun k : nat => fval (fget e (N.of_nat k)).
  Let n0f := fun j : nat => fval (fget n0 (N.of_nat j)).
  Let ks := fun (_ j : nat) => map N.to_nat (pf_ks cif ce (N.of_nat j)).
  Let js := fun _ : nat => map N.to_nat mo.
  Let ii := N.to_nat i.

  Lemma okc_parts :
    (i < N.of_nat n)%N /\ length cif = length cf /\ NoDup (fcols rowi) /\
    (forall kv, In kv e -> PrimFloat.leb 0%float (snd kv) = true /\ ffinite (snd kv) = true) /\
    NoDup ce /\ (forall k, In k ce -> In k (fcols rowi)) /\
    (forall k, In k (fcols rowi) -> In k ce \/ fzero (pf_CE cf e i k) = true) /\
    NoDup mo /\ (forall j, In j mo -> (j < N.of_nat n)%N /\ In j (m_candidates cif ce)) /\
    (forall j, In j (m_candidates cif ce) ->
       In j mo \/ fzero (pf_Mhat cf cif e i ce j) = true \/ fzero (fget n0 j) = true).
  Proof.
    pose proof Hok as H. unfold orders_okb_cum in H. cbv zeta in H.
    apply andb_prop in H; destruct H as [H H13].
    apply andb_prop in H; destruct H as [H H12].
    apply andb_prop in H; destruct H as [H H11].
    apply andb_prop in H; destruct H as [H H10].
    apply andb_prop in H; destruct H as [H H9].
    apply andb_prop in H; destruct H as [H H8].
    apply andb_prop in H; destruct H as [H H7].
    apply andb_prop in H; destruct H as [H H6].
    apply andb_prop in H; destruct H as [H H5].
    apply andb_prop in H; destruct H as [H H4].
    apply andb_prop in H; destruct H as [H H3].
    apply andb_prop in H; destruct H as [H1 H2].
    rewrite forallb_forall in H6, H9, H10, H12, H13.
    repeat split.
    - apply N.ltb_lt. exact H1.
    - apply Nat.eqb_eq. exact H2.
    - apply nodupb_NoDup. exact H3.
    - specialize (H6 _ H). apply andb_prop in H6. destruct H6 as [H6 _].
      apply andb_prop in H6. apply H6.
    - specialize (H6 _ H). apply andb_prop in H6. apply H6.
    - apply nodupb_NoDup. exact H8.
    - intros k Hk. apply memN_In. apply H9. exact Hk.
    - intros k Hk. specialize (H10 _ Hk). apply orb_prop in H10. destruct H10 as [A|A].
      + left. apply memN_In. exact A.
      + right. exact A.
    - apply nodupb_NoDup. exact H11.
    - specialize (H12 _ H). apply andb_prop in H12. apply N.ltb_lt. apply H12.
    - specialize (H12 _ H). apply andb_prop in H12. apply memN_In. apply H12.
    - intros j Hj. specialize (H13 _ Hj). apply orb_prop in H13. destruct H13 as [A|A].
      + apply orb_prop in A. destruct A as [A|A].
        * left. apply memN_In. exact A.
        * right. left. exact A.
      + right. right. exact A.
  Qed.

  Lemma cCE_ref (k : N) : ffin (pf_CE cf e i k) = true ->
    fval (pf_CE cf e i k) = CE rnd64 Cff Ef ii (N.to_nat k).
  Proof.
    intro H. unfold CE, Cff, Ef, ii, pf_CE in *. rewrite !N2Nat.id.
    apply (pf_mul_finite _ _ H).
  Qed.

  Lemma cMhat_ref (j : N) : ffin (pf_Mhat cf cif e i ce j) = true ->
    fval (pf_Mhat cf cif e i ce j) = Mhat rnd64 Cff Ciff Ef ks ii (N.to_nat j).
  Proof.
    intro H. unfold pf_Mhat in *. destruct (pf_dot_spec _ H) as [F V]. rewrite V.
    unfold Mhat, ks. rewrite N2Nat.id. rewrite !map_map. f_equal. apply map_ext_in.
    intros k Hk. unfold fv2. simpl. f_equal.
    - apply cCE_ref.
      apply (F (pf_CE cf e i k, fget (frow_of cif k) j)).
      apply in_map_iff. exists k. split; [reflexivity | exact Hk].
    - unfold Ciff. rewrite !N2Nat.id. reflexivity.
  Qed.

  Lemma cyhat_ref : ffin (pf_yhat cf cif e n0 i ce mo) = true ->
    fval (pf_yhat cf cif e n0 i ce mo) = yhat rnd64 Cff Ciff Ef n0f ks js ii.
  Proof.
    intro H. unfold pf_yhat in *. destruct (pf_dot_spec _ H) as [F V]. rewrite V.
    unfold yhat, js. rewrite !map_map. f_equal. apply map_ext_in.
    intros j Hj. unfold fv2. simpl. f_equal.
    - apply cMhat_ref.
      apply (F (pf_Mhat cf cif e i ce j, fget n0 j)).
      apply in_map_iff. exists j. split; [reflexivity | exact Hj].
    - unfold n0f. rewrite N2Nat.id. reflexivity.
  Qed.

  Lemma cks_in (j k : N) : In k (pf_ks cif ce j) -> In k ce /\ stored (frow_of cif k) j = true.
  Proof. unfold pf_ks. intro H. apply filter_In in H. exact H. Qed.

  Lemma cks_lt (j k : N) : In k (pf_ks cif ce j) -> (N.to_nat k < n)%nat.
  Proof.
    intro H. apply cks_in in H. destruct H as [_ H].
    destruct okc_parts as (_ & L & _).
    destruct (le_lt_dec n (N.to_nat k)) as [A|A]; [|exact A].
    rewrite frow_of_oob in H by (rewrite L; exact A). discriminate H.
  Qed.

  Lemma cCE_zero (j k : nat) : ~ In k (ks ii j) -> CE rnd64 Cff Ef ii k * Ciff k j = 0.
  Proof.
    intro Hn. unfold ks in Hn. rewrite In_to_nat in Hn.
    destruct okc_parts as (_ & _ & _ & _ & _ & _ & Hcov & _).
    destruct (stored rowi (N.of_nat k)) eqn:S1.
    - apply stored_In in S1. destruct (Hcov _ S1) as [A|A].
      + destruct (stored (frow_of cif (N.of_nat k)) (N.of_nat j)) eqn:S2.
        * exfalso. apply Hn. unfold pf_ks. apply filter_In. split; assumption.
        * unfold Ciff. rewrite (fget_not_stored _ _ S2). rewrite fval_zero. ring.
      + apply fzero_spec in A. destruct A as [A1 A2].
        rewrite (cCE_ref _ A1) in A2. rewrite Nat2N.id in A2. rewrite A2. ring.
    - unfold CE, Cff, ii. rewrite N2Nat.id. fold rowi. rewrite (fget_not_stored _ _ S1).
      rewrite fval_zero. rewrite Rmult_0_l. rewrite rnd64_0. ring.
  Qed.

  Lemma ccand_ks (j : N) : ~ In j (m_candidates cif ce) -> pf_ks cif ce j = [].
  Proof.
    intro Hn. unfold pf_ks.
    destruct (filter (fun k => stored (frow_of cif k) j) ce) as [|k r] eqn:E; [reflexivity|].
    exfalso. assert (Hk : In k (k :: r)) by (left; reflexivity). rewrite <- E in Hk.
    apply filter_In in Hk. destruct Hk as [Hk S]. apply Hn. unfold m_candidates.
    apply in_flat_map. exists k. split; [exact Hk | apply stored_In; exact S].
  Qed.

  Lemma cMhat_zero (j : nat) : ~ In j (js ii) -> Mhat rnd64 Cff Ciff Ef ks ii j * n0f j = 0.
  Proof.
    intro Hn. unfold js in Hn. rewrite In_to_nat in Hn.
    destruct okc_parts as (_ & _ & _ & _ & _ & _ & _ & _ & _ & Hcov).
    destruct (memN (N.of_nat j) (m_candidates cif ce)) eqn:M.
    - apply memN_In in M. destruct (Hcov _ M) as [A|[A|A]].
      + contradiction.
      + apply fzero_spec in A. destruct A as [A1 A2].
        rewrite (cMhat_ref _ A1) in A2. rewrite Nat2N.id in A2. rewrite A2. ring.
      + apply fzero_spec in A. destruct A as [_ A2]. unfold n0f. rewrite A2. ring.
    - assert (Hc : ~ In (N.of_nat j) (m_candidates cif ce)).
      { intro A. apply memN_In in A. rewrite A in M. discriminate. }
      unfold Mhat, ks. rewrite (ccand_ks _ Hc). simpl. unfold fl_dot. simpl. ring.
  Qed.

  Lemma corders_ok_ref : orders_ok rnd64 n Cff Ciff Ef n0f ks js ii.
  Proof.
    destruct okc_parts as (_ & _ & _ & _ & Nce & _ & _ & Nmo & Hmo & _).
    unfold orders_ok. split; [|split; [|split]].
    - intros j Hj. split; [|split].
      + unfold ks. apply to_nat_NoDup. unfold pf_ks. apply NoDup_filter. exact Nce.
      + intros k Hk. unfold ks in Hk. apply in_map_iff in Hk. destruct Hk as (k' & E & Hk).
        subst k. apply (cks_lt _ _ Hk).
      + intros k _ Hk. apply cCE_zero. exact Hk.
    - unfold js. apply to_nat_NoDup. exact Nmo.
    - intros j Hj. unfold js in Hj. apply in_map_iff in Hj. destruct Hj as (j' & E & Hj).
      subst j. destruct (Hmo _ Hj) as [A _]. unfold n. lia.
    - intros j _ Hj. apply cMhat_zero. exact Hj.
  Qed.

  Lemma cEf_nonneg (k : nat) : 0 <= Ef k.
  Proof.
    destruct okc_parts as (_ & _ & _ & He & _).
    unfold Ef. destruct (fget_In e (N.of_nat k)) as [A|A].
    - rewrite A, fval_zero. lra.
    - destruct (He _ A) as [B1 B2]. apply nonneg_finite_spec; assumption.
  Qed.

  Lemma cks_length (j : nat) : (length (ks ii j) <= length (frow_of cf i))%nat.
  Proof.
    destruct okc_parts as (_ & _ & _ & _ & Nce & Hce & _).
    unfold ks. rewrite map_length. unfold pf_ks.
    apply Nat.le_trans with (length ce); [apply filter_length_le|].
    fold rowi. replace (length rowi) with (length (fcols rowi)) by (unfold fcols; apply map_length).
    apply NoDup_incl_length; [exact Nce | exact Hce].
  Qed.

  Lemma cjs_length :
    (length (js ii) <= length (nodup N.eq_dec (flat_map (fun k => fcols (frow_of cif k)) (fcols (frow_of cf i)))))%nat.
  Proof.
    destruct okc_parts as (_ & _ & _ & _ & _ & Hce & _ & Nmo & Hmo & _).
    unfold js. rewrite map_length. apply NoDup_incl_length; [exact Nmo|].
    intros j Hj. apply nodup_In. destruct (Hmo _ Hj) as [_ A]. unfold m_candidates in A.
    apply in_flat_map in A. destruct A as (k & Hk & A). apply in_flat_map. exists k.
    split; [apply Hce; exact Hk | exact A].
  Qed.
End RefineCum.

Theorem pf_cum_refines : forall (cf cif : list frow) (e n0 : frow) (i : N) (ce mo : list N) (lam_i : float),
  orders_okb_cum cf cif e n0 i ce mo = true ->
  ffin (pf_cum cf cif e n0 i ce mo lam_i) = true ->
  let n := length cf in
  let Cff := fun a b : nat => fval (fget (frow_of cf (N.of_nat a)) (N.of_nat b)) in
  let Ciff := fun a b : nat => fval (fget (frow_of cif (N.of_nat a)) (N.of_nat b)) in
  let Ef := fun k : nat => fval (fget e (N.of_nat k)) in
  let n0f := fun j : nat => fval (fget n0 (N.of_nat j)) in
  let ks := fun (_ j : nat) => map N.to_nat (pf_ks cif ce (N.of_nat j)) in
  let js := fun _ : nat => map N.to_nat mo in
  let ii := N.to_nat i in
  fval (pf_cum cf cif e n0 i ce mo lam_i) = rnd64 (fval lam_i * yhat rnd64 Cff Ciff Ef n0f ks js ii) /\
  ffin lam_i = true /\
  orders_ok rnd64 n Cff Ciff Ef n0f ks js ii /\
  (forall k, (k < n)%nat -> 0 <= Ef k) /\
  (forall j, (j < n)%nat -> (length (ks ii j) <= length (frow_of cf i))%nat) /\
  (length (js ii) <= length (nodup N.eq_dec (flat_map (fun k => fcols (frow_of cif k)) (fcols (frow_of cf i)))))%nat.
Proof.
  intros cf cif e n0 i ce mo lam_i Hok Hfin n Cff Ciff Ef n0f ks js ii.
  unfold pf_cum in Hfin |- *.
  destruct (pf_mul_finite _ _ Hfin) as (V & Fl & Fy).
  split; [|split; [|split; [|split; [|split]]]].
  - rewrite V. rewrite (cyhat_ref cf cif e n0 i ce mo Fy). reflexivity.
  - exact Fl.
  - apply (corders_ok_ref cf cif e n0 i ce mo Hok).
  - intros k _. apply (cEf_nonneg cf cif e n0 i ce mo Hok).
  - intros j _. apply (cks_length cf cif e n0 i ce mo Hok).
  - apply (cjs_length cf cif e n0 i ce mo Hok).
Qed.

Print Assumptions decay_eval_error_w.
Print Assumptions pf_cum_refines.
