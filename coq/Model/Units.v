(* Instantiation of the generated converter / inventory functions with the generated tables and a
   data set: the float class (binary64, bit-exact) and the exact class (BigQ).  Definitions only. *)
From Coq Require Import ZArith NArith List Bool QArith.
From Coq Require Import PrimFloat.
From Bignums Require Import BigQ.
From RD Require Import Base Lib.Py Lib.Num Lib.CertQ Gen.Tables Gen.ConvGen Gen.InvGen Model.Dataset.
Import ListNotations.

(* np.log(2) as a binary64 (0x1.62e42fefa39efp-1); checked against the running NumPy by the
   C04 correspondence through the decay constants *)
Definition ln2_f : float := 0x1.62e42fefa39efp-1%float.

Section WithData.
  Variable d : dataset.

  (* load_dataset:  decay_consts = [np.log(2) / time_unit_conv(hl[0], hl[1], "s", year_conv) for hl in hldata] *)
  Definition decay_const_f (h : hlrec) : res float :=
    bind (time_unit_conv float_ops time_units_f year_units (hl_f h) (hl_unit h) [115%N] (ds_year_f d))
         (fun t => OK (div ln2_f t)).
  Fixpoint all_res {A B} (f : A -> res B) (l : list A) : res (list B) :=
    match l with
    | [] => OK []
    | x :: r => bind (f x) (fun y => bind (all_res f r) (fun ys => OK (y :: ys)))
    end.
  Definition decay_consts_f : res (list float) := all_res decay_const_f (ds_hl d).

  (* ---------- float class *)
  Section FloatClass.
    Variable lam : list float.     (* = decay_consts_f, evaluated once *)
    Definition f_create (contents : list (str * float)) (units : str) :=
      convert_to_number float_ops activity_units_f mass_units_f moles_units_f avogadro_f
                        (ds_names d) lam (ds_masses_f d) contents units [].
    Definition f_activities := activities float_ops activity_units_f (ds_names d) lam.
    Definition f_masses := masses float_ops mass_units_f avogadro_f (ds_names d) (ds_masses_f d).
    Definition f_moles := moles float_ops moles_units_f avogadro_f.
    Definition f_activity_fractions := activity_fractions float_ops activity_units_f (ds_names d) lam.
    Definition f_mass_fractions := mass_fractions float_ops mass_units_f avogadro_f (ds_names d) (ds_masses_f d).
    Definition f_mole_fractions := @mole_fractions float float_ops.
    Definition f_decay_time (t : float) (u : str) :=
      convert_decay_time float_ops time_units_f year_units (ds_year_f d) t u.
  End FloatClass.
End WithData.

(* exact tables as BigQ *)
Definition tq (l : list (str * qlit)) : list (str * bigQ) := map (fun kv => (fst kv, bq_of (snd kv))) l.

(* ---------- float class with CPython/NumPy value flavours (needed for the built-in sum) *)
Definition np_arr (l : list float) : list pyf := map (fun x => (x, false)) l.
Definition py_tab (t : list (str * float)) : list (str * pyf) := map (fun kv => (fst kv, (snd kv, true))) t.
Section PyFloatClass.
  Variable d : dataset.
  Variable lam : list float.
  Definition pf_create (contents : list (str * pyf)) (units : str) :=
    convert_to_number pyfloat_ops (py_tab activity_units_f) (py_tab mass_units_f) (py_tab moles_units_f)
                      (avogadro_f, true) (ds_names d) (np_arr lam) (np_arr (ds_masses_f d)) contents units [].
  Definition pf_activity_fractions :=
    activity_fractions pyfloat_ops (py_tab activity_units_f) (ds_names d) (np_arr lam).
  Definition pf_mass_fractions :=
    mass_fractions pyfloat_ops (py_tab mass_units_f) (avogadro_f, true) (ds_names d) (np_arr (ds_masses_f d)).
  Definition pf_mole_fractions := @mole_fractions pyf pyfloat_ops.
End PyFloatClass.
