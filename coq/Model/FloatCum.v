(* Bit-level model of Inventory.cumulative_decays: the same sparse product chain as decay with the diagonal
   E'_k = (1 - exp(-lambda_k t)) / lambda_k  (radioactive k; the stored values are INPUTS, observed), followed by one
   multiplication by the float decay constant of the reported nuclide.  Definitions only. *)
From Coq Require Import ZArith NArith List Bool PrimFloat FloatOps SpecFloat.
From RD Require Import Base Model.FloatDecay.
Import ListNotations.

Section Eval.
  Variables cf cif : list frow.
  Variable e : frow.                 (* stored E' at the radioactive indices in use; every other entry is +0 *)
  Variable n0 : frow.
  Variable i : N.
  Variable ce_order m_order : list N.
  Variable lam_i : float.            (* the float decay constant of nuclide i *)

  Definition pf_cum : float := (lam_i * pf_yhat cf cif e n0 i ce_order m_order)%float.

  (* as orders_okb, but the diagonal is only required to be finite and non-negative *)
  Definition orders_okb_cum : bool :=
    let n := N.of_nat (length cf) in
    let rowi := frow_of cf i in
    N.ltb i n && Nat.eqb (length cif) (length cf) &&
    nodupb (fcols rowi) && nodupb (fcols e) && nodupb (fcols n0) &&
    forallb (fun kv => N.ltb (fst kv) n && PrimFloat.leb 0%float (snd kv) && ffinite (snd kv)) e &&
    forallb (fun kv => N.ltb (fst kv) n && ffinite (snd kv)) n0 &&
    nodupb ce_order && forallb (fun k => memN k (fcols rowi)) ce_order &&
    forallb (fun k => memN k ce_order || fzero (pf_CE cf e i k)) (fcols rowi) &&
    nodupb m_order && forallb (fun j => N.ltb j n && memN j (m_candidates cif ce_order)) m_order &&
    forallb (fun j => memN j m_order || fzero (pf_Mhat cf cif e i ce_order j) || fzero (fget n0 j)) (m_candidates cif ce_order).
End Eval.
