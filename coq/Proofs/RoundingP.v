(* Forward error analysis of the rounded evaluation ((C @ E) @ C^-1) @ N0  (Model/Rounding.v):
   Higham's recursive-summation analysis with an underflow term, in any accumulation order. *)
From Coq Require Import Reals Lra Lia List Arith Psatz.
From RD Require Import Model.DecayR Model.Rounding.
Import ListNotations.
Local Open Scope R_scope.

(* ---------- finite sums over 0..n-1 *)
Lemma sumn_ext : forall n f g, (forall k, (k < n)%nat -> f k = g k) -> sumn n f = sumn n g.
Proof.
  induction n as [|n IH]; intros f g H; simpl; [reflexivity|].
  rewrite (IH f g), (H n); auto.
Qed.

Lemma sumn_zero : forall n f, (forall k, (k < n)%nat -> f k = 0) -> sumn n f = 0.
Proof.
  induction n as [|n IH]; intros f H; simpl; [reflexivity|].
  rewrite (IH f), (H n); auto; lra.
Qed.

Lemma sumn_plus : forall n f g, sumn n (fun k => f k + g k) = sumn n f + sumn n g.
Proof. induction n as [|n IH]; intros f g; simpl; [lra|]. rewrite IH; lra. Qed.

Lemma sumn_minus : forall n f g, sumn n (fun k => f k - g k) = sumn n f - sumn n g.
Proof. induction n as [|n IH]; intros f g; simpl; [lra|]. rewrite IH; lra. Qed.

Lemma sumn_scal : forall n a f, sumn n (fun k => a * f k) = a * sumn n f.
Proof. induction n as [|n IH]; intros a f; simpl; [lra|]. rewrite IH; lra. Qed.

Lemma sumn_le : forall n f g, (forall k, (k < n)%nat -> f k <= g k) -> sumn n f <= sumn n g.
Proof.
  induction n as [|n IH]; intros f g H; simpl; [lra|].
  pose proof (IH f g ltac:(intros; apply H; lia)). pose proof (H n ltac:(lia)). lra.
Qed.

Lemma sumn_nonneg : forall n f, (forall k, (k < n)%nat -> 0 <= f k) -> 0 <= sumn n f.
Proof.
  intros n f H. rewrite <- (sumn_zero n (fun _ => 0)) by auto. apply sumn_le; auto.
Qed.

Lemma sumn_Rabs : forall n f, Rabs (sumn n f) <= sumn n (fun k => Rabs (f k)).
Proof.
  induction n as [|n IH]; intro f; simpl; [rewrite Rabs_R0; lra|].
  eapply Rle_trans; [apply Rabs_triang|]. pose proof (IH f). lra.
Qed.

Lemma sumn_split_at : forall n a f, (a < n)%nat ->
  sumn n f = f a + sumn n (fun k => if Nat.eqb k a then 0 else f k).
Proof.
  induction n as [|n IH]; intros a f Ha; [lia|]. simpl.
  destruct (Nat.eq_dec a n) as [->|Hne].
  - rewrite Nat.eqb_refl.
    rewrite (sumn_ext n (fun k => if Nat.eqb k n then 0 else f k) f); [lra|].
    intros k Hk. destruct (Nat.eqb_spec k n); [lia|reflexivity].
  - rewrite (IH a f) by lia. destruct (Nat.eqb_spec n a); [lia|]. lra.
Qed.

(* ---------- sums over lists *)
Lemma lsum_app : forall A (f : A -> R) l1 l2, lsum f (l1 ++ l2) = lsum f l1 + lsum f l2.
Proof. induction l1 as [|x l1 IH]; intro l2; simpl; [lra|]. rewrite IH; lra. Qed.

Lemma lsum_snoc : forall A (f : A -> R) l x, lsum f (l ++ [x]) = lsum f l + f x.
Proof. intros. rewrite lsum_app. simpl. lra. Qed.

Lemma lsum_map : forall A B (g : A -> B) (f : B -> R) l, lsum f (map g l) = lsum (fun x => f (g x)) l.
Proof. induction l as [|x l IH]; simpl; [reflexivity|]. rewrite IH; reflexivity. Qed.

Lemma lsum_ext_in : forall A (f g : A -> R) l, (forall x, In x l -> f x = g x) -> lsum f l = lsum g l.
Proof.
  induction l as [|x l IH]; intro H; simpl; [reflexivity|].
  rewrite IH, (H x); auto; [left; reflexivity|]. intros y Hy; apply H; right; exact Hy.
Qed.

Lemma lsum_nonneg : forall A (f : A -> R) l, (forall x, 0 <= f x) -> 0 <= lsum f l.
Proof. induction l as [|x l IH]; intro H; simpl; [lra|]. pose proof (H x). pose proof (IH H). lra. Qed.

Lemma lsum_Rabs : forall A (f : A -> R) l, Rabs (lsum f l) <= lsum (fun x => Rabs (f x)) l.
Proof.
  induction l as [|x l IH]; simpl; [rewrite Rabs_R0; lra|].
  eapply Rle_trans; [apply Rabs_triang|]. lra.
Qed.

Lemma lsum_nodup_eq : forall n l f, NoDup l -> (forall k, In k l -> (k < n)%nat) ->
  (forall k, (k < n)%nat -> ~ In k l -> f k = 0) -> lsum f l = sumn n f.
Proof.
  intros n l; induction l as [|a l IH]; intros f Hnd Hr Hz.
  - simpl. symmetry. apply sumn_zero. intros k Hk. apply Hz; auto.
  - inversion Hnd as [|a' l' Hna Hnd']; subst. simpl.
    rewrite (sumn_split_at n a f) by (apply Hr; left; reflexivity). f_equal.
    rewrite <- (IH (fun k => if Nat.eqb k a then 0 else f k)); auto.
    + apply lsum_ext_in. intros k Hk. destruct (Nat.eqb_spec k a); [subst; contradiction|reflexivity].
    + intros k Hk; apply Hr; right; exact Hk.
    + intros k Hk Hnk. destruct (Nat.eqb_spec k a) as [|Hne]; [reflexivity|].
      apply Hz; auto. intros [Heq|Hin]; [apply Hne; symmetry; exact Heq|contradiction].
Qed.

Lemma lsum_nodup_le : forall n l f, NoDup l -> (forall k, In k l -> (k < n)%nat) ->
  (forall k, 0 <= f k) -> lsum f l <= sumn n f.
Proof.
  intros n l; induction l as [|a l IH]; intros f Hnd Hr Hp.
  - simpl. apply sumn_nonneg; auto.
  - inversion Hnd as [|a' l' Hna Hnd']; subst. simpl.
    rewrite (sumn_split_at n a f) by (apply Hr; left; reflexivity).
    apply Rplus_le_compat_l.
    rewrite (lsum_ext_in _ f (fun k => if Nat.eqb k a then 0 else f k) l).
    + apply IH; auto.
      * intros k Hk; apply Hr; right; exact Hk.
      * intro k. destruct (Nat.eqb k a); [lra|apply Hp].
    + intros k Hk. destruct (Nat.eqb_spec k a); [subst; contradiction|reflexivity].
Qed.

(* ---------- absolute values *)
Lemma Rabs_mult_le : forall a b x y, Rabs a <= x -> Rabs b <= y -> Rabs (a * b) <= x * y.
Proof. intros. rewrite Rabs_mult. apply Rmult_le_compat; auto using Rabs_pos. Qed.

Lemma Rabs_plus_le : forall a b x y, Rabs a <= x -> Rabs b <= y -> Rabs (a + b) <= x + y.
Proof. intros. eapply Rle_trans; [apply Rabs_triang|]. lra. Qed.

Lemma Rabs_1plus : forall d u, Rabs d <= u -> Rabs (1 + d) <= 1 + u.
Proof. intros. apply Rabs_plus_le; [rewrite Rabs_R1; lra|assumption]. Qed.

Lemma pow1u_ge1 : forall u m, 0 <= u -> 1 <= (1 + u) ^ m.
Proof. intros. apply pow_R1_Rle. lra. Qed.

Lemma pow1u_mono : forall u m k, 0 <= u -> (m <= k)%nat -> (1 + u) ^ m <= (1 + u) ^ k.
Proof. intros. apply Rle_pow; [lra|assumption]. Qed.

(* one step of the recursive summation *)
Lemma step_arith : forall u eta P M s S A ax d d' e e',
  0 <= u -> 0 <= eta -> 1 <= P -> 0 <= M ->
  Rabs d <= u -> Rabs d' <= u -> Rabs e <= eta -> Rabs e' <= eta -> Rabs S <= A ->
  Rabs (s - S) <= (P * (1 + u) - 1) * A + 2 * M * eta * P ->
  Rabs ((s + (ax * (1 + d) + e)) * (1 + d') + e' - (S + ax))
  <= (P * (1 + u) * (1 + u) - 1) * (A + Rabs ax) + 2 * (M + 1) * eta * (P * (1 + u)).
Proof.
  intros u eta P M s S A ax d d' e e' Hu Heta HP HM Hd Hd' He He' HS IH.
  replace ((s + (ax * (1 + d) + e)) * (1 + d') + e' - (S + ax))
    with ((s - S) * (1 + d') + S * d' + ax * (d + d' + d * d') + e * (1 + d') + e') by ring.
  pose proof (Rabs_1plus d' u Hd') as H1d.
  assert (Hdd : Rabs (d + d' + d * d') <= u + u + u * u).
  { apply Rabs_plus_le; [apply Rabs_plus_le; assumption|apply Rabs_mult_le; assumption]. }
  pose proof (Rabs_mult_le _ _ _ _ IH H1d) as T1.
  pose proof (Rabs_mult_le _ _ _ _ HS Hd') as T2.
  pose proof (Rabs_mult_le ax _ _ _ (Rle_refl _) Hdd) as T3.
  pose proof (Rabs_mult_le _ _ _ _ He H1d) as T4.
  eapply Rle_trans.
  { apply Rabs_plus_le; [apply Rabs_plus_le; [apply Rabs_plus_le; [apply Rabs_plus_le|]|]|]; eassumption. }
  assert (0 <= (P - 1) * ((1 + u) * (1 + u)) * Rabs ax).
  { apply Rmult_le_pos; [apply Rmult_le_pos; [lra|nra]|apply Rabs_pos]. }
  assert (0 <= eta * ((P - 1) * (1 + u))).
  { apply Rmult_le_pos; [lra|apply Rmult_le_pos; lra]. }
  assert (0 <= eta * u) by (apply Rmult_le_pos; lra).
  nra.
Qed.

Section RP.
  Variable rnd : R -> R.
  Variables u eta : R.
  Hypothesis Hstd : std_model rnd u eta.

  Lemma u_nonneg : 0 <= u. Proof. destruct Hstd as [H _]; exact H. Qed.
  Lemma eta_nonneg : 0 <= eta. Proof. destruct Hstd as [_ [H _]]; exact H. Qed.
  Lemma rnd_model : forall x, exists delta eps,
    rnd x = x * (1 + delta) + eps /\ Rabs delta <= u /\ Rabs eps <= eta.
  Proof. destruct Hstd as [_ [_ H]]; exact H. Qed.

  Lemma fl_dot_snoc : forall l a x,
    fl_dot rnd (l ++ [(a, x)]) = rnd (fl_dot rnd l + rnd (a * x)).
  Proof. intros. unfold fl_dot. rewrite fold_left_app. reflexivity. Qed.

  Lemma fl_dot_error : forall l,
    Rabs (fl_dot rnd l - lsum (fun ax => fst ax * snd ax) l)
    <= gam u (S (length l)) * lsum (fun ax => Rabs (fst ax * snd ax)) l
       + 2 * INR (length l) * eta * (1 + u) ^ length l.
  Proof.
    pose proof u_nonneg as Hu. pose proof eta_nonneg as Heta.
    intro l; induction l as [|[a x] l IH] using rev_ind.
    - unfold fl_dot; simpl. replace (0 - 0) with 0 by ring. rewrite Rabs_R0. lra.
    - rewrite fl_dot_snoc, !lsum_snoc, app_length. simpl length.
      rewrite Nat.add_1_r, S_INR. unfold gam in *. cbn [pow] in *.
      destruct (rnd_model (a * x)) as [d [e [E1 [Hd He]]]].
      destruct (rnd_model (fl_dot rnd l + rnd (a * x))) as [d' [e' [E2 [Hd' He']]]].
      rewrite E2, E1.
      set (P := (1 + u) ^ length l) in *.
      replace (fst (a, x) * snd (a, x)) with (a * x) by reflexivity.
      eapply Rle_trans.
      { apply (step_arith u eta P (INR (length l)) (fl_dot rnd l)
                 (lsum (fun ax => fst ax * snd ax) l)
                 (lsum (fun ax => Rabs (fst ax * snd ax)) l) (a * x) d d' e e'); auto.
        - apply pow1u_ge1; assumption.
        - apply pos_INR.
        - apply lsum_Rabs.
        - eapply Rle_trans; [apply IH|]. right; ring. }
      right. ring.
  Qed.

  Lemma fl_dot_error_le : forall l L, (length l <= L)%nat ->
    Rabs (fl_dot rnd l - lsum (fun ax => fst ax * snd ax) l)
    <= ((1 + u) ^ L * (1 + u) - 1) * lsum (fun ax => Rabs (fst ax * snd ax)) l
       + 2 * INR L * eta * (1 + u) ^ L.
  Proof.
    pose proof u_nonneg as Hu. pose proof eta_nonneg as Heta.
    intros l L HL. eapply Rle_trans; [apply fl_dot_error|].
    unfold gam. cbn [pow].
    assert (HX : 0 <= lsum (fun ax => Rabs (fst ax * snd ax)) l)
      by (apply lsum_nonneg; intro; apply Rabs_pos).
    pose proof (pow1u_mono u _ _ Hu HL) as Hp.
    pose proof (pow1u_ge1 u (length l) Hu) as Hp1.
    pose proof (le_INR _ _ HL) as HI. pose proof (pos_INR (length l)) as HI0.
    apply Rplus_le_compat.
    - apply Rmult_le_compat_r; [assumption|]. nra.
    - replace (2 * INR (length l) * eta * (1 + u) ^ length l)
        with (2 * eta * (INR (length l) * (1 + u) ^ length l)) by ring.
      replace (2 * INR L * eta * (1 + u) ^ L) with (2 * eta * (INR L * (1 + u) ^ L)) by ring.
      apply Rmult_le_compat_l; [lra|]. apply Rmult_le_compat; lra.
  Qed.

  Section Eval.
    Variable n : nat.
    Variables Cf Cif : nat -> nat -> R.
    Variable E : nat -> R.
    Variable n0 : nat -> R.
    Variable ks : nat -> nat -> list nat.
    Variable js : nat -> list nat.
    Variable i : nat.
    Variables L L' : nat.
    Hypothesis HE : forall k, (k < n)%nat -> 0 <= E k <= 1.
    Hypothesis Hok : orders_ok rnd n Cf Cif E n0 ks js i.
    Hypothesis HL : forall j, (j < n)%nat -> (length (ks i j) <= L)%nat.
    Hypothesis HL' : (length (js i) <= L')%nat.

    Let c (k : nat) : R := CE rnd Cf E i k.
    Let Mh (j : nat) : R := Mhat rnd Cf Cif E ks i j.
    Let T (j : nat) : R := sumn n (fun k => Cf i k * E k * Cif k j).
    Let B (j : nat) : R := sumn n (fun k => Rabs (Cif k j)).
    Let Sa (j : nat) : R := Sabs n Cf Cif i j.
    Let P : R := (1 + u) ^ L.
    Let Q : R := (1 + u) ^ L'.

    Lemma CE_diff : forall k, (k < n)%nat -> Rabs (c k - Cf i k * E k) <= Rabs (Cf i k) * u + eta.
    Proof.
      intros k Hk. unfold c, CE.
      destruct (rnd_model (Cf i k * E k)) as [d [e [E1 [Hd He]]]]. rewrite E1.
      replace (Cf i k * E k * (1 + d) + e - Cf i k * E k) with (Cf i k * (E k * d) + e) by ring.
      apply Rabs_plus_le; [|assumption].
      apply Rabs_mult_le; [apply Rle_refl|].
      replace u with (1 * u) by ring. apply Rabs_mult_le; [|assumption].
      destruct (HE k Hk). rewrite Rabs_right; lra.
    Qed.

    Lemma ae_abs : forall k, (k < n)%nat -> Rabs (Cf i k * E k) <= Rabs (Cf i k).
    Proof.
      intros k Hk. apply Rle_trans with (Rabs (Cf i k) * 1); [|right; ring].
      apply Rabs_mult_le; [apply Rle_refl|]. destruct (HE k Hk). rewrite Rabs_right; lra.
    Qed.

    Lemma CE_abs : forall k, (k < n)%nat -> Rabs (c k) <= Rabs (Cf i k) * (1 + u) + eta.
    Proof.
      intros k Hk. replace (c k) with ((c k - Cf i k * E k) + Cf i k * E k) by ring.
      eapply Rle_trans; [apply Rabs_plus_le; [apply CE_diff; assumption|apply ae_abs; assumption]|].
      lra.
    Qed.

    Lemma B_nonneg : forall j, 0 <= B j.
    Proof. intro j. apply sumn_nonneg. intros; apply Rabs_pos. Qed.

    Lemma Sa_nonneg : forall j, 0 <= Sa j.
    Proof.
      intro j. apply sumn_nonneg. intros; apply Rmult_le_pos; apply Rabs_pos.
    Qed.

    Lemma lev1_exact : forall j, (j < n)%nat ->
      lsum (fun ax => fst ax * snd ax) (map (fun k => (c k, Cif k j)) (ks i j))
      = sumn n (fun k => c k * Cif k j).
    Proof.
      intros j Hj. rewrite lsum_map. simpl.
      destruct Hok as [H1 _]. destruct (H1 j Hj) as [Hnd [Hr Hz]].
      apply lsum_nodup_eq; auto.
    Qed.

    Lemma lev1_abs : forall j, (j < n)%nat ->
      lsum (fun ax => Rabs (fst ax * snd ax)) (map (fun k => (c k, Cif k j)) (ks i j))
      <= (1 + u) * Sa j + eta * B j.
    Proof.
      intros j Hj. rewrite lsum_map. simpl.
      destruct Hok as [H1 _]. destruct (H1 j Hj) as [Hnd [Hr Hz]].
      eapply Rle_trans; [apply (lsum_nodup_le n); auto; intro; apply Rabs_pos|].
      unfold Sa, Sabs, B. rewrite <- !sumn_scal, <- sumn_plus.
      apply sumn_le. intros k Hk.
      eapply Rle_trans; [apply Rabs_mult_le; [apply CE_abs; assumption|apply Rle_refl]|].
      right; ring.
    Qed.

    Lemma lev1_diff : forall j, (j < n)%nat ->
      Rabs (sumn n (fun k => c k * Cif k j) - T j) <= u * Sa j + eta * B j.
    Proof.
      intros j Hj. unfold T. rewrite <- sumn_minus.
      eapply Rle_trans; [apply sumn_Rabs|].
      unfold Sa, Sabs, B. rewrite <- !sumn_scal, <- sumn_plus.
      apply sumn_le. intros k Hk.
      replace (c k * Cif k j - Cf i k * E k * Cif k j) with ((c k - Cf i k * E k) * Cif k j) by ring.
      eapply Rle_trans; [apply Rabs_mult_le; [apply CE_diff; assumption|apply Rle_refl]|].
      right; ring.
    Qed.

    Lemma T_abs : forall j, Rabs (T j) <= Sa j.
    Proof.
      intro j. unfold T, Sa, Sabs. eapply Rle_trans; [apply sumn_Rabs|].
      apply sumn_le. intros k Hk. apply Rabs_mult_le; [apply ae_abs; assumption|apply Rle_refl].
    Qed.

    Lemma P_ge1 : 1 <= P. Proof. apply pow1u_ge1, u_nonneg. Qed.
    Lemma Q_ge1 : 1 <= Q. Proof. apply pow1u_ge1, u_nonneg. Qed.

    Lemma Mhat_err : forall j, (j < n)%nat ->
      Rabs (Mh j - T j)
      <= (P * (1 + u) * (1 + u) - 1) * Sa j + eta * (P * (1 + u)) * (B j + 2 * INR L).
    Proof.
      pose proof u_nonneg as Hu. pose proof eta_nonneg as Heta. pose proof P_ge1 as HP.
      intros j Hj.
      pose proof (fl_dot_error_le (map (fun k => (c k, Cif k j)) (ks i j)) L) as H1.
      rewrite map_length in H1. specialize (H1 (HL j Hj)).
      rewrite (lev1_exact j Hj) in H1.
      pose proof (lev1_abs j Hj) as H2. pose proof (lev1_diff j Hj) as H3.
      pose proof (B_nonneg j) as HB. pose proof (Sa_nonneg j) as HS.
      pose proof (pos_INR L) as HI.
      fold (Mh j) in H1. fold P in H1.
      set (X := lsum (fun ax => Rabs (fst ax * snd ax)) (map (fun k => (c k, Cif k j)) (ks i j))) in *.
      set (Sg := sumn n (fun k => c k * Cif k j)) in *.
      replace (Mh j - T j) with ((Mh j - Sg) + (Sg - T j)) by ring.
      eapply Rle_trans; [apply Rabs_plus_le; eassumption|].
      assert (G1 : (P * (1 + u) - 1) * X <= (P * (1 + u) - 1) * ((1 + u) * Sa j + eta * B j)).
      { apply Rmult_le_compat_l; [nra|assumption]. }
      assert (G2 : 0 <= INR L * eta * P * u).
      { repeat apply Rmult_le_pos; lra. }
      nra.
    Qed.

    Lemma Mhat_abs : forall j, (j < n)%nat ->
      Rabs (Mh j)
      <= (P * (1 + u) * (1 + u)) * Sa j + eta * (P * (1 + u)) * (B j + 2 * INR L).
    Proof.
      intros j Hj. replace (Mh j) with ((Mh j - T j) + T j) by ring.
      eapply Rle_trans; [apply Rabs_plus_le; [apply Mhat_err; assumption|apply T_abs]|].
      right; ring.
    Qed.

    Let S1 : R := sumn n (fun j => Sa j * Rabs (n0 j)).
    Let S2 : R := sumn n (fun j => (B j + 2 * INR L) * Rabs (n0 j)).

    Lemma S1_nonneg : 0 <= S1.
    Proof. apply sumn_nonneg. intros. apply Rmult_le_pos; [apply Sa_nonneg|apply Rabs_pos]. Qed.

    Lemma S2_nonneg : 0 <= S2.
    Proof.
      apply sumn_nonneg. intros. apply Rmult_le_pos; [|apply Rabs_pos].
      pose proof (B_nonneg k). pose proof (pos_INR L). lra.
    Qed.

    Lemma lev2_exact :
      lsum (fun ax => fst ax * snd ax) (map (fun j => (Mh j, n0 j)) (js i))
      = sumn n (fun j => Mh j * n0 j).
    Proof.
      rewrite lsum_map. simpl.
      destruct Hok as [_ [Hnd [Hr Hz]]]. apply lsum_nodup_eq; auto.
    Qed.

    Lemma lev2_abs :
      lsum (fun ax => Rabs (fst ax * snd ax)) (map (fun j => (Mh j, n0 j)) (js i))
      <= (P * (1 + u) * (1 + u)) * S1 + eta * (P * (1 + u)) * S2.
    Proof.
      rewrite lsum_map. simpl.
      destruct Hok as [_ [Hnd [Hr Hz]]].
      eapply Rle_trans; [apply (lsum_nodup_le n); auto; intro; apply Rabs_pos|].
      unfold S1, S2. rewrite <- !sumn_scal, <- sumn_plus.
      apply sumn_le. intros j Hj.
      eapply Rle_trans; [apply Rabs_mult_le; [apply Mhat_abs; assumption|apply Rle_refl]|].
      right; ring.
    Qed.

    Lemma lev2_diff :
      Rabs (sumn n (fun j => Mh j * n0 j) - Yexact n Cf Cif E n0 i)
      <= (P * (1 + u) * (1 + u) - 1) * S1 + eta * (P * (1 + u)) * S2.
    Proof.
      unfold Yexact. rewrite <- sumn_minus.
      eapply Rle_trans; [apply sumn_Rabs|].
      unfold S1, S2. rewrite <- !sumn_scal, <- sumn_plus.
      apply sumn_le. intros j Hj. fold (T j).
      replace (Mh j * n0 j - T j * n0 j) with ((Mh j - T j) * n0 j) by ring.
      eapply Rle_trans; [apply Rabs_mult_le; [apply Mhat_err; assumption|apply Rle_refl]|].
      right; ring.
    Qed.

    Lemma decay_eval_error_sec :
      Rabs (yhat rnd Cf Cif E n0 ks js i - Yexact n Cf Cif E n0 i)
      <= gam u (L + L' + 3) * sumn n (fun j => Sabs n Cf Cif i j * Rabs (n0 j))
         + eta * (1 + u) ^ (L + L' + 3) *
           (sumn n (fun j => (sumn n (fun k => Rabs (Cif k j)) + 2 * INR L) * Rabs (n0 j)) + 2 * INR L').
    Proof.
      pose proof u_nonneg as Hu. pose proof eta_nonneg as Heta.
      pose proof P_ge1 as HP. pose proof Q_ge1 as HQ.
      pose proof S1_nonneg as HS1. pose proof S2_nonneg as HS2.
      pose proof (pos_INR L') as HI.
      change (sumn n (fun j => Sabs n Cf Cif i j * Rabs (n0 j))) with S1.
      change (sumn n (fun j => (sumn n (fun k => Rabs (Cif k j)) + 2 * INR L) * Rabs (n0 j))) with S2.
      pose proof (fl_dot_error_le (map (fun j => (Mh j, n0 j)) (js i)) L') as H1.
      rewrite map_length in H1. specialize (H1 HL').
      rewrite lev2_exact in H1.
      pose proof lev2_abs as H2. pose proof lev2_diff as H3.
      change (fl_dot rnd (map (fun j => (Mh j, n0 j)) (js i))) with (yhat rnd Cf Cif E n0 ks js i) in H1.
      fold Q in H1.
      set (X := lsum (fun ax => Rabs (fst ax * snd ax)) (map (fun j => (Mh j, n0 j)) (js i))) in *.
      set (Sg := sumn n (fun j => Mh j * n0 j)) in *.
      set (yh := yhat rnd Cf Cif E n0 ks js i) in *.
      set (Y := Yexact n Cf Cif E n0 i) in *.
      replace (yh - Y) with ((yh - Sg) + (Sg - Y)) by ring.
      eapply Rle_trans; [apply Rabs_plus_le; eassumption|].
      unfold gam.
      replace (L + L' + 3)%nat with (S (S (S (L + L')))) by lia.
      cbn [pow]. rewrite pow_add. fold P Q.
      assert (G1 : (Q * (1 + u) - 1) * X
                   <= (Q * (1 + u) - 1) * (P * (1 + u) * (1 + u) * S1 + eta * (P * (1 + u)) * S2)).
      { apply Rmult_le_compat_l; [nra|assumption]. }
      assert (HPQ : 1 <= P * Q) by nra.
      assert (HPQu : 0 <= P * Q * (1 + u) * (1 + u)).
      { repeat apply Rmult_le_pos; lra. }
      (* total <= [Q P (1+u)^3 - 1] S1 + eta [Q P (1+u)^2 S2 + 2 L' Q] *)
      apply Rle_trans with
        ((Q * P * ((1 + u) * (1 + u) * (1 + u)) - 1) * S1
         + eta * (Q * P * ((1 + u) * (1 + u)) * S2 + 2 * INR L' * Q)).
      { lra || nra. }
      apply Rplus_le_compat; [right; ring|].
      apply Rle_trans with (eta * ((1 + u) * ((1 + u) * ((1 + u) * (P * Q))) * (S2 + 2 * INR L'))); [|right; ring].
      apply Rmult_le_compat_l; [assumption|].
      replace ((1 + u) * ((1 + u) * ((1 + u) * (P * Q))) * (S2 + 2 * INR L'))
        with (P * Q * (1 + u) * (1 + u) * (1 + u) * S2 + P * Q * (1 + u) * (1 + u) * (1 + u) * (2 * INR L')) by ring.
      apply Rplus_le_compat.
      - replace (Q * P * ((1 + u) * (1 + u)) * S2) with (P * Q * (1 + u) * (1 + u) * 1 * S2) by ring.
        apply Rmult_le_compat_r; [assumption|]. apply Rmult_le_compat_l; lra.
      - replace (2 * INR L' * Q) with (Q * (2 * INR L')) by ring.
        apply Rmult_le_compat_r; [lra|].
        assert (Q <= P * Q * (1 + u) * (1 + u)); nra.
    Qed.
  End Eval.
End RP.

Theorem decay_eval_error : forall rnd u eta, std_model rnd u eta ->
  forall n Cf Cif E n0 ks js i L L',
  (forall k, (k < n)%nat -> 0 <= E k <= 1) ->
  orders_ok rnd n Cf Cif E n0 ks js i ->
  (forall j, (j < n)%nat -> (length (ks i j) <= L)%nat) -> (length (js i) <= L')%nat ->
  Rabs (yhat rnd Cf Cif E n0 ks js i - Yexact n Cf Cif E n0 i)
  <= gam u (L + L' + 3) * sumn n (fun j => Sabs n Cf Cif i j * Rabs (n0 j))
     + eta * (1 + u) ^ (L + L' + 3) *
       (sumn n (fun j => (sumn n (fun k => Rabs (Cif k j)) + 2 * INR L) * Rabs (n0 j)) + 2 * INR L').
Proof. intros. apply decay_eval_error_sec; assumption. Qed.

Print Assumptions fl_dot_error.
Print Assumptions decay_eval_error.
