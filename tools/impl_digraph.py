"""Implementation side of the C16 stream (PYTHONPATH=/repo): the graph built for Nuclide.plot for every
root, printed in the format of coq/Extract/gdriver.ml; with argument 'plot N' also draws N diagrams and
checks that the texts on the axes are the node / edge labels."""
import sys, json

def s(x):
    return ".".join(str(ord(c)) for c in x)

def main():
    import networkx as nx
    import radioactivedecay as rd
    from radioactivedecay.nuclide import _build_decay_digraph
    D = rd.DEFAULTDATA
    import os
    dsel = os.environ.get("VERIF_DIGRAPH_DS", "")
    if dsel == "synth":
        from radioactivedecay.decaydata import load_dataset
        D = load_dataset("synth", os.environ["VERIF_SYNTH_DIR"], load_sympy=True)
    elif dsel and os.path.isdir(dsel):
        from radioactivedecay.decaydata import load_dataset
        D = load_dataset("rand", dsel, load_sympy=False)
    out = []
    for name in D.nuclides:
        name = str(name)
        try:
            g, maxgen, maxx = _build_decay_digraph(rd.Nuclide(name, D), nx.DiGraph())
        except Exception as e:
            out.append(f"ROOT {s(name)}\nERR {type(e).__name__}")
            continue
        out.append(f"ROOT {s(name)}")
        for n, a in g.nodes(data=True):
            out.append(f"N {s(n)} {a['generation']} {a['xpos']} {s(a['label'])}")
            if tuple(a["pos"]) != (a["xpos"], -a["generation"]):
                out.append("BADPOS")
        for u, v, a in g.edges(data=True):
            out.append(f"E {s(u)} {s(v)} {s(a['label'])}")
    sys.stdout.write("\n".join(out) + "\n")
    if len(sys.argv) > 2 and sys.argv[1] == "plot":
        import matplotlib.pyplot as plt
        bad = []
        names = [str(x) for x in D.nuclides]
        step = max(1, len(names) // int(sys.argv[2]))
        for name in names[::step]:
            nuc = rd.Nuclide(name, D)
            g, _, _ = _build_decay_digraph(nuc, nx.DiGraph())
            fig, ax = nuc.plot()
            texts = sorted(t.get_text() for t in ax.texts)
            want = sorted([a["label"] for _, a in g.nodes(data=True)] + [a["label"] for _, _, a in g.edges(data=True)])
            if texts != want:
                bad.append(name)
            plt.close(fig)
        sys.stderr.write("PLOTCHECK " + json.dumps(bad) + "\n")
main()
