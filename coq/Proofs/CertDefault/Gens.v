From RD Require Import Base Model.Dataset Model.Default.
From RD.Gen.Default Require S18 S19 C18 C19 CI18 CI19.
Lemma gen_mu : S18.mu = S19.mu.
Proof. vm_compute. reflexivity. Qed.
Lemma gen_masses : S18.masses_e = S19.masses_e.
Proof. vm_compute. reflexivity. Qed.
Lemma gen_year : S18.year_e = S19.year_e.
Proof. vm_compute. reflexivity. Qed.
Lemma gen_c : C18.c_rows = C19.c_rows.
Proof. vm_compute. reflexivity. Qed.
Lemma gen_ci : CI18.ci_rows = CI19.ci_rows.
Proof. vm_compute. reflexivity. Qed.
Lemma generations_identical : Default18 = Default.
Proof. unfold Default18, Default. rewrite gen_mu, gen_masses, gen_year, gen_c, gen_ci. reflexivity. Qed.
